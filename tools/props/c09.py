"""C09 — construction and parsing are pure: results never depend on call history."""
from vlib import *
from props.common import *
from gen import callgraph, options as genoptions

ID = 'C09'
COQ_PROPS = ['Props/C09.v']
COQ_IMPORTS = ['Prims', 'CaseLib', 'Memo']
RULE = ('interleavings of (construct from token string | parse format | create Dtype (int and float scales) | pack | mutate or derive from an earlier result | set lsb0, bytealigned or mxfp_overflow) '
        'over more than 256 distinct keys per history so that every LRU cache evicts; each call is compared with the same call made after clearing every cache, under the option values in force at that '
        'point; objects (and Arrays) made from earlier objects by every constructor spelling and both then used, against the same program on plain strings / lists; calls that have nothing to do with the options '
        '(printing, representations, copies, queries, searches with explicit arguments - accepted and refused) under every option configuration: the option values and the numbering-dependent method bindings must be '
        'what the program set, and constructions that follow the options are compared with their documented outcome; option reads during cached calls are logged and must be inside the statically computed read set; refused calls of every kind and route (malformed tokens, values that do not fit, failures inside nested bits= token strings, over-deep nestings, refused option assignments) interleaved, each followed sooner or later by constructions from token strings no cache has seen, whose bits come from a plain reference; external mutable sources (bitarrays of both endiannesses, results of tobitarray(), buffers, array.array, memoryviews, BytesIO, lists) used for several objects by every route and then changed in place, as are the objects: every object keeps the bits (and hash) it was made with. non-trivial = a call repeated after an option change or an eviction; distinct by history')
TRUSTED_BASE = ['translator tools/gen/callgraph.py (over-approximating static call graph; its read sets are validated dynamically on every run) and tools/gen/options.py']
ASSUMPTIONS = ['functools.lru_cache returns a stored value only for an equal key (modelled as an association list with arbitrary eviction)']

BRIDGE = '''From Coq Require Import List String Bool. Import ListNotations.
From BS Require Import Memo.
From Gen Require Import GenCaches GenOptions.
Open Scope string_scope.
Definition subset (a b : list string) : bool := forallb (fun x => existsb (String.eqb x) b) a.
(* every option that can be read below an lru_cache'd function is part of its cache key *)
Theorem cache_keys_cover_option_reads :
  forallb (fun f => subset (snd f) (snd (fst f))) cached_functions = true.
Proof. vm_compute. reflexivity. Qed.
(* the two tables of set_lsb0 bind exactly the same (class, attribute) pairs, without duplicates *)
Theorem tables_same_keys : same_keys gen_lsb0_methods gen_msb0_methods = true.
Proof. vm_compute. reflexivity. Qed.
Theorem tables_nodup : NoDup (map row_key gen_lsb0_methods) /\\ NoDup (map row_key gen_msb0_methods).
Proof. split; repeat constructor; cbn; intuition discriminate. Qed.
(* ... and are the dispatch the model uses (BitsCore / Mutators / Search select on `lsb0` exactly like this) *)
Definition model_lsb0_methods : mtable := [
  ("Bits", "_find", "_find_lsb0"); ("Bits", "_rfind", "_rfind_lsb0"); ("Bits", "_findall", "_findall_lsb0");
  ("BitArray", "_ror", "_rol_msb0"); ("BitArray", "_rol", "_ror_msb0"); ("BitArray", "_append", "_append_lsb0"); ("BitArray", "_prepend", "_append_msb0");
  ("BitStore", "__setitem__", "setitem_lsb0"); ("BitStore", "__delitem__", "delitem_lsb0"); ("BitStore", "getindex", "getindex_lsb0");
  ("BitStore", "getslice", "getslice_lsb0"); ("BitStore", "getslice_withstep", "getslice_withstep_lsb0"); ("BitStore", "invert", "invert_lsb0")].
Definition model_msb0_methods : mtable := [
  ("Bits", "_find", "_find_msb0"); ("Bits", "_rfind", "_rfind_msb0"); ("Bits", "_findall", "_findall_msb0");
  ("BitArray", "_ror", "_ror_msb0"); ("BitArray", "_rol", "_rol_msb0"); ("BitArray", "_append", "_append_msb0"); ("BitArray", "_prepend", "_append_lsb0");
  ("BitStore", "__setitem__", "setitem_msb0"); ("BitStore", "__delitem__", "delitem_msb0"); ("BitStore", "getindex", "getindex_msb0");
  ("BitStore", "getslice", "getslice_msb0"); ("BitStore", "getslice_withstep", "getslice_withstep_msb0"); ("BitStore", "invert", "invert_msb0")].
Theorem tables_as_modelled : gen_lsb0_methods = model_lsb0_methods /\\ gen_msb0_methods = model_msb0_methods.
Proof. split; reflexivity. Qed.
(* hence: after ANY history of set_lsb0 calls, set_lsb0(b) leaves every patched attribute bound as table b says *)
Theorem toggle_restores_generated : forall history st r,
  (In r gen_lsb0_methods -> binding (apply_table (fold_left apply_table history st) gen_lsb0_methods) (row_key r) = Some (snd r)) /\\
  (In r gen_msb0_methods -> binding (apply_table (fold_left apply_table history st) gen_msb0_methods) (row_key r) = Some (snd r)).
Proof. intros. split; intros H; apply toggle_restores; auto; apply tables_nodup. Qed.
Print Assumptions cache_keys_cover_option_reads.
Print Assumptions toggle_restores_generated.
'''

_static = {}
def generate(out):
    t1, res = callgraph.emit(REPO)
    t2, tables = genoptions.emit(REPO)
    _static['reads'] = {r['name'].split('.')[-1]: set(r['reads']) for r in res}
    _static['funcs'] = res
    info = gen_build([('GenCaches', t1), ('GenOptions', t2)], [('BridgeC09', BRIDGE)])
    info['functions'] = [r['name'] for r in res]
    info['data'] = {'cached_functions': res, 'lsb0_rows': len(tables['lsb0_methods'])}
    return info

TOKENS = ['uint:{n}={v}', 'int:{n}=-{v}', 'hex={h}', 'bin={b}', '0x{h}', '0b{b}', 'e4m3mxfp={f}', 'e5m2mxfp={f}', 'ue={v}', 'se=-{v}', 'uie={v}', 'float:32={f}', 'p4binary={f}', 'bool=1', 'pad:{n}',
          'bits=0x{h}', 'bits=bits=uint:{n}={v}', 'bits=ue={v}', 'bits=e4m3mxfp={f}', 'bits=bits=bits=e5m2mxfp={f}', 'bits=se=-{v}']      # token strings inside 'bits=' tokens (parsed by a nested call)
FORMATS = ['uint:{n}, hex:8', '2*(uint:{n}, bin:3)', '{n}*uint:5', '>{n}h', '<hb{n}B', 'bits:{n}, ue, se', 'int:{n}, pad:3, bytes:2', 'hex:{m}']

# ---------------- objects made from earlier objects, then both used (the result of a construction never depends on, nor interferes with, an earlier result) ----------------
SUBCLASSES = ['SubBits', 'SubBitArray', 'SubConstBitStream', 'SubBitStream']       # user subclasses: the same constructors serve them
ALLCLS = CLASSES + SUBCLASSES
_SUB = {}
def cls_named(name):
    """the four classes, or a trivial user subclass of one of them (made once per interpreter)"""
    if not name.startswith('Sub'): return cls_of(name)
    if name not in _SUB: _SUB[name] = type(name, (cls_of(name[3:]),), {})
    return _SUB[name]
def is_stream(name): return name.endswith('Stream')
def is_mutable(name): return name in ('BitArray', 'BitStream', 'SubBitArray', 'SubBitStream')

CTORS = ['plain', 'plain', 'plain', 'pos', 'pos', 'length', 'offset', 'lenoff', 'bits_kw', 'bits_kw_pos', 'bits_kw_len', 'copy', 'copycopy', 'slice', 'add_empty', 'radd_empty', 'join', 'pack', 'append_to_empty', 'iadd_to_empty', 'setslice']
SRC_ROUTES = ['auto', 'auto', 'auto', 'bin', 'bin', 'bytes', 'iter', 'bitarray', 'slice', 'copy', 'join', 'bytesio', 'file', 'ctor', 'add', 'read']
ACTS = ['read', 'read', 'setpos', 'append', 'prepend', 'invert', 'clear', 'delhead', 'setall', 'reverse', 'iadd', 'again', 'again', 'rebuild', 'chain', 'look']

def gen_from_obj(rng, same_class=None):
    n = rng.choice([0, 1, 7, 8, 9, 16, 17, 32, 33, 64, 128]) if rng.random() < 0.8 else rng.randrange(0, 200)
    src = rng.choice(ALLCLS if rng.random() < 0.3 else CLASSES)
    same = rng.random() < 0.6 if same_class is None else same_class
    dst = src if same else rng.choice(ALLCLS if rng.random() < 0.3 else CLASSES)
    route = rng.choice(SRC_ROUTES)
    if src in SUBCLASSES and route not in ('auto', 'bin', 'ctor', 'add', 'read'): route = rng.choice(['auto', 'bin'])
    st = {'op': 'from_obj', 'src_cls': src, 'dst_cls': dst, 'bits': rand_bits(rng, n), 'route': route, 'src_pos': rng.choice([0, 1, 4, 8, 12, n // 2, n, n]), 'seek': rng.choice(['read', 'pos']),
          'ctor': rng.choice(CTORS), 'p': rng.choice([0, 1, 4, n // 2, n, n + 1]), 'length': rng.choice([0, 3, n]), 'offset': rng.choice([0, 2]), 'use': []}
    for _ in range(rng.randrange(2, 8)):
        a = {'on': rng.choice(['src', 'new']), 'do': rng.choice(ACTS), 'k': rng.choice([0, 1, 3, 4, 8, 20, 1000])}
        if a['do'] in ('append', 'prepend', 'iadd'): a['bits'] = rand_bits(rng, rng.choice([0, 1, 3, 8]))
        st['use'].append(a)
    return st

def gen_from_obj_sweep(rng):
    """an object of each class made from an object of the same class, by each plain route, the source standing inside its data; then both are used"""
    out = []
    for cls in CLASSES + [rng.choice(SUBCLASSES)]:
        for ctor in ('plain', 'pos', 'copy', 'bits_kw', 'slice', 'add_empty'):
            st = gen_from_obj(rng, same_class=True)
            n = rng.choice([8, 16, 33, 64])
            st.update(src_cls=cls, dst_cls=cls, bits=rand_bits(rng, n), route=rng.choice(['auto', 'bin']), src_pos=rng.choice([1, 4, n // 2, n]), seek=rng.choice(['read', 'pos']), ctor=ctor, p=rng.choice([0, 1, n // 2, n]))
            st['use'] = [{'on': 'new', 'do': 'read', 'k': 3}, {'on': 'src', 'do': 'read', 'k': 2}, {'on': 'src', 'do': 'again', 'k': 0}, {'on': 'new', 'do': 'append', 'k': 0, 'bits': '101'},
                         {'on': 'src', 'do': 'invert', 'k': 0}, {'on': 'src', 'do': 'rebuild', 'k': 0}, {'on': 'new', 'do': 'setpos', 'k': 1}, {'on': 'src', 'do': 'look', 'k': 0}]
            rng.shuffle(st['use'])
            out.append(st)
    return out

# ---------------- Arrays made from earlier Arrays, then both used ----------------
FA_DTYPES = {'uint8': [0, 1, 7, 100, 200, 255], 'int16': [-300, -1, 0, 5, 30000], 'float32': [0.5, -2.0, 1024.0, 0.0, 3.0], 'uint5': [0, 1, 17, 31], 'int8': [-128, -1, 0, 127], 'float16': [0.5, -2.0, 1024.0]}
FA_HOWS = ['ctor', 'ctor_dtypeobj', 'copycopy', 'slice', 'astype', 'tolist', 'extend_empty', 'add0']        # (copy.deepcopy / pickle of an Array are refused by the library: a Dtype cannot be reconstructed)
def gen_from_array(rng):
    d = rng.choice(sorted(FA_DTYPES)); pool = FA_DTYPES[d]
    st = {'op': 'from_array', 'dtype': d, 'vals': [rng.choice(pool) for _ in range(rng.choice([0, 1, 2, 3, 5, 9]))], 'how': rng.choice(FA_HOWS), 'use': []}
    for _ in range(rng.randrange(2, 7)):
        a = {'on': rng.choice(['a', 'b']), 'do': rng.choice(['append', 'setitem', 'pop', 'reverse', 'extend', 'insert', 'delitem', 'again', 'look', 'setdtype'])}
        a['v'] = [rng.choice(pool), rng.choice(pool)]; a['i'] = rng.choice([0, -1])
        st['use'].append(a)
    return st

# ---------------- calls that have nothing to do with the options (printing, representations, copies, queries) ----------------
ARRAY_DTYPES = {'uint8': [1, 2, 250], 'int16': [-1, 2, 300], 'uint5': [1, 31, 0], 'float16': [0.5, 1.5, -2.0], 'float32': [0.5, 1e10], 'float64': [0.1], 'bfloat': [1.0, -3.0], 'e4m3mxfp': [0.5, 7e7, -1.0],
                'e5m2mxfp': [0.5, 1e30], 'e2m1mxfp': [0.5, 6.0], 'e3m2mxfp': [1.0, 28.0], 'p4binary': [0.5, 100.0], 'p3binary': [1.0], 'hex4': ['a5b1', '0000'], 'bin3': ['101', '000', '111'],
                'bool': [True, False, True], 'bytes2': [b'ab', b'cd'], 'uintle16': [1, 513], 'intbe24': [-2, 70000], 'e8m0mxfp': [1.0, 4.0]}
BITS_CALLS = ['pp', 'pp', 'pp', 'repr', 'str', 'copy', 'copycopy', 'deepcopy', 'hash', 'eq', 'tobytes', 'tofile', 'len', 'iter', 'unpack', 'findall', 'cut', 'bytes', 'bool', 'tobitarray', 'pickle', 'format', 'props',
              'find_arg', 'rfind_arg', 'findall_arg', 'split_arg', 'replace_arg', 'readto_arg', 'startswith', 'count', 'read', 'readlist', 'ror', 'slice']       # *_arg: with an explicit bytealigned argument (it is an argument, not a setting)
ARRAY_CALLS = ['pp', 'pp', 'pp', 'pp', 'repr', 'str', 'copycopy', 'deepcopy', 'tolist', 'tobytes', 'tofile', 'eq', 'equals', 'len', 'iter', 'getitem', 'slice', 'astype', 'add1', 'neg', 'count', 'byteswap', 'reverse',
               'attrs', 'fromarray', 'pickle']
DTYPE_CALLS = ['repr', 'str', 'eq', 'hash', 'attrs', 'build_parse']
PP_FMTS = [None, None, 'bin', 'hex', 'oct', 'bytes', 'bin, hex', 'hex, bin', 'uint8', 'int16', 'float16', 'float32', 'uint8, hex', 'bits', 'bin8', 'e4m3mxfp', 'bfloat', 'bool', 'uint5, bin',
           'abc', 'uint', 'float', 'hex, oct, bin', 'ue', 'uint8, float64', 'bytes, bin']          # (the last ones are refused, for most objects: a refused call has to leave the options alone as well)

def gen_purecall(rng, obj=None, call=None, **forced):
    r = rng.random()
    if obj is None: obj = 'Array' if r < 0.45 else rng.choice(CLASSES) if r < 0.9 else 'Dtype' if r < 0.97 else 'options'
    if obj == 'Array':
        d = rng.choice(sorted(ARRAY_DTYPES))
        st = {'op': 'purecall', 'obj': 'Array', 'dtype': d, 'trailing': rng.choice(['', '', '1', '101']), 'call': call or rng.choice(ARRAY_CALLS)}
    elif obj in CLASSES:
        st = {'op': 'purecall', 'obj': obj, 'bits': rand_bits(rng, rng.choice([0, 1, 8, 12, 16, 32, 40, 64, 100, 200])), 'call': call or rng.choice(BITS_CALLS)}
    elif obj == 'Dtype':
        st = {'op': 'purecall', 'obj': 'Dtype', 'd': rng.choice(['uint8', 'int:7', 'float32', 'e4m3mxfp', 'e5m2mxfp', 'hex4', 'bits', 'bool', 'uintle16', 'ue', 'bfloat']), 'call': call or rng.choice(DTYPE_CALLS)}
    else:
        st = {'op': 'purecall', 'obj': 'options', 'call': call or rng.choice(['repr', 'read', 'dir'])}
    if st['call'] == 'pp':
        st.update(fmt=rng.choice(PP_FMTS), width=rng.choice([None, None, 40, 80, 10, 200, 0, -5]), show_offset=rng.choice([None, True, False]), sep=rng.choice([None, None, '_', '']))
    if st['call'].endswith('_arg'): st['ba'] = rng.random() < 0.5
    st.update(forced)
    return st

def gen_purecall_sweep(rng):
    """the calls most likely to fiddle with a setting, each at least once: printing and representations of every kind of object (accepted and refused), searches with an explicit bytealigned argument"""
    out = []
    for obj in CLASSES + ['Array']:
        out.append(gen_purecall(rng, obj, 'pp', fmt=rng.choice([None, 'bin', 'hex', 'bin, hex', 'uint8', 'float16'])))
        out.append(gen_purecall(rng, obj, 'pp', fmt=rng.choice(['abc', 'uint', 'hex, oct, bin', 'ue'])))
        out.append(gen_purecall(rng, obj, 'repr'))
        out.append(gen_purecall(rng, obj, 'str'))
    for call in [c for c in BITS_CALLS if c.endswith('_arg')]:
        for ba in (True, False):
            out.append(gen_purecall(rng, rng.choice(CLASSES), call, ba=ba, bits=rand_bits(rng, rng.choice([16, 32, 40, 64]))))
    for call in ('tolist', 'astype', 'add1', 'eq', 'copycopy', 'getitem'): out.append(gen_purecall(rng, 'Array', call))
    for call in ('copy', 'copycopy', 'unpack', 'read', 'slice', 'findall', 'tobytes', 'eq'): out.append(gen_purecall(rng, rng.choice(CLASSES), call))
    out += [gen_purecall(rng, 'Dtype'), gen_purecall(rng, 'options')]
    rng.shuffle(out)
    return out

# ---------------- constructions whose outcome is fixed by the option values (a plain-Python expectation for each) ----------------
OPTPROBES = ['pack_order', 'index0', 'slice_head', 'ue_token', 'e5m2_huge', 'e4m3_huge', 'find_unaligned', 'read_head', 'append_side', 'unpack_order', 'dtype_huge', 'array_huge', 'kw_huge']
def gen_optprobe(rng):
    return {'op': 'optprobe', 'what': rng.choice(OPTPROBES), 'h': format(rng.randrange(1, 1 << 16), '04x'), 'b': rand_bits(rng, rng.choice([3, 5, 9]), 'rand'), 'v': rng.randrange(1, 5000),
            'f': rng.choice([1e30, 3e38, 7e7, 1e12, 123456789.0]), 'route': rng.choice(['token', 'kw', 'pack', 'build', 'array', 'setattr'])}

# ---------------- calls that FAIL, and constructions from never-seen token strings after them ----------------
# A refused call (of any kind, through any route) must leave nothing behind: the constructions that follow - in particular those whose strings no cache has seen yet -
# succeed and give the bits their tokens spell (reference: tok_ref, plain Python), under every option configuration, and the same in a fresh interpreter.
BAD_TOKENS = ['0x{h}zz', '0b{b}2', '0o{o}9', 'hex={h}xyz', 'bin={b}012', 'oct=8{o}', 'uint:8={big}', 'int:4=-{nine}', 'uint:3={eight}', 'bool={two}', 'nosuch{k}=1', 'uint8x={k}', 'uint:{n}', 'hex', 'bits', 'bits:7=0x{hh}',
              'hex:5={h}', 'float:17=1.0', 'uint:-3={k}', 'uint:8=abc{k}', 'float:32=one{k}', 'int:8={k}.5', 'ue=-{one}', 'se=x{k}', 'uie=-{one}', '0xg{h}', 'e4m3mxfp=x{k}', 'bool:2=1', 'uintle:12={k}', 'bfloat:8=1.0',
              'int:0=0', 'uint:8=-{one}', '=', '0x', ':', 'uint:={k}', 'bits=bits', '0b', 'float={k}.0', 'bin:3=01', 'uint:8={big}', 'bits:{n}=0xzz{h}', 'int:{n}=0xq']
REFUSED_STR_HOWS = ['ctor', 'ctor', 'ctor', 'ctor_after', 'ctor_before', 'bits_kw', 'bits_kw', 'setter', 'setter', 'append', 'prepend', 'iadd', 'add', 'radd', 'pack_fmt', 'pack_bits', 'pack_kw', 'join', 'fromstring', 'build',
                    'find', 'contains', 'insert', 'setslice', 'eq', 'ne', 'startswith', 'replace', 'overwrite', 'and', 'parse', 'readto']
REFUSED_CALLS = ['kw_hex_bad', 'kw_bin_bad', 'kw_oct_bad', 'kw_uint_big', 'kw_int_small', 'kw_uint_nolen', 'kw_float_len', 'kw_bytes_len', 'kw_bytes_off', 'neg_len', 'neg_int', 'unknown_kw', 'kw_bool', 'kw_ue_neg', 'bits_len',
                 'nofile', 'ba_off', 'auto_kw', 'float_obj', 'obj', 'kw_len_mismatch', 'kw_e4m3_str', 'kw_float_str', 'kw_uint_neg', 'kw_len_only_neg', 'kw_bytes_str', 'kw_se_str', 'kw_bfloat_len', 'kw_offset_hex',
                 'setter_uint', 'setter_hex', 'setter_int', 'setter_bin', 'pack_big', 'pack_few', 'pack_many', 'pack_nokw', 'pack_unknown', 'pack_unbalanced', 'pack_floatlen', 'pack_badval', 'pack_few2', 'pack_few3',
                 'pack_list_few', 'pack_kwbad', 'dtype_unknown', 'dtype_neg', 'dtype_floatlen', 'dtype_bool2', 'dtype_twice', 'dtype_scale0', 'dtype_empty', 'dtype_lenstr', 'dtype_build_big', 'dtype_e3m2_len',
                 'array_unknown', 'array_big', 'array_str', 'array_nolen', 'array_ue', 'array_append_big', 'array_float_bad', 'array_setitem', 'read_past', 'read_unknown', 'readlist_unknown', 'unpack_long', 'read_neg',
                 'pos_big', 'index', 'unpack_unknown', 'readlist_kw', 'unpack_kw', 'pack_none', 'fmt_unbalanced', 'fmt_colon', 'fmt_mult',
                 'opt_mxfp_bad', 'opt_mxfp_bad', 'opt_del', 'opt_lsb0_badbool', 'opt_bytealigned_badbool']        # (refused assignments to the module options: the values in force stay what the program set)
DEEP = [600, 900, 1500]          # 'bits=' nested this deep is beyond any interpreter's recursion limit: refused one way or another, and nothing may be left behind

def gen_refused(rng, pool=None, deep=None):
    cls = rng.choice(CLASSES)
    r = rng.random()
    if deep or (deep is None and r < 0.05):
        return {'op': 'refused', 'how': rng.choice(REFUSED_STR_HOWS), 'cls': cls, 'pre': '', 'depth': rng.choice(DEEP), 'bad': rng.choice(['0x1', '0b1', 'uint:8=3', '0xzz']), 'post': ''}
    if r < 0.6:
        k = rng.randrange(0, 10 ** 6)
        bad = rng.choice(BAD_TOKENS).format(h=format(rng.getrandbits(4 * rng.choice([1, 2, 5, 8])), 'x'), b=format(rng.getrandbits(rng.choice([1, 3, 8, 17])), 'b'), o=format(rng.getrandbits(9), 'o'), big=256 + k, nine=9 + k, eight=8 + k,
                                            two=2 + k, k=k, n=rng.choice([3, 8, 16, 33]), hh=format(rng.getrandbits(8), '02x'), one=1 + k)
        valid = (lambda: rng.choice(pool) if pool and rng.random() < 0.6 else rng.choice(['0b1', '0xab', 'uint:8=7', 'bits=0x0f']))
        return {'op': 'refused', 'how': rng.choice(REFUSED_STR_HOWS), 'cls': cls, 'pre': valid() + ', ' if rng.random() < 0.3 else '', 'depth': rng.choice([0, 0, 1, 1, 1, 2, 3, 5, 9]), 'bad': bad,
                'post': ', ' + valid() if rng.random() < 0.15 else ''}
    return {'op': 'refused', 'call': rng.choice(REFUSED_CALLS), 'cls': cls, 'k': rng.randrange(0, 10 ** 6)}

def refused_string(st): return st['pre'] + 'bits=' * st['depth'] + st['bad'] + st['post']

# token strings with a plain-Python reference: a token is a JSON list, a string a list of tokens
def rand_tok(rng, depth=0, unique=False):
    r = rng.random()
    if depth > 0:
        inner = rand_tok(rng, depth - 1, unique)
        return ['bits', inner, rng.random() < 0.25]
    if unique or r < 0.3:
        nd = rng.choice([10, 11, 12, 16]) if unique else rng.choice([1, 2, 3, 8])
        return ['hex', format(rng.getrandbits(4 * nd), f'0{nd}x'), rng.choice(['prefix', 'prefix', 'name', 'len'])]
    if r < 0.42:
        n = rng.choice([1, 3, 7, 8, 9, 17, 40])
        return ['bin', format(rng.getrandbits(n), f'0{n}b'), rng.choice(['prefix', 'prefix', 'name', 'len'])]
    if r < 0.5:
        nd = rng.choice([1, 2, 5])
        return ['oct', format(rng.getrandbits(3 * nd), f'0{nd}o'), rng.choice(['prefix', 'name', 'len'])]
    if r < 0.68:
        name = rng.choice(['uint', 'uint', 'uintbe', 'uintle', 'uintne', 'int', 'int', 'intbe', 'intle', 'intne'])
        n = rng.choice([8, 16, 24, 32, 64]) if name[-2:] in ('be', 'le', 'ne') else rng.choice([1, 2, 7, 8, 9, 12, 31, 32, 33, 64, 65])
        if name.startswith('int') and n == 1: n = 2
        v = rng.choice([0, 1, (1 << (n - 1)) - 1, rng.getrandbits(n - 1)])
        if name.startswith('int') and rng.random() < 0.5: v = -v - 1
        return ['int', name, n, v, rng.random() < 0.2]
    if r < 0.75: return ['bool', rng.choice([0, 1])]
    if r < 0.82: return ['pad', rng.choice([0, 1, 3, 8, 13])]
    if r < 0.92: return ['float', rng.choice(['float', 'floatbe', 'floatle', 'floatne']), rng.choice([16, 32, 64]), rng.choice([0.0, 1.5, -2.0, 0.15625, 1024.0, -0.5, 3.0])]
    return ['bits', rand_tok(rng, 0), rng.random() < 0.3]

def tok_ref(t):
    """the bits a token spells (documentation of the token types; struct / int formatting)"""
    import struct, sys as _sys
    k = t[0]
    if k == 'hex': return ''.join(format(int(ch, 16), '04b') for ch in t[1])
    if k == 'bin': return t[1]
    if k == 'oct': return ''.join(format(int(ch, 8), '03b') for ch in t[1])
    if k == 'int':
        _, name, n, v, _ = t
        b = format(v & ((1 << n) - 1), f'0{n}b')
        little = name.endswith('le') or (name.endswith('ne') and _sys.byteorder == 'little')
        return ''.join(reversed([b[i:i + 8] for i in range(0, n, 8)])) if little else b
    if k == 'bool': return str(t[1])
    if k == 'pad': return '0' * t[1]
    if k == 'float':
        _, name, n, x = t
        little = name.endswith('le') or (name.endswith('ne') and _sys.byteorder == 'little')
        by = struct.pack(('<' if little else '>') + {16: 'e', 32: 'f', 64: 'd'}[n], x)
        return ''.join(format(y, '08b') for y in by)
    if k == 'bits': return tok_ref(t[1])
    raise AssertionError(t)

def tok_text(t):
    k = t[0]
    if k in ('hex', 'bin', 'oct'):
        per = {'hex': 4, 'bin': 1, 'oct': 3}[k]
        if t[2] == 'prefix': return {'hex': '0x', 'bin': '0b', 'oct': '0o'}[k] + t[1]
        if t[2] == 'name': return f'{k}={t[1]}'
        return f'{k}:{per * len(t[1])}={t[1]}'
    if k == 'int': return f'{t[1]}{":" if not t[4] else ""}{t[2]}={t[3]}'
    if k == 'bool': return f'bool={t[1]}'
    if k == 'pad': return f'pad:{t[1]}'
    if k == 'float': return f'{t[1]}:{t[2]}={t[3]!r}'
    if k == 'bits': return (f'bits:{len(tok_ref(t[1]))}=' if t[2] else 'bits=') + tok_text(t[1])
    raise AssertionError(t)

NEST_ROUTES = ['ctor', 'ctor', 'ctor', 'ctor_after', 'ctor_before', 'bits_kw', 'bits_kw', 'setter', 'setter', 'append_empty', 'prepend_empty', 'iadd_empty', 'add_empty', 'radd_empty', 'pack_fmt', 'pack_bits', 'pack_kw',
               'join', 'fromstring', 'build', 'eq', 'insert', 'setslice']
def gen_nest(rng, route=None, cls=None):
    """a construction from a token string that no cache can hold yet (one token carries 40+ random bits), 'bits=' tokens nested 0-6 deep, through every route that takes a token string"""
    k = rng.choice([1, 1, 1, 2, 3])
    u = rng.randrange(k)
    toks = []
    for i in range(k):
        d = rng.choice([0, 1, 1, 2, 3, 6]) if i == u else rng.choice([0, 0, 1, 2])
        toks.append(rand_tok(rng, d, unique=(i == u)))
    return {'op': 'nest', 'cls': cls or rng.choice(CLASSES), 'route': route or rng.choice(NEST_ROUTES), 'toks': toks, 'sep': rng.choice([', ', ',', ' , '])}

def gen_nest_sweep(rng):
    """every route once, over the four classes"""
    return [gen_nest(rng, route=r, cls=CLASSES[(i + rng.randrange(4)) % 4]) for i, r in enumerate(sorted(set(NEST_ROUTES)))]

def gen_refusal_history(rng, tier):
    """bursts of refused calls of one kind (1, 3 or 30 of them; over-deep nestings; every route), each burst followed by constructions from never-seen strings through every route,
    under option configurations that change in between"""
    steps = []
    kinds = [('str', h) for h in sorted(set(REFUSED_STR_HOWS))] + [('call', c) for c in REFUSED_CALLS] + [('deep', h) for h in sorted(set(REFUSED_STR_HOWS))]
    rng.shuffle(kinds)
    if tier == 'quick': kinds = kinds[:45]
    for j, (fam, what) in enumerate(kinds):
        if j % 6 == 0: steps.append({'op': 'set', 'opt': rng.choice(['lsb0', 'bytealigned', 'mxfp_overflow']), 'v': rng.random() < 0.5})
        n = rng.choice([1, 3, 30]) if fam != 'deep' else rng.choice([1, 2])
        for _ in range(n):
            if fam == 'call': st = gen_refused(rng, deep=False); st = {'op': 'refused', 'call': what, 'cls': st['cls'], 'k': rng.randrange(10 ** 6)}
            else:
                st = gen_refused(rng, deep=(fam == 'deep'))
                while 'call' in st: st = gen_refused(rng, deep=(fam == 'deep'))
                st['how'] = what
                if fam == 'str' and st['depth'] == 0 and rng.random() < 0.7: st['depth'] = rng.choice([1, 2, 4])
            steps.append(st)
        steps += gen_nest_sweep(rng) if j % 3 == 0 else [gen_nest(rng) for _ in range(4)]
    steps += [{'op': 'set', 'opt': 'lsb0', 'v': False}, {'op': 'set', 'opt': 'bytealigned', 'v': False}, {'op': 'set', 'opt': 'mxfp_overflow', 'v': False}] + gen_nest_sweep(rng)
    return {'op': 'history', 'steps': steps}

# ---------------- external mutable sources: objects built from them never change when the source, or another object built from it, is mutated in place ----------------
EXT_FAMILY = {'ba_big': 'ba', 'ba_le': 'ba', 'ba_slice': 'ba', 'ba_frombytes': 'ba', 'ba_copy_le': 'ba', 'tba_bits': 'ba', 'tba_bitarray': 'ba', 'tba_stream': 'ba', 'tba_slice': 'ba', 'tba_le': 'ba', 'frozen': 'imm_ba', 'frozen_le': 'imm_ba',
              'ba_buf': 'ba_fixed', 'ba_buf_le': 'ba_fixed', 'bytearray': 'bytearray', 'bytes': 'imm_bytes', 'mv': 'mv', 'mv_ro': 'imm_bytes', 'mv_slice': 'mv', 'mv_step': 'mv', 'mv_cast': 'mv_arr', 'mv_arr': 'mv_arr',
              'arr': 'arr', 'bytesio': 'bytesio', 'bytesio_written': 'bytesio', 'list_int': 'list', 'list_bool': 'list', 'list_mixed': 'list', 'tuple': 'imm_list'}
EXT_SRC_MUTS = {'ba': ['invert', 'invert', 'setall1', 'setall0', 'flip', 'flip', 'append', 'extend', 'reverse', 'clear', 'delhead', 'bytereverse', 'setslice', 'ixor', 'ilshift', 'sort', 'pop', 'insert', 'fill', 'frombytes'],
                'ba_fixed': ['invert', 'setall1', 'setall0', 'flip', 'base_xor', 'base_xor'], 'imm_ba': [], 'imm_bytes': [], 'imm_list': [],
                'bytearray': ['xor', 'xor', 'zero', 'append', 'extend', 'clear', 'reverse', 'delhead', 'setslice', 'insert', 'pop', 'imul'], 'mv': ['mv_setitem', 'base_xor', 'mv_setslice'], 'mv_arr': ['base_setitem'],
                'arr': ['setitem', 'setitem', 'append', 'reverse', 'byteswap', 'pop', 'extend', 'clear', 'imul'], 'bytesio': ['write0', 'truncate', 'write_end', 'seek', 'buffer_xor', 'read'],
                'list': ['flip', 'flip', 'append', 'reverse', 'clear', 'delhead', 'extend', 'setslice']}
EXT_ROUTES = {'ba': ['auto', 'auto', 'auto', 'kw_ba', 'kw_ba', 'kw_ba_win', 'bits_kw', 'add', 'radd', 'join', 'pack', 'append', 'prepend', 'iadd', 'setslice', 'setter_bits', 'insert', 'build'],
              'bytes': ['auto', 'auto', 'auto', 'kw_bytes', 'kw_bytes', 'kw_bytes_win', 'bits_kw', 'add', 'radd', 'join', 'pack', 'packbytes', 'append', 'prepend', 'iadd', 'setslice', 'setter_bytes', 'setter_bits', 'insert', 'build', 'buildbytes', 'array'],
              'arr': ['auto', 'auto', 'auto', 'kw_bytes', 'kw_bytes_win', 'bits_kw', 'add', 'radd', 'join', 'pack', 'packbytes', 'append', 'prepend', 'iadd', 'setslice', 'setter_bytes', 'setter_bits', 'insert', 'build', 'buildbytes', 'array_tc', 'array_tc'],
              'bytesio': ['auto', 'auto', 'auto', 'auto_win', 'auto_win', 'bits_kw', 'add', 'radd', 'join', 'pack', 'append', 'prepend', 'iadd', 'setslice', 'setter_bits', 'insert', 'build'],
              'list': ['auto', 'auto', 'auto', 'bits_kw', 'add', 'radd', 'join', 'pack', 'append', 'prepend', 'iadd', 'setslice', 'setter_bits', 'insert', 'build']}
def ext_route_family(kind):
    f = EXT_FAMILY[kind]
    return {'ba': 'ba', 'ba_fixed': 'ba', 'imm_ba': 'ba', 'bytearray': 'bytes', 'imm_bytes': 'bytes', 'mv': 'bytes', 'mv_arr': 'arr' if kind == 'mv_arr' else 'bytes', 'arr': 'arr', 'bytesio': 'bytesio', 'list': 'list', 'imm_list': 'list'}[f]
EXT_OBJ_MUTS = ['invert', 'invert', 'setall1', 'setall0', 'reverse', 'append', 'prepend', 'iadd', 'clear', 'delhead', 'setbit', 'setbit']
ARR_CODES = {'B': [0, 1, 0xf0, 0xa5, 255], 'b': [0, 1, -1, -128, 127], 'H': [0, 1, 0xf0a5, 65535], 'h': [0, -1, 12345, -32768], 'I': [0, 1, 0xdeadbeef], 'i': [0, -1, 123456789], 'L': [0, 1, 0xdeadbeef], 'Q': [0, 1, 2 ** 64 - 1, 0x0123456789abcdef],
             'q': [0, -1, 2 ** 62], 'f': [0.0, 1.5, -2.0], 'd': [0.0, 1.5, -2.0, 1e300]}

def gen_from_ext(rng, kind=None, first=None):
    kind = kind or rng.choice(sorted(EXT_FAMILY))
    fam = EXT_FAMILY[kind]
    st = {'op': 'from_ext', 'kind': kind}
    if fam in ('ba', 'imm_ba') and kind != 'ba_frombytes':
        n = rng.choice([0, 1, 7, 8, 9, 15, 16, 17, 31, 32, 33, 63, 64, 65, 128, 129]) if rng.random() < 0.85 else rng.randrange(0, 200)
        st['bits'] = rand_bits(rng, n)
    elif fam in ('list', 'imm_list'):
        n = rng.choice([0, 1, 3, 8, 9, 17])
        st['vals'] = [rng.choice([0, 1, '', 'x', None, 2.5, [], [0]]) for _ in range(n)] if kind == 'list_mixed' else [rng.choice([True, False]) if kind == 'list_bool' else rng.choice([0, 1]) for _ in range(n)]
    elif kind in ('arr', 'mv_arr', 'mv_cast'):
        tc = rng.choice(sorted(ARR_CODES)) if kind != 'mv_cast' else rng.choice(['H', 'I', 'h', 'Q', 'd'])
        st['tc'] = tc; st['vals'] = [rng.choice(ARR_CODES[tc]) for _ in range(rng.choice([0, 1, 2, 3, 5]))]
    else:
        nb = rng.choice([0, 1, 2, 3, 4, 8, 9, 16, 17])
        st['data'] = bytes(rng.getrandbits(8) if rng.random() < 0.8 else rng.choice([0, 255]) for _ in range(nb)).hex()
        if fam == 'bytesio': st['iopos'] = rng.choice([0, 0, 1, nb])
    rfam = ext_route_family(kind)
    muts = EXT_SRC_MUTS[fam]
    ev = []
    nobj = 0
    def make(route=None):
        nonlocal nobj
        nobj += 1
        route = route or rng.choice(EXT_ROUTES[rfam])
        if route == 'array_tc' and st.get('tc') == 'L': route = 'auto'         # (an Array of 64-bit items takes typecode 'Q' only)
        return ['make', rng.choice(CLASSES), route, rng.randrange(0, 40), rng.randrange(0, 40)]
    ev.append(make(first)); ev.append(make())
    if EXT_INPLACE.get(fam) and rng.random() < 0.5: ev.append(['mut_src', rng.choice(EXT_INPLACE[fam]), rng.randrange(0, 64)])
    for _ in range(rng.randrange(3, 10)):
        r = rng.random()
        if r < 0.25 and nobj < 6: ev.append(make())
        elif r < 0.55 and muts: ev.append(['mut_src', rng.choice(muts), rng.randrange(0, 64)])
        elif r < 0.62 and nobj < 6:
            ev.append(['resrc', rng.randrange(nobj), rng.choice(['tobitarray', 'tobitarray', 'bytearray', 'tobytes_mv'])])
            rfam, muts = ('ba', EXT_SRC_MUTS['ba']) if ev[-1][2] == 'tobitarray' else ('bytes', EXT_SRC_MUTS['bytearray'] if ev[-1][2] == 'bytearray' else [])
        else: ev.append(['mut_obj', rng.randrange(nobj), rng.choice(EXT_OBJ_MUTS), rng.randrange(0, 64), rand_bits(rng, rng.choice([1, 3, 8]))])
    if muts: ev.append(['mut_src', rng.choice(muts), rng.randrange(0, 64)])
    ev.append(make())
    st['events'] = ev
    return st

EXT_INPLACE = {'ba': ['invert', 'flip', 'setall1', 'setall0', 'reverse'], 'ba_fixed': ['invert', 'flip', 'base_xor'], 'bytearray': ['xor', 'zero', 'reverse'], 'mv': ['mv_setitem', 'base_xor', 'mv_setslice'], 'mv_arr': ['base_setitem'],
               'arr': ['setitem', 'reverse', 'byteswap'], 'bytesio': ['buffer_xor', 'write0'], 'list': ['flip', 'reverse']}       # changes that keep the length (an object that shares the memory could forbid the others)
def gen_from_ext_allroutes(rng, kind):
    """one object by EVERY route that takes this kind of source, then the source is changed in place (twice), some of the objects are changed, the source once more, one more object"""
    st = gen_from_ext(rng, kind=kind)
    while not (st.get('bits') or st.get('vals') or st.get('data')): st = gen_from_ext(rng, kind=kind)         # (something to change)
    fam = EXT_FAMILY[kind]
    routes = sorted(set(EXT_ROUTES[ext_route_family(kind)]))
    if st.get('tc') == 'L': routes = [r for r in routes if r != 'array_tc']
    rng.shuffle(routes)
    ev = [['make', rng.choice(CLASSES), r, rng.randrange(0, 40), rng.randrange(0, 40)] for r in routes]
    inplace, muts = EXT_INPLACE.get(fam, []), EXT_SRC_MUTS[fam]
    if inplace: ev += [['mut_src', rng.choice(inplace), rng.randrange(0, 64)], ['mut_src', rng.choice(inplace), rng.randrange(0, 64)]]
    for _ in range(4): ev.append(['mut_obj', rng.randrange(len(routes)), rng.choice(['invert', 'setall1', 'setall0', 'setbit', 'append']), rng.randrange(0, 64), rand_bits(rng, 3)])
    if muts: ev.append(['mut_src', rng.choice(muts), rng.randrange(0, 64)])
    ev.append(['make', rng.choice(CLASSES), 'auto', 0, 0])
    st['events'] = ev
    return st

def gen_from_ext_sweep(rng, every=True):
    """each kind of source: one object by every route and the source then changed in place; and a random program whose first object is made by the plain positional route"""
    kinds = sorted(EXT_FAMILY)
    if not every: return [gen_from_ext(rng, kind=k, first=rng.choice(['auto', 'auto', None])) for k in rng.sample(kinds, 8)]
    out = []
    for k in kinds: out += [gen_from_ext_allroutes(rng, k), gen_from_ext(rng, kind=k, first='auto')]
    return out

def gen_purity_history(rng, tier):
    """option configurations in turn (never touched by the program in between): unrelated calls, constructions from earlier objects, and after each of them constructions that follow the options"""
    steps = []
    configs = [(l, b, m, nc) for l in (False, True) for b in (False, True) for m in (False, True) for nc in (False, True)]
    rng.shuffle(configs)
    if tier == 'quick': configs = [(True, True, True, False), (True, False, False, False), (False, True, False, True), (False, False, True, False)] + configs[:2]
    per = 9 if tier == 'quick' else 40
    for l, b, m, nc in configs:
        steps += [{'op': 'set', 'opt': 'lsb0', 'v': l}, {'op': 'set', 'opt': 'bytealigned', 'v': b}, {'op': 'set', 'opt': 'mxfp_overflow', 'v': m}, {'op': 'set', 'opt': 'no_color', 'v': nc}]
        for pc in gen_purecall_sweep(rng): steps += [pc, gen_optprobe(rng)]
        if (l, b, m, nc) == configs[0] or tier != 'quick': steps += gen_from_obj_sweep(rng)
        # under this configuration: sources owned by the caller (every kind) used for several objects and then changed in place; refused calls, then never-seen token strings by every route
        steps += gen_from_ext_sweep(rng, every=((l, b, m, nc) == configs[0] or tier != 'quick'))
        for _ in range(6 if tier == 'quick' else 25): steps += [gen_refused(rng), gen_optprobe(rng)]
        steps += gen_nest_sweep(rng)
        for _ in range(per):
            r = rng.random()
            if r < 0.5: steps += [gen_purecall(rng), gen_optprobe(rng)]
            elif r < 0.82: steps += [gen_from_obj(rng), gen_optprobe(rng)]
            elif r < 0.93: steps += [gen_from_array(rng), gen_optprobe(rng)]
            else: steps += [gen_optprobe(rng)]
    steps += [{'op': 'set', 'opt': 'lsb0', 'v': False}, {'op': 'set', 'opt': 'bytealigned', 'v': False}, {'op': 'set', 'opt': 'mxfp_overflow', 'v': False}, {'op': 'set', 'opt': 'no_color', 'v': False}]
    steps += gen_from_obj_sweep(rng) + [gen_optprobe(rng) for _ in range(5)]
    return {'op': 'history', 'steps': steps}

def gen_cases(rng, tier):
    H = 2 if tier == 'quick' else 10
    for h in range(H):
        steps = []
        K = 330 if tier == 'quick' else 700
        pool_s, pool_f, pool_d = [], [], []
        refused_seen = []
        for i in range(K):
            n = rng.randrange(1, 60); v = rng.randrange(0, 1 << min(n, 20))
            pool_s.append(rng.choice(TOKENS).format(n=max(n, 21), v=v, h=format(v, 'x'), b=format(v, 'b'), f=rng.choice([0.5, 1000.0, 448.0, 1e6, -3.0, 60000.0])))
            pool_f.append(rng.choice(FORMATS).format(n=n, m=4 * (n % 7 + 1)))
            pool_d.append([rng.choice(['uint', 'int', 'float', 'hex', 'bits', 'e3m2mxfp', 'bytes', 'uintle']), rng.choice([None, 8, 16, 24, 32, 64, n]), rng.choice([None, None, 2, 2.0, 0.5, 4])])
        for i in range(K * 2):
            r = rng.random()
            if r < 0.06: steps.append({'op': 'set', 'opt': rng.choice(['lsb0', 'bytealigned', 'mxfp_overflow']), 'v': rng.random() < 0.5})
            elif r < 0.45: steps.append({'op': 'str', 's': rng.choice(pool_s) if rng.random() < 0.8 else pool_s[i % K], 'cls': rng.choice(CLASSES), 'mutate': rng.random() < 0.3})
            elif r < 0.65: steps.append({'op': 'fmt', 'f': rng.choice(pool_f)})
            elif r < 0.85: steps.append({'op': 'dtype', 'd': rng.choice(pool_d)})
            elif r < 0.885: steps.append({'op': 'pack', 'f': rng.choice(['uint:8, hex', 'e4m3mxfp, uint:4', 'ue, se', 'float:32']), 'v': rng.choice([1, 300, 500.0])})
            elif r < 0.905:
                # a cached literal as the LEFT operand of + with an empty object: the sum must own its store (it is mutated afterwards)
                steps.append({'op': 'str_radd', 's': rng.choice(pool_s) if rng.random() < 0.7 else pool_s[i % K], 'cls': rng.choice(CLASSES), 'how': rng.choice(['radd_empty', 'radd_empty', 'add_empty', 'join', 'pack_bits'])})
            elif r < 0.93:
                # auto-scaled Arrays of the small float formats: the lazily built table of largest values must not remember the mxfp_overflow of its first use
                steps.append({'op': 'autoscale', 'fmt': rng.choice(['e4m3mxfp', 'e5m2mxfp', 'e4m3mxfp', 'e5m2mxfp', 'e3m2mxfp', 'e2m3mxfp', 'e2m1mxfp', 'p4binary', 'p3binary', 'mxint', 'float16', 'bfloat']),
                              'vals': rng.choice([[0.0, 96.0, 256.0, -144.0], [1e-3, 2e-3], [1e5, -3e5, 7.0], [0.5]])})
            elif r < 0.945:
                # list formats (each item is parsed, and cached, on its own) mixed with the same items used alone, and unpack / readlist
                items = ['uint:8', 'hex:8', 'int:4=-3', 'oct:6=17', 'bin:3', 'uint:w', '2*uint:4']
                k = rng.choice([1, 1, 2, 3])
                steps.append({'op': 'packlist', 'f': [rng.choice(items) for _ in range(k)], 'how': rng.choice(['pack', 'pack', 'unpack', 'readlist'])})
            elif r < 0.965:
                # the same format text and keyword NAMES with other keyword VALUES (a memo keyed on the names would reuse the first lengths)
                f = rng.choice(['uint:n, bin', 'pad:a, bytes:b', 'hex:n, uint:m', 'int:n', 'bits:n, bits:m, bin', '2*uint:n'])
                steps.append({'op': 'kwfmt', 'f': f, 'kw': {k: rng.choice([4, 8, 12, 16]) if k != 'b' else rng.choice([1, 2]) for k in ('n', 'm', 'a', 'b') if (k + ',' in f + ',' or ':' + k in f)},
                              'how': rng.choice(['unpack', 'readlist', 'peeklist', 'pack', 'unpack'])})
            elif r < 0.985:
                # values that compare equal but encode differently (0.0 / -0.0 / 0 / False, 1 / 1.0 / True), each format, each route, in every order
                steps.append({'op': 'floatval', 'name': rng.choice(['float', 'floatle', 'floatbe', 'floatne', 'bfloat', 'bfloatle', 'e4m3mxfp', 'e5m2mxfp', 'p4binary', 'p3binary', 'e2m1mxfp', 'mxint']),
                              'n': rng.choice([16, 32, 64]), 'v': rng.choice(['0.0', '-0.0', '0', 'False', '1', '1.0', 'True', '-1.0']), 'route': rng.choice(['kw', 'token', 'pack', 'build', 'array', 'setattr'])})
            elif r < 0.9875: steps.append({'op': 'dtype_flush', 'base': rng.choice(['uint', 'int', 'bits', 'bin']), 'k': 300})       # more distinct Dtypes than any cache holds
            elif r < 0.992: steps.append({'op': 'array_again', 'd': rng.choice(['uint8', 'int16', 'float32', 'hex4', 'uint8'])})   # Arrays of one dtype made before and after other calls
            elif r < 0.995: steps.append({'op': 'dtype_from_dtype', 'd': rng.choice(['uint8', 'int16', 'float32', 'uint']), 'scale': rng.choice([None, 4, 0.5]), 'length': rng.choice([None, 8])})
            elif r < 0.9965: steps.append({'op': 'find', 'bits': rand_bits(rng, 24), 'pat': rand_bits(rng, 8)})
            elif r < 0.9985: steps.append(gen_purecall(rng))
            else: steps.append(gen_from_obj(rng))
            if i % 41 == 7: steps += [gen_purecall(rng), gen_optprobe(rng)]          # unrelated calls inside the long histories, whatever options are in force there
            if i % 29 == 5:
                # deterministic coverage of "equal keys, different encodings": both signed zeros (and 0 / False), and 1 / 1.0 / True, of ONE format close together,
                # in either order, through two routes - every format and width comes round within a history (a memo keyed on the value would hand out the first one)
                fmts = [('float', 16), ('float', 32), ('float', 64), ('floatle', 16), ('floatle', 32), ('floatle', 64), ('floatbe', 32), ('floatne', 64), ('bfloat', None), ('bfloatle', None),
                        ('e4m3mxfp', None), ('e5m2mxfp', None), ('p4binary', None), ('p3binary', None), ('e2m1mxfp', None), ('e3m2mxfp', None), ('e2m3mxfp', None), ('mxint', None)]
                nm, w = fmts[(i // 29 + h) % len(fmts)]
                pair = rng.choice([['0.0', '-0.0'], ['-0.0', '0.0'], ['0', '-0.0'], ['-0.0', 'False'], ['1', '1.0'], ['True', '-1.0']])
                for v in pair:
                    steps.append({'op': 'floatval', 'name': nm, 'n': w or 16, 'v': v, 'route': rng.choice(['kw', 'token', 'pack', 'build', 'array', 'setattr'])})
            if i % 53 == 11: steps += [gen_from_obj(rng), gen_optprobe(rng)]
            # calls that are refused (every kind, every route; now and then an over-deep nesting), constructions from token strings no cache has seen yet, external mutable sources
            if i % 5 == 2:
                steps.append(dict(rng.choice(refused_seen)) if refused_seen and rng.random() < 0.3 else gen_refused(rng, pool_s))      # (the same refused call again: it has to be refused again)
                refused_seen.append(steps[-1])
            if i % 5 == 4: steps.append(gen_nest(rng))
            if i % 23 == 9: steps.append(gen_from_ext(rng))
            if i % 97 == 13: steps += [gen_from_array(rng)]
        if h == 0:
            # first use of every lazily initialised table under the NON-default option values, then the default ones again
            pre = [{'op': 'set', 'opt': 'mxfp_overflow', 'v': True}, {'op': 'set', 'opt': 'lsb0', 'v': True}, {'op': 'set', 'opt': 'bytealigned', 'v': True},
                   {'op': 'autoscale', 'fmt': 'e3m2mxfp', 'vals': [0.0, 96.0, 256.0, -144.0]},
                   {'op': 'str', 's': 'e4m3mxfp=1000.0', 'cls': 'Bits', 'mutate': False}, {'op': 'dtype', 'd': ['e5m2mxfp', None, None]},
                   {'op': 'find', 'bits': '000000001111000011110000', 'pat': '11110000'},
                   {'op': 'set', 'opt': 'mxfp_overflow', 'v': False}, {'op': 'set', 'opt': 'lsb0', 'v': False}, {'op': 'set', 'opt': 'bytealigned', 'v': False},
                   {'op': 'autoscale', 'fmt': 'e4m3mxfp', 'vals': [0.0, 96.0, 256.0, -144.0]}, {'op': 'autoscale', 'fmt': 'e5m2mxfp', 'vals': [0.0, 96.0, 256.0, -144.0]},
                   {'op': 'str', 's': 'e4m3mxfp=1000.0', 'cls': 'Bits', 'mutate': False}, {'op': 'find', 'bits': '000000001111000011110000', 'pat': '11110000'}]
            steps = pre + steps
        yield {'op': 'history', 'steps': steps}
    for _ in range(1 if tier == 'quick' else 4):
        yield gen_purity_history(rng, tier)
    for _ in range(1 if tier == 'quick' else 4):
        yield gen_refusal_history(rng, tier)

def kind(c): return 'history'

def do_call(st):
    """one call; canonical result"""
    import bitstring
    from bitstring import Bits, Dtype, pack
    op = st['op']
    if op == 'from_obj': return do_from_obj(st)
    if op == 'from_array': return do_from_array(st)
    if op == 'purecall': return do_purecall(st)
    if op == 'optprobe': return do_optprobe(st)
    if op == 'refused': return do_refused(st)
    if op == 'nest': return do_nest(st)
    if op == 'from_ext': return do_from_ext(st)
    if op == 'str':
        o = cls_of(st['cls'])(st['s'])
        r = [type(o).__name__, o.bin]
        if st['mutate'] and isinstance(o, bitstring.BitArray):
            o.append('0b1'); o.invert()
        return r
    if op == 'fmt':
        return [bitstring.utils.preprocess_tokens(st['f']), str(bitstring.utils.tokenparser(st['f']))]
    if op == 'dtype':
        name, ln, sc = st['d']
        d = Dtype(name, ln, scale=sc) if ln is not None else Dtype(name, scale=sc)
        out = [str(d), d.bitlength, repr(d.scale)]
        if d.bitlength and d.bitlength <= 64:
            v = d.parse(Bits(uint=(1 << (d.bitlength - 1)) | 5, length=d.bitlength) if d.bitlength > 3 else Bits(d.bitlength))
            out.append(v.hex() if isinstance(v, float) else repr(v))
        return out
    if op == 'pack':
        n = st['f'].count(',') + 1
        return pack(st['f'], *([st['v']] * n)).bin
    if op == 'str_radd':
        C = cls_of(st['cls'])
        if st['how'] == 'radd_empty': o = st['s'] + C()
        elif st['how'] == 'add_empty': o = C() + st['s']
        elif st['how'] == 'join': o = C().join([st['s']])
        else: o = pack('bits', st['s'])
        r = [type(o).__name__, o.bin]
        if isinstance(o, bitstring.BitArray):
            o.append('0b1'); o.invert(); o.prepend('0b0')
        return r + [Bits(st['s']).bin]
    if op == 'autoscale':
        from bitstring import Array
        a = Array(Dtype(st['fmt'], scale='auto'), st['vals'])
        return [repr(a.dtype.scale), [x.hex() if isinstance(x, float) and x == x else repr(x) for x in a.tolist()]]
    if op == 'packlist':
        f = st['f']; fmt = f if len(f) > 1 else f[0]
        if st['how'] == 'pack':
            vals = []
            for it in f:
                if '=' in it: continue
                vals += {'uint:8': [7], 'hex:8': ['a5'], 'bin:3': ['101'], 'uint:w': [9], '2*uint:4': [1, 2]}[it]
            return pack(fmt, *vals, w=8).bin
        f2 = [it.split('=')[0].replace('uint:w', 'uint:8') for it in f]
        fmt = f2 if len(f2) > 1 else f2[0]
        data = bitstring.ConstBitStream(bin='1011001110001111' * 8)
        return [repr(x) for x in (data.unpack(fmt) if st['how'] == 'unpack' else data.readlist(fmt))]
    if op == 'find':
        return list(Bits(bin=st['bits'] + st['pat'] + '0000').find(Bits(bin=st['pat'])))
    if op == 'dtype_flush':
        return len({str(Dtype(st['base'], k)) for k in range(1, st['k'] + 1)})
    if op == 'array_again':
        from bitstring import Array
        vals = {'uint8': [1, 2], 'int16': [-1, 2], 'float32': [0.5, 2.0], 'hex4': ['a', 'b']}[st['d']]
        a = Array(st['d'], vals); b = _KEEP.get(st['d']) or Array(st['d'], vals[:1])        # b: an Array of the same dtype made by an EARLIER call, when there was one
        _KEEP[st['d']] = Array(st['d'], vals[:1])
        out = []
        for name, fn in (('extend', lambda: (a.extend(b), a.tolist())[1]), ('from_array', lambda: Array(st['d'], b).tolist()), ('eq', lambda: (a == a).tolist()), ('add', lambda: str((b + b).dtype)),
                         ('dtype', lambda: [str(a.dtype), a.dtype.bitlength, repr(a.dtype.scale)])):
            out.append([name, list(attempt(fn))])
        return [[n, [r[0], [x.hex() if isinstance(x, float) else x for x in r[1]] if isinstance(r[1], list) else r[1]]] for n, r in out]
    if op == 'dtype_from_dtype':
        base = Dtype(st['d'])
        kw = {} if st['scale'] is None else {'scale': st['scale']}
        r = attempt(lambda: Dtype(base, st['length'], **kw) if st['length'] is not None else Dtype(base, **kw))
        again = Dtype(st['d'])
        return [r[0], str(r[1]) if r[0] == 'ok' else r[1], str(again), repr(again.scale), again.bitlength]
    if op == 'kwfmt':
        data = bitstring.ConstBitStream(bin='1011001110001111' * 8)
        kw = st['kw']
        if st['how'] == 'pack':
            toks = [t.strip() for t in st['f'].replace('2*uint:n', 'uint:n, uint:n').split(',')]
            vals = []
            for t in toks:
                nm = t.split(':')[0]
                ln = kw.get(t.split(':')[1]) if ':' in t else 4
                if nm == 'pad': continue
                vals.append({'uint': 1, 'int': -1, 'bin': '0110', 'hex': 'a' * ((ln or 4) // 4), 'bits': '0b' + '10' * ((ln or 4) // 2), 'bytes': b'x' * (ln or 1)}[nm])
            return ['pack', list(attempt(lambda: pack(st['f'], *vals, **kw).bin))]
        fn = {'unpack': data.unpack, 'readlist': data.readlist, 'peeklist': data.peeklist}[st['how']]
        return [st['how'], [repr(x) for x in fn(st['f'], **kw)], data.pos]
    if op == 'floatval':
        from bitstring import Array, BitArray
        v = {'0.0': 0.0, '-0.0': -0.0, '0': 0, 'False': False, '1': 1, '1.0': 1.0, 'True': True, '-1.0': -1.0}[st['v']]
        name = st['name']; n = st['n'] if name.startswith('float') else None
        tok = name if n is None else f'{name}:{n}'
        r = st['route']
        if r == 'kw': o = Bits(**({name: v} if n is None else {name: v, 'length': n}))
        elif r == 'token': o = Bits(f'{tok}={float(v)!r}')
        elif r == 'pack': o = pack(tok, v)
        elif r == 'build': o = (Dtype(name, n) if n is not None else Dtype(name)).build(v)
        elif r == 'array': o = Array(tok.replace(':', ''), [v, 0.0, -0.0]).data
        else:
            o = BitArray(); setattr(o, tok.replace(':', ''), v)
        return o.bin

# ---- runner of the three added step kinds ----
def make_src(st):
    import bitstring
    from bitstring import Bits
    S = cls_named(st['src_cls']); B = st['bits']; route = st['route']
    if route == 'read' and not is_stream(st['src_cls']): route = 'bin'
    if st['src_cls'] in SUBCLASSES or route in ('ctor', 'add', 'read'):
        if route == 'auto': return S('0b' + B) if B else S()
        if route == 'ctor': return S(S(bin=B))
        if route == 'add': return S(bin=B[:len(B) // 2]) + Bits(bin=B[len(B) // 2:])
        if route == 'read':
            big = S(bin='101' + B + '01'); big.pos = 3
            return big.read(len(B))
        return S(bin=B)
    return build(st['src_cls'], B, route)

def do_from_obj(st):
    import bitstring, copy
    from bitstring import Bits, pack
    D = cls_named(st['dst_cls'])
    src = make_src(st)
    box = {'new': None}
    snaps = []
    def snap(tag, extra=None):
        new = box['new']
        snaps.append([tag, src.bin, getattr(src, 'pos', None), None if new is None else new.bin, None if new is None else getattr(new, 'pos', None), extra])
    if hasattr(src, 'pos'):
        sp = min(st['src_pos'], len(src))
        if st['seek'] == 'read': src.read(sp)
        else: src.pos = sp
    snap('start', type(src).__name__)
    k = st['ctor']
    def construct():
        if k == 'plain': return D(src)
        if k == 'pos': return D(src, pos=st['p'])
        if k == 'length': return D(src, length=st['length'])
        if k == 'offset': return D(src, offset=st['offset'])
        if k == 'lenoff': return D(src, length=st['length'], offset=st['offset'])
        if k == 'bits_kw': return D(bits=src)
        if k == 'bits_kw_pos': return D(bits=src, pos=st['p'])
        if k == 'bits_kw_len': return D(bits=src, length=st['length'])
        if k == 'copy': return src.copy()
        if k == 'copycopy': return copy.copy(src)
        if k == 'slice': return src[:]
        if k == 'add_empty': return D() + src
        if k == 'radd_empty': return src + D()
        if k == 'join': return D().join([src])
        if k == 'pack': return pack('bits', src)
        if k in ('append_to_empty', 'iadd_to_empty', 'setslice'):
            o = D()
            if not hasattr(o, 'append'): return D(src)
            if k == 'append_to_empty': o.append(src)
            elif k == 'iadd_to_empty': o += src
            else: o[:] = src
            return o
        raise AssertionError(k)
    r = attempt(construct)
    if r[0] == 'ok':
        box['new'] = r[1]; snap('made', type(r[1]).__name__)
        if k in ('length', 'offset', 'lenoff'): box['new'] = None       # (refused today; were it accepted, the window would be checked and the object dropped)
    else: snap('refused', r[1])
    for a in st['use']:
        o = src if a['on'] == 'src' else box['new']
        do = a['do']; extra = None
        if o is None: snap('skip'); continue
        if do == 'read':
            if hasattr(o, 'pos'):
                kk = min(a['k'], len(o) - o.pos); extra = o.read(kk).bin
        elif do == 'setpos':
            if hasattr(o, 'pos'): o.pos = min(a['k'], len(o))
        elif do in ('append', 'prepend', 'invert', 'clear', 'delhead', 'setall', 'reverse', 'iadd'):
            if isinstance(o, bitstring.BitArray):
                if do == 'append': o.append(Bits(bin=a['bits']))
                elif do == 'prepend': o.prepend(Bits(bin=a['bits']))
                elif do == 'iadd': o += Bits(bin=a['bits'])
                elif do == 'invert': o.invert() if len(o) else None
                elif do == 'clear': o.clear()
                elif do == 'delhead': del o[:a['k']]
                elif do == 'setall': o.set(1) if len(o) else None
                elif do == 'reverse': o.reverse()
        elif do == 'again':
            t = attempt(lambda: D(src)); extra = [t[0], t[1].bin, getattr(t[1], 'pos', None)] if t[0] == 'ok' else list(t)
        elif do == 'rebuild': extra = make_src(st).bin
        elif do == 'chain':
            if box['new'] is not None: box['new'] = type(box['new'])(box['new'])
        snap(do + ':' + a['on'], extra)
    return snaps

def model_from_obj(st, snaps, o):
    """the same step on (str, int) pairs, started from the observed source: -> None or what differs"""
    lsb0 = o['lsb0']
    if not snaps or snaps[0][0] != 'start': return f"no start snapshot: {str(snaps)[:100]}"
    sb, sp = snaps[0][1], snaps[0][2]
    B0 = sb
    srcn, dstn = st['src_cls'], st['dst_cls']
    if (sp is not None) != is_stream(srcn): return f"source of class {srcn} has pos {sp}"
    k = st['ctor']
    # class of the object made
    newn = dstn
    if k in ('copy', 'copycopy', 'slice', 'radd_empty'): newn = srcn
    if k == 'pack': newn = 'BitStream'
    nb, npos = sb, (0 if is_stream(newn) else None)
    refused = None
    if k in ('pos', 'bits_kw_pos') and is_stream(newn):
        if st['p'] > len(sb): refused = 'bad pos'
        else: npos = st['p']
    if k == 'bits_kw_len' and st['length'] != len(sb): refused = 'length does not match'
    if k in ('append_to_empty', 'iadd_to_empty') and is_stream(newn) and is_mutable(newn): npos = len(sb)          # append and += leave a BitStream at its end (C06)
    made = snaps[1]
    if k in ('length', 'offset', 'lenoff'):
        # an explicit window on a bitstring initialiser: refused (or, if accepted, exactly that window); the source is untouched either way
        if made[0] == 'made' and not lsb0:
            off = st['offset'] if k != 'length' else 0
            ln = st['length'] if k != 'offset' else len(sb) - off
            if off + ln > len(sb) or ln < 0: return f"a window [{off}, {off + ln}) outside the {len(sb)} source bits was accepted"
            if made[3] != sb[off:off + ln]: return f"{dstn}(source, window offset {off} length {ln}) holds {made[3]!r}, the source holds {sb!r}"
        have_new = False
    elif refused:
        if made[0] != 'refused': return f"{k} with {refused} was accepted: {made}"
        have_new = False
    else:
        if made[0] != 'made': return f"construction '{k}' of a {dstn} from a {srcn} holding {sb!r} raised {made[5]}"
        have_new = True
    cur = {'src': [sb, sp], 'new': [nb, npos] if have_new else None}
    def expect(i, extra_ok=True, extra=None):
        t = snaps[i]
        want = [cur['src'][0], cur['src'][1], None if (cur['new'] is None or (i == 1 and not have_new)) else cur['new'][0], None if (cur['new'] is None or (i == 1 and not have_new)) else cur['new'][1]]
        got = t[1:5]
        if i == 1 and made[0] == 'made' and not have_new: got = got[:2] + [None, None]
        if got != want:
            return (f"after step {i} ({t[0]}) of source={srcn}({B0!r}, pos={sp}) -> {k} -> {newn}: (source bits, source pos, new bits, new pos) = {got}, "
                    f"the reference on plain strings gives {want}")
        return None
    m = expect(1)
    if m: return m
    base = lambda nm: nm[3:] if nm.startswith('Sub') else nm          # (whether a copy / slice / sum of a user subclass is of the subclass is not this property's business)
    if have_new and base(made[5]) != base(newn):
        return f"construction '{k}' of a {dstn} from a {srcn} returned a {made[5]}, expected a {newn}"
    names = {'src': srcn, 'new': newn}
    for i, a in enumerate(st['use'], start=2):
        if i >= len(snaps): return f"missing snapshot {i}"
        t = snaps[i]; who = a['on']; do = a['do']
        obj = cur[who]
        if obj is None:
            if t[0] != 'skip': return f"snapshot {i}: expected a skipped action, got {t[0]}"
            continue
        bits, pos = obj; n = len(bits); cn = names[who]
        if do == 'read' and pos is not None:
            kk = min(a['k'], n - pos)
            want = bits[n - pos - kk:n - pos] if lsb0 else bits[pos:pos + kk]
            if t[5] != want: return f"step {i}: read({kk}) on the {who} object {cn}({bits!r}, pos={pos}) of source={srcn}({B0!r}) -> {k} -> {newn} returned {t[5]!r}, reference gives {want!r}"
            obj[1] = pos + kk
        elif do == 'setpos' and pos is not None: obj[1] = min(a['k'], n)
        elif do in ('append', 'prepend', 'invert', 'clear', 'delhead', 'setall', 'reverse', 'iadd') and is_mutable(cn):
            x = a.get('bits', '')
            if do in ('append', 'iadd'): nb2 = x + bits if lsb0 else bits + x
            elif do == 'prepend': nb2 = bits + x if lsb0 else x + bits
            elif do == 'invert': nb2 = ''.join('1' if ch == '0' else '0' for ch in bits)
            elif do == 'clear': nb2 = ''
            elif do == 'delhead': nb2 = bits[:max(n - a['k'], 0)] if lsb0 else bits[a['k']:]
            elif do == 'setall': nb2 = '1' * n
            elif do == 'reverse': nb2 = bits[::-1]
            obj[0] = nb2
            if pos is not None:         # the documented moves of a BitStream's position (C06): end after append / +=, 0 after prepend, clear and a deletion that changes the length
                if do in ('append', 'iadd'): obj[1] = len(nb2)
                elif do in ('prepend', 'clear'): obj[1] = 0
                elif do == 'delhead' and len(nb2) != n: obj[1] = 0
        elif do == 'again':
            want = ['ok', cur['src'][0], 0 if is_stream(dstn) else None]
            if t[5] != want: return f"step {i}: {dstn}(source) made again from source={srcn}({cur['src'][0]!r}, pos={cur['src'][1]}) gave {t[5]}, reference gives {want}"
        elif do == 'rebuild':
            if t[5] != B0: return f"step {i}: building the source again by the same route '{st['route']}' gives {t[5]!r}, the first time it gave {B0!r} (an object derived from it was changed in between)"
        elif do == 'chain' and cur['new'] is not None:
            cur['new'] = [cur['new'][0], 0 if is_stream(newn) else None]
        m = expect(i)
        if m: return m
    return None

def do_from_array(st):
    import copy
    from bitstring import Array
    canon = lambda L: [x.hex() if isinstance(x, float) else x for x in L]
    d = st['dtype']
    a = Array(d, st['vals'])
    how = st['how']
    def make():
        if how == 'ctor': return Array(d, a)
        if how == 'ctor_dtypeobj': return Array(a.dtype, a)
        if how == 'copycopy': return copy.copy(a)
        if how == 'slice': return a[:]
        if how == 'astype': return a.astype(d)
        if how == 'tolist': return Array(d, a.tolist())
        if how == 'extend_empty':
            b = Array(d); b.extend(a); return b
        if how == 'add0': return a + 0
        raise AssertionError(how)
    box = {'a': a, 'b': make()}
    snaps = []
    def snap(tag, extra=None): snaps.append([tag, canon(box['a'].tolist()), str(box['a'].dtype), canon(box['b'].tolist()), str(box['b'].dtype), extra])
    snap('made', box['b'] is a)
    frozen = set()           # an Array whose dtype was reassigned is only looked at from then on (the values of the program are not values of the new dtype)
    for act in st['use']:
        o = box[act['on']]; do = act['do']; extra = None
        if ('a' if do == 'again' else act['on']) in frozen: snap('skip'); continue
        if do == 'setdtype': frozen.add(act['on'])
        if do == 'append': o.append(act['v'][0])
        elif do == 'setitem':
            if len(o): o[act['i']] = act['v'][0]
        elif do == 'pop':
            if len(o): extra = canon([o.pop()])
        elif do == 'reverse': o.reverse()
        elif do == 'extend': o.extend(act['v'])
        elif do == 'insert': o.insert(0, act['v'][1])
        elif do == 'delitem':
            if len(o): del o[act['i']]
        elif do == 'again': extra = canon(Array(d, box['a']).tolist())
        elif do == 'setdtype': o.dtype = {'uint8': 'int8', 'int8': 'uint8', 'int16': 'uint16', 'float32': 'uint32', 'uint5': 'int5', 'float16': 'uint16'}[d]
        snap(do + ':' + act['on'], extra)
    return snaps

def model_from_array(st, snaps):
    """the same program on plain lists: -> None or what differs (after `setdtype` the values of that Array are no longer followed, those of the other one are)"""
    canon = lambda L: [x.hex() if isinstance(x, float) else x for x in L]
    vals = [float(v) if st['dtype'].startswith('float') else v for v in st['vals']]
    cur = {'a': list(vals), 'b': list(vals)}
    known = {'a': True, 'b': True}
    def check(i):
        t = snaps[i]
        for who, idx in (('a', 1), ('b', 3)):
            if known[who] and t[idx] != canon(cur[who]):
                return (f"after step {i} ({t[0]}) of Array({st['dtype']!r}, {st['vals']}) -> {st['how']}: Array {who} holds {t[idx]}, the same program on plain lists gives {canon(cur[who])} "
                        f"(a = the source, b = the Array made from it)")
        return None
    if not snaps: return 'no snapshots'
    if snaps[0][5] is True and st['how'] not in (): pass
    m = check(0)
    if m: return m
    for i, act in enumerate(st['use'], start=1):
        if i >= len(snaps): return f"missing snapshot {i}"
        L = cur[act['on']]; do = act['do']
        if not known['a' if do == 'again' else act['on']]:
            if snaps[i][0] != 'skip': return f"snapshot {i}: expected a skipped action, got {snaps[i][0]}"
            m = check(i)
            if m: return m
            continue
        f = (lambda v: float(v)) if st['dtype'].startswith('float') else (lambda v: v)
        if do == 'append': L.append(f(act['v'][0]))
        elif do == 'setitem':
            if L: L[act['i']] = f(act['v'][0])
        elif do == 'pop':
            if L:
                v = L.pop()
                if known[act['on']] and snaps[i][5] != canon([v]): return f"step {i}: pop() on Array {act['on']} returned {snaps[i][5]}, plain lists give {canon([v])}"
        elif do == 'reverse': L.reverse()
        elif do == 'extend': L.extend(f(v) for v in act['v'])
        elif do == 'insert': L.insert(0, f(act['v'][1]))
        elif do == 'delitem':
            if L: del L[act['i']]
        elif do == 'again':
            if known['a'] and snaps[i][5] != canon(cur['a']): return f"step {i}: an Array made from the source again holds {snaps[i][5]}, the source holds {canon(cur['a'])}"
        elif do == 'setdtype': known[act['on']] = False
        m = check(i)
        if m: return m
    return None

def _array(st):
    from bitstring import Array
    a = Array(st['dtype'], ARRAY_DTYPES[st['dtype']])
    if st['trailing']: a.data.append('0b' + st['trailing'])
    return a

def do_purecall(st):
    import bitstring, io, copy, pickle
    from bitstring import Bits, Array, Dtype
    call = st['call']
    canon = lambda v: v if isinstance(v, (str, int, bool, type(None))) else (v.hex() if isinstance(v, (bytes, float)) else repr(v))
    ppkw = lambda: {k: st[k] for k in ('width', 'show_offset', 'sep') if st.get(k) is not None and not (k == 'sep' and st['obj'] == 'Array')}
    if st['obj'] == 'options':
        o = bitstring.options
        if call == 'repr': return [repr(o), str(o)]
        if call == 'read': return [canon(getattr(o, n)) for n in ('lsb0', 'bytealigned', 'mxfp_overflow', 'no_color')]
        return [n for n in dir(o) if not n.startswith('_')]
    if st['obj'] == 'Dtype':
        d = Dtype(st['d'])
        if call == 'repr': return repr(d)
        if call == 'str': return str(d)
        if call == 'eq': return [d == Dtype(st['d']), d == st['d'], d != Dtype('uint3')]
        if call == 'hash': return hash(d) == hash(Dtype(st['d']))
        if call == 'attrs': return [canon(getattr(d, n)) for n in ('name', 'length', 'bitlength', 'bits_per_item', 'is_signed', 'scale', 'variable_length')] + [d.return_type.__name__]
        L = d.bitlength or 8
        return [canon(d.parse(Bits(uint=5, length=L))) if d.bitlength else None]
    if st['obj'] == 'Array':
        a = _array(st)
        if call == 'pp':
            f = io.StringIO(); a.pp(*([] if st['fmt'] is None else [st['fmt']]), stream=f, **ppkw()); return f.getvalue()
        if call == 'repr': return repr(a)
        if call == 'str': return str(a)
        if call == 'copycopy': return copy.copy(a).tobytes().hex()
        if call == 'deepcopy': return copy.deepcopy(a).tobytes().hex()
        if call == 'pickle': return pickle.loads(pickle.dumps(a)).tobytes().hex()
        if call == 'tolist': return [canon(x) for x in a.tolist()]
        if call == 'tobytes': return a.tobytes().hex()
        if call == 'tofile':
            f = io.BytesIO(); a.tofile(f); return f.getvalue().hex()
        if call == 'eq': return [canon(x) for x in (a == a).tolist()]
        if call == 'equals': return a.equals(_array(st))
        if call == 'len': return len(a)
        if call == 'iter': return [canon(x) for x in a]
        if call == 'getitem': return canon(a[0])
        if call == 'slice': return [canon(x) for x in a[::-1].tolist()]
        if call == 'astype': return [canon(x) for x in a.astype('float32').tolist()]
        if call == 'add1': return [canon(x) for x in (a + 1).tolist()]
        if call == 'neg': return [canon(x) for x in (-a).tolist()]
        if call == 'count': return a.count(ARRAY_DTYPES[st['dtype']][0])
        if call == 'byteswap': a.byteswap(); return a.tobytes().hex()
        if call == 'reverse': a.reverse(); return a.tobytes().hex()
        if call == 'attrs': return [str(a.dtype), a.itemsize, a.trailing_bits.bin, len(a.data)]
        if call == 'fromarray': return Array(a.dtype, a).tobytes().hex()
        raise AssertionError(call)
    C = cls_of(st['obj']); b = C(bin=st['bits'])
    if hasattr(b, 'pos'): b.pos = len(b) // 2
    if call == 'pp':
        f = io.StringIO(); b.pp(*([] if st['fmt'] is None else [st['fmt']]), stream=f, **ppkw()); return [f.getvalue(), getattr(b, 'pos', None)]
    if call == 'repr': return repr(b)
    if call == 'str': return str(b)
    if call == 'format': return format(b)
    if call == 'copy': return b.copy().bin
    if call == 'copycopy': return copy.copy(b).bin
    if call == 'deepcopy': return copy.deepcopy(b).bin
    if call == 'pickle': return pickle.loads(pickle.dumps(b)).bin
    if call == 'hash': return True if isinstance(b, bitstring.BitArray) else hash(b) == hash(Bits(bin=st['bits']))
    if call == 'eq': return [b == Bits(bin=st['bits']), b == C(bin=st['bits']), b != Bits(bin=st['bits'] + '1')]
    if call == 'tobytes': return b.tobytes().hex()
    if call == 'bytes': return bytes(b).hex()
    if call == 'tofile':
        f = io.BytesIO(); b.tofile(f); return f.getvalue().hex()
    if call == 'len': return len(b)
    if call == 'bool': return bool(b)
    if call == 'iter': return ''.join('1' if x else '0' for x in b)
    if call == 'unpack': return [canon(x) for x in b.unpack('bin')]
    if call == 'findall': return list(b.findall('0b1'))[:50]
    if call == 'cut': return [x.bin for x in b.cut(8)]
    if call == 'tobitarray': return b.tobitarray().to01()
    if call == 'props': return [len(b), b.bin, b.hex if len(b) % 4 == 0 else None, format(b.uint, 'x') if len(b) else None]
    P = Bits(bin='1' if len(b) < 16 else st['bits'][8:16])
    if call == 'find_arg': return list(b.find(P, bytealigned=st['ba']))
    if call == 'rfind_arg': return list(b.rfind(P, bytealigned=st['ba']))
    if call == 'findall_arg': return list(b.findall(P, bytealigned=st['ba']))[:50]
    if call == 'split_arg': return [x.bin for x in b.split(P, bytealigned=st['ba'])][:50]
    if call == 'replace_arg':
        m = bitstring.BitArray(b); n_ = m.replace(P, '0b0', bytealigned=st['ba']); return [n_, m.bin]
    if call == 'readto_arg':
        t = bitstring.ConstBitStream(b); return t.readto(P, bytealigned=st['ba']).bin
    if call == 'startswith': return [b.startswith(P), b.endswith(P), P in b]
    if call == 'count': return [b.count(1), b.all(1), b.any(0)]
    if call == 'read':
        t = bitstring.ConstBitStream(b); return [t.read('uint:3'), t.peek('bin:2'), t.pos]
    if call == 'readlist':
        t = bitstring.ConstBitStream(b); return [canon(x) for x in t.readlist('uint:3, bin:2, hex:4, bits')]
    if call == 'ror':
        m = bitstring.BitArray(b); m.ror(3); m.rol(1); return m.bin
    if call == 'slice': return [b[2:7].bin, b[::-1].bin, b[-3:].bin]
    raise AssertionError(call)

def ref_ue(v):
    w = format(v + 1, 'b'); return '0' * (len(w) - 1) + w

def do_optprobe(st):
    import bitstring
    from bitstring import Bits, BitArray, ConstBitStream, Array, Dtype, pack
    w = st['what']; h, b, v, f, route = st['h'], st['b'], st['v'], st['f'], st['route']
    if w == 'pack_order': return pack('hex, bin', h, b).bin
    if w == 'index0': return Bits(bin=b)[0]
    if w == 'slice_head': return Bits(bin=b)[0:2].bin
    if w == 'ue_token': return Bits(f'ue={v}').bin
    if w in ('e5m2_huge', 'e4m3_huge'):
        name = w[:4] + 'mxfp'
        if route == 'kw': return BitArray(**{name: f}).bin
        if route == 'pack': return pack(name, f).bin
        if route == 'build': return Dtype(name).build(f).bin
        if route == 'array': return Array(name, [f]).data.bin
        if route == 'setattr':
            o = BitArray(); setattr(o, name, f); return o.bin
        return Bits(f'{name}={f!r}').bin
    if w == 'dtype_huge': return Dtype('e5m2mxfp').build(f).bin
    if w == 'array_huge': return Array('e5m2mxfp', [f]).data.bin
    if w == 'kw_huge': return Bits(e5m2mxfp=f).bin
    if w == 'find_unaligned': return list(Bits(hex='0ff0' + h + '0ff0').find('0xff', 0, 16))        # the first sixteen bits read the same in both numberings; 0xff starts at bit 4 of them
    if w == 'read_head': return ConstBitStream(bin=b).read(2).bin
    if w == 'append_side':
        o = BitArray(bin=b); o.append('0b10'); return o.bin
    if w == 'unpack_order': return Bits(bin=b).unpack('bin:2, bin')
    raise AssertionError(w)

def model_optprobe(st, o):
    """-> ('ok', value) | ('err', kinds): the outcome the option values in force prescribe (documentation: lsb0 numbers, reads, packs from the right; exp-Golomb codes are not available under lsb0;
    bytealigned finds only at multiples of 8; mxfp_overflow: values beyond the largest finite one saturate, or overflow to infinity (e5m2) / NaN (e4m3))"""
    w = st['what']; h, b, v, f = st['h'], st['b'], st['v'], st['f']
    lsb0, ba, ovf = o['lsb0'], o['bytealigned'], o['mxfp_overflow']
    hb = ''.join(format(int(ch, 16), '04b') for ch in h)
    if w == 'pack_order': return ('ok', b + hb if lsb0 else hb + b)
    if w == 'index0': return ('ok', b[-1] == '1' if lsb0 else b[0] == '1')
    if w == 'slice_head': return ('ok', b[-2:] if lsb0 else b[:2])
    if w == 'ue_token': return ('err', {'BsError', 'ValueError'}) if lsb0 else ('ok', ref_ue(v))
    if w in ('e5m2_huge', 'dtype_huge', 'kw_huge', 'array_huge'): return ('ok', '01111100' if ovf else '01111011')
    if w == 'e4m3_huge': return ('ok', '11111111' if ovf else '01111110')
    if w == 'find_unaligned': return ('ok', [] if ba else [4])
    if w == 'read_head': return ('ok', b[-2:] if lsb0 else b[:2])
    if w == 'append_side': return ('ok', '10' + b if lsb0 else b + '10')
    if w == 'unpack_order': return ('ok', [b[-2:], b[:-2]] if lsb0 else [b[:2], b[2:]])
    raise AssertionError(w)

# ---- runner and reference of the refused calls, the never-seen token strings and the external sources ----
BADMODES = ['clip', 'Saturate', 'OVERFLOW', 'saturated', '', ' overflow', None, 0, 1, True, False, 1.5, ['overflow'], b'overflow']
class NoTruth:
    def __bool__(self): raise ValueError('neither true nor false')

def do_refused(st):
    import bitstring, bitarray
    from bitstring import Bits, BitArray, ConstBitStream, BitStream, Dtype, Array, pack
    C = cls_of(st['cls'])
    M = C if hasattr(C, 'append') else (BitStream if hasattr(C, 'pos') else BitArray)
    if 'call' not in st:
        s = refused_string(st); how = st['how']
        if how == 'ctor': return C(s).bin
        if how == 'ctor_after': return C('0b1, ' + s).bin
        if how == 'ctor_before': return C(s + ', 0b1').bin
        if how == 'bits_kw': return C(bits=s).bin
        if how == 'setter':
            a = M(); a.bits = s; return a.bin
        if how == 'append':
            a = M('0b1'); a.append(s); return a.bin
        if how == 'prepend':
            a = M('0b1'); a.prepend(s); return a.bin
        if how == 'iadd':
            a = M('0b1'); a += s; return a.bin
        if how == 'add': return (C('0b1') + s).bin
        if how == 'radd': return (s + C('0b1')).bin
        if how == 'pack_fmt': return pack(s).bin
        if how == 'pack_bits': return pack('bits', s).bin
        if how == 'pack_kw': return pack('bits=x', x=s).bin
        if how == 'join': return C().join(['0b1', s]).bin
        if how == 'fromstring': return C.fromstring(s).bin
        if how == 'build': return Dtype('bits').build(s).bin
        if how == 'find': return list(C('0b1').find(s))
        if how == 'contains': return s in C('0b1')
        if how == 'insert':
            a = M('0b1'); a.insert(s, 0); return a.bin
        if how == 'setslice':
            a = M('0b1'); a[0:1] = s; return a.bin
        if how == 'eq': return C('0b1') == s
        if how == 'ne': return C('0b1') != s
        if how == 'startswith': return C('0b1').startswith(s)
        if how == 'replace':
            a = M('0b1'); return [a.replace(s, '0b1'), a.bin]
        if how == 'overwrite':
            a = M('0b1'); a.overwrite(s, 0); return a.bin
        if how == 'and': return (C('0b1') & s).bin
        if how == 'parse': return Dtype('uint8').parse(s)
        if how == 'readto': return ConstBitStream('0b1').readto(s).bin
        raise AssertionError(how)
    k = st['k']; c = st['call']
    R = {
        'kw_hex_bad': lambda: C(hex='zz%x' % k), 'kw_bin_bad': lambda: C(bin='012'), 'kw_oct_bad': lambda: C(oct='8%d' % k), 'kw_uint_big': lambda: C(uint=256 + k, length=8), 'kw_int_small': lambda: C(int=-200 - k, length=8),
        'kw_uint_nolen': lambda: C(uint=k), 'kw_float_len': lambda: C(float=1.0, length=17), 'kw_bytes_len': lambda: C(bytes=b'ab', length=100 + k), 'kw_bytes_off': lambda: C(bytes=b'ab', offset=17 + k),
        'neg_len': lambda: C('0x1', length=-1 - k), 'neg_int': lambda: C(-1 - k), 'unknown_kw': lambda: C(**{'nosuch%d' % k: 3}), 'kw_bool': lambda: C(bool=2 + k), 'kw_ue_neg': lambda: C(ue=-1 - k),
        'bits_len': lambda: C(bits='0x1', length=5), 'nofile': lambda: C(filename='/nonexistent/verif_%d' % k), 'ba_off': lambda: C(bitarray=bitarray.bitarray('1'), offset=5 + k), 'auto_kw': lambda: C(auto='0x1'),
        'float_obj': lambda: C(3.5 + k), 'obj': lambda: C(object()), 'kw_len_mismatch': lambda: C(hex='ab', length=7), 'kw_e4m3_str': lambda: C(e4m3mxfp='x%d' % k), 'kw_float_str': lambda: C(float='abc', length=32),
        'kw_uint_neg': lambda: C(uint=-1 - k, length=8), 'kw_len_only_neg': lambda: C(length=-5 - k), 'kw_bytes_str': lambda: C(bytes='ab'), 'kw_se_str': lambda: C(se='x'), 'kw_bfloat_len': lambda: C(bfloat=1.0, length=8),
        'kw_offset_hex': lambda: C(hex='ab', offset=1),
        'setter_uint': lambda: setattr(M(8), 'uint', 300 + k), 'setter_hex': lambda: setattr(M(8), 'hex', 'zz'), 'setter_int': lambda: setattr(M(8), 'int', -200 - k), 'setter_bin': lambda: setattr(M(8), 'bin', '2'),
        'pack_big': lambda: pack('uint:8', 300 + k), 'pack_few': lambda: pack('uint:8, hex', 1), 'pack_many': lambda: pack('uint:8', 1, 2), 'pack_nokw': lambda: pack('uint:n', 3), 'pack_unknown': lambda: pack('nosuch%d' % k, 1),
        'pack_unbalanced': lambda: pack('2*(uint:8', 1), 'pack_floatlen': lambda: pack('float:17', 1.0), 'pack_badval': lambda: pack('hex', 'zz'), 'pack_few2': lambda: pack('ue, se', 1), 'pack_few3': lambda: pack('e4m3mxfp, uint:4', 1.0),
        'pack_list_few': lambda: pack(['uint:8', 'hex:8'], 7), 'pack_kwbad': lambda: pack('uint:w', 9, w=-8),
        'dtype_unknown': lambda: Dtype('nosuch%d' % k), 'dtype_neg': lambda: Dtype('uint', -1 - k), 'dtype_floatlen': lambda: Dtype('float', 17), 'dtype_bool2': lambda: Dtype('bool', 2), 'dtype_twice': lambda: Dtype('uint8', 8),
        'dtype_scale0': lambda: Dtype('uint8', scale=0), 'dtype_empty': lambda: Dtype(''), 'dtype_lenstr': lambda: Dtype('uint', 'x'), 'dtype_build_big': lambda: Dtype('uint8').build(300 + k), 'dtype_e3m2_len': lambda: Dtype('e3m2mxfp', 8),
        'array_unknown': lambda: Array('nosuch%d' % k), 'array_big': lambda: Array('uint8', [1, 300 + k]), 'array_str': lambda: Array('uint8', ['x']), 'array_nolen': lambda: Array('uint'), 'array_ue': lambda: Array('ue'),
        'array_append_big': lambda: Array('uint8', [1]).append(300 + k), 'array_float_bad': lambda: Array('float16', ['abc']), 'array_setitem': lambda: Array('int8', [1]).__setitem__(0, 1000 + k),
        'read_past': lambda: ConstBitStream('0x1').read(8), 'read_unknown': lambda: ConstBitStream('0x1').read('nosuch%d' % k), 'readlist_unknown': lambda: ConstBitStream('0x1').readlist('uint:4, nosuch'),
        'unpack_long': lambda: Bits('0x12').unpack('uint:99'), 'read_neg': lambda: ConstBitStream('0x1').read('uint:-1'), 'pos_big': lambda: setattr(ConstBitStream('0x1'), 'pos', 100 + k), 'index': lambda: C('0x1')[10 + k],
        'unpack_unknown': lambda: Bits('0x12').unpack('nosuch%d' % k), 'readlist_kw': lambda: ConstBitStream('0x1234').readlist('hex:n, uint:m', n=4), 'unpack_kw': lambda: Bits('0x1234').unpack('uint:n, bin', m=4), 'pack_none': lambda: pack('float:32'),
        'opt_mxfp_bad': lambda: setattr(bitstring.options, 'mxfp_overflow', BADMODES[k % len(BADMODES)]), 'opt_del': lambda: delattr(bitstring.options, ['lsb0', 'bytealigned', 'mxfp_overflow'][k % 3]),
        'opt_lsb0_badbool': lambda: setattr(bitstring.options, 'lsb0', NoTruth()), 'opt_bytealigned_badbool': lambda: setattr(bitstring.options, 'bytealigned', NoTruth()),
        'fmt_unbalanced': lambda: bitstring.utils.preprocess_tokens('2*(uint:8'), 'fmt_colon': lambda: bitstring.utils.tokenparser('uint::8'), 'fmt_mult': lambda: bitstring.utils.tokenparser('x*uint:8'),
    }
    r = R[c]()
    return repr(r)[:80]

def nest_string(st): return st['sep'].join(tok_text(t) for t in st['toks'])

def do_nest(st):
    import bitstring
    from bitstring import Bits, BitArray, BitStream, Dtype, pack
    C = cls_of(st['cls'])
    M = C if hasattr(C, 'append') else (BitStream if hasattr(C, 'pos') else BitArray)
    s = nest_string(st); r = st['route']
    if r == 'ctor': return C(s).bin
    if r == 'ctor_after': return C('0b1, ' + s).bin
    if r == 'ctor_before': return C(s + ', 0b1').bin
    if r == 'bits_kw': return C(bits=s).bin
    if r == 'setter':
        a = M('0b101'); a.bits = s; return a.bin
    if r in ('append_empty', 'prepend_empty', 'iadd_empty', 'insert', 'setslice'):
        a = M()
        if r == 'append_empty': a.append(s)
        elif r == 'prepend_empty': a.prepend(s)
        elif r == 'iadd_empty': a += s
        elif r == 'insert': a.insert(s, 0)
        else: a[:] = s
        return a.bin
    if r == 'add_empty': return (C() + s).bin
    if r == 'radd_empty': return (s + C()).bin
    if r == 'pack_fmt': return pack(s).bin
    if r == 'pack_bits': return pack('bits', s).bin
    if r == 'pack_kw': return pack('bits=x', x=s).bin
    if r == 'join': return C().join([s]).bin
    if r == 'fromstring': return C.fromstring(s).bin
    if r == 'build': return Dtype('bits').build(s).bin
    if r == 'eq':
        val = ''.join(tok_ref(t) for t in st['toks'])
        return [C(bin=val) == s, C(bin=val + '1') == s, C(bin=val) != s]
    raise AssertionError(r)

def model_nest(st, w, o):
    """-> None or what differs.  The bits are those the tokens spell, in order (pack() with a format of several tokens fills from the right under lsb0)"""
    vals = [tok_ref(t) for t in st['toks']]
    r = st['route']
    val = ''.join(reversed(vals) if (r == 'pack_fmt' and o['lsb0']) else vals)
    exp = {'ctor_after': '1' + val, 'ctor_before': val + '1', 'eq': [True, False, False]}.get(r, val)
    if tuple(w) == ('ok', exp): return None
    return (f"{st['cls']} from the never-seen token string {nest_string(st)[:200]!r} via '{r}' gave {str(w)[:200]}; its tokens spell {str(exp)[:200]} "
            f"(the same call in a fresh interpreter succeeds: the outcome depends on the calls made before)")

def ext_spell(src):
    """the bits an external source holds right now (bitarray: to01; buffers: their bytes; BytesIO: getvalue; sequences: truthiness)"""
    import bitarray, io, array
    if isinstance(src, bitarray.bitarray): return src.to01()
    if isinstance(src, io.BytesIO): by = src.getvalue()
    elif isinstance(src, array.array): by = src.tobytes()
    elif isinstance(src, (bytes, bytearray, memoryview)): by = bytes(src)
    else: return ''.join('1' if x else '0' for x in src)
    return ''.join(format(y, '08b') for y in by)

def ext_window(route, n, a, b):
    """(offset, length) of the window routes, from the two random numbers of the event and the current length of the source"""
    if not route.endswith('_win'): return None
    off = a % (n + 1); return off, b % (n - off + 1)

def ext_source(st):
    import bitarray, io, array, bitstring
    from bitstring import Bits, BitArray, BitStream
    kind = st['kind']; base = None; origin = None
    B = st.get('bits'); data = bytes.fromhex(st['data']) if 'data' in st else None
    if kind == 'ba_big': src = bitarray.bitarray(B, endian='big')
    elif kind == 'ba_le': src = bitarray.bitarray(B, endian='little')
    elif kind == 'ba_slice': src = bitarray.bitarray('10' + B + '1')[2:-1]
    elif kind == 'ba_frombytes':
        src = bitarray.bitarray(); src.frombytes(data)
    elif kind == 'ba_copy_le': src = bitarray.bitarray(bitarray.bitarray(B, endian='little'))
    elif kind == 'frozen': src = bitarray.frozenbitarray(B)
    elif kind == 'frozen_le': src = bitarray.frozenbitarray(B, endian='little')
    elif kind in ('ba_buf', 'ba_buf_le'):
        base = bytearray(data); src = bitarray.bitarray(buffer=base, endian='little' if kind == 'ba_buf_le' else 'big')
    elif kind.startswith('tba_'):
        origin = {'tba_bits': lambda: Bits(bin=B), 'tba_bitarray': lambda: BitArray(bin=B), 'tba_stream': lambda: BitStream(bin=B), 'tba_slice': lambda: Bits(bin='1' + B + '01')[(2 if bitstring.options.lsb0 else 1):(2 if bitstring.options.lsb0 else 1) + len(B)],
                  'tba_le': lambda: Bits(bitarray.bitarray(B, endian='little'))}[kind]()
        src = origin.tobitarray()
    elif kind == 'bytearray': src = bytearray(data)
    elif kind == 'bytes': src = data
    elif kind == 'mv':
        base = bytearray(data); src = memoryview(base)
    elif kind == 'mv_ro': src = memoryview(data)
    elif kind == 'mv_slice':
        base = bytearray(b'\x00' + data + b'\xff'); src = memoryview(base)[1:1 + len(data)]
    elif kind == 'mv_step':
        base = bytearray(b''.join(bytes([y, 0x5a]) for y in data)); src = memoryview(base)[::2]
    elif kind in ('arr', 'mv_arr', 'mv_cast'):
        a = array.array(st['tc'], st['vals'])
        if kind == 'arr': src = a
        else:
            base = a; src = memoryview(a) if kind == 'mv_arr' else memoryview(a).cast('B')
    elif kind == 'bytesio':
        src = io.BytesIO(data); src.seek(st.get('iopos', 0))
    elif kind == 'bytesio_written':
        src = io.BytesIO(); src.write(data)
    elif kind == 'tuple': src = tuple(st['vals'])
    else: src = list(st['vals'])
    return src, base, origin

def ext_mutate(src, base, how, k):
    """one in-place change of the source (or of the object whose memory it exposes)"""
    import bitarray, array
    n = len(src) if not hasattr(src, 'getvalue') else len(src.getvalue())
    i = k % n if n else 0
    if isinstance(src, bitarray.bitarray):
        if how == 'invert': src.invert()
        elif how == 'setall1': src.setall(1)
        elif how == 'setall0': src.setall(0)
        elif how == 'flip':
            if n: src[i] = not src[i]
        elif how == 'append': src.append(k & 1)
        elif how == 'extend': src.extend('101')
        elif how == 'reverse': src.reverse()
        elif how == 'clear': src.clear()
        elif how == 'delhead': del src[:k % 5]
        elif how == 'bytereverse':
            if n % 8 == 0: src.bytereverse()          # (with a partial last byte its padding bits, which are not defined, would come into view)
        elif how == 'setslice':
            m = min(n, 8); src[:m] = bitarray.bitarray('10110010'[:m], endian=src.endian)
        elif how == 'ixor': src ^= bitarray.bitarray('1' * n, endian=src.endian)
        elif how == 'ilshift': src <<= 1
        elif how == 'sort': src.sort()
        elif how == 'pop':
            if n: src.pop()
        elif how == 'insert': src.insert(0, 1)
        elif how == 'fill': src.fill()
        elif how == 'frombytes': src.frombytes(b'\xa5')
        elif how == 'base_xor':
            if len(base): base[k % len(base)] ^= 0xff
        else: raise AssertionError(how)
    elif isinstance(src, bytearray):
        if how == 'xor':
            if n: src[i] ^= 0xff
        elif how == 'zero': src[:] = bytes(n)
        elif how == 'append': src.append(0xa5)
        elif how == 'extend': src.extend(b'\x0f\xf0')
        elif how == 'clear': src.clear()
        elif how == 'reverse': src.reverse()
        elif how == 'delhead': del src[:1]
        elif how == 'setslice': src[:2] = b'\xff'
        elif how == 'insert': src.insert(0, 0x3c)
        elif how == 'pop':
            if n: src.pop()
        elif how == 'imul':
            if n <= 16: src *= 2
        else: raise AssertionError(how)
    elif isinstance(src, memoryview):
        if how == 'mv_setitem':
            if n: src[i] = src[i] ^ 0xff
        elif how == 'mv_setslice':
            m = min(n, 2); src[:m] = bytes([0x99] * m)
        elif how == 'base_xor':
            if len(base): base[k % len(base)] ^= 0xff
        elif how == 'base_setitem':
            if len(base): base[k % len(base)] = 2.5 if base.typecode in 'fd' else 1 if base[k % len(base)] != 1 else 0
        else: raise AssertionError(how)
    elif isinstance(src, array.array):
        v = 2.5 if src.typecode in 'fd' else 1
        if how == 'setitem':
            if n: src[i] = v if src[i] != v else 0
        elif how == 'append': src.append(v)
        elif how == 'reverse': src.reverse()
        elif how == 'byteswap': src.byteswap()
        elif how == 'pop':
            if n: src.pop()
        elif how == 'extend': src.extend([v, v])
        elif how == 'clear': del src[:]
        elif how == 'imul':
            if n <= 8: src *= 2
        else: raise AssertionError(how)
    elif hasattr(src, 'getvalue'):
        if how == 'write0': src.seek(0); src.write(b'\xff')
        elif how == 'truncate': src.truncate(k % (n + 1))
        elif how == 'write_end': src.seek(0, 2); src.write(b'\x0f')
        elif how == 'seek': src.seek(k % (n + 1))
        elif how == 'buffer_xor':
            if n:
                with src.getbuffer() as m: m[i] ^= 0xff
        elif how == 'read': src.read(1)
        else: raise AssertionError(how)
    else:
        if how == 'flip':
            if n: src[i] = 0 if src[i] else 1
        elif how == 'append': src.append(1)
        elif how == 'reverse': src.reverse()
        elif how == 'clear': src.clear()
        elif how == 'delhead': del src[:k % 3]
        elif how == 'extend': src.extend([1, 0, 'x'])
        elif how == 'setslice': src[:2] = [1]
        else: raise AssertionError(how)

def ext_newcls(cls, route):
    """class of the object a route makes"""
    if route in ('pack', 'packbytes'): return 'BitStream'
    if route in ('build', 'buildbytes'): return 'Bits'
    if route in ('array', 'array_tc'): return 'BitArray'
    if route in ('append', 'prepend', 'iadd', 'setslice', 'setter_bytes', 'setter_bits', 'insert') and cls not in MUTABLE: return {'Bits': 'BitArray', 'ConstBitStream': 'BitStream'}[cls]
    return cls

def do_from_ext(st):
    import bitstring, array
    from bitstring import Bits, BitArray, Dtype, Array, pack
    src, base, origin = ext_source(st)
    objs, keep = [], []        # keep: (hash, bits) of an immutable object when it was made
    def add(o):
        objs.append(o)
        keep.append(None if isinstance(o, BitArray) else (hash(o), o.bin))
    if origin is not None: add(origin)
    snaps = []
    def snap(tag, extra=None):
        row = []
        for o, kp in zip(objs, keep):
            row.append([type(o).__name__, o.bin, None if kp is None else hash(o) == kp[0], None if kp is None else bool(o == Bits(bin=kp[1]))])
        snaps.append([tag, ext_spell(src), row, extra])
    snap('start')
    for ev in st['events']:
        if ev[0] == 'make':
            _, cls, route, a, b = ev
            C = cls_of(cls); M = cls_of(ext_newcls(cls, route))
            n = len(ext_spell(src)); win = ext_window(route, n, a, b)
            def make():
                if route == 'auto': return C(src)
                if route == 'auto_win': return C(src, offset=win[0], length=win[1])
                if route == 'kw_ba': return C(bitarray=src)
                if route == 'kw_ba_win': return C(bitarray=src, offset=win[0], length=win[1])
                if route == 'kw_bytes': return C(bytes=src)
                if route == 'kw_bytes_win': return C(bytes=src, offset=win[0], length=win[1])
                if route == 'bits_kw': return C(bits=src)
                if route == 'add': return C() + src
                if route == 'radd': return src + C()
                if route == 'join': return C().join([src])
                if route == 'pack': return pack('bits', src)
                if route == 'packbytes': return pack('bytes', src)
                if route == 'build': return Dtype('bits').build(src)
                if route == 'buildbytes': return Dtype('bytes').build(src)
                if route == 'array': return Array('uint8', src).data
                if route == 'array_tc':
                    tc = st['tc']; w = 8 * array.array(tc).itemsize
                    return Array(('float' if tc in 'fd' else 'uint' if tc.isupper() else 'int') + ('ne' if w > 8 else '') + str(w), src).data
                o = M()
                if route == 'append': o.append(src)
                elif route == 'prepend': o.prepend(src)
                elif route == 'iadd': o += src
                elif route == 'setslice': o[:] = src
                elif route == 'setter_bytes': o.bytes = src
                elif route == 'setter_bits': o.bits = src
                elif route == 'insert': o.insert(src, 0)
                else: raise AssertionError(route)
                return o
            r = attempt(make)
            if r[0] == 'ok': add(r[1]); snap('made', list(win) if win else None)
            else: snap('refused', r[1])
        elif ev[0] == 'mut_src':
            try: ext_mutate(src, base, ev[1], ev[2]); snap('mut_src')
            except Exception as e: snap('mut_src', f'{type(e).__name__}: {e}'[:80])          # (a change the source itself refuses: nothing happened)
        elif ev[0] == 'resrc':
            if ev[1] < len(objs):
                o = objs[ev[1]]
                src = o.tobitarray() if ev[2] == 'tobitarray' else bytearray(o.tobytes()) if ev[2] == 'bytearray' else memoryview(o.tobytes())
                base = None
            snap('resrc')
        else:
            _, i, how, k, bits = ev
            o = objs[i] if i < len(objs) else None
            if o is None or not isinstance(o, BitArray): snap('skip'); continue
            n = len(o)
            if how == 'invert': o.invert() if n else None
            elif how == 'setall1': o.set(1) if n else None
            elif how == 'setall0': o.set(0) if n else None
            elif how == 'reverse': o.reverse()
            elif how == 'append': o.append(Bits(bin=bits))
            elif how == 'prepend': o.prepend(Bits(bin=bits))
            elif how == 'iadd': o += Bits(bin=bits)
            elif how == 'clear': o.clear()
            elif how == 'delhead': del o[:k % 5]
            elif how == 'setbit':
                if n: o.set(bits[0] == '1', k % n)
            snap('mut_obj')
    return snaps

def model_from_ext(st, snaps, o):
    """every object holds what its source spelled when it was made (the window routes: that window), changed only by what was done to the object itself; -> None or what differs"""
    lsb0 = o['lsb0']
    if not snaps or snaps[0][0] != 'start': return f"no start snapshot: {str(snaps)[:100]}"
    head = f"source '{st['kind']}'" + (f" {st.get('tc')}{st.get('vals')}" if 'vals' in st else f" holding {st.get('bits', st.get('data'))!r}")
    model = []          # [class, bits]
    if st['kind'].startswith('tba_'):
        if len(snaps[0][2]) != 1: return f"{head}: no origin object"
        model.append([snaps[0][2][0][0], st['bits'], 'origin of tobitarray()'])
        if snaps[0][1] != st['bits']: return f"{head}: tobitarray() of the object holding {st['bits']!r} gives {snaps[0][1]!r}"
    hist = ['start']
    def compare(i):
        t = snaps[i]
        if len(t[2]) != len(model): return f"{head}, after {hist}: {len(t[2])} objects, expected {len(model)}"
        for j, ((cn, bits, via), row) in enumerate(zip(model, t[2])):
            what = f"{head}: after the event {hist[-1]} object #{j} (a {row[0]} made from the source via '{via}')"
            tail = f" | events so far: {hist}"
            if row[1] != bits: return f"{what} holds {row[1]!r}; the bits the source spelled at the time of that call, with what was done to this object itself since, are {bits!r}" + tail
            if row[2] is False: return f"{what} has another hash than when it was made" + tail
            if row[3] is False: return f"{what} no longer equals a bitstring of the bits it was made with" + tail
        return None
    m = compare(0)
    if m: return m
    for i, ev in enumerate(st['events'], start=1):
        if i >= len(snaps): return f"{head}: missing snapshot {i}"
        t = snaps[i]; prev = snaps[i - 1][1]
        hist.append(ev[:3] if ev[0] != 'mut_obj' else ev[:3])
        if ev[0] == 'make':
            _, cls, route, a, b = ev
            if t[0] != 'made': return f"{head}, events {hist}: {cls} from the source (spelling {prev!r}) via '{route}' raised {t[3]}"
            win = ext_window(route, len(prev), a, b)
            bits = prev[win[0]:win[0] + win[1]] if win else prev
            model.append([ext_newcls(cls, route), bits, route])
            if t[2] and t[2][-1][0] != ext_newcls(cls, route): return f"{head}, events {hist}: '{route}' made a {t[2][-1][0]}, expected a {ext_newcls(cls, route)}"
        elif ev[0] == 'mut_obj':
            _, j, how, k, x = ev
            if j < len(model) and model[j][0] in MUTABLE:
                if t[0] != 'mut_obj': return f"{head}, events {hist}: expected a change of object #{j}, got {t[0]}"
                bits = model[j][1]; n = len(bits)
                if how == 'invert': bits = ''.join('1' if ch == '0' else '0' for ch in bits)
                elif how == 'setall1': bits = '1' * n
                elif how == 'setall0': bits = '0' * n
                elif how == 'reverse': bits = bits[::-1]
                elif how in ('append', 'iadd'): bits = x + bits if lsb0 else bits + x
                elif how == 'prepend': bits = bits + x if lsb0 else x + bits
                elif how == 'clear': bits = ''
                elif how == 'delhead': bits = bits[:max(n - k % 5, 0)] if lsb0 else bits[k % 5:]
                elif how == 'setbit' and n:
                    p = n - 1 - k % n if lsb0 else k % n
                    bits = bits[:p] + x[0] + bits[p + 1:]
                model[j][1] = bits
            elif t[0] != 'skip': return f"{head}, events {hist}: expected a skipped event, got {t[0]}"
        # the source itself is changed by its owner only: by 'mut_src' events (whatever it spells afterwards is taken as it is), never by a construction or by a change of a constructed object
        if ev[0] in ('make', 'mut_obj') and t[1] != prev:
            return f"{head}, events {hist}: the source (the caller's argument) spelled {prev!r} before this event and spells {t[1]!r} after it - only bitstrings made from it were touched"
        m = compare(i)
        if m: return m
    return None

_KEEP = {}      # objects that survive from one call of a history to a later one (their use must not depend on what happened in between)

def set_opts(o):
    import bitstring
    bitstring.options.lsb0 = o['lsb0']; bitstring.options.bytealigned = o['bytealigned']
    bitstring.options.mxfp_overflow = 'overflow' if o['mxfp_overflow'] else 'saturate'
    if 'no_color' in o: bitstring.options.no_color = o['no_color']

def read_opts(raw=None):
    """the option values in force, in the form of the `opts` dictionaries"""
    import bitstring
    g = (lambda n: getattr(bitstring.options, n)) if raw is None else (lambda n: raw[n].fget(bitstring.options) if n in raw else getattr(bitstring.options, n))
    return {'lsb0': g('lsb0'), 'bytealigned': g('bytealigned'), 'mxfp_overflow': {'saturate': False, 'overflow': True}.get(g('mxfp_overflow'), g('mxfp_overflow')), 'no_color': g('no_color')}

def bound_methods():
    """which functions the numbering-dependent attributes are bound to right now (what set_lsb0 swaps): names only"""
    import bitstring
    out = []
    for C in (bitstring.Bits, bitstring.BitArray, bitstring.bitstore.BitStore):
        for a in ('_find', '_rfind', '_findall', '_ror', '_rol', '_append', '_prepend', '__setitem__', '__delitem__', 'getindex', 'getslice', 'getslice_withstep', 'invert'):
            f = vars(C).get(a)
            if f is not None: out.append(f"{C.__name__}.{a}={getattr(f, '__name__', '?')}")
    return out

def run_impl(c):
    import bitstring
    no_color0 = bitstring.options.no_color
    try:
        return run_impl_(c, no_color0)
    finally:
        bitstring.options.no_color = no_color0         # (reset_options() of the driver knows the other three)

def run_impl_(c, no_color0):
    import bitstring
    clear_caches()
    opts = {'lsb0': False, 'bytealigned': False, 'mxfp_overflow': False, 'no_color': bool(no_color0)}
    set_opts(opts)
    binding = {False: bound_methods()}        # lsb0 value -> the method bindings seen when the program itself set that value
    warm, snaps = [], []
    diffs0 = []
    # log option reads during each call
    reads_log = set()
    O = type(bitstring.options)
    saved = {}
    def wrap(name):
        prop = getattr(O, name); saved[name] = prop
        def getter(self, _p=prop, _n=name):
            reads_log.add(_n); return _p.fget(self)
        setattr(O, name, property(getter, prop.fset))
    for n in ('lsb0', 'bytealigned', 'mxfp_overflow'): wrap(n)
    try:
        for st in c['steps']:
            if st['op'] == 'set':
                opts[st['opt']] = st['v']; set_opts(opts); warm.append(('ok', None)); snaps.append(dict(opts))
                binding.setdefault(opts['lsb0'], bound_methods()); continue
            warm.append(attempt(lambda: do_call(st), 20 if st['op'] in ('from_obj', 'purecall', 'from_array', 'from_ext') else 5)); snaps.append(dict(opts))
            w = warm[-1]
            # no call of a history (other than the program's own assignments to bitstring.options) may leave other option values, or other method bindings, behind
            now = read_opts(saved)
            if now != opts or (opts['lsb0'] in binding and bound_methods() != binding[opts['lsb0']]):
                if len(diffs0) < 3:
                    what = (f"the option values in force after the call are {now}, the program had set {opts} and did not touch them" if now != opts else
                            f"the option values still read {now} but the numbering-dependent methods are bound differently than when the program set lsb0={opts['lsb0']}: "
                            f"{sorted(set(bound_methods()) ^ set(binding[opts['lsb0']]))}")
                    diffs0.append([len(warm) - 1, st, list(w), ['reference', what], dict(opts)])
                set_opts(opts)           # put them back, so that each further report is about its own call
            if st['op'] == 'from_obj' and len(diffs0) < 3:
                m = model_from_obj(st, w[1], opts) if w[0] == 'ok' else f"the step raised {w[1]}"
                if m: diffs0.append([len(warm) - 1, st, list(w), ['reference', m], dict(opts)])
            if st['op'] == 'from_array' and len(diffs0) < 3:
                m = model_from_array(st, w[1]) if w[0] == 'ok' else f"the step raised {w[1]}"
                if m: diffs0.append([len(warm) - 1, st, list(w), ['reference', m], dict(opts)])
            if st['op'] == 'from_ext' and len(diffs0) < 3:
                m = model_from_ext(st, w[1], opts) if w[0] == 'ok' else f"the step raised {w[1]}"
                if m: diffs0.append([len(warm) - 1, st, list(w), ['reference', m], dict(opts)])
            if st['op'] == 'nest' and len(diffs0) < 3:
                m = model_nest(st, w, opts)
                if m: diffs0.append([len(warm) - 1, st, list(w), ['reference', m], dict(opts)])
            if st['op'] == 'refused' and len(diffs0) < 3 and (w[0] != 'err' or w[1] == 'OutOfFuel'):
                what = repr(refused_string(st))[:160] + " via '" + st['how'] + "'" if 'call' not in st else st['call']
                diffs0.append([len(warm) - 1, dict(st, bad=st.get('bad', '')[:40]), list(w), ['reference', f"the call {what} ({st['cls']}) has to be refused (malformed token / value that does not fit / over-deep nesting); it gave {str(w)[:120]}"], dict(opts)])
            if st['op'] == 'optprobe' and len(diffs0) < 3:
                e = model_optprobe(st, opts)
                bad = (w[0] != 'err' or w[1] not in e[1]) if e[0] == 'err' else (w[0] != 'ok' or w[1] != e[1])
                if bad: diffs0.append([len(warm) - 1, st, list(w), ['reference', f"under the option values the program set, the documented outcome is {e}"], dict(opts)])
            if st['op'] == 'str_radd' and w[0] == 'ok' and w[1][1] != w[1][2] and len(diffs0) < 3:
                # the sum of a literal and an empty object holds the literal's bits; parsing the literal again after the sum was mutated must still give them
                diffs0.append([len(warm) - 1, st, list(w), ['ok', [w[1][0], w[1][1], w[1][1]]], dict(opts)])
    finally:
        for n, p in saved.items(): setattr(O, n, p)
    cold = []
    diffs = list(diffs0)
    for i, (st, o) in enumerate(zip(c['steps'], snaps)):
        if st['op'] == 'set': continue
        clear_caches(); set_opts(o)
        r = attempt(lambda: do_call(st))
        if tuple(r) != tuple(warm[i]) and len(diffs) < 5: diffs.append([i, st, list(warm[i]), list(r), o])
    # the same calls in the opposite order in a FRESH interpreter (each under the option values it had here): a result that depends on the
    # calls made before it - through any memo, also one that clear_caches() cannot see - differs between the two orders
    import subprocess
    payload = json.dumps([[i, st, o] for i, (st, o) in enumerate(zip(c['steps'], snaps)) if st['op'] != 'set'][::-1])
    try:
        pr = subprocess.run([sys.executable, '-c', 'import sys, json; sys.path.insert(0, %r); sys.path.insert(0, %r); from props import c09; print(json.dumps(c09.replay(json.load(sys.stdin))))'
                             % (os.path.join(VERIF, 'tools'), REPO)], input=payload, capture_output=True, text=True, timeout=600, env=dict(os.environ, PYTHONHASHSEED='0', VERIF_REPO=REPO))
        other = {i: r for i, r in json.loads(pr.stdout.strip().splitlines()[-1])} if pr.returncode == 0 else None
    except Exception as e:
        other = None
    if other is None:
        diffs.append([-1, {'op': 'replay in a fresh interpreter failed'}, [], [pr.stderr[-300:] if 'pr' in dir() else ''], {}])
    else:
        for i, (st, o) in enumerate(zip(c['steps'], snaps)):
            if st['op'] == 'set': continue
            if json.loads(json.dumps(list(warm[i]))) != other.get(i) and len(diffs) < 5:
                diffs.append([i, st, list(warm[i]), ['in the opposite order, fresh interpreter:'] + (other.get(i) or []), o])
    ndist = {k: len({json.dumps(s.get(kk)) for s in c['steps'] if s['op'] == k}) for k, kk in (('str', 's'), ('fmt', 'f'), ('dtype', 'd'))}
    return ('ok', {'calls': len(c['steps']), 'diffs': diffs, 'distinct_keys': ndist, 'option_reads_seen': sorted(reads_log)})

def replay(items):
    """run [index, step, options] items in the given order; -> [[index, result]]"""
    import bitstring
    out = []
    nc = bitstring.options.no_color
    for i, st, o in items:
        set_opts(o)
        try: out.append([i, list(attempt(lambda: do_call(st), 20))])
        finally: reset_options(); bitstring.options.no_color = nc
    return out

def oracle(c, obs):
    if obs[0] != 'ok': return f"history raised {obs}"
    if obs[1]['diffs']:
        i, st, w, r, o = obs[1]['diffs'][0]
        if r and r[0] == 'reference' and st.get('op') in ('from_ext', 'nest', 'refused'): return f"call #{i} ({st['op']}) under options {o}: {r[1][:1200]} | step: {str(st)[:500]}"
        if r and r[0] == 'reference': return f"call #{i} {str(st)[:600]} under options {o}: {r[1]} (observed: {str(w)[:300]})"
        return f"call #{i} {st} under options {o}: warm interpreter gave {str(w)[:200]}, the same call on cold caches gives {str(r)[:200]}"
    return None

def nontrivial(c, obs): return True
def evals(cases, observed): return sum(o[1]['calls'] for o in observed if o[0] == 'ok')
def classify(c, obs): return None
def coq_check(c, obs): return None

def search(seeds, rng):
    for c in list(seeds) + list(gen_cases(rng, 'quick')):
        try: obs = run_impl(c)
        finally: reset_options()
        msg = oracle(c, obs)
        if msg: return c, obs, msg
    return None
