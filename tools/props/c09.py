"""C09 — construction and parsing are pure: results never depend on call history."""
from vlib import *
from props.common import *
from gen import callgraph, options as genoptions

ID = 'C09'
COQ_PROPS = ['Props/C09.v']
COQ_IMPORTS = ['Prims', 'CaseLib', 'Memo']
RULE = ('interleavings of (construct from token string | parse format | create Dtype (int and float scales) | pack | mutate or derive from an earlier result | set lsb0, bytealigned or mxfp_overflow) '
        'over more than 256 distinct keys per history so that every LRU cache evicts; each call is compared with the same call made after clearing every cache, under the option values in force at that '
        'point; option reads during cached calls are logged and must be inside the statically computed read set. non-trivial = a call repeated after an option change or an eviction; distinct by history')
TRUSTED_BASE = ['translator tools/gen/callgraph.py (over-approximating static call graph; its read sets are validated dynamically on every run) and tools/gen/options.py']
ASSUMPTIONS = ['functools.lru_cache returns a stored value only for an equal key (modelled as an association list with arbitrary eviction)']

BRIDGE = '''From Coq Require Import List String Bool. Import ListNotations.
From BS Require Import Memo.
From Gen Require Import GenCaches GenOptions.
Open Scope string_scope.
Definition subset (a b : list string) : bool := forallb (fun x => existsb (String.eqb x) b) a.
(* every option that can be read below an lru_cache'd function is part of its cache key *)
Theorem cache_keys_cover_option_reads :
  forallb (fun f => subset (snd f) (snd (fst f))) cached_functions = true.
Proof. vm_compute. reflexivity. Qed.
(* the two tables of set_lsb0 bind exactly the same (class, attribute) pairs, without duplicates *)
Theorem tables_same_keys : same_keys gen_lsb0_methods gen_msb0_methods = true.
Proof. vm_compute. reflexivity. Qed.
Theorem tables_nodup : NoDup (map row_key gen_lsb0_methods) /\\ NoDup (map row_key gen_msb0_methods).
Proof. split; repeat constructor; cbn; intuition discriminate. Qed.
(* ... and are the dispatch the model uses (BitsCore / Mutators / Search select on `lsb0` exactly like this) *)
Definition model_lsb0_methods : mtable := [
  ("Bits", "_find", "_find_lsb0"); ("Bits", "_rfind", "_rfind_lsb0"); ("Bits", "_findall", "_findall_lsb0");
  ("BitArray", "_ror", "_rol_msb0"); ("BitArray", "_rol", "_ror_msb0"); ("BitArray", "_append", "_append_lsb0"); ("BitArray", "_prepend", "_append_msb0");
  ("BitStore", "__setitem__", "setitem_lsb0"); ("BitStore", "__delitem__", "delitem_lsb0"); ("BitStore", "getindex", "getindex_lsb0");
  ("BitStore", "getslice", "getslice_lsb0"); ("BitStore", "getslice_withstep", "getslice_withstep_lsb0"); ("BitStore", "invert", "invert_lsb0")].
Definition model_msb0_methods : mtable := [
  ("Bits", "_find", "_find_msb0"); ("Bits", "_rfind", "_rfind_msb0"); ("Bits", "_findall", "_findall_msb0");
  ("BitArray", "_ror", "_ror_msb0"); ("BitArray", "_rol", "_rol_msb0"); ("BitArray", "_append", "_append_msb0"); ("BitArray", "_prepend", "_append_lsb0");
  ("BitStore", "__setitem__", "setitem_msb0"); ("BitStore", "__delitem__", "delitem_msb0"); ("BitStore", "getindex", "getindex_msb0");
  ("BitStore", "getslice", "getslice_msb0"); ("BitStore", "getslice_withstep", "getslice_withstep_msb0"); ("BitStore", "invert", "invert_msb0")].
Theorem tables_as_modelled : gen_lsb0_methods = model_lsb0_methods /\\ gen_msb0_methods = model_msb0_methods.
Proof. split; reflexivity. Qed.
(* hence: after ANY history of set_lsb0 calls, set_lsb0(b) leaves every patched attribute bound as table b says *)
Theorem toggle_restores_generated : forall history st r,
  (In r gen_lsb0_methods -> binding (apply_table (fold_left apply_table history st) gen_lsb0_methods) (row_key r) = Some (snd r)) /\\
  (In r gen_msb0_methods -> binding (apply_table (fold_left apply_table history st) gen_msb0_methods) (row_key r) = Some (snd r)).
Proof. intros. split; intros H; apply toggle_restores; auto; apply tables_nodup. Qed.
Print Assumptions cache_keys_cover_option_reads.
Print Assumptions toggle_restores_generated.
'''

_static = {}
def generate(out):
    t1, res = callgraph.emit(REPO)
    t2, tables = genoptions.emit(REPO)
    _static['reads'] = {r['name'].split('.')[-1]: set(r['reads']) for r in res}
    _static['funcs'] = res
    info = gen_build([('GenCaches', t1), ('GenOptions', t2)], [('BridgeC09', BRIDGE)])
    info['functions'] = [r['name'] for r in res]
    info['data'] = {'cached_functions': res, 'lsb0_rows': len(tables['lsb0_methods'])}
    return info

TOKENS = ['uint:{n}={v}', 'int:{n}=-{v}', 'hex={h}', 'bin={b}', '0x{h}', '0b{b}', 'e4m3mxfp={f}', 'e5m2mxfp={f}', 'ue={v}', 'se=-{v}', 'uie={v}', 'float:32={f}', 'p4binary={f}', 'bool=1', 'pad:{n}']
FORMATS = ['uint:{n}, hex:8', '2*(uint:{n}, bin:3)', '{n}*uint:5', '>{n}h', '<hb{n}B', 'bits:{n}, ue, se', 'int:{n}, pad:3, bytes:2', 'hex:{m}']

def gen_cases(rng, tier):
    H = 2 if tier == 'quick' else 10
    for h in range(H):
        steps = []
        K = 330 if tier == 'quick' else 700
        pool_s, pool_f, pool_d = [], [], []
        for i in range(K):
            n = rng.randrange(1, 60); v = rng.randrange(0, 1 << min(n, 20))
            pool_s.append(rng.choice(TOKENS).format(n=max(n, 21), v=v, h=format(v, 'x'), b=format(v, 'b'), f=rng.choice([0.5, 1000.0, 448.0, 1e6, -3.0, 60000.0])))
            pool_f.append(rng.choice(FORMATS).format(n=n, m=4 * (n % 7 + 1)))
            pool_d.append([rng.choice(['uint', 'int', 'float', 'hex', 'bits', 'e3m2mxfp', 'bytes', 'uintle']), rng.choice([None, 8, 16, 24, 32, 64, n]), rng.choice([None, None, 2, 2.0, 0.5, 4])])
        for i in range(K * 2):
            r = rng.random()
            if r < 0.06: steps.append({'op': 'set', 'opt': rng.choice(['lsb0', 'bytealigned', 'mxfp_overflow']), 'v': rng.random() < 0.5})
            elif r < 0.45: steps.append({'op': 'str', 's': rng.choice(pool_s) if rng.random() < 0.8 else pool_s[i % K], 'cls': rng.choice(CLASSES), 'mutate': rng.random() < 0.3})
            elif r < 0.65: steps.append({'op': 'fmt', 'f': rng.choice(pool_f)})
            elif r < 0.85: steps.append({'op': 'dtype', 'd': rng.choice(pool_d)})
            elif r < 0.885: steps.append({'op': 'pack', 'f': rng.choice(['uint:8, hex', 'e4m3mxfp, uint:4', 'ue, se', 'float:32']), 'v': rng.choice([1, 300, 500.0])})
            elif r < 0.905:
                # a cached literal as the LEFT operand of + with an empty object: the sum must own its store (it is mutated afterwards)
                steps.append({'op': 'str_radd', 's': rng.choice(pool_s) if rng.random() < 0.7 else pool_s[i % K], 'cls': rng.choice(CLASSES), 'how': rng.choice(['radd_empty', 'radd_empty', 'add_empty', 'join', 'pack_bits'])})
            elif r < 0.93:
                # auto-scaled Arrays of the small float formats: the lazily built table of largest values must not remember the mxfp_overflow of its first use
                steps.append({'op': 'autoscale', 'fmt': rng.choice(['e4m3mxfp', 'e5m2mxfp', 'e4m3mxfp', 'e5m2mxfp', 'e3m2mxfp', 'e2m3mxfp', 'e2m1mxfp', 'p4binary', 'p3binary', 'mxint', 'float16', 'bfloat']),
                              'vals': rng.choice([[0.0, 96.0, 256.0, -144.0], [1e-3, 2e-3], [1e5, -3e5, 7.0], [0.5]])})
            elif r < 0.945:
                # list formats (each item is parsed, and cached, on its own) mixed with the same items used alone, and unpack / readlist
                items = ['uint:8', 'hex:8', 'int:4=-3', 'oct:6=17', 'bin:3', 'uint:w', '2*uint:4']
                k = rng.choice([1, 1, 2, 3])
                steps.append({'op': 'packlist', 'f': [rng.choice(items) for _ in range(k)], 'how': rng.choice(['pack', 'pack', 'unpack', 'readlist'])})
            elif r < 0.965:
                # the same format text and keyword NAMES with other keyword VALUES (a memo keyed on the names would reuse the first lengths)
                f = rng.choice(['uint:n, bin', 'pad:a, bytes:b', 'hex:n, uint:m', 'int:n', 'bits:n, bits:m, bin', '2*uint:n'])
                steps.append({'op': 'kwfmt', 'f': f, 'kw': {k: rng.choice([4, 8, 12, 16]) if k != 'b' else rng.choice([1, 2]) for k in ('n', 'm', 'a', 'b') if (k + ',' in f + ',' or ':' + k in f)},
                              'how': rng.choice(['unpack', 'readlist', 'peeklist', 'pack', 'unpack'])})
            elif r < 0.985:
                # values that compare equal but encode differently (0.0 / -0.0 / 0 / False, 1 / 1.0 / True), each format, each route, in every order
                steps.append({'op': 'floatval', 'name': rng.choice(['float', 'floatle', 'floatbe', 'floatne', 'bfloat', 'bfloatle', 'e4m3mxfp', 'e5m2mxfp', 'p4binary', 'p3binary', 'e2m1mxfp', 'mxint']),
                              'n': rng.choice([16, 32, 64]), 'v': rng.choice(['0.0', '-0.0', '0', 'False', '1', '1.0', 'True', '-1.0']), 'route': rng.choice(['kw', 'token', 'pack', 'build', 'array', 'setattr'])})
            elif r < 0.9875: steps.append({'op': 'dtype_flush', 'base': rng.choice(['uint', 'int', 'bits', 'bin']), 'k': 300})       # more distinct Dtypes than any cache holds
            elif r < 0.992: steps.append({'op': 'array_again', 'd': rng.choice(['uint8', 'int16', 'float32', 'hex4', 'uint8'])})   # Arrays of one dtype made before and after other calls
            elif r < 0.995: steps.append({'op': 'dtype_from_dtype', 'd': rng.choice(['uint8', 'int16', 'float32', 'uint']), 'scale': rng.choice([None, 4, 0.5]), 'length': rng.choice([None, 8])})
            else: steps.append({'op': 'find', 'bits': rand_bits(rng, 24), 'pat': rand_bits(rng, 8)})
        if h == 0:
            # first use of every lazily initialised table under the NON-default option values, then the default ones again
            pre = [{'op': 'set', 'opt': 'mxfp_overflow', 'v': True}, {'op': 'set', 'opt': 'lsb0', 'v': True}, {'op': 'set', 'opt': 'bytealigned', 'v': True},
                   {'op': 'autoscale', 'fmt': 'e3m2mxfp', 'vals': [0.0, 96.0, 256.0, -144.0]},
                   {'op': 'str', 's': 'e4m3mxfp=1000.0', 'cls': 'Bits', 'mutate': False}, {'op': 'dtype', 'd': ['e5m2mxfp', None, None]},
                   {'op': 'find', 'bits': '000000001111000011110000', 'pat': '11110000'},
                   {'op': 'set', 'opt': 'mxfp_overflow', 'v': False}, {'op': 'set', 'opt': 'lsb0', 'v': False}, {'op': 'set', 'opt': 'bytealigned', 'v': False},
                   {'op': 'autoscale', 'fmt': 'e4m3mxfp', 'vals': [0.0, 96.0, 256.0, -144.0]}, {'op': 'autoscale', 'fmt': 'e5m2mxfp', 'vals': [0.0, 96.0, 256.0, -144.0]},
                   {'op': 'str', 's': 'e4m3mxfp=1000.0', 'cls': 'Bits', 'mutate': False}, {'op': 'find', 'bits': '000000001111000011110000', 'pat': '11110000'}]
            steps = pre + steps
        yield {'op': 'history', 'steps': steps}

def kind(c): return 'history'

def do_call(st):
    """one call; canonical result"""
    import bitstring
    from bitstring import Bits, Dtype, pack
    op = st['op']
    if op == 'str':
        o = cls_of(st['cls'])(st['s'])
        r = [type(o).__name__, o.bin]
        if st['mutate'] and isinstance(o, bitstring.BitArray):
            o.append('0b1'); o.invert()
        return r
    if op == 'fmt':
        return [bitstring.utils.preprocess_tokens(st['f']), str(bitstring.utils.tokenparser(st['f']))]
    if op == 'dtype':
        name, ln, sc = st['d']
        d = Dtype(name, ln, scale=sc) if ln is not None else Dtype(name, scale=sc)
        out = [str(d), d.bitlength, repr(d.scale)]
        if d.bitlength and d.bitlength <= 64:
            v = d.parse(Bits(uint=(1 << (d.bitlength - 1)) | 5, length=d.bitlength) if d.bitlength > 3 else Bits(d.bitlength))
            out.append(v.hex() if isinstance(v, float) else repr(v))
        return out
    if op == 'pack':
        n = st['f'].count(',') + 1
        return pack(st['f'], *([st['v']] * n)).bin
    if op == 'str_radd':
        C = cls_of(st['cls'])
        if st['how'] == 'radd_empty': o = st['s'] + C()
        elif st['how'] == 'add_empty': o = C() + st['s']
        elif st['how'] == 'join': o = C().join([st['s']])
        else: o = pack('bits', st['s'])
        r = [type(o).__name__, o.bin]
        if isinstance(o, bitstring.BitArray):
            o.append('0b1'); o.invert(); o.prepend('0b0')
        return r + [Bits(st['s']).bin]
    if op == 'autoscale':
        from bitstring import Array
        a = Array(Dtype(st['fmt'], scale='auto'), st['vals'])
        return [repr(a.dtype.scale), [x.hex() if isinstance(x, float) and x == x else repr(x) for x in a.tolist()]]
    if op == 'packlist':
        f = st['f']; fmt = f if len(f) > 1 else f[0]
        if st['how'] == 'pack':
            vals = []
            for it in f:
                if '=' in it: continue
                vals += {'uint:8': [7], 'hex:8': ['a5'], 'bin:3': ['101'], 'uint:w': [9], '2*uint:4': [1, 2]}[it]
            return pack(fmt, *vals, w=8).bin
        f2 = [it.split('=')[0].replace('uint:w', 'uint:8') for it in f]
        fmt = f2 if len(f2) > 1 else f2[0]
        data = bitstring.ConstBitStream(bin='1011001110001111' * 8)
        return [repr(x) for x in (data.unpack(fmt) if st['how'] == 'unpack' else data.readlist(fmt))]
    if op == 'find':
        return list(Bits(bin=st['bits'] + st['pat'] + '0000').find(Bits(bin=st['pat'])))
    if op == 'dtype_flush':
        return len({str(Dtype(st['base'], k)) for k in range(1, st['k'] + 1)})
    if op == 'array_again':
        from bitstring import Array
        vals = {'uint8': [1, 2], 'int16': [-1, 2], 'float32': [0.5, 2.0], 'hex4': ['a', 'b']}[st['d']]
        a = Array(st['d'], vals); b = _KEEP.get(st['d']) or Array(st['d'], vals[:1])        # b: an Array of the same dtype made by an EARLIER call, when there was one
        _KEEP[st['d']] = Array(st['d'], vals[:1])
        out = []
        for name, fn in (('extend', lambda: (a.extend(b), a.tolist())[1]), ('from_array', lambda: Array(st['d'], b).tolist()), ('eq', lambda: (a == a).tolist()), ('add', lambda: str((b + b).dtype)),
                         ('dtype', lambda: [str(a.dtype), a.dtype.bitlength, repr(a.dtype.scale)])):
            out.append([name, list(attempt(fn))])
        return [[n, [r[0], [x.hex() if isinstance(x, float) else x for x in r[1]] if isinstance(r[1], list) else r[1]]] for n, r in out]
    if op == 'dtype_from_dtype':
        base = Dtype(st['d'])
        kw = {} if st['scale'] is None else {'scale': st['scale']}
        r = attempt(lambda: Dtype(base, st['length'], **kw) if st['length'] is not None else Dtype(base, **kw))
        again = Dtype(st['d'])
        return [r[0], str(r[1]) if r[0] == 'ok' else r[1], str(again), repr(again.scale), again.bitlength]
    if op == 'kwfmt':
        data = bitstring.ConstBitStream(bin='1011001110001111' * 8)
        kw = st['kw']
        if st['how'] == 'pack':
            toks = [t.strip() for t in st['f'].replace('2*uint:n', 'uint:n, uint:n').split(',')]
            vals = []
            for t in toks:
                nm = t.split(':')[0]
                ln = kw.get(t.split(':')[1]) if ':' in t else 4
                if nm == 'pad': continue
                vals.append({'uint': 1, 'int': -1, 'bin': '0110', 'hex': 'a' * ((ln or 4) // 4), 'bits': '0b' + '10' * ((ln or 4) // 2), 'bytes': b'x' * (ln or 1)}[nm])
            return ['pack', list(attempt(lambda: pack(st['f'], *vals, **kw).bin))]
        fn = {'unpack': data.unpack, 'readlist': data.readlist, 'peeklist': data.peeklist}[st['how']]
        return [st['how'], [repr(x) for x in fn(st['f'], **kw)], data.pos]
    if op == 'floatval':
        from bitstring import Array, BitArray
        v = {'0.0': 0.0, '-0.0': -0.0, '0': 0, 'False': False, '1': 1, '1.0': 1.0, 'True': True, '-1.0': -1.0}[st['v']]
        name = st['name']; n = st['n'] if name.startswith('float') else None
        tok = name if n is None else f'{name}:{n}'
        r = st['route']
        if r == 'kw': o = Bits(**({name: v} if n is None else {name: v, 'length': n}))
        elif r == 'token': o = Bits(f'{tok}={float(v)!r}')
        elif r == 'pack': o = pack(tok, v)
        elif r == 'build': o = (Dtype(name, n) if n is not None else Dtype(name)).build(v)
        elif r == 'array': o = Array(tok.replace(':', ''), [v, 0.0, -0.0]).data
        else:
            o = BitArray(); setattr(o, tok.replace(':', ''), v)
        return o.bin

_KEEP = {}      # objects that survive from one call of a history to a later one (their use must not depend on what happened in between)

def set_opts(o):
    import bitstring
    bitstring.options.lsb0 = o['lsb0']; bitstring.options.bytealigned = o['bytealigned']
    bitstring.options.mxfp_overflow = 'overflow' if o['mxfp_overflow'] else 'saturate'

def run_impl(c):
    import bitstring
    clear_caches()
    opts = {'lsb0': False, 'bytealigned': False, 'mxfp_overflow': False}
    warm, snaps = [], []
    diffs0 = []
    # log option reads during each call
    reads_log = set()
    O = type(bitstring.options)
    saved = {}
    def wrap(name):
        prop = getattr(O, name); saved[name] = prop
        def getter(self, _p=prop, _n=name):
            reads_log.add(_n); return _p.fget(self)
        setattr(O, name, property(getter, prop.fset))
    for n in ('lsb0', 'bytealigned', 'mxfp_overflow'): wrap(n)
    try:
        for st in c['steps']:
            if st['op'] == 'set':
                opts[st['opt']] = st['v']; set_opts(opts); warm.append(('ok', None)); snaps.append(dict(opts)); continue
            warm.append(attempt(lambda: do_call(st))); snaps.append(dict(opts))
            w = warm[-1]
            if st['op'] == 'str_radd' and w[0] == 'ok' and w[1][1] != w[1][2] and len(diffs0) < 3:
                # the sum of a literal and an empty object holds the literal's bits; parsing the literal again after the sum was mutated must still give them
                diffs0.append([len(warm) - 1, st, list(w), ['ok', [w[1][0], w[1][1], w[1][1]]], dict(opts)])
    finally:
        for n, p in saved.items(): setattr(O, n, p)
    cold = []
    diffs = list(diffs0)
    for i, (st, o) in enumerate(zip(c['steps'], snaps)):
        if st['op'] == 'set': continue
        clear_caches(); set_opts(o)
        r = attempt(lambda: do_call(st))
        if tuple(r) != tuple(warm[i]) and len(diffs) < 5: diffs.append([i, st, list(warm[i]), list(r), o])
    # the same calls in the opposite order in a FRESH interpreter (each under the option values it had here): a result that depends on the
    # calls made before it - through any memo, also one that clear_caches() cannot see - differs between the two orders
    import subprocess
    payload = json.dumps([[i, st, o] for i, (st, o) in enumerate(zip(c['steps'], snaps)) if st['op'] != 'set'][::-1])
    try:
        pr = subprocess.run([sys.executable, '-c', 'import sys, json; sys.path.insert(0, %r); sys.path.insert(0, %r); from props import c09; print(json.dumps(c09.replay(json.load(sys.stdin))))'
                             % (os.path.join(VERIF, 'tools'), REPO)], input=payload, capture_output=True, text=True, timeout=600, env=dict(os.environ, PYTHONHASHSEED='0', VERIF_REPO=REPO))
        other = {i: r for i, r in json.loads(pr.stdout.strip().splitlines()[-1])} if pr.returncode == 0 else None
    except Exception as e:
        other = None
    if other is None:
        diffs.append([-1, {'op': 'replay in a fresh interpreter failed'}, [], [pr.stderr[-300:] if 'pr' in dir() else ''], {}])
    else:
        for i, (st, o) in enumerate(zip(c['steps'], snaps)):
            if st['op'] == 'set': continue
            if json.loads(json.dumps(list(warm[i]))) != other.get(i) and len(diffs) < 5:
                diffs.append([i, st, list(warm[i]), ['in the opposite order, fresh interpreter:'] + (other.get(i) or []), o])
    ndist = {k: len({json.dumps(s.get(kk)) for s in c['steps'] if s['op'] == k}) for k, kk in (('str', 's'), ('fmt', 'f'), ('dtype', 'd'))}
    return ('ok', {'calls': len(c['steps']), 'diffs': diffs, 'distinct_keys': ndist, 'option_reads_seen': sorted(reads_log)})

def replay(items):
    """run [index, step, options] items in the given order; -> [[index, result]]"""
    out = []
    for i, st, o in items:
        set_opts(o)
        try: out.append([i, list(attempt(lambda: do_call(st)))])
        finally: reset_options()
    return out

def oracle(c, obs):
    if obs[0] != 'ok': return f"history raised {obs}"
    if obs[1]['diffs']:
        i, st, w, r, o = obs[1]['diffs'][0]
        return f"call #{i} {st} under options {o}: warm interpreter gave {str(w)[:200]}, the same call on cold caches gives {str(r)[:200]}"
    return None

def nontrivial(c, obs): return True
def evals(cases, observed): return sum(o[1]['calls'] for o in observed if o[0] == 'ok')
def classify(c, obs): return None
def coq_check(c, obs): return None

def search(seeds, rng):
    for c in list(seeds) + list(gen_cases(rng, 'quick')):
        try: obs = run_impl(c)
        finally: reset_options()
        msg = oracle(c, obs)
        if msg: return c, obs, msg
    return None
