"""C09 — construction and parsing are pure: results never depend on call history."""
from vlib import *
from props.common import *
from gen import callgraph, options as genoptions

ID = 'C09'
COQ_PROPS = ['Props/C09.v']
COQ_IMPORTS = ['Prims', 'CaseLib', 'Memo']
RULE = ('interleavings of (construct from token string | parse format | create Dtype (int and float scales) | pack | mutate or derive from an earlier result | set lsb0, bytealigned or mxfp_overflow) '
        'over more than 256 distinct keys per history so that every LRU cache evicts; each call is compared with the same call made after clearing every cache, under the option values in force at that '
        'point; objects (and Arrays) made from earlier objects by every constructor spelling and both then used, against the same program on plain strings / lists; calls that have nothing to do with the options '
        '(printing, representations, copies, queries, searches with explicit arguments - accepted and refused) under every option configuration: the option values and the numbering-dependent method bindings must be '
        'what the program set, and constructions that follow the options are compared with their documented outcome; option reads during cached calls are logged and must be inside the statically computed read set. non-trivial = a call repeated after an option change or an eviction; distinct by history')
TRUSTED_BASE = ['translator tools/gen/callgraph.py (over-approximating static call graph; its read sets are validated dynamically on every run) and tools/gen/options.py']
ASSUMPTIONS = ['functools.lru_cache returns a stored value only for an equal key (modelled as an association list with arbitrary eviction)']

BRIDGE = '''From Coq Require Import List String Bool. Import ListNotations.
From BS Require Import Memo.
From Gen Require Import GenCaches GenOptions.
Open Scope string_scope.
Definition subset (a b : list string) : bool := forallb (fun x => existsb (String.eqb x) b) a.
(* every option that can be read below an lru_cache'd function is part of its cache key *)
Theorem cache_keys_cover_option_reads :
  forallb (fun f => subset (snd f) (snd (fst f))) cached_functions = true.
Proof. vm_compute. reflexivity. Qed.
(* the two tables of set_lsb0 bind exactly the same (class, attribute) pairs, without duplicates *)
Theorem tables_same_keys : same_keys gen_lsb0_methods gen_msb0_methods = true.
Proof. vm_compute. reflexivity. Qed.
Theorem tables_nodup : NoDup (map row_key gen_lsb0_methods) /\\ NoDup (map row_key gen_msb0_methods).
Proof. split; repeat constructor; cbn; intuition discriminate. Qed.
(* ... and are the dispatch the model uses (BitsCore / Mutators / Search select on `lsb0` exactly like this) *)
Definition model_lsb0_methods : mtable := [
  ("Bits", "_find", "_find_lsb0"); ("Bits", "_rfind", "_rfind_lsb0"); ("Bits", "_findall", "_findall_lsb0");
  ("BitArray", "_ror", "_rol_msb0"); ("BitArray", "_rol", "_ror_msb0"); ("BitArray", "_append", "_append_lsb0"); ("BitArray", "_prepend", "_append_msb0");
  ("BitStore", "__setitem__", "setitem_lsb0"); ("BitStore", "__delitem__", "delitem_lsb0"); ("BitStore", "getindex", "getindex_lsb0");
  ("BitStore", "getslice", "getslice_lsb0"); ("BitStore", "getslice_withstep", "getslice_withstep_lsb0"); ("BitStore", "invert", "invert_lsb0")].
Definition model_msb0_methods : mtable := [
  ("Bits", "_find", "_find_msb0"); ("Bits", "_rfind", "_rfind_msb0"); ("Bits", "_findall", "_findall_msb0");
  ("BitArray", "_ror", "_ror_msb0"); ("BitArray", "_rol", "_rol_msb0"); ("BitArray", "_append", "_append_msb0"); ("BitArray", "_prepend", "_append_lsb0");
  ("BitStore", "__setitem__", "setitem_msb0"); ("BitStore", "__delitem__", "delitem_msb0"); ("BitStore", "getindex", "getindex_msb0");
  ("BitStore", "getslice", "getslice_msb0"); ("BitStore", "getslice_withstep", "getslice_withstep_msb0"); ("BitStore", "invert", "invert_msb0")].
Theorem tables_as_modelled : gen_lsb0_methods = model_lsb0_methods /\\ gen_msb0_methods = model_msb0_methods.
Proof. split; reflexivity. Qed.
(* hence: after ANY history of set_lsb0 calls, set_lsb0(b) leaves every patched attribute bound as table b says *)
Theorem toggle_restores_generated : forall history st r,
  (In r gen_lsb0_methods -> binding (apply_table (fold_left apply_table history st) gen_lsb0_methods) (row_key r) = Some (snd r)) /\\
  (In r gen_msb0_methods -> binding (apply_table (fold_left apply_table history st) gen_msb0_methods) (row_key r) = Some (snd r)).
Proof. intros. split; intros H; apply toggle_restores; auto; apply tables_nodup. Qed.
Print Assumptions cache_keys_cover_option_reads.
Print Assumptions toggle_restores_generated.
'''

_static = {}
def generate(out):
    t1, res = callgraph.emit(REPO)
    t2, tables = genoptions.emit(REPO)
    _static['reads'] = {r['name'].split('.')[-1]: set(r['reads']) for r in res}
    _static['funcs'] = res
    info = gen_build([('GenCaches', t1), ('GenOptions', t2)], [('BridgeC09', BRIDGE)])
    info['functions'] = [r['name'] for r in res]
    info['data'] = {'cached_functions': res, 'lsb0_rows': len(tables['lsb0_methods'])}
    return info

TOKENS = ['uint:{n}={v}', 'int:{n}=-{v}', 'hex={h}', 'bin={b}', '0x{h}', '0b{b}', 'e4m3mxfp={f}', 'e5m2mxfp={f}', 'ue={v}', 'se=-{v}', 'uie={v}', 'float:32={f}', 'p4binary={f}', 'bool=1', 'pad:{n}']
FORMATS = ['uint:{n}, hex:8', '2*(uint:{n}, bin:3)', '{n}*uint:5', '>{n}h', '<hb{n}B', 'bits:{n}, ue, se', 'int:{n}, pad:3, bytes:2', 'hex:{m}']

# ---------------- objects made from earlier objects, then both used (the result of a construction never depends on, nor interferes with, an earlier result) ----------------
SUBCLASSES = ['SubBits', 'SubBitArray', 'SubConstBitStream', 'SubBitStream']       # user subclasses: the same constructors serve them
ALLCLS = CLASSES + SUBCLASSES
_SUB = {}
def cls_named(name):
    """the four classes, or a trivial user subclass of one of them (made once per interpreter)"""
    if not name.startswith('Sub'): return cls_of(name)
    if name not in _SUB: _SUB[name] = type(name, (cls_of(name[3:]),), {})
    return _SUB[name]
def is_stream(name): return name.endswith('Stream')
def is_mutable(name): return name in ('BitArray', 'BitStream', 'SubBitArray', 'SubBitStream')

CTORS = ['plain', 'plain', 'plain', 'pos', 'pos', 'length', 'offset', 'lenoff', 'bits_kw', 'bits_kw_pos', 'bits_kw_len', 'copy', 'copycopy', 'slice', 'add_empty', 'radd_empty', 'join', 'pack', 'append_to_empty', 'iadd_to_empty', 'setslice']
SRC_ROUTES = ['auto', 'auto', 'auto', 'bin', 'bin', 'bytes', 'iter', 'bitarray', 'slice', 'copy', 'join', 'bytesio', 'file', 'ctor', 'add', 'read']
ACTS = ['read', 'read', 'setpos', 'append', 'prepend', 'invert', 'clear', 'delhead', 'setall', 'reverse', 'iadd', 'again', 'again', 'rebuild', 'chain', 'look']

def gen_from_obj(rng, same_class=None):
    n = rng.choice([0, 1, 7, 8, 9, 16, 17, 32, 33, 64, 128]) if rng.random() < 0.8 else rng.randrange(0, 200)
    src = rng.choice(ALLCLS if rng.random() < 0.3 else CLASSES)
    same = rng.random() < 0.6 if same_class is None else same_class
    dst = src if same else rng.choice(ALLCLS if rng.random() < 0.3 else CLASSES)
    route = rng.choice(SRC_ROUTES)
    if src in SUBCLASSES and route not in ('auto', 'bin', 'ctor', 'add', 'read'): route = rng.choice(['auto', 'bin'])
    st = {'op': 'from_obj', 'src_cls': src, 'dst_cls': dst, 'bits': rand_bits(rng, n), 'route': route, 'src_pos': rng.choice([0, 1, 4, 8, 12, n // 2, n, n]), 'seek': rng.choice(['read', 'pos']),
          'ctor': rng.choice(CTORS), 'p': rng.choice([0, 1, 4, n // 2, n, n + 1]), 'length': rng.choice([0, 3, n]), 'offset': rng.choice([0, 2]), 'use': []}
    for _ in range(rng.randrange(2, 8)):
        a = {'on': rng.choice(['src', 'new']), 'do': rng.choice(ACTS), 'k': rng.choice([0, 1, 3, 4, 8, 20, 1000])}
        if a['do'] in ('append', 'prepend', 'iadd'): a['bits'] = rand_bits(rng, rng.choice([0, 1, 3, 8]))
        st['use'].append(a)
    return st

def gen_from_obj_sweep(rng):
    """an object of each class made from an object of the same class, by each plain route, the source standing inside its data; then both are used"""
    out = []
    for cls in CLASSES + [rng.choice(SUBCLASSES)]:
        for ctor in ('plain', 'pos', 'copy', 'bits_kw', 'slice', 'add_empty'):
            st = gen_from_obj(rng, same_class=True)
            n = rng.choice([8, 16, 33, 64])
            st.update(src_cls=cls, dst_cls=cls, bits=rand_bits(rng, n), route=rng.choice(['auto', 'bin']), src_pos=rng.choice([1, 4, n // 2, n]), seek=rng.choice(['read', 'pos']), ctor=ctor, p=rng.choice([0, 1, n // 2, n]))
            st['use'] = [{'on': 'new', 'do': 'read', 'k': 3}, {'on': 'src', 'do': 'read', 'k': 2}, {'on': 'src', 'do': 'again', 'k': 0}, {'on': 'new', 'do': 'append', 'k': 0, 'bits': '101'},
                         {'on': 'src', 'do': 'invert', 'k': 0}, {'on': 'src', 'do': 'rebuild', 'k': 0}, {'on': 'new', 'do': 'setpos', 'k': 1}, {'on': 'src', 'do': 'look', 'k': 0}]
            rng.shuffle(st['use'])
            out.append(st)
    return out

# ---------------- Arrays made from earlier Arrays, then both used ----------------
FA_DTYPES = {'uint8': [0, 1, 7, 100, 200, 255], 'int16': [-300, -1, 0, 5, 30000], 'float32': [0.5, -2.0, 1024.0, 0.0, 3.0], 'uint5': [0, 1, 17, 31], 'int8': [-128, -1, 0, 127], 'float16': [0.5, -2.0, 1024.0]}
FA_HOWS = ['ctor', 'ctor_dtypeobj', 'copycopy', 'slice', 'astype', 'tolist', 'extend_empty', 'add0']        # (copy.deepcopy / pickle of an Array are refused by the library: a Dtype cannot be reconstructed)
def gen_from_array(rng):
    d = rng.choice(sorted(FA_DTYPES)); pool = FA_DTYPES[d]
    st = {'op': 'from_array', 'dtype': d, 'vals': [rng.choice(pool) for _ in range(rng.choice([0, 1, 2, 3, 5, 9]))], 'how': rng.choice(FA_HOWS), 'use': []}
    for _ in range(rng.randrange(2, 7)):
        a = {'on': rng.choice(['a', 'b']), 'do': rng.choice(['append', 'setitem', 'pop', 'reverse', 'extend', 'insert', 'delitem', 'again', 'look', 'setdtype'])}
        a['v'] = [rng.choice(pool), rng.choice(pool)]; a['i'] = rng.choice([0, -1])
        st['use'].append(a)
    return st

# ---------------- calls that have nothing to do with the options (printing, representations, copies, queries) ----------------
ARRAY_DTYPES = {'uint8': [1, 2, 250], 'int16': [-1, 2, 300], 'uint5': [1, 31, 0], 'float16': [0.5, 1.5, -2.0], 'float32': [0.5, 1e10], 'float64': [0.1], 'bfloat': [1.0, -3.0], 'e4m3mxfp': [0.5, 7e7, -1.0],
                'e5m2mxfp': [0.5, 1e30], 'e2m1mxfp': [0.5, 6.0], 'e3m2mxfp': [1.0, 28.0], 'p4binary': [0.5, 100.0], 'p3binary': [1.0], 'hex4': ['a5b1', '0000'], 'bin3': ['101', '000', '111'],
                'bool': [True, False, True], 'bytes2': [b'ab', b'cd'], 'uintle16': [1, 513], 'intbe24': [-2, 70000], 'e8m0mxfp': [1.0, 4.0]}
BITS_CALLS = ['pp', 'pp', 'pp', 'repr', 'str', 'copy', 'copycopy', 'deepcopy', 'hash', 'eq', 'tobytes', 'tofile', 'len', 'iter', 'unpack', 'findall', 'cut', 'bytes', 'bool', 'tobitarray', 'pickle', 'format', 'props',
              'find_arg', 'rfind_arg', 'findall_arg', 'split_arg', 'replace_arg', 'readto_arg', 'startswith', 'count', 'read', 'readlist', 'ror', 'slice']       # *_arg: with an explicit bytealigned argument (it is an argument, not a setting)
ARRAY_CALLS = ['pp', 'pp', 'pp', 'pp', 'repr', 'str', 'copycopy', 'deepcopy', 'tolist', 'tobytes', 'tofile', 'eq', 'equals', 'len', 'iter', 'getitem', 'slice', 'astype', 'add1', 'neg', 'count', 'byteswap', 'reverse',
               'attrs', 'fromarray', 'pickle']
DTYPE_CALLS = ['repr', 'str', 'eq', 'hash', 'attrs', 'build_parse']
PP_FMTS = [None, None, 'bin', 'hex', 'oct', 'bytes', 'bin, hex', 'hex, bin', 'uint8', 'int16', 'float16', 'float32', 'uint8, hex', 'bits', 'bin8', 'e4m3mxfp', 'bfloat', 'bool', 'uint5, bin',
           'abc', 'uint', 'float', 'hex, oct, bin', 'ue', 'uint8, float64', 'bytes, bin']          # (the last ones are refused, for most objects: a refused call has to leave the options alone as well)

def gen_purecall(rng, obj=None, call=None, **forced):
    r = rng.random()
    if obj is None: obj = 'Array' if r < 0.45 else rng.choice(CLASSES) if r < 0.9 else 'Dtype' if r < 0.97 else 'options'
    if obj == 'Array':
        d = rng.choice(sorted(ARRAY_DTYPES))
        st = {'op': 'purecall', 'obj': 'Array', 'dtype': d, 'trailing': rng.choice(['', '', '1', '101']), 'call': call or rng.choice(ARRAY_CALLS)}
    elif obj in CLASSES:
        st = {'op': 'purecall', 'obj': obj, 'bits': rand_bits(rng, rng.choice([0, 1, 8, 12, 16, 32, 40, 64, 100, 200])), 'call': call or rng.choice(BITS_CALLS)}
    elif obj == 'Dtype':
        st = {'op': 'purecall', 'obj': 'Dtype', 'd': rng.choice(['uint8', 'int:7', 'float32', 'e4m3mxfp', 'e5m2mxfp', 'hex4', 'bits', 'bool', 'uintle16', 'ue', 'bfloat']), 'call': call or rng.choice(DTYPE_CALLS)}
    else:
        st = {'op': 'purecall', 'obj': 'options', 'call': call or rng.choice(['repr', 'read', 'dir'])}
    if st['call'] == 'pp':
        st.update(fmt=rng.choice(PP_FMTS), width=rng.choice([None, None, 40, 80, 10, 200, 0, -5]), show_offset=rng.choice([None, True, False]), sep=rng.choice([None, None, '_', '']))
    if st['call'].endswith('_arg'): st['ba'] = rng.random() < 0.5
    st.update(forced)
    return st

def gen_purecall_sweep(rng):
    """the calls most likely to fiddle with a setting, each at least once: printing and representations of every kind of object (accepted and refused), searches with an explicit bytealigned argument"""
    out = []
    for obj in CLASSES + ['Array']:
        out.append(gen_purecall(rng, obj, 'pp', fmt=rng.choice([None, 'bin', 'hex', 'bin, hex', 'uint8', 'float16'])))
        out.append(gen_purecall(rng, obj, 'pp', fmt=rng.choice(['abc', 'uint', 'hex, oct, bin', 'ue'])))
        out.append(gen_purecall(rng, obj, 'repr'))
        out.append(gen_purecall(rng, obj, 'str'))
    for call in [c for c in BITS_CALLS if c.endswith('_arg')]:
        for ba in (True, False):
            out.append(gen_purecall(rng, rng.choice(CLASSES), call, ba=ba, bits=rand_bits(rng, rng.choice([16, 32, 40, 64]))))
    for call in ('tolist', 'astype', 'add1', 'eq', 'copycopy', 'getitem'): out.append(gen_purecall(rng, 'Array', call))
    for call in ('copy', 'copycopy', 'unpack', 'read', 'slice', 'findall', 'tobytes', 'eq'): out.append(gen_purecall(rng, rng.choice(CLASSES), call))
    out += [gen_purecall(rng, 'Dtype'), gen_purecall(rng, 'options')]
    rng.shuffle(out)
    return out

# ---------------- constructions whose outcome is fixed by the option values (a plain-Python expectation for each) ----------------
OPTPROBES = ['pack_order', 'index0', 'slice_head', 'ue_token', 'e5m2_huge', 'e4m3_huge', 'find_unaligned', 'read_head', 'append_side', 'unpack_order', 'dtype_huge', 'array_huge', 'kw_huge']
def gen_optprobe(rng):
    return {'op': 'optprobe', 'what': rng.choice(OPTPROBES), 'h': format(rng.randrange(1, 1 << 16), '04x'), 'b': rand_bits(rng, rng.choice([3, 5, 9]), 'rand'), 'v': rng.randrange(1, 5000),
            'f': rng.choice([1e30, 3e38, 7e7, 1e12, 123456789.0]), 'route': rng.choice(['token', 'kw', 'pack', 'build', 'array', 'setattr'])}

def gen_purity_history(rng, tier):
    """option configurations in turn (never touched by the program in between): unrelated calls, constructions from earlier objects, and after each of them constructions that follow the options"""
    steps = []
    configs = [(l, b, m, nc) for l in (False, True) for b in (False, True) for m in (False, True) for nc in (False, True)]
    rng.shuffle(configs)
    if tier == 'quick': configs = [(True, True, True, False), (True, False, False, False), (False, True, False, True), (False, False, True, False)] + configs[:2]
    per = 9 if tier == 'quick' else 40
    for l, b, m, nc in configs:
        steps += [{'op': 'set', 'opt': 'lsb0', 'v': l}, {'op': 'set', 'opt': 'bytealigned', 'v': b}, {'op': 'set', 'opt': 'mxfp_overflow', 'v': m}, {'op': 'set', 'opt': 'no_color', 'v': nc}]
        for pc in gen_purecall_sweep(rng): steps += [pc, gen_optprobe(rng)]
        if (l, b, m, nc) == configs[0] or tier != 'quick': steps += gen_from_obj_sweep(rng)
        for _ in range(per):
            r = rng.random()
            if r < 0.5: steps += [gen_purecall(rng), gen_optprobe(rng)]
            elif r < 0.82: steps += [gen_from_obj(rng), gen_optprobe(rng)]
            elif r < 0.93: steps += [gen_from_array(rng), gen_optprobe(rng)]
            else: steps += [gen_optprobe(rng)]
    steps += [{'op': 'set', 'opt': 'lsb0', 'v': False}, {'op': 'set', 'opt': 'bytealigned', 'v': False}, {'op': 'set', 'opt': 'mxfp_overflow', 'v': False}, {'op': 'set', 'opt': 'no_color', 'v': False}]
    steps += gen_from_obj_sweep(rng) + [gen_optprobe(rng) for _ in range(5)]
    return {'op': 'history', 'steps': steps}

def gen_cases(rng, tier):
    H = 2 if tier == 'quick' else 10
    for h in range(H):
        steps = []
        K = 330 if tier == 'quick' else 700
        pool_s, pool_f, pool_d = [], [], []
        for i in range(K):
            n = rng.randrange(1, 60); v = rng.randrange(0, 1 << min(n, 20))
            pool_s.append(rng.choice(TOKENS).format(n=max(n, 21), v=v, h=format(v, 'x'), b=format(v, 'b'), f=rng.choice([0.5, 1000.0, 448.0, 1e6, -3.0, 60000.0])))
            pool_f.append(rng.choice(FORMATS).format(n=n, m=4 * (n % 7 + 1)))
            pool_d.append([rng.choice(['uint', 'int', 'float', 'hex', 'bits', 'e3m2mxfp', 'bytes', 'uintle']), rng.choice([None, 8, 16, 24, 32, 64, n]), rng.choice([None, None, 2, 2.0, 0.5, 4])])
        for i in range(K * 2):
            r = rng.random()
            if r < 0.06: steps.append({'op': 'set', 'opt': rng.choice(['lsb0', 'bytealigned', 'mxfp_overflow']), 'v': rng.random() < 0.5})
            elif r < 0.45: steps.append({'op': 'str', 's': rng.choice(pool_s) if rng.random() < 0.8 else pool_s[i % K], 'cls': rng.choice(CLASSES), 'mutate': rng.random() < 0.3})
            elif r < 0.65: steps.append({'op': 'fmt', 'f': rng.choice(pool_f)})
            elif r < 0.85: steps.append({'op': 'dtype', 'd': rng.choice(pool_d)})
            elif r < 0.885: steps.append({'op': 'pack', 'f': rng.choice(['uint:8, hex', 'e4m3mxfp, uint:4', 'ue, se', 'float:32']), 'v': rng.choice([1, 300, 500.0])})
            elif r < 0.905:
                # a cached literal as the LEFT operand of + with an empty object: the sum must own its store (it is mutated afterwards)
                steps.append({'op': 'str_radd', 's': rng.choice(pool_s) if rng.random() < 0.7 else pool_s[i % K], 'cls': rng.choice(CLASSES), 'how': rng.choice(['radd_empty', 'radd_empty', 'add_empty', 'join', 'pack_bits'])})
            elif r < 0.93:
                # auto-scaled Arrays of the small float formats: the lazily built table of largest values must not remember the mxfp_overflow of its first use
                steps.append({'op': 'autoscale', 'fmt': rng.choice(['e4m3mxfp', 'e5m2mxfp', 'e4m3mxfp', 'e5m2mxfp', 'e3m2mxfp', 'e2m3mxfp', 'e2m1mxfp', 'p4binary', 'p3binary', 'mxint', 'float16', 'bfloat']),
                              'vals': rng.choice([[0.0, 96.0, 256.0, -144.0], [1e-3, 2e-3], [1e5, -3e5, 7.0], [0.5]])})
            elif r < 0.945:
                # list formats (each item is parsed, and cached, on its own) mixed with the same items used alone, and unpack / readlist
                items = ['uint:8', 'hex:8', 'int:4=-3', 'oct:6=17', 'bin:3', 'uint:w', '2*uint:4']
                k = rng.choice([1, 1, 2, 3])
                steps.append({'op': 'packlist', 'f': [rng.choice(items) for _ in range(k)], 'how': rng.choice(['pack', 'pack', 'unpack', 'readlist'])})
            elif r < 0.965:
                # the same format text and keyword NAMES with other keyword VALUES (a memo keyed on the names would reuse the first lengths)
                f = rng.choice(['uint:n, bin', 'pad:a, bytes:b', 'hex:n, uint:m', 'int:n', 'bits:n, bits:m, bin', '2*uint:n'])
                steps.append({'op': 'kwfmt', 'f': f, 'kw': {k: rng.choice([4, 8, 12, 16]) if k != 'b' else rng.choice([1, 2]) for k in ('n', 'm', 'a', 'b') if (k + ',' in f + ',' or ':' + k in f)},
                              'how': rng.choice(['unpack', 'readlist', 'peeklist', 'pack', 'unpack'])})
            elif r < 0.985:
                # values that compare equal but encode differently (0.0 / -0.0 / 0 / False, 1 / 1.0 / True), each format, each route, in every order
                steps.append({'op': 'floatval', 'name': rng.choice(['float', 'floatle', 'floatbe', 'floatne', 'bfloat', 'bfloatle', 'e4m3mxfp', 'e5m2mxfp', 'p4binary', 'p3binary', 'e2m1mxfp', 'mxint']),
                              'n': rng.choice([16, 32, 64]), 'v': rng.choice(['0.0', '-0.0', '0', 'False', '1', '1.0', 'True', '-1.0']), 'route': rng.choice(['kw', 'token', 'pack', 'build', 'array', 'setattr'])})
            elif r < 0.9875: steps.append({'op': 'dtype_flush', 'base': rng.choice(['uint', 'int', 'bits', 'bin']), 'k': 300})       # more distinct Dtypes than any cache holds
            elif r < 0.992: steps.append({'op': 'array_again', 'd': rng.choice(['uint8', 'int16', 'float32', 'hex4', 'uint8'])})   # Arrays of one dtype made before and after other calls
            elif r < 0.995: steps.append({'op': 'dtype_from_dtype', 'd': rng.choice(['uint8', 'int16', 'float32', 'uint']), 'scale': rng.choice([None, 4, 0.5]), 'length': rng.choice([None, 8])})
            elif r < 0.9965: steps.append({'op': 'find', 'bits': rand_bits(rng, 24), 'pat': rand_bits(rng, 8)})
            elif r < 0.9985: steps.append(gen_purecall(rng))
            else: steps.append(gen_from_obj(rng))
            if i % 41 == 7: steps += [gen_purecall(rng), gen_optprobe(rng)]          # unrelated calls inside the long histories, whatever options are in force there
            if i % 29 == 5:
                # deterministic coverage of "equal keys, different encodings": both signed zeros (and 0 / False), and 1 / 1.0 / True, of ONE format close together,
                # in either order, through two routes - every format and width comes round within a history (a memo keyed on the value would hand out the first one)
                fmts = [('float', 16), ('float', 32), ('float', 64), ('floatle', 16), ('floatle', 32), ('floatle', 64), ('floatbe', 32), ('floatne', 64), ('bfloat', None), ('bfloatle', None),
                        ('e4m3mxfp', None), ('e5m2mxfp', None), ('p4binary', None), ('p3binary', None), ('e2m1mxfp', None), ('e3m2mxfp', None), ('e2m3mxfp', None), ('mxint', None)]
                nm, w = fmts[(i // 29 + h) % len(fmts)]
                pair = rng.choice([['0.0', '-0.0'], ['-0.0', '0.0'], ['0', '-0.0'], ['-0.0', 'False'], ['1', '1.0'], ['True', '-1.0']])
                for v in pair:
                    steps.append({'op': 'floatval', 'name': nm, 'n': w or 16, 'v': v, 'route': rng.choice(['kw', 'token', 'pack', 'build', 'array', 'setattr'])})
            if i % 53 == 11: steps += [gen_from_obj(rng), gen_optprobe(rng)]
            if i % 97 == 13: steps += [gen_from_array(rng)]
        if h == 0:
            # first use of every lazily initialised table under the NON-default option values, then the default ones again
            pre = [{'op': 'set', 'opt': 'mxfp_overflow', 'v': True}, {'op': 'set', 'opt': 'lsb0', 'v': True}, {'op': 'set', 'opt': 'bytealigned', 'v': True},
                   {'op': 'autoscale', 'fmt': 'e3m2mxfp', 'vals': [0.0, 96.0, 256.0, -144.0]},
                   {'op': 'str', 's': 'e4m3mxfp=1000.0', 'cls': 'Bits', 'mutate': False}, {'op': 'dtype', 'd': ['e5m2mxfp', None, None]},
                   {'op': 'find', 'bits': '000000001111000011110000', 'pat': '11110000'},
                   {'op': 'set', 'opt': 'mxfp_overflow', 'v': False}, {'op': 'set', 'opt': 'lsb0', 'v': False}, {'op': 'set', 'opt': 'bytealigned', 'v': False},
                   {'op': 'autoscale', 'fmt': 'e4m3mxfp', 'vals': [0.0, 96.0, 256.0, -144.0]}, {'op': 'autoscale', 'fmt': 'e5m2mxfp', 'vals': [0.0, 96.0, 256.0, -144.0]},
                   {'op': 'str', 's': 'e4m3mxfp=1000.0', 'cls': 'Bits', 'mutate': False}, {'op': 'find', 'bits': '000000001111000011110000', 'pat': '11110000'}]
            steps = pre + steps
        yield {'op': 'history', 'steps': steps}
    for _ in range(1 if tier == 'quick' else 4):
        yield gen_purity_history(rng, tier)

def kind(c): return 'history'

def do_call(st):
    """one call; canonical result"""
    import bitstring
    from bitstring import Bits, Dtype, pack
    op = st['op']
    if op == 'from_obj': return do_from_obj(st)
    if op == 'from_array': return do_from_array(st)
    if op == 'purecall': return do_purecall(st)
    if op == 'optprobe': return do_optprobe(st)
    if op == 'str':
        o = cls_of(st['cls'])(st['s'])
        r = [type(o).__name__, o.bin]
        if st['mutate'] and isinstance(o, bitstring.BitArray):
            o.append('0b1'); o.invert()
        return r
    if op == 'fmt':
        return [bitstring.utils.preprocess_tokens(st['f']), str(bitstring.utils.tokenparser(st['f']))]
    if op == 'dtype':
        name, ln, sc = st['d']
        d = Dtype(name, ln, scale=sc) if ln is not None else Dtype(name, scale=sc)
        out = [str(d), d.bitlength, repr(d.scale)]
        if d.bitlength and d.bitlength <= 64:
            v = d.parse(Bits(uint=(1 << (d.bitlength - 1)) | 5, length=d.bitlength) if d.bitlength > 3 else Bits(d.bitlength))
            out.append(v.hex() if isinstance(v, float) else repr(v))
        return out
    if op == 'pack':
        n = st['f'].count(',') + 1
        return pack(st['f'], *([st['v']] * n)).bin
    if op == 'str_radd':
        C = cls_of(st['cls'])
        if st['how'] == 'radd_empty': o = st['s'] + C()
        elif st['how'] == 'add_empty': o = C() + st['s']
        elif st['how'] == 'join': o = C().join([st['s']])
        else: o = pack('bits', st['s'])
        r = [type(o).__name__, o.bin]
        if isinstance(o, bitstring.BitArray):
            o.append('0b1'); o.invert(); o.prepend('0b0')
        return r + [Bits(st['s']).bin]
    if op == 'autoscale':
        from bitstring import Array
        a = Array(Dtype(st['fmt'], scale='auto'), st['vals'])
        return [repr(a.dtype.scale), [x.hex() if isinstance(x, float) and x == x else repr(x) for x in a.tolist()]]
    if op == 'packlist':
        f = st['f']; fmt = f if len(f) > 1 else f[0]
        if st['how'] == 'pack':
            vals = []
            for it in f:
                if '=' in it: continue
                vals += {'uint:8': [7], 'hex:8': ['a5'], 'bin:3': ['101'], 'uint:w': [9], '2*uint:4': [1, 2]}[it]
            return pack(fmt, *vals, w=8).bin
        f2 = [it.split('=')[0].replace('uint:w', 'uint:8') for it in f]
        fmt = f2 if len(f2) > 1 else f2[0]
        data = bitstring.ConstBitStream(bin='1011001110001111' * 8)
        return [repr(x) for x in (data.unpack(fmt) if st['how'] == 'unpack' else data.readlist(fmt))]
    if op == 'find':
        return list(Bits(bin=st['bits'] + st['pat'] + '0000').find(Bits(bin=st['pat'])))
    if op == 'dtype_flush':
        return len({str(Dtype(st['base'], k)) for k in range(1, st['k'] + 1)})
    if op == 'array_again':
        from bitstring import Array
        vals = {'uint8': [1, 2], 'int16': [-1, 2], 'float32': [0.5, 2.0], 'hex4': ['a', 'b']}[st['d']]
        a = Array(st['d'], vals); b = _KEEP.get(st['d']) or Array(st['d'], vals[:1])        # b: an Array of the same dtype made by an EARLIER call, when there was one
        _KEEP[st['d']] = Array(st['d'], vals[:1])
        out = []
        for name, fn in (('extend', lambda: (a.extend(b), a.tolist())[1]), ('from_array', lambda: Array(st['d'], b).tolist()), ('eq', lambda: (a == a).tolist()), ('add', lambda: str((b + b).dtype)),
                         ('dtype', lambda: [str(a.dtype), a.dtype.bitlength, repr(a.dtype.scale)])):
            out.append([name, list(attempt(fn))])
        return [[n, [r[0], [x.hex() if isinstance(x, float) else x for x in r[1]] if isinstance(r[1], list) else r[1]]] for n, r in out]
    if op == 'dtype_from_dtype':
        base = Dtype(st['d'])
        kw = {} if st['scale'] is None else {'scale': st['scale']}
        r = attempt(lambda: Dtype(base, st['length'], **kw) if st['length'] is not None else Dtype(base, **kw))
        again = Dtype(st['d'])
        return [r[0], str(r[1]) if r[0] == 'ok' else r[1], str(again), repr(again.scale), again.bitlength]
    if op == 'kwfmt':
        data = bitstring.ConstBitStream(bin='1011001110001111' * 8)
        kw = st['kw']
        if st['how'] == 'pack':
            toks = [t.strip() for t in st['f'].replace('2*uint:n', 'uint:n, uint:n').split(',')]
            vals = []
            for t in toks:
                nm = t.split(':')[0]
                ln = kw.get(t.split(':')[1]) if ':' in t else 4
                if nm == 'pad': continue
                vals.append({'uint': 1, 'int': -1, 'bin': '0110', 'hex': 'a' * ((ln or 4) // 4), 'bits': '0b' + '10' * ((ln or 4) // 2), 'bytes': b'x' * (ln or 1)}[nm])
            return ['pack', list(attempt(lambda: pack(st['f'], *vals, **kw).bin))]
        fn = {'unpack': data.unpack, 'readlist': data.readlist, 'peeklist': data.peeklist}[st['how']]
        return [st['how'], [repr(x) for x in fn(st['f'], **kw)], data.pos]
    if op == 'floatval':
        from bitstring import Array, BitArray
        v = {'0.0': 0.0, '-0.0': -0.0, '0': 0, 'False': False, '1': 1, '1.0': 1.0, 'True': True, '-1.0': -1.0}[st['v']]
        name = st['name']; n = st['n'] if name.startswith('float') else None
        tok = name if n is None else f'{name}:{n}'
        r = st['route']
        if r == 'kw': o = Bits(**({name: v} if n is None else {name: v, 'length': n}))
        elif r == 'token': o = Bits(f'{tok}={float(v)!r}')
        elif r == 'pack': o = pack(tok, v)
        elif r == 'build': o = (Dtype(name, n) if n is not None else Dtype(name)).build(v)
        elif r == 'array': o = Array(tok.replace(':', ''), [v, 0.0, -0.0]).data
        else:
            o = BitArray(); setattr(o, tok.replace(':', ''), v)
        return o.bin

# ---- runner of the three added step kinds ----
def make_src(st):
    import bitstring
    from bitstring import Bits
    S = cls_named(st['src_cls']); B = st['bits']; route = st['route']
    if route == 'read' and not is_stream(st['src_cls']): route = 'bin'
    if st['src_cls'] in SUBCLASSES or route in ('ctor', 'add', 'read'):
        if route == 'auto': return S('0b' + B) if B else S()
        if route == 'ctor': return S(S(bin=B))
        if route == 'add': return S(bin=B[:len(B) // 2]) + Bits(bin=B[len(B) // 2:])
        if route == 'read':
            big = S(bin='101' + B + '01'); big.pos = 3
            return big.read(len(B))
        return S(bin=B)
    return build(st['src_cls'], B, route)

def do_from_obj(st):
    import bitstring, copy
    from bitstring import Bits, pack
    D = cls_named(st['dst_cls'])
    src = make_src(st)
    box = {'new': None}
    snaps = []
    def snap(tag, extra=None):
        new = box['new']
        snaps.append([tag, src.bin, getattr(src, 'pos', None), None if new is None else new.bin, None if new is None else getattr(new, 'pos', None), extra])
    if hasattr(src, 'pos'):
        sp = min(st['src_pos'], len(src))
        if st['seek'] == 'read': src.read(sp)
        else: src.pos = sp
    snap('start', type(src).__name__)
    k = st['ctor']
    def construct():
        if k == 'plain': return D(src)
        if k == 'pos': return D(src, pos=st['p'])
        if k == 'length': return D(src, length=st['length'])
        if k == 'offset': return D(src, offset=st['offset'])
        if k == 'lenoff': return D(src, length=st['length'], offset=st['offset'])
        if k == 'bits_kw': return D(bits=src)
        if k == 'bits_kw_pos': return D(bits=src, pos=st['p'])
        if k == 'bits_kw_len': return D(bits=src, length=st['length'])
        if k == 'copy': return src.copy()
        if k == 'copycopy': return copy.copy(src)
        if k == 'slice': return src[:]
        if k == 'add_empty': return D() + src
        if k == 'radd_empty': return src + D()
        if k == 'join': return D().join([src])
        if k == 'pack': return pack('bits', src)
        if k in ('append_to_empty', 'iadd_to_empty', 'setslice'):
            o = D()
            if not hasattr(o, 'append'): return D(src)
            if k == 'append_to_empty': o.append(src)
            elif k == 'iadd_to_empty': o += src
            else: o[:] = src
            return o
        raise AssertionError(k)
    r = attempt(construct)
    if r[0] == 'ok':
        box['new'] = r[1]; snap('made', type(r[1]).__name__)
        if k in ('length', 'offset', 'lenoff'): box['new'] = None       # (refused today; were it accepted, the window would be checked and the object dropped)
    else: snap('refused', r[1])
    for a in st['use']:
        o = src if a['on'] == 'src' else box['new']
        do = a['do']; extra = None
        if o is None: snap('skip'); continue
        if do == 'read':
            if hasattr(o, 'pos'):
                kk = min(a['k'], len(o) - o.pos); extra = o.read(kk).bin
        elif do == 'setpos':
            if hasattr(o, 'pos'): o.pos = min(a['k'], len(o))
        elif do in ('append', 'prepend', 'invert', 'clear', 'delhead', 'setall', 'reverse', 'iadd'):
            if isinstance(o, bitstring.BitArray):
                if do == 'append': o.append(Bits(bin=a['bits']))
                elif do == 'prepend': o.prepend(Bits(bin=a['bits']))
                elif do == 'iadd': o += Bits(bin=a['bits'])
                elif do == 'invert': o.invert() if len(o) else None
                elif do == 'clear': o.clear()
                elif do == 'delhead': del o[:a['k']]
                elif do == 'setall': o.set(1) if len(o) else None
                elif do == 'reverse': o.reverse()
        elif do == 'again':
            t = attempt(lambda: D(src)); extra = [t[0], t[1].bin, getattr(t[1], 'pos', None)] if t[0] == 'ok' else list(t)
        elif do == 'rebuild': extra = make_src(st).bin
        elif do == 'chain':
            if box['new'] is not None: box['new'] = type(box['new'])(box['new'])
        snap(do + ':' + a['on'], extra)
    return snaps

def model_from_obj(st, snaps, o):
    """the same step on (str, int) pairs, started from the observed source: -> None or what differs"""
    lsb0 = o['lsb0']
    if not snaps or snaps[0][0] != 'start': return f"no start snapshot: {str(snaps)[:100]}"
    sb, sp = snaps[0][1], snaps[0][2]
    B0 = sb
    srcn, dstn = st['src_cls'], st['dst_cls']
    if (sp is not None) != is_stream(srcn): return f"source of class {srcn} has pos {sp}"
    k = st['ctor']
    # class of the object made
    newn = dstn
    if k in ('copy', 'copycopy', 'slice', 'radd_empty'): newn = srcn
    if k == 'pack': newn = 'BitStream'
    nb, npos = sb, (0 if is_stream(newn) else None)
    refused = None
    if k in ('pos', 'bits_kw_pos') and is_stream(newn):
        if st['p'] > len(sb): refused = 'bad pos'
        else: npos = st['p']
    if k == 'bits_kw_len' and st['length'] != len(sb): refused = 'length does not match'
    if k in ('append_to_empty', 'iadd_to_empty') and is_stream(newn) and is_mutable(newn): npos = len(sb)          # append and += leave a BitStream at its end (C06)
    made = snaps[1]
    if k in ('length', 'offset', 'lenoff'):
        # an explicit window on a bitstring initialiser: refused (or, if accepted, exactly that window); the source is untouched either way
        if made[0] == 'made' and not lsb0:
            off = st['offset'] if k != 'length' else 0
            ln = st['length'] if k != 'offset' else len(sb) - off
            if off + ln > len(sb) or ln < 0: return f"a window [{off}, {off + ln}) outside the {len(sb)} source bits was accepted"
            if made[3] != sb[off:off + ln]: return f"{dstn}(source, window offset {off} length {ln}) holds {made[3]!r}, the source holds {sb!r}"
        have_new = False
    elif refused:
        if made[0] != 'refused': return f"{k} with {refused} was accepted: {made}"
        have_new = False
    else:
        if made[0] != 'made': return f"construction '{k}' of a {dstn} from a {srcn} holding {sb!r} raised {made[5]}"
        have_new = True
    cur = {'src': [sb, sp], 'new': [nb, npos] if have_new else None}
    def expect(i, extra_ok=True, extra=None):
        t = snaps[i]
        want = [cur['src'][0], cur['src'][1], None if (cur['new'] is None or (i == 1 and not have_new)) else cur['new'][0], None if (cur['new'] is None or (i == 1 and not have_new)) else cur['new'][1]]
        got = t[1:5]
        if i == 1 and made[0] == 'made' and not have_new: got = got[:2] + [None, None]
        if got != want:
            return (f"after step {i} ({t[0]}) of source={srcn}({B0!r}, pos={sp}) -> {k} -> {newn}: (source bits, source pos, new bits, new pos) = {got}, "
                    f"the reference on plain strings gives {want}")
        return None
    m = expect(1)
    if m: return m
    base = lambda nm: nm[3:] if nm.startswith('Sub') else nm          # (whether a copy / slice / sum of a user subclass is of the subclass is not this property's business)
    if have_new and base(made[5]) != base(newn):
        return f"construction '{k}' of a {dstn} from a {srcn} returned a {made[5]}, expected a {newn}"
    names = {'src': srcn, 'new': newn}
    for i, a in enumerate(st['use'], start=2):
        if i >= len(snaps): return f"missing snapshot {i}"
        t = snaps[i]; who = a['on']; do = a['do']
        obj = cur[who]
        if obj is None:
            if t[0] != 'skip': return f"snapshot {i}: expected a skipped action, got {t[0]}"
            continue
        bits, pos = obj; n = len(bits); cn = names[who]
        if do == 'read' and pos is not None:
            kk = min(a['k'], n - pos)
            want = bits[n - pos - kk:n - pos] if lsb0 else bits[pos:pos + kk]
            if t[5] != want: return f"step {i}: read({kk}) on the {who} object {cn}({bits!r}, pos={pos}) of source={srcn}({B0!r}) -> {k} -> {newn} returned {t[5]!r}, reference gives {want!r}"
            obj[1] = pos + kk
        elif do == 'setpos' and pos is not None: obj[1] = min(a['k'], n)
        elif do in ('append', 'prepend', 'invert', 'clear', 'delhead', 'setall', 'reverse', 'iadd') and is_mutable(cn):
            x = a.get('bits', '')
            if do in ('append', 'iadd'): nb2 = x + bits if lsb0 else bits + x
            elif do == 'prepend': nb2 = bits + x if lsb0 else x + bits
            elif do == 'invert': nb2 = ''.join('1' if ch == '0' else '0' for ch in bits)
            elif do == 'clear': nb2 = ''
            elif do == 'delhead': nb2 = bits[:max(n - a['k'], 0)] if lsb0 else bits[a['k']:]
            elif do == 'setall': nb2 = '1' * n
            elif do == 'reverse': nb2 = bits[::-1]
            obj[0] = nb2
            if pos is not None:         # the documented moves of a BitStream's position (C06): end after append / +=, 0 after prepend, clear and a deletion that changes the length
                if do in ('append', 'iadd'): obj[1] = len(nb2)
                elif do in ('prepend', 'clear'): obj[1] = 0
                elif do == 'delhead' and len(nb2) != n: obj[1] = 0
        elif do == 'again':
            want = ['ok', cur['src'][0], 0 if is_stream(dstn) else None]
            if t[5] != want: return f"step {i}: {dstn}(source) made again from source={srcn}({cur['src'][0]!r}, pos={cur['src'][1]}) gave {t[5]}, reference gives {want}"
        elif do == 'rebuild':
            if t[5] != B0: return f"step {i}: building the source again by the same route '{st['route']}' gives {t[5]!r}, the first time it gave {B0!r} (an object derived from it was changed in between)"
        elif do == 'chain' and cur['new'] is not None:
            cur['new'] = [cur['new'][0], 0 if is_stream(newn) else None]
        m = expect(i)
        if m: return m
    return None

def do_from_array(st):
    import copy
    from bitstring import Array
    canon = lambda L: [x.hex() if isinstance(x, float) else x for x in L]
    d = st['dtype']
    a = Array(d, st['vals'])
    how = st['how']
    def make():
        if how == 'ctor': return Array(d, a)
        if how == 'ctor_dtypeobj': return Array(a.dtype, a)
        if how == 'copycopy': return copy.copy(a)
        if how == 'slice': return a[:]
        if how == 'astype': return a.astype(d)
        if how == 'tolist': return Array(d, a.tolist())
        if how == 'extend_empty':
            b = Array(d); b.extend(a); return b
        if how == 'add0': return a + 0
        raise AssertionError(how)
    box = {'a': a, 'b': make()}
    snaps = []
    def snap(tag, extra=None): snaps.append([tag, canon(box['a'].tolist()), str(box['a'].dtype), canon(box['b'].tolist()), str(box['b'].dtype), extra])
    snap('made', box['b'] is a)
    frozen = set()           # an Array whose dtype was reassigned is only looked at from then on (the values of the program are not values of the new dtype)
    for act in st['use']:
        o = box[act['on']]; do = act['do']; extra = None
        if ('a' if do == 'again' else act['on']) in frozen: snap('skip'); continue
        if do == 'setdtype': frozen.add(act['on'])
        if do == 'append': o.append(act['v'][0])
        elif do == 'setitem':
            if len(o): o[act['i']] = act['v'][0]
        elif do == 'pop':
            if len(o): extra = canon([o.pop()])
        elif do == 'reverse': o.reverse()
        elif do == 'extend': o.extend(act['v'])
        elif do == 'insert': o.insert(0, act['v'][1])
        elif do == 'delitem':
            if len(o): del o[act['i']]
        elif do == 'again': extra = canon(Array(d, box['a']).tolist())
        elif do == 'setdtype': o.dtype = {'uint8': 'int8', 'int8': 'uint8', 'int16': 'uint16', 'float32': 'uint32', 'uint5': 'int5', 'float16': 'uint16'}[d]
        snap(do + ':' + act['on'], extra)
    return snaps

def model_from_array(st, snaps):
    """the same program on plain lists: -> None or what differs (after `setdtype` the values of that Array are no longer followed, those of the other one are)"""
    canon = lambda L: [x.hex() if isinstance(x, float) else x for x in L]
    vals = [float(v) if st['dtype'].startswith('float') else v for v in st['vals']]
    cur = {'a': list(vals), 'b': list(vals)}
    known = {'a': True, 'b': True}
    def check(i):
        t = snaps[i]
        for who, idx in (('a', 1), ('b', 3)):
            if known[who] and t[idx] != canon(cur[who]):
                return (f"after step {i} ({t[0]}) of Array({st['dtype']!r}, {st['vals']}) -> {st['how']}: Array {who} holds {t[idx]}, the same program on plain lists gives {canon(cur[who])} "
                        f"(a = the source, b = the Array made from it)")
        return None
    if not snaps: return 'no snapshots'
    if snaps[0][5] is True and st['how'] not in (): pass
    m = check(0)
    if m: return m
    for i, act in enumerate(st['use'], start=1):
        if i >= len(snaps): return f"missing snapshot {i}"
        L = cur[act['on']]; do = act['do']
        if not known['a' if do == 'again' else act['on']]:
            if snaps[i][0] != 'skip': return f"snapshot {i}: expected a skipped action, got {snaps[i][0]}"
            m = check(i)
            if m: return m
            continue
        f = (lambda v: float(v)) if st['dtype'].startswith('float') else (lambda v: v)
        if do == 'append': L.append(f(act['v'][0]))
        elif do == 'setitem':
            if L: L[act['i']] = f(act['v'][0])
        elif do == 'pop':
            if L:
                v = L.pop()
                if known[act['on']] and snaps[i][5] != canon([v]): return f"step {i}: pop() on Array {act['on']} returned {snaps[i][5]}, plain lists give {canon([v])}"
        elif do == 'reverse': L.reverse()
        elif do == 'extend': L.extend(f(v) for v in act['v'])
        elif do == 'insert': L.insert(0, f(act['v'][1]))
        elif do == 'delitem':
            if L: del L[act['i']]
        elif do == 'again':
            if known['a'] and snaps[i][5] != canon(cur['a']): return f"step {i}: an Array made from the source again holds {snaps[i][5]}, the source holds {canon(cur['a'])}"
        elif do == 'setdtype': known[act['on']] = False
        m = check(i)
        if m: return m
    return None

def _array(st):
    from bitstring import Array
    a = Array(st['dtype'], ARRAY_DTYPES[st['dtype']])
    if st['trailing']: a.data.append('0b' + st['trailing'])
    return a

def do_purecall(st):
    import bitstring, io, copy, pickle
    from bitstring import Bits, Array, Dtype
    call = st['call']
    canon = lambda v: v if isinstance(v, (str, int, bool, type(None))) else (v.hex() if isinstance(v, (bytes, float)) else repr(v))
    ppkw = lambda: {k: st[k] for k in ('width', 'show_offset', 'sep') if st.get(k) is not None and not (k == 'sep' and st['obj'] == 'Array')}
    if st['obj'] == 'options':
        o = bitstring.options
        if call == 'repr': return [repr(o), str(o)]
        if call == 'read': return [canon(getattr(o, n)) for n in ('lsb0', 'bytealigned', 'mxfp_overflow', 'no_color')]
        return [n for n in dir(o) if not n.startswith('_')]
    if st['obj'] == 'Dtype':
        d = Dtype(st['d'])
        if call == 'repr': return repr(d)
        if call == 'str': return str(d)
        if call == 'eq': return [d == Dtype(st['d']), d == st['d'], d != Dtype('uint3')]
        if call == 'hash': return hash(d) == hash(Dtype(st['d']))
        if call == 'attrs': return [canon(getattr(d, n)) for n in ('name', 'length', 'bitlength', 'bits_per_item', 'is_signed', 'scale', 'variable_length')] + [d.return_type.__name__]
        L = d.bitlength or 8
        return [canon(d.parse(Bits(uint=5, length=L))) if d.bitlength else None]
    if st['obj'] == 'Array':
        a = _array(st)
        if call == 'pp':
            f = io.StringIO(); a.pp(*([] if st['fmt'] is None else [st['fmt']]), stream=f, **ppkw()); return f.getvalue()
        if call == 'repr': return repr(a)
        if call == 'str': return str(a)
        if call == 'copycopy': return copy.copy(a).tobytes().hex()
        if call == 'deepcopy': return copy.deepcopy(a).tobytes().hex()
        if call == 'pickle': return pickle.loads(pickle.dumps(a)).tobytes().hex()
        if call == 'tolist': return [canon(x) for x in a.tolist()]
        if call == 'tobytes': return a.tobytes().hex()
        if call == 'tofile':
            f = io.BytesIO(); a.tofile(f); return f.getvalue().hex()
        if call == 'eq': return [canon(x) for x in (a == a).tolist()]
        if call == 'equals': return a.equals(_array(st))
        if call == 'len': return len(a)
        if call == 'iter': return [canon(x) for x in a]
        if call == 'getitem': return canon(a[0])
        if call == 'slice': return [canon(x) for x in a[::-1].tolist()]
        if call == 'astype': return [canon(x) for x in a.astype('float32').tolist()]
        if call == 'add1': return [canon(x) for x in (a + 1).tolist()]
        if call == 'neg': return [canon(x) for x in (-a).tolist()]
        if call == 'count': return a.count(ARRAY_DTYPES[st['dtype']][0])
        if call == 'byteswap': a.byteswap(); return a.tobytes().hex()
        if call == 'reverse': a.reverse(); return a.tobytes().hex()
        if call == 'attrs': return [str(a.dtype), a.itemsize, a.trailing_bits.bin, len(a.data)]
        if call == 'fromarray': return Array(a.dtype, a).tobytes().hex()
        raise AssertionError(call)
    C = cls_of(st['obj']); b = C(bin=st['bits'])
    if hasattr(b, 'pos'): b.pos = len(b) // 2
    if call == 'pp':
        f = io.StringIO(); b.pp(*([] if st['fmt'] is None else [st['fmt']]), stream=f, **ppkw()); return [f.getvalue(), getattr(b, 'pos', None)]
    if call == 'repr': return repr(b)
    if call == 'str': return str(b)
    if call == 'format': return format(b)
    if call == 'copy': return b.copy().bin
    if call == 'copycopy': return copy.copy(b).bin
    if call == 'deepcopy': return copy.deepcopy(b).bin
    if call == 'pickle': return pickle.loads(pickle.dumps(b)).bin
    if call == 'hash': return True if isinstance(b, bitstring.BitArray) else hash(b) == hash(Bits(bin=st['bits']))
    if call == 'eq': return [b == Bits(bin=st['bits']), b == C(bin=st['bits']), b != Bits(bin=st['bits'] + '1')]
    if call == 'tobytes': return b.tobytes().hex()
    if call == 'bytes': return bytes(b).hex()
    if call == 'tofile':
        f = io.BytesIO(); b.tofile(f); return f.getvalue().hex()
    if call == 'len': return len(b)
    if call == 'bool': return bool(b)
    if call == 'iter': return ''.join('1' if x else '0' for x in b)
    if call == 'unpack': return [canon(x) for x in b.unpack('bin')]
    if call == 'findall': return list(b.findall('0b1'))[:50]
    if call == 'cut': return [x.bin for x in b.cut(8)]
    if call == 'tobitarray': return b.tobitarray().to01()
    if call == 'props': return [len(b), b.bin, b.hex if len(b) % 4 == 0 else None, format(b.uint, 'x') if len(b) else None]
    P = Bits(bin='1' if len(b) < 16 else st['bits'][8:16])
    if call == 'find_arg': return list(b.find(P, bytealigned=st['ba']))
    if call == 'rfind_arg': return list(b.rfind(P, bytealigned=st['ba']))
    if call == 'findall_arg': return list(b.findall(P, bytealigned=st['ba']))[:50]
    if call == 'split_arg': return [x.bin for x in b.split(P, bytealigned=st['ba'])][:50]
    if call == 'replace_arg':
        m = bitstring.BitArray(b); n_ = m.replace(P, '0b0', bytealigned=st['ba']); return [n_, m.bin]
    if call == 'readto_arg':
        t = bitstring.ConstBitStream(b); return t.readto(P, bytealigned=st['ba']).bin
    if call == 'startswith': return [b.startswith(P), b.endswith(P), P in b]
    if call == 'count': return [b.count(1), b.all(1), b.any(0)]
    if call == 'read':
        t = bitstring.ConstBitStream(b); return [t.read('uint:3'), t.peek('bin:2'), t.pos]
    if call == 'readlist':
        t = bitstring.ConstBitStream(b); return [canon(x) for x in t.readlist('uint:3, bin:2, hex:4, bits')]
    if call == 'ror':
        m = bitstring.BitArray(b); m.ror(3); m.rol(1); return m.bin
    if call == 'slice': return [b[2:7].bin, b[::-1].bin, b[-3:].bin]
    raise AssertionError(call)

def ref_ue(v):
    w = format(v + 1, 'b'); return '0' * (len(w) - 1) + w

def do_optprobe(st):
    import bitstring
    from bitstring import Bits, BitArray, ConstBitStream, Array, Dtype, pack
    w = st['what']; h, b, v, f, route = st['h'], st['b'], st['v'], st['f'], st['route']
    if w == 'pack_order': return pack('hex, bin', h, b).bin
    if w == 'index0': return Bits(bin=b)[0]
    if w == 'slice_head': return Bits(bin=b)[0:2].bin
    if w == 'ue_token': return Bits(f'ue={v}').bin
    if w in ('e5m2_huge', 'e4m3_huge'):
        name = w[:4] + 'mxfp'
        if route == 'kw': return BitArray(**{name: f}).bin
        if route == 'pack': return pack(name, f).bin
        if route == 'build': return Dtype(name).build(f).bin
        if route == 'array': return Array(name, [f]).data.bin
        if route == 'setattr':
            o = BitArray(); setattr(o, name, f); return o.bin
        return Bits(f'{name}={f!r}').bin
    if w == 'dtype_huge': return Dtype('e5m2mxfp').build(f).bin
    if w == 'array_huge': return Array('e5m2mxfp', [f]).data.bin
    if w == 'kw_huge': return Bits(e5m2mxfp=f).bin
    if w == 'find_unaligned': return list(Bits(hex='0ff0' + h + '0ff0').find('0xff', 0, 16))        # the first sixteen bits read the same in both numberings; 0xff starts at bit 4 of them
    if w == 'read_head': return ConstBitStream(bin=b).read(2).bin
    if w == 'append_side':
        o = BitArray(bin=b); o.append('0b10'); return o.bin
    if w == 'unpack_order': return Bits(bin=b).unpack('bin:2, bin')
    raise AssertionError(w)

def model_optprobe(st, o):
    """-> ('ok', value) | ('err', kinds): the outcome the option values in force prescribe (documentation: lsb0 numbers, reads, packs from the right; exp-Golomb codes are not available under lsb0;
    bytealigned finds only at multiples of 8; mxfp_overflow: values beyond the largest finite one saturate, or overflow to infinity (e5m2) / NaN (e4m3))"""
    w = st['what']; h, b, v, f = st['h'], st['b'], st['v'], st['f']
    lsb0, ba, ovf = o['lsb0'], o['bytealigned'], o['mxfp_overflow']
    hb = ''.join(format(int(ch, 16), '04b') for ch in h)
    if w == 'pack_order': return ('ok', b + hb if lsb0 else hb + b)
    if w == 'index0': return ('ok', b[-1] == '1' if lsb0 else b[0] == '1')
    if w == 'slice_head': return ('ok', b[-2:] if lsb0 else b[:2])
    if w == 'ue_token': return ('err', {'BsError', 'ValueError'}) if lsb0 else ('ok', ref_ue(v))
    if w in ('e5m2_huge', 'dtype_huge', 'kw_huge', 'array_huge'): return ('ok', '01111100' if ovf else '01111011')
    if w == 'e4m3_huge': return ('ok', '11111111' if ovf else '01111110')
    if w == 'find_unaligned': return ('ok', [] if ba else [4])
    if w == 'read_head': return ('ok', b[-2:] if lsb0 else b[:2])
    if w == 'append_side': return ('ok', '10' + b if lsb0 else b + '10')
    if w == 'unpack_order': return ('ok', [b[-2:], b[:-2]] if lsb0 else [b[:2], b[2:]])
    raise AssertionError(w)

_KEEP = {}      # objects that survive from one call of a history to a later one (their use must not depend on what happened in between)

def set_opts(o):
    import bitstring
    bitstring.options.lsb0 = o['lsb0']; bitstring.options.bytealigned = o['bytealigned']
    bitstring.options.mxfp_overflow = 'overflow' if o['mxfp_overflow'] else 'saturate'
    if 'no_color' in o: bitstring.options.no_color = o['no_color']

def read_opts(raw=None):
    """the option values in force, in the form of the `opts` dictionaries"""
    import bitstring
    g = (lambda n: getattr(bitstring.options, n)) if raw is None else (lambda n: raw[n].fget(bitstring.options) if n in raw else getattr(bitstring.options, n))
    return {'lsb0': g('lsb0'), 'bytealigned': g('bytealigned'), 'mxfp_overflow': {'saturate': False, 'overflow': True}.get(g('mxfp_overflow'), g('mxfp_overflow')), 'no_color': g('no_color')}

def bound_methods():
    """which functions the numbering-dependent attributes are bound to right now (what set_lsb0 swaps): names only"""
    import bitstring
    out = []
    for C in (bitstring.Bits, bitstring.BitArray, bitstring.bitstore.BitStore):
        for a in ('_find', '_rfind', '_findall', '_ror', '_rol', '_append', '_prepend', '__setitem__', '__delitem__', 'getindex', 'getslice', 'getslice_withstep', 'invert'):
            f = vars(C).get(a)
            if f is not None: out.append(f"{C.__name__}.{a}={getattr(f, '__name__', '?')}")
    return out

def run_impl(c):
    import bitstring
    no_color0 = bitstring.options.no_color
    try:
        return run_impl_(c, no_color0)
    finally:
        bitstring.options.no_color = no_color0         # (reset_options() of the driver knows the other three)

def run_impl_(c, no_color0):
    import bitstring
    clear_caches()
    opts = {'lsb0': False, 'bytealigned': False, 'mxfp_overflow': False, 'no_color': bool(no_color0)}
    set_opts(opts)
    binding = {False: bound_methods()}        # lsb0 value -> the method bindings seen when the program itself set that value
    warm, snaps = [], []
    diffs0 = []
    # log option reads during each call
    reads_log = set()
    O = type(bitstring.options)
    saved = {}
    def wrap(name):
        prop = getattr(O, name); saved[name] = prop
        def getter(self, _p=prop, _n=name):
            reads_log.add(_n); return _p.fget(self)
        setattr(O, name, property(getter, prop.fset))
    for n in ('lsb0', 'bytealigned', 'mxfp_overflow'): wrap(n)
    try:
        for st in c['steps']:
            if st['op'] == 'set':
                opts[st['opt']] = st['v']; set_opts(opts); warm.append(('ok', None)); snaps.append(dict(opts))
                binding.setdefault(opts['lsb0'], bound_methods()); continue
            warm.append(attempt(lambda: do_call(st), 20 if st['op'] in ('from_obj', 'purecall', 'from_array') else 5)); snaps.append(dict(opts))
            w = warm[-1]
            # no call of a history (other than the program's own assignments to bitstring.options) may leave other option values, or other method bindings, behind
            now = read_opts(saved)
            if now != opts or (opts['lsb0'] in binding and bound_methods() != binding[opts['lsb0']]):
                if len(diffs0) < 3:
                    what = (f"the option values in force after the call are {now}, the program had set {opts} and did not touch them" if now != opts else
                            f"the option values still read {now} but the numbering-dependent methods are bound differently than when the program set lsb0={opts['lsb0']}: "
                            f"{sorted(set(bound_methods()) ^ set(binding[opts['lsb0']]))}")
                    diffs0.append([len(warm) - 1, st, list(w), ['reference', what], dict(opts)])
                set_opts(opts)           # put them back, so that each further report is about its own call
            if st['op'] == 'from_obj' and len(diffs0) < 3:
                m = model_from_obj(st, w[1], opts) if w[0] == 'ok' else f"the step raised {w[1]}"
                if m: diffs0.append([len(warm) - 1, st, list(w), ['reference', m], dict(opts)])
            if st['op'] == 'from_array' and len(diffs0) < 3:
                m = model_from_array(st, w[1]) if w[0] == 'ok' else f"the step raised {w[1]}"
                if m: diffs0.append([len(warm) - 1, st, list(w), ['reference', m], dict(opts)])
            if st['op'] == 'optprobe' and len(diffs0) < 3:
                e = model_optprobe(st, opts)
                bad = (w[0] != 'err' or w[1] not in e[1]) if e[0] == 'err' else (w[0] != 'ok' or w[1] != e[1])
                if bad: diffs0.append([len(warm) - 1, st, list(w), ['reference', f"under the option values the program set, the documented outcome is {e}"], dict(opts)])
            if st['op'] == 'str_radd' and w[0] == 'ok' and w[1][1] != w[1][2] and len(diffs0) < 3:
                # the sum of a literal and an empty object holds the literal's bits; parsing the literal again after the sum was mutated must still give them
                diffs0.append([len(warm) - 1, st, list(w), ['ok', [w[1][0], w[1][1], w[1][1]]], dict(opts)])
    finally:
        for n, p in saved.items(): setattr(O, n, p)
    cold = []
    diffs = list(diffs0)
    for i, (st, o) in enumerate(zip(c['steps'], snaps)):
        if st['op'] == 'set': continue
        clear_caches(); set_opts(o)
        r = attempt(lambda: do_call(st))
        if tuple(r) != tuple(warm[i]) and len(diffs) < 5: diffs.append([i, st, list(warm[i]), list(r), o])
    # the same calls in the opposite order in a FRESH interpreter (each under the option values it had here): a result that depends on the
    # calls made before it - through any memo, also one that clear_caches() cannot see - differs between the two orders
    import subprocess
    payload = json.dumps([[i, st, o] for i, (st, o) in enumerate(zip(c['steps'], snaps)) if st['op'] != 'set'][::-1])
    try:
        pr = subprocess.run([sys.executable, '-c', 'import sys, json; sys.path.insert(0, %r); sys.path.insert(0, %r); from props import c09; print(json.dumps(c09.replay(json.load(sys.stdin))))'
                             % (os.path.join(VERIF, 'tools'), REPO)], input=payload, capture_output=True, text=True, timeout=600, env=dict(os.environ, PYTHONHASHSEED='0', VERIF_REPO=REPO))
        other = {i: r for i, r in json.loads(pr.stdout.strip().splitlines()[-1])} if pr.returncode == 0 else None
    except Exception as e:
        other = None
    if other is None:
        diffs.append([-1, {'op': 'replay in a fresh interpreter failed'}, [], [pr.stderr[-300:] if 'pr' in dir() else ''], {}])
    else:
        for i, (st, o) in enumerate(zip(c['steps'], snaps)):
            if st['op'] == 'set': continue
            if json.loads(json.dumps(list(warm[i]))) != other.get(i) and len(diffs) < 5:
                diffs.append([i, st, list(warm[i]), ['in the opposite order, fresh interpreter:'] + (other.get(i) or []), o])
    ndist = {k: len({json.dumps(s.get(kk)) for s in c['steps'] if s['op'] == k}) for k, kk in (('str', 's'), ('fmt', 'f'), ('dtype', 'd'))}
    return ('ok', {'calls': len(c['steps']), 'diffs': diffs, 'distinct_keys': ndist, 'option_reads_seen': sorted(reads_log)})

def replay(items):
    """run [index, step, options] items in the given order; -> [[index, result]]"""
    import bitstring
    out = []
    nc = bitstring.options.no_color
    for i, st, o in items:
        set_opts(o)
        try: out.append([i, list(attempt(lambda: do_call(st), 20))])
        finally: reset_options(); bitstring.options.no_color = nc
    return out

def oracle(c, obs):
    if obs[0] != 'ok': return f"history raised {obs}"
    if obs[1]['diffs']:
        i, st, w, r, o = obs[1]['diffs'][0]
        if r and r[0] == 'reference': return f"call #{i} {str(st)[:600]} under options {o}: {r[1]} (observed: {str(w)[:300]})"
        return f"call #{i} {st} under options {o}: warm interpreter gave {str(w)[:200]}, the same call on cold caches gives {str(r)[:200]}"
    return None

def nontrivial(c, obs): return True
def evals(cases, observed): return sum(o[1]['calls'] for o in observed if o[0] == 'ok')
def classify(c, obs): return None
def coq_check(c, obs): return None

def search(seeds, rng):
    for c in list(seeds) + list(gen_cases(rng, 'quick')):
        try: obs = run_impl(c)
        finally: reset_options()
        msg = oracle(c, obs)
        if msg: return c, obs, msg
    return None
