"""C03 — in-place mutations equal their sequence-level specification; nothing else moves."""
from vlib import *
from props.common import *
from props import refmodel as R
import re

ID = 'C03'
COQ_PROPS = ['Props/C03.v']
COQ_IMPORTS = ['Prims', 'CaseLib', 'BitsCore', 'Mutators', 'Search']
RULE = ('programs of 1..12 mutators on one BitArray/BitStream, state compared after every step and after every raising call; arguments: positions and ranges in, at and beyond '
        'the ends, negative indices, steps, empty operands, self as operand, integer values at the range limits; small contents exhaustively for single steps in thorough; '
        'byteswap with struct-style string patterns (every code x no prefix / @ = < > x counts incl. zero, leading zeros, two digits; mixed patterns; several repetitions, unaligned start, partial last pattern; strings outside the grammar refused); '
        'non-trivial = the step changes the content or raises; distinct by (content, op, arguments)')
ASSUMPTIONS = ['bitarray slice assignment/deletion behave as Prims.ba_setslice/ba_delslice (exercised by these cases)', 'msb0 mode (lsb0 is C12)',
               'integer assignment to a slice with step -1 is left unspecified by the oracle (the implementation sizes the integer by [start:stop])']
COQ_PRELUDE = '''Definition pe_eqb (a b : bits * option exn) : bool := bits_eqb (fst a) (fst b) && opt_eqb exn_eqb (snd a) (snd b).'''

MUTS = ['insert', 'overwrite', 'append', 'prepend', 'delitem', 'setitem', 'reverse', 'rol', 'ror', 'set', 'invert',
        'byteswap', 'ilshift', 'irshift', 'imul', 'iand', 'ior', 'ixor', 'clear', 'replace']

def rpos(rng, n):
    return rng.choice([0, n, n // 2, -1, -n, n + 1, -n - 1, rng.randrange(-n - 2, n + 3)])

def ropt_range(rng, n):
    r = rng.random()
    if r < 0.3: return None, None
    a = rng.choice([None, 0, rng.randrange(0, n + 1), rng.randrange(-n - 1, 1)])
    b = rng.choice([None, n, rng.randrange(0, n + 1), rng.randrange(-n - 1, 1), n + 1])
    if a is not None and b is not None and a >= 0 and b >= 0 and a > b and rng.random() < 0.8: a, b = b, a
    return a, b

def rslice(rng, n):
    f = lambda: rng.choice([None, None, rng.randrange(-n - 2, n + 3)])
    return [f(), f(), rng.choice([None, None, 1, 1, -1, 2, -2, 3, 0])]

# ---- byteswap with a struct-style STRING pattern -------------------------------------------------------------------------------------------
# Documented grammar: an optional byte-order character (one of < > @ =, "ignored as it's byteswapping anyway"), then one or more struct codes, each with an
# optional decimal count. The byte width of a code is struct's STANDARD size (struct documentation, table "Format characters", column "Standard size"),
# whatever the byte-order character and whatever the platform's C types are.
STD_SIZE = {'b': 1, 'B': 1, 'h': 2, 'H': 2, 'e': 2, 'i': 4, 'I': 4, 'l': 4, 'L': 4, 'f': 4, 'q': 8, 'Q': 8, 'd': 8}
BS_CODES = 'bBhHlLiIqQefd'
BS_PREFIXES = ['', '@', '=', '<', '>']
# strings outside the grammar (struct codes the library does not list, misplaced / doubled byte-order characters, counts without a code, token-list syntax):
# byteswap must refuse them and leave the content alone
BS_INVALID = ['', 'x', 'hx', 'xh', '<', '@', '<<h', '@@l', '=<l', 'h<', 'l@', '2', 'h2', '2h2', '-1h', '+2h', '2.0h', 'p', 's', '4s', 'c', '?', 'n', 'N', 'P', '!h', '!l',
              'H,h', 'l,l', '2*h', '2*l', '(l)', 'l l', 'uint8', 'int:32', '0x1', 'hLz', 'Lh;']

def rand_swapfmt(rng, must=None, pre=None):
    """a struct-style byteswap pattern inside the documented grammar: every code, every spelling of the byte-order character, every spelling of a count
    (absent, 1, several, leading zeros, two digits, zero), one to four items"""
    def item(ch):
        r = rng.random()
        if r < 0.45: return ch
        if r < 0.80: return str(rng.choice([1, 2, 2, 3, 4])) + ch
        if r < 0.88: return '0' + str(rng.choice([1, 2, 3])) + ch        # leading zero
        if r < 0.94: return str(rng.choice([10, 11, 12, 16])) + ch        # two digits
        return rng.choice(['0', '00']) + ch                               # a count of zero: no item at all
    k = rng.choice([1, 1, 2, 2, 3, 4])
    codes = [rng.choice(BS_CODES) for _ in range(k)]
    if must: codes[rng.randrange(k)] = must
    if rng.random() < 0.15: codes = [codes[0]] * rng.choice([2, 3])       # the same letter written out several times
    return (rng.choice(BS_PREFIXES) if pre is None else pre) + ''.join(item(ch) for ch in codes)

def swapfmt_sizes(fmt):
    """byte widths of the items of a byteswap pattern string, or None when the string is outside the documented grammar"""
    m = re.fullmatch(r'[<>@=]?((?:[0-9]*[bBhHlLiIqQefd])+)', fmt)
    if not m: return None
    out = []
    for cnt, ch in re.findall(r'([0-9]*)([bBhHlLiIqQefd])', m.group(1)): out += [STD_SIZE[ch]] * (int(cnt) if cnt else 1)
    return out

def swap_program(rng, fmt, tier):
    """a program around byteswap(fmt, ...): contents long enough for several repetitions of the pattern, a start that need not be byte aligned, bits after the
    last whole pattern (from one bit up to one bit short of another pattern), every way of giving the range; then the same item sizes again under another
    spelling (other byte-order character, counts written out), which undoes the first call when it covers the same patterns"""
    sizes = swapfmt_sizes(fmt) or [rng.choice([1, 2, 4])]
    tot = 8 * sum(sizes)
    npat = rng.choice([1, 1, 2, 2, 3, 5, 0])
    lead = rng.choice([0, 0, 0, 1, 3, 7, 8, 11, 16])
    tail = rng.choice([0, 0, 1, 5, 8, 32, max(tot - 32, 0), max(tot - 8, 0), max(tot - 1, 0), tot // 2])
    n = lead + npat * tot + tail
    if n > 2400: npat = 1; n = lead + tot + tail
    bits = rand_bits(rng, n, rng.choice(['rand', 'rand', 'rand', None]))
    body_end = lead + npat * tot
    start = rng.choice([lead, lead, lead - n if n else 0, None if lead == 0 else lead, 0, rng.randrange(0, n + 1)])
    if lead == 0 and rng.random() < 0.6: start = None
    end = rng.choice([None, None, n, body_end, body_end, body_end - n if body_end < n else None, body_end - 1, body_end + 7, n + 1, rng.randrange(0, n + 1)])
    steps = []
    if rng.random() < 0.25: steps.append(gen_step(rng, max(n, 4), tier, rng.choice(['rol', 'invert', 'reverse', 'set', 'append', 'ilshift', 'byteswap'])))
    first = {'op': 'byteswap', 'fmt': fmt, 'start': start, 'end': end, 'repeat': rng.random() < 0.7, 'args': rng.choice(['pos', 'kw', 'kw'])}
    steps.append(first)
    r = rng.random()
    if r < 0.45 and swapfmt_sizes(fmt) is not None:
        body = fmt.lstrip('<>@=')
        again = dict(first, fmt=rng.choice(BS_PREFIXES) + body)
        if rng.random() < 0.4: again['fmt'] = list(sizes)            # the documented equivalent: an iterable of the byte widths
        steps.append(again)
    elif r < 0.6:
        steps.append(dict(first, fmt=rand_swapfmt(rng), repeat=rng.random() < 0.5))
    return {'op': 'program', 'cls': rng.choice(MUTABLE), 'bits': bits, 'steps': steps, 'lsb0': rng.random() < 0.2}

OVERLAPPING = ['11', '00', '111', '000', '101', '010', '1010', '0101', '1001', '11011', '0000', '1111']

def gen_step(rng, n, tier, op=None, data=None):
    op = op or rng.choice(MUTS)
    small = lambda: rand_bits(rng, rng.choice([0, 1, 2, 3, 8, 9, 16]))
    s = {'op': op}
    if op in ('insert', 'overwrite'):
        s.update(bs=small(), pos=rpos(rng, n), self_=rng.random() < 0.08)
    elif op in ('append', 'prepend'):
        s.update(bs=small(), self_=rng.random() < 0.1)
    elif op == 'delitem':
        s.update(key=rng.choice([rpos(rng, n), rslice(rng, n), rslice(rng, n)]))
    elif op == 'setitem':
        key = rng.choice([rpos(rng, n), rslice(rng, n), rslice(rng, n)])
        if rng.random() < 0.5:
            val = {'bits': small()}
        else:
            w = rng.choice([1, 2, 3, 8])
            val = {'int': rng.choice([0, 1, -1, 2, -2, (1 << w) - 1, 1 << w, -(1 << (w - 1)), -(1 << (w - 1)) - 1, rng.randrange(-300, 300)])}
        s.update(key=key, val=val)
    elif op == 'reverse':
        a, b = ropt_range(rng, n); s.update(start=a, end=b)
    elif op in ('rol', 'ror'):
        a, b = ropt_range(rng, n); s.update(n=rng.choice([-1, 0, 1, 2, 7, n, n + 3, rng.randrange(0, 2 * n + 2)]), start=a, end=b)
    elif op in ('set', 'invert'):
        r = rng.random()
        if r < 0.15: pos = None
        elif r < 0.4: pos = rpos(rng, n)
        elif r < 0.7: pos = {'list': [rpos(rng, n) for _ in range(rng.randrange(0, 5))]}
        else:
            rb = lambda: rng.choice([0, 1, n - 1, n, n + 1, n + 2, -1, -n, -n - 1, n // 2, rng.randrange(-n - 2, n + 3)])
            pos = {'range': [rb(), rb(), rng.choice([1, 1, 2, 3, -1, -1, -2, -3])]}
        s.update(pos=pos, v=rng.choice([0, 1, True, False, 5]))
    elif op == 'byteswap':
        a, b = ropt_range(rng, n)
        fmt = rng.choice([None, 0, 1, 2, 3, -1, [1, 2], [2, 1, 1], [0, 1], [], 'h', '2h', '<hb', 'q', '>2bh', {'iter': [2, 1]}, {'iter': [1]}, {'iter': [2, 2]}])
        r = rng.random()
        if r < 0.35: fmt = rand_swapfmt(rng)
        elif r < 0.40: fmt = rng.choice(BS_INVALID)
        s.update(fmt=fmt, start=a, end=b, repeat=rng.random() < 0.6)
    elif op in ('ilshift', 'irshift'):
        s.update(n=rng.choice([-1, 0, 1, 3, n - 1, n, n + 1, 2 * n + 5]))
    elif op == 'imul':
        s.update(n=rng.choice([-1, 0, 1, 2, 3, 5]))
    elif op in ('iand', 'ior', 'ixor'):
        same = rng.random() < 0.8
        s.update(bs=rand_bits(rng, n if same else rng.choice([0, n + 1, max(0, n - 1)])), self_=rng.random() < 0.1)
    elif op == 'replace':
        pl = rng.choice([1, 2, 3, 8])
        a, b = ropt_range(rng, n)
        r = rng.random()
        if r < 0.35: old = rng.choice(OVERLAPPING)                    # self-overlapping patterns: replace must take non-overlapping matches
        elif r < 0.6 and data and len(data) >= 2:                     # a pattern that does occur
            i = rng.randrange(0, len(data) - 1); old = data[i:i + rng.choice([1, 2, 3, 4, 8])]
        else: old = rand_bits(rng, pl)
        s.update(old=old, new=small(), start=a, end=b, count=rng.choice([None, None, 0, 1, 2, 2, 3, 4]), ba=rng.choice([None, False, True]))
    return s

def gen_cases(rng, tier):
    N = 260 if tier == 'quick' else 4000
    for _ in range(N):
        n = rng.choice([0, 1, 2, 5, 8, 9, 16, 17, 24, 31, 32, 33, 40, 64, 65]) if rng.random() < 0.85 else rng.randrange(0, 200)
        yield {'op': 'program', 'cls': rng.choice(MUTABLE), 'bits': rand_bits(rng, n), 'steps': [gen_step(rng, max(n, 4), tier) for _ in range(rng.randrange(1, 13))], 'lsb0': rng.random() < 0.25}
    # single steps of every operation on fresh contents, so that the boundary values are exact for the current length
    for op in MUTS:
        for _ in range(30 if tier == 'quick' else 400):
            n = rng.choice([0, 1, 2, 3, 5, 8, 9, 10, 16, 17, 24, 32, 33])
            bits = rand_bits(rng, n)
            yield {'op': 'program', 'cls': rng.choice(MUTABLE), 'bits': bits, 'steps': [gen_step(rng, n, tier, op, bits)], 'lsb0': rng.random() < 0.3}
    # store adoption: an EMPTY object takes an operand given as a literal, is edited in place, and the same literal is used again
    for _ in range(40 if tier == 'quick' else 600):
        lit = rand_bits(rng, rng.choice([4, 8, 12, 16]), 'rand')
        first = rng.choice(['prepend', 'append', 'insert', 'overwrite'])
        edits = [rng.choice([{'op': 'invert', 'pos': None}, {'op': 'set', 'pos': 0, 'v': 1}, {'op': 'set', 'pos': -1, 'v': 0}, {'op': 'reverse', 'start': None, 'end': None},
                             {'op': 'setitem', 'key': 0, 'val': {'int': 1}}, {'op': 'ilshift', 'n': 1}, {'op': 'rol', 'n': 1, 'start': None, 'end': None}]) for _ in range(rng.randrange(1, 3))]
        again = rng.choice(['append', 'prepend', 'insert', 'overwrite', 'ior'])
        mk = lambda o: dict({'op': o, 'bs': lit, 'lit': True}, **({'pos': 0} if o in ('insert', 'overwrite') else {}))
        yield {'op': 'program', 'cls': rng.choice(MUTABLE), 'bits': '', 'steps': [mk(first)] + edits + [mk(again)], 'lsb0_note': None}
    # set / invert over every boundary range(start, stop, step) of one short content (the range fast path vs the per-position loop)
    for n in ([6] if tier == 'quick' else [1, 6, 9]):
        bv = sorted({-n - 1, -n, -1, 0, 1, n - 1, n, n + 1, n + 2})
        bits = rand_bits(rng, n, 'rand')
        for a in bv:
            for b in bv:
                for st in (1, 2, -1, -2):
                    op = 'set' if (a + b + st) % 2 else 'invert'
                    yield {'op': 'program', 'cls': 'BitArray', 'bits': bits, 'steps': [{'op': op, 'pos': {'range': [a, b, st]}, 'v': (a + b) % 2}]}
    # byteswap with struct-style string patterns: every code x every spelling of the byte-order character (none @ = < >) x the code alone, with a count, inside
    # a mixed pattern; then random patterns; then strings outside the grammar (refused, content kept)
    for code in BS_CODES:
        for pre in BS_PREFIXES:
            shapes = [pre + code, pre + str(rng.choice([2, 3])) + code, rand_swapfmt(rng, code, pre)]
            if tier == 'thorough': shapes += [rand_swapfmt(rng, code, pre) for _ in range(6)]
            for fmt in shapes: yield swap_program(rng, fmt, tier)
    for _ in range(120 if tier == 'quick' else 3000):
        yield swap_program(rng, rand_swapfmt(rng), tier)
    for bad in BS_INVALID:
        for _ in range(1 if tier == 'quick' else 4):
            yield swap_program(rng, bad, tier)
    if tier == 'thorough':
        for n in range(0, 6):
            for v in range(1 << n):
                bits = format(v, f'0{n}b') if n else ''
                for _ in range(12):
                    yield {'op': 'program', 'cls': 'BitArray', 'bits': bits, 'steps': [gen_step(rng, n, tier)]}

def kind(c): return 'program'

def mkkey(key):
    return slice(*key) if isinstance(key, list) else key

def fmt_sizes(fmt, width_bits):
    """byte widths meant by a byteswap format (None: a string outside the documented grammar)"""
    if isinstance(fmt, dict): return list(fmt['iter'])          # a one-shot iterator of byte sizes
    if fmt is None or fmt == 0: return [width_bits // 8]
    if isinstance(fmt, int): return [fmt]
    if isinstance(fmt, str): return swapfmt_sizes(fmt)
    return list(fmt)

def apply_impl(s, st):
    """apply one step to the implementation object; returns the method's return value (canonical)"""
    import bitstring
    op = st['op']
    # the operand: the object itself, a fresh Bits, or (lit) the literal string '0b...' - which goes through the string-parse cache, so that
    # a mutator that adopts its operand's store instead of copying it shows up when the same literal is used again
    B = lambda x: s if st.get('self_') else (('0b' + x) if st.get('lit') and x else bitstring.Bits(bin=x))
    if op == 'insert': return s.insert(B(st['bs']), st['pos'])
    if op == 'overwrite': return s.overwrite(B(st['bs']), st['pos'])
    if op == 'append': return s.append(B(st['bs']))
    if op == 'prepend': return s.prepend(B(st['bs']))
    if op == 'delitem':
        del s[mkkey(st['key'])]; return None
    if op == 'setitem':
        v = st['val']
        s[mkkey(st['key'])] = bitstring.Bits(bin=v['bits']) if 'bits' in v else v['int']; return None
    if op == 'reverse': return s.reverse(st['start'], st['end'])
    if op == 'rol': return s.rol(st['n'], st['start'], st['end'])
    if op == 'ror': return s.ror(st['n'], st['start'], st['end'])
    if op in ('set', 'invert'):
        p = st['pos']
        if isinstance(p, dict): p = p['list'] if 'list' in p else range(*p['range'])
        return s.set(st['v'], p) if op == 'set' else s.invert(p)
    if op == 'byteswap':
        fmt = iter(st['fmt']['iter']) if isinstance(st['fmt'], dict) else st['fmt']
        if st.get('args') == 'kw':          # the same call with keywords, defaults left out
            kw = {k: st[k] for k in ('start', 'end') if st[k] is not None}
            if not st['repeat']: kw['repeat'] = False
            return s.byteswap(fmt, **kw)
        return s.byteswap(fmt, st['start'], st['end'], st['repeat'])
    if op == 'ilshift': s <<= st['n']; return None
    if op == 'irshift': s >>= st['n']; return None
    if op == 'imul': s *= st['n']; return None
    if op == 'iand': s &= B(st['bs']); return None
    if op == 'ior': s |= B(st['bs']); return None
    if op == 'ixor': s ^= B(st['bs']); return None
    if op == 'clear': return s.clear()
    if op == 'replace':
        kw = {} if st['ba'] is None else {'bytealigned': st['ba']}
        return s.replace(bitstring.Bits(bin=st['old']), bitstring.Bits(bin=st['new']), st['start'], st['end'], st['count'], **kw)
    raise AssertionError(op)

def run_impl(c):
    import bitstring
    s = build(c['cls'], c['bits'], 'bin')
    bitstring.options.lsb0 = bool(c.get('lsb0'))          # reset by the driver
    trace = []
    for st in c['steps']:
        before = s.bin
        r = attempt(lambda: apply_impl(s, st))
        trace.append([before, list(r), s.bin, len(s)])
    return ('ok', trace)

def ref_step(d, st):
    """-> (new content, return value, error kind or None, partial_ok)"""
    op = st['op']
    bs = d if st.get('self_') else st.get('bs')
    def w(fn, *a):
        r = R.call(fn, *a)
        return (r[1], None, None) if r[0] == 'ok' else (d, None, r[1])
    if op == 'insert': return w(R.insert, d, bs, st['pos'])
    if op == 'overwrite': return w(R.overwrite, d, bs, st['pos'])
    if op == 'append': return (d + bs, None, None)
    if op == 'prepend': return (bs + d, None, None)
    if op == 'delitem': return w(R.delitem, d, mkkey(st['key']))
    if op == 'setitem':
        v = st['val']; key = mkkey(st['key'])
        if 'bits' in v: return w(R.setitem_bits, d, key, v['bits'])
        if isinstance(key, slice) and key.step == -1: return None
        return w(R.setitem_int, d, key, v['int'])
    if op == 'reverse': return w(R.reverse, d, st['start'], st['end'])
    if op == 'rol': return w(R.rol, d, st['n'], st['start'], st['end'])
    if op == 'ror': return w(R.ror, d, st['n'], st['start'], st['end'])
    if op in ('set', 'invert'):
        p = st['pos']
        if isinstance(p, dict): p = p['list'] if 'list' in p else list(range(*p['range']))
        r = R.call(R.set_, d, st['v'], p) if op == 'set' else R.call(R.invert, d, p)
        if r[0] == 'err': return (d, None, r[1])
        return (r[1][0], None, r[1][1])
    if op == 'byteswap':
        fmt = st['fmt']
        if isinstance(fmt, int) and fmt < 0: 
            r0 = R.call(R.norm_range, len(d), st['start'], st['end'])
            return (d, None, 'ValueError')
        r0 = R.call(R.norm_range, len(d), st['start'], st['end'])
        if r0[0] == 'err': return (d, None, 'ValueError')
        sizes = fmt_sizes(fmt, r0[1][1] - r0[1][0])
        if sizes is None: return (d, None, 'ValueError')          # a string that is not a struct-style pattern
        r = R.call(R.byteswap, d, sizes, st['start'], st['end'], st['repeat'])
        return (r[1][0], r[1][1], None) if r[0] == 'ok' else (d, None, r[1])
    if op == 'ilshift': return w(R.lshift, d, st['n'])
    if op == 'irshift': return w(R.rshift, d, st['n'])
    if op == 'imul': return (d * st['n'], None, None) if st['n'] >= 0 else (d, None, 'ValueError')
    if op in ('iand', 'ior', 'ixor'):
        if len(bs) != len(d): return (d, None, 'ValueError')
        f = {'iand': lambda x, y: x & y, 'ior': lambda x, y: x | y, 'ixor': lambda x, y: x ^ y}[op]
        return (''.join(str(f(int(x), int(y))) for x, y in zip(d, bs)), None, None)
    if op == 'clear': return ('', None, None)
    if op == 'replace':
        r = R.call(R.replace, d, st['old'], st['new'], st['start'], st['end'], st['count'], bool(st['ba']))
        return (r[1][0], r[1][1], None) if r[0] == 'ok' else (d, None, r[1])

SWAP = {'ilshift': 'irshift', 'irshift': 'ilshift', 'rol': 'ror', 'ror': 'rol'}
def ref_step_lsb0(d, st):
    """under lsb0: the msb0 specification applied to the bit-reversed content and operands with the same position arguments, reversed back; shifts and
    rotations keep their direction relative to the most significant end, integers are encoded as in msb0"""
    X = d[::-1]
    st2 = dict(st)
    st2['op'] = SWAP.get(st['op'], st['op'])
    for k in ('bs', 'old', 'new'):
        if isinstance(st2.get(k), str): st2[k] = st2[k][::-1]
    if st['op'] == 'setitem':
        v = st['val']; key = mkkey(st['key'])
        if 'bits' in v: st2['val'] = {'bits': v['bits'][::-1]}
        elif isinstance(key, slice) and key.step in (None, 1):
            try: L = len(X[key])
            except Exception: return None
            iv = v['int']
            if L == 0 or not (-(1 << (L - 1)) <= iv < (1 << L)): return (d, None, 'ValueError')
            st2['val'] = {'bits': format(iv & ((1 << L) - 1), f'0{L}b')[::-1]}       # the integer's own encoding lands in the slice un-mirrored
        elif isinstance(key, slice) and key.step == -1: return None
    if st.get('self_'): st2['self_'] = True
    r = ref_step(X, st2)
    if r is None: return None
    content, ret, err = r
    return (content[::-1], ret, err)

def oracle(c, obs):
    for st, (before, r, after, ln) in zip(c['steps'], obs[1]):
        if ln != len(after): return f"len(s)={ln} but len(s.bin)={len(after)} after {st}"
        exp = ref_step_lsb0(before, st) if c.get('lsb0') else ref_step(before, st)
        if exp is None: continue
        content, ret, err = exp
        if err is None:
            if r[0] != 'ok': return f"{'lsb0 ' if c.get('lsb0') else ''}{c['cls']}({before!r}) {st} raised {r[1]}; specification gives {content!r}"
            if after != content: return f"{'lsb0 ' if c.get('lsb0') else ''}{c['cls']}({before!r}) {st} left {after!r}; specification gives {content!r}"
            if ret is not None and r[1] != ret: return f"{c['cls']}({before!r}) {st} returned {r[1]}, expected {ret}"
        else:
            if r[0] != 'err' or r[1] != err: return f"{c['cls']}({before!r}) {st} should raise {err}, got {r} (content {after!r})"
            if after != content: return f"{c['cls']}({before!r}) {st} raised {err} but left {after!r}, expected {content!r}"
    return None

def nontrivial(c, obs):
    return any(b != a or r[0] == 'err' for b, r, a, _ in obs[1])

def classify(c, obs): return None

def cob(x): return copt(x, cz)
def ckey(key): return cslice(*key)

def coq_step(st, before, r, after, lsb0=False):
    """Coq boolean: model(before, step) = (after | error)"""
    if lsb0:
        t = coq_step(st, before, r, after)
        if t is None or st['op'] in ('ilshift', 'irshift', 'iand', 'ior', 'ixor', 'clear') or (st['op'] in ('set', 'invert') and st['pos'] is None): return t
        for f in ('ba_insert', 'ba_overwrite', 'ba_append', 'ba_prepend', 'ba_delitem_slice', 'ba_delitem_int', 'ba_setitem_slice', 'ba_setitem_int', 'ba_reverse', 'ba_rol', 'ba_ror',
                  'ba_set_range', 'set_list', 'invert_list', 'ba_byteswap', 'ba_imul', 'ba_replace'):
            t = t.replace(f'({f} false ', f'({f} true ')
        return t
    op = st['op']
    D = cbits(before)
    bs = before if st.get('self_') else st.get('bs')
    res = ('ok', after) if r[0] == 'ok' else ('err', r[1])
    R_ = cres(res, cbits)
    if op == 'insert': return f"rbits_eqb (ba_insert false {D} {cbits(bs)} {cz(st['pos'])}) {R_}"
    if op == 'overwrite': return f"rbits_eqb (ba_overwrite false {cbool(st.get('self_', False))} {D} {cbits(bs)} {cz(st['pos'])}) {R_}"
    if op == 'append': return f"bits_eqb (ba_append false {D} {cbits(bs)}) {cbits(after)}" if r[0] == 'ok' else 'false'
    if op == 'prepend': return f"bits_eqb (ba_prepend false {D} {cbits(bs)}) {cbits(after)}" if r[0] == 'ok' else 'false'
    if op == 'delitem':
        k = st['key']
        return f"rbits_eqb (ba_delitem_{'slice' if isinstance(k, list) else 'int'} false {D} {ckey(k) if isinstance(k, list) else cz(k)}) {R_}"
    if op == 'setitem':
        k, v = st['key'], st['val']
        V = f"(VBits {cbits(v['bits'])})" if 'bits' in v else f"(VInt {cz(v['int'])})"
        return f"rbits_eqb (ba_setitem_{'slice' if isinstance(k, list) else 'int'} false {D} {ckey(k) if isinstance(k, list) else cz(k)} {V}) {R_}"
    if op == 'reverse': return f"rbits_eqb (ba_reverse false {D} {cob(st['start'])} {cob(st['end'])}) {R_}"
    if op in ('rol', 'ror'): return f"rbits_eqb (ba_{op} false {D} {cz(st['n'])} {cob(st['start'])} {cob(st['end'])}) {R_}"
    if op in ('set', 'invert'):
        p = st['pos']
        err = 'None' if r[0] == 'ok' else f"(Some {r[1] if r[1] in COQ_EXNS else 'AssertionError'})"
        pe = f"({cbits(after)}, {err})"
        if p is None:
            if op == 'set': return f"rbits_eqb (ba_set_all {D} {cbool(bool(st['v']))}) {R_}"
            return f"bits_eqb (ba_invert_all {D}) {cbits(after)}" if r[0] == 'ok' else 'false'
        if isinstance(p, dict) and 'range' in p and op == 'set':
            a, b, s_ = p['range']
            return f"pe_eqb (ba_set_range false {D} {cbool(bool(st['v']))} {cz(a)} {cz(b)} {cz(s_)}) {pe}"
        ps = [p] if isinstance(p, int) else (p['list'] if 'list' in p else list(range(*p['range'])))
        if op == 'set': return f"pe_eqb (set_list false {D} {cbool(bool(st['v']))} {clist(ps, cz)}) {pe}"
        return f"pe_eqb (invert_list false {D} {clist(ps, cz)}) {pe}"
    if op == 'byteswap':
        fmt = st['fmt']
        r0 = R.call(R.norm_range, len(before), st['start'], st['end'])
        if r0[0] == 'err' or (isinstance(fmt, int) and fmt < 0):
            return None   # argument validation order is checked by the oracle only
        sizes = fmt_sizes(fmt, r0[1][1] - r0[1][0])
        if sizes is None: return None   # refused format strings are judged by the oracle only
        rr = ('ok', (after, r[1])) if r[0] == 'ok' else ('err', r[1])
        return (f"res_eqb (pair_eqb bits_eqb Z.eqb) (ba_byteswap false {D} {clist(sizes, cz)} {cob(st['start'])} {cob(st['end'])} {cbool(st['repeat'])}) "
                f"{cres(rr, lambda v: cpair(cbits(v[0]), cz(v[1])))}")
    if op in ('ilshift', 'irshift'): return f"rbits_eqb (bs_{op} {D} {cz(st['n'])}) {R_}"
    if op == 'imul': return f"rbits_eqb (ba_imul false {D} {cz(st['n'])}) {R_}"
    if op in ('iand', 'ior', 'ixor'): return f"rbits_eqb (bs_{op} {D} {cbits(bs)}) {R_}"
    if op == 'clear': return f"bits_eqb (ba_clear {D}) {cbits(after)}"
    if op == 'replace':
        rr = ('ok', (after, r[1])) if r[0] == 'ok' else ('err', r[1])
        return (f"res_eqb (pair_eqb bits_eqb Z.eqb) (ba_replace false {D} {cbits(st['old'])} {cbits(st['new'])} {cob(st['start'])} {cob(st['end'])} {cob(st['count'])} {cbool(bool(st['ba']))}) "
                f"{cres(rr, lambda v: cpair(cbits(v[0]), cz(v[1])))}")

def coq_check(c, obs):
    terms = []
    for st, (before, r, after, ln) in zip(c['steps'], obs[1]):
        t = coq_step(st, before, r, after, bool(c.get('lsb0')))
        if t is not None: terms.append('(' + t + ')')
    return ' && '.join(terms) if terms else None

def search(seeds, rng):
    pool = list(seeds) + list(gen_cases(rng, 'quick')) + list(gen_cases(rng, 'thorough'))[:8000]      # the quick tier holds every class of case, the thorough prefix the volume
    for c in pool:
        try: obs = run_impl(c)
        finally: reset_options()
        msg = oracle(c, obs)
        if msg: return c, obs, msg
    return None

# arguments on which the translated source of a kernel and the hand model differ -> ordinary single-step programs (msb0 here; C12 replays lsb0)
KERNEL_OPS = {'k_ba_insert': 'insert', 'k_ba_overwrite': 'overwrite', 'k_ba_ror': 'ror', 'k_ba_rol': 'rol', 'k_ror_msb0': 'ror', 'k_rol_msb0': 'rol',
              'k_ba_reverse': 'reverse', 'k_ba_ilshift': 'ilshift', 'k_ba_irshift': 'irshift', 'k_ba_imul': 'imul', 'k_insert_': 'insert', 'k_overwrite_': 'overwrite',
              'k_delete_': 'delitem', 'k_ilshift_': 'ilshift', 'k_irshift_': 'irshift', 'k_validate_slice': 'reverse', 'k_reversebytes': 'byteswap'}
def kernel_cases(name, a):
    if a['lsb0']: return []
    op = KERNEL_OPS.get(name)
    if op is None: return []
    x = a['args']
    st = {'op': op}
    if op in ('insert', 'overwrite'):
        bs, same = x['bs']; st.update(bs=bs, pos=x['pos'], self_=bool(same))
    elif op in ('ror', 'rol'): st.update(n=x['bits'], start=x.get('start'), end=x.get('end'))
    elif op == 'reverse': st.update(start=x.get('start'), end=x.get('end'))
    elif op in ('ilshift', 'irshift', 'imul'): st.update(n=x['n'])
    elif op == 'delitem': st.update(key=[x['pos'], x['pos'] + x['bits'], None])
    elif op == 'byteswap': st.update(fmt=0, start=x['start'], end=x['end'], repeat=False)
    return [{'op': 'program', 'cls': cls, 'bits': a['self'], 'steps': [st]} for cls in ('BitArray', 'BitStream')]
