"""C19 — printable forms faithfully describe the value."""
from vlib import *
from props.common import *
import io, re, ast

ID = 'C19'
COQ_PROPS = ['Props/C19.v']
COQ_IMPORTS = ['Prims', 'CaseLib', 'IntCodec', 'Print', 'PrintPP']
RULE = ('str/repr for all contents and lengths (every residue mod 4 and mod 3, 0..40 exhaustively and around the 1000-bit truncation limit) x four classes x pos: re-parse / eval round trip, '
        'truncation mark and true length; pp() for all pairs of bin/hex/oct/bytes formats x group sizes x widths 0..200 x separators x show_offset x lsb0/no_color: digits in order, groups never split, '
        'line widths, no escape sequences under no_color; pp with an explicit group size from one digit to far beyond the whole data (every length 0..2 groups and a bit; a usable group size must print: digits + trailing bits, '
        'trailing bits = length mod group size); str/repr after every move of a history on ONE object (stream reads / peeks / seeks / bytealign / searches, refused calls, documented mutators, both bit numberings) and of every '
        'bitstring object such a call returns, against a (bits, pos) reference machine; the same for objects of USER SUBCLASSES of the four classes (real class statements at module level, in functions, nested functions, class bodies, methods, type() calls, decorated; '
        'plain / methods / __slots__ / __init__ / mix-in / metaclass bodies; subclasses of subclasses; nine construction routes and files; str/repr taken via str()/repr(), the dunders, f-strings, % and containers), repr evaluated in the scope '
        'Python gives right after the class statement, class compared by identity, for the object and for every object its methods return; Array.__repr__ re-evaluated for unscaled dtypes (also for user subclasses of Array). non-trivial = length not a multiple of 4 or a pp with two formats; distinct by arguments')
ASSUMPTIONS = ['MAX_CHARS is read from the working tree and compared with the model constant', 'pp layout theorems are not proved (partial): the pp oracle carries that part']

def gen_cases(rng, tier):
    for n in list(range(0, 41)) + [63, 64, 65, 127, 128, 129, 996, 997, 998, 999, 1000, 1001, 1002, 1003, 1004, 1024, 2001, 8193]:
        yield {'op': 'str', 'cls': rng.choice(CLASSES), 'bits': rand_bits(rng, n), 'pos': rng.choice([0, 0, n // 2, n]), 'route': rng.choice(['bin', 'auto', 'slice'])}
    N = 300 if tier == 'quick' else 6000
    for _ in range(N):
        n = rand_len(rng, tier)
        yield {'op': 'str', 'cls': rng.choice(CLASSES), 'bits': rand_bits(rng, n), 'pos': rng.choice([0, n // 3, n]), 'route': rng.choice(['bin', 'auto', 'slice']), 'lsb0': rng.random() < 0.3}
    # objects created from a file (by name or handle): repr must evaluate back to the CURRENT value, also after an in-place change
    for _ in range(40 if tier == 'quick' else 600):
        n = 8 * rng.choice([1, 2, 3, 16, 40, 125, 126])
        yield {'op': 'repr_file', 'cls': rng.choice(CLASSES), 'bits': rand_bits(rng, n, 'rand'), 'how': rng.choice(['filename', 'handle', 'handle_raw', 'filename_len']),
               'edit': rng.choice([None, 'invert', 'append', 'del', 'set', 'reverse']), 'pos': rng.choice([0, 0, 8, n])}
    # pp with more trailing bits than str() shows in full
    for _ in range(4 if tier == 'quick' else 40):
        g = rng.choice([1004, 1200, 2048, 4000])
        yield {'op': 'pp', 'cls': rng.choice(CLASSES), 'bits': rand_bits(rng, g + rng.choice([1001, 1003, g - 1]), 'rand'), 'fmt': rng.choice(['hex', 'bin']) + f':{g}', 'width': 120,
               'sep': ' ', 'show_offset': False, 'lsb0': False, 'no_color': True}
    fmts = ['bin', 'hex', 'oct', 'bytes']
    for _ in range(N):
        f1 = rng.choice(fmts); f2 = rng.choice([None, None] + fmts)
        g = rng.choice([None, None, 0, 1, 2, 3, 4, 6, 8, 12, 16, 24, 32, 64])
        n = rng.choice([0, 1, 7, 8, 12, 24, 48, 96, 100, 200, 384, 1000]) if rng.random() < 0.7 else rng.randrange(0, 600)
        def spell(f):
            if g is None: return f
            return f"{f}:{g}" if f != 'bytes' else f"bytes:{max(1, g // 8) if g else 0}"
        fmt = spell(f1) + ((', ' + (f2 if g is None or rng.random() < 0.5 else spell(f2))) if f2 else '')
        yield {'op': 'pp', 'cls': rng.choice(CLASSES), 'bits': rand_bits(rng, n), 'fmt': fmt, 'width': rng.choice([0, 1, 10, 20, 40, 60, 80, 120, 200, rng.randrange(0, 201)]),
               'sep': rng.choice([' ', ' ', '', '_', ', ']), 'show_offset': rng.random() < 0.6, 'lsb0': rng.random() < 0.25, 'no_color': rng.random() < 0.7}
    # every width for one and two ungrouped (':0') and grouped formats: the line-length computation has a branch per combination
    for fmt in ('bin:0, hex:0', 'bin:0, oct:0', 'hex:0, bin:0', 'bin:0', 'hex:0', 'bin:8, hex:8', 'hex:4, oct:3', 'oct:0, hex:0', 'bytes:0, hex:0'):
        bits = rand_bits(rng, rng.choice([96, 200, 264]), 'rand')
        for w in (range(24, 128) if tier == 'thorough' else range(24, 128, 1 if fmt.count(':0') == 2 else 5)):
            yield {'op': 'pp', 'cls': 'Bits', 'bits': bits, 'fmt': fmt, 'width': w, 'sep': rng.choice([' ', ' ', '_']), 'show_offset': w % 2 == 0, 'lsb0': False, 'no_color': True}
    for _ in range(N // 3):
        d = rng.choice(['uint8', 'int7', 'hex4', 'bin3', 'float16', 'float32', 'bool', 'bytes2', 'uintle16', '>h', 'oct3'])
        yield {'op': 'array_repr', 'dtype': d, 'n': rng.randrange(0, 6), 'trail': rand_bits(rng, rng.choice([0, 0, 1, 3])), 'seed': rng.randrange(1 << 30)}
    # Arrays of float formats holding ARBITRARY finite bit patterns (not only short decimals): eval(repr(a)) must give the same data
    for _ in range(60 if tier == 'quick' else 1500):
        d = rng.choice(['float16', 'float16', 'floatle16', 'float32', 'floatle32', 'float64', 'bfloat', 'bfloatle', 'e4m3mxfp', 'e5m2mxfp', 'p4binary', 'p3binary', 'e3m2mxfp', 'e2m1mxfp', 'mxint', 'e8m0mxfp'])
        yield {'op': 'array_repr_raw', 'dtype': d, 'n': rng.randrange(1, 8), 'seed': rng.randrange(1 << 30)}
    # a history of pp() calls with options.no_color switched on, off and on again (each output judged under the setting in force)
    for _ in range(6 if tier == 'quick' else 60):
        yield {'op': 'color_history', 'flags': [rng.random() < 0.5 for _ in range(rng.randrange(3, 8))], 'first': rng.random() < 0.5, 'what': rng.choice(['bits', 'array', 'both'])}
    yield {'op': 'maxchars'}
    # the layout arithmetic of _pp against PrintPP.v: bits on the first (full) line and its width, for every kind of format pair
    BPC = {'bin': 1, 'oct': 3, 'hex': 4, 'bytes': 8}
    import math
    for _ in range(300 if tier == 'quick' else 6000):
        f1 = rng.choice(['bin', 'oct', 'hex'])
        f2 = rng.choice([None, None, 'bin', 'oct', 'hex', 'bytes'])
        if f2 == f1: f2 = None
        l = BPC[f1] * (BPC[f2] if f2 else 1) // math.gcd(BPC[f1], BPC[f2] if f2 else 1)
        g = rng.choice([0, 0, l, 2 * l, 3 * l, 4 * l, 8 * l])
        n = 24 * max(g, 8) * rng.choice([2, 5, 13])
        yield {'op': 'pplayout', 'f1': f1, 'f2': f2, 'g': g, 'n': n, 'seed': rng.randrange(1 << 30), 'width': rng.choice([0, 1, 10, 40, 60, 61, 62, 63, 80, 100, 120, 160, 200, rng.randrange(0, 260)]),
               'sep': rng.choice([' ', ' ', '', '__', ', ']), 'show_offset': rng.random() < 0.5}
    # pp() with an explicit group size around and BEYOND the whole data (no group, one group, two groups and a bit), every residue of the length modulo the digit sizes
    yield from gen_pp_short(rng, tier)
    # printable forms of streams whose position was reached by stream operations (reads, seeks, bytealign, searches, refused calls) on one object
    yield from gen_stream_pos(rng, tier)
    # objects of user subclasses of the four classes and of Array (defined at module level, in functions, in classes, ...): str / repr as for any other object
    yield from gen_subclasses(rng, tier)

# ---------------------------------------------------------------------------------------------------------------------------------------------------
# pp(): which calls have to print. Written from the documentation of pp(): a format is one or two of bin / oct / hex / bytes, an explicit length is the
# group size in bits (bytes: in bytes), 0 = not grouped; the bits left over after the whole groups are reported as trailing bits.
UNIT = {'bin': 1, 'oct': 3, 'hex': 4, 'bytes': 8}

def pp_tokens(fmt):
    """[(name, stated group size in bits or None)] for a format made of one or two bin/oct/hex/bytes tokens, else None"""
    out = []
    for part in fmt.split(','):
        m = re.fullmatch(r'\s*([a-z]+)\s*:?\s*(\d+)?\s*', part)
        if not m or m.group(1) not in UNIT: return None
        out.append((m.group(1), None if m.group(2) is None else int(m.group(2)) * (8 if m.group(1) == 'bytes' else 1)))
    return out if 1 <= len(out) <= 2 else None

def pp_group(fmt):
    """('bad', None): the format itself is unusable (ValueError is the documented answer); ('group', G): explicit group size G > 0 every format can show;
    ('free', l): not grouped / no length given, every line is cut where the formats allow: data must be a multiple of l bits to be displayable"""
    import math
    toks = pp_tokens(fmt)
    if toks is None: return ('bad', None)
    stated = [L for _, L in toks if L is not None]
    if len(set(stated)) > 1: return ('bad', None)                          # two different group sizes
    if any(L is not None and L % UNIT[nm] for nm, L in toks): return ('bad', None)   # a length the dtype does not have
    l = 1
    for nm, _ in toks: l = l * UNIT[nm] // math.gcd(l, UNIT[nm])
    if stated and stated[0] > 0:
        return ('group', stated[0]) if stated[0] % l == 0 else ('bad', None)
    return ('free', l)

def pp_displayable(fmt, n):
    """True when pp(fmt) on n bits has to print (a ValueError would be a failure): with a usable explicit group size ANY length is printable - whole groups as
    digits, the rest (possibly everything, possibly nothing) as trailing bits; without one the data must be a whole number of digits of every format"""
    k, v = pp_group(fmt)
    if k == 'group': return True
    if k == 'free': return n % v == 0
    return False

def gen_pp_short(rng, tier):
    import math
    quick = tier == 'quick'
    names = ['bin', 'oct', 'hex', 'bytes']
    combos = [(a,) for a in names] + [(a, b) for a in names for b in names if a != b]
    for combo in combos:
        l = 1
        for nm in combo: l = l * UNIT[nm] // math.gcd(l, UNIT[nm])
        mults = [1, rng.choice([2, 3]), rng.choice([4, 5, 8]), rng.choice([11, 16, 40])] if quick else [1, 2, 3, 4, 5, 8, 11, 16, 40]
        for m in mults:
            G = l * m
            if quick:
                ns = {0, rng.randrange(1, G) if G > 1 else 1, G - 1, rng.choice([G, G + 1]), rng.randrange(G + 1, 2 * G + 3), rng.choice([1, 2, 3, 5, 7])}
            else:
                ns = set(range(0, min(2 * G + 4, 70))) | {G - 1, G, G + 1, 2 * G - 1, 2 * G, 2 * G + 1, 3 * G + 2} | {rng.randrange(0, 3 * G + 1) for _ in range(6)}
            for n in sorted(ns):
                def spell(nm, with_len):
                    if not with_len: return nm
                    v = G // 8 if nm == 'bytes' else G
                    return f"{nm}{rng.choice([':', '', ': '])}{v}"
                if len(combo) == 1: fmt = spell(combo[0], True)
                else:
                    w = rng.choice([(True, True), (True, True), (True, False), (False, True)])
                    fmt = spell(combo[0], w[0]) + rng.choice([', ', ',']) + spell(combo[1], w[1])
                yield {'op': 'pp', 'cls': rng.choice(CLASSES), 'bits': rand_bits(rng, n), 'fmt': fmt, 'width': rng.choice([0, 1, 17, 40, 80, 120, 200, rng.randrange(0, 201)]),
                       'sep': rng.choice([' ', ' ', '', '_', ', ']), 'show_offset': rng.random() < 0.6, 'lsb0': rng.random() < 0.3, 'no_color': rng.random() < 0.7}

# ---------------------------------------------------------------------------------------------------------------------------------------------------
# objects with a HISTORY: a (bits, pos) reference machine, written from the documentation, for the operations that move the position of a stream
# (both bit numberings), the documented mutators (msb0) and the operations that return a new bitstring object (both numberings).
# A move is a JSON list. ref_move -> (bits afterwards, pos afterwards | 'open', [bits of every bitstring object the call returns] | None).
# 'open' = the documentation does not fix the position after this mutator: any valid one, the printable forms must show the one the object reports.
# A refused call (ReadError, ValueError ...) changes nothing. pos is None for Bits / BitArray.
STREAMS = ('ConstBitStream', 'BitStream')
FLIP = str.maketrans('01', '10')

def ref_move(d, pos, mv, lsb0):
    n = len(d); k = mv[0]
    def sl(a, b):                        # the slice [a:b], 0 <= a <= b (clipped to the data like any Python slice), in the numbering in force
        a, b = min(a, n), min(b, n)
        return d[n - b:n - a] if lsb0 else d[a:b]
    same = (d, pos, None)
    def first_from(pat, start):          # lowest position >= start (in the numbering in force) at which pat stands, or None
        if not lsb0:
            j = d.find(pat, start)
            return None if j < 0 else j
        j = d[:max(n - start, 0)].rfind(pat)
        return None if j < 0 else n - len(pat) - j
    def last(pat):
        j = d.find(pat) if lsb0 else d.rfind(pat)
        if j < 0: return None
        return n - len(pat) - j if lsb0 else j
    # --- moving the position (stream classes)
    if k in ('read', 'peek'):
        if mv[1] < 0 or pos + mv[1] > n: return same
        return (d, pos + mv[1] if k == 'read' else pos, [sl(pos, pos + mv[1])])
    if k == 'readfmt':                   # ['readfmt', name, length]: a length the dtype does not have is refused
        Ln = mv[2]
        if Ln <= 0 or (mv[1] == 'hex' and Ln % 4) or (mv[1] == 'oct' and Ln % 3) or pos + Ln > n: return same
        return (d, pos + Ln, [sl(pos, pos + Ln)] if mv[1] == 'bits' else None)
    if k == 'readlist':                  # all or nothing
        if any(x <= 0 for x in mv[1]) or pos + sum(mv[1]) > n: return same
        return (d, pos + sum(mv[1]), None)
    if k == 'rest': return (d, n, None)             # read('bin'): everything that is left, possibly nothing
    if k == 'align':
        t = pos + (-pos) % 8
        return (d, t if t <= n else pos, None)
    if k in ('pos', 'bitpos'): return (d, mv[1] if 0 <= mv[1] <= n else pos, None)
    if k == 'bytepos': return (d, mv[1] * 8 if 0 <= mv[1] * 8 <= n else pos, None)
    if k == 'find':
        i = first_from(mv[1], mv[2] or 0)
        return (d, pos if i is None else i, None)
    if k == 'rfind':
        i = last(mv[1])
        return (d, pos if i is None else i, None)
    if k == 'readto':
        i = first_from(mv[1], pos)
        if i is None: return same
        return (d, i + len(mv[1]), [sl(pos, i + len(mv[1]))])
    # --- mutators (BitArray, BitStream; msb0)
    moved = lambda d2, p2: (d2, None if pos is None else p2, None)
    if k in ('append', 'iadd'): return moved(d + mv[1], n + len(mv[1]))            # "The current bit position will be moved to the end of the BitStream."
    if k == 'prepend': return moved(mv[1] + d, 'open')
    if k in ('insert', 'overwrite'):     # "moved to the end of the inserted / overwritten section"; ValueError for a position outside the data
        b, q = mv[1], mv[2]
        if q is None: q = pos
        if q < 0: q += n
        if not 0 <= q <= n: return same
        if not b: return same
        return moved(d[:q] + b + d[q:] if k == 'insert' else d[:q] + b + d[q + len(b):], q + len(b))
    if k in ('del', 'setslice'):         # the position is fixed only while the length stays what it was
        d2 = d[:mv[1]] + (mv[3] if k == 'setslice' else '') + d[mv[2]:]
        return moved(d2, pos if len(d2) == n else 'open')
    if k == 'clear': return moved('', 'open')
    if k == 'setbin': return moved(mv[1], 'open')
    if k == 'imul': return moved(d * mv[1], pos if mv[1] == 1 else 'open')
    if k == 'reverse': return moved(d[::-1], pos)
    if k == 'invert': return moved(d.translate(FLIP), pos)
    if k == 'ror': return moved(d[-(mv[1] % n):] + d[:-(mv[1] % n)] if n and mv[1] % n else d, pos)
    # --- a new object (all four classes); None where the call is refused (shifts, ~ and the bit-wise operators of an empty bitstring)
    if k == 'derive':
        h = mv[1]
        new = lambda *xs: (d, pos, list(xs))
        if h in ('copy', 'ccopy', 'ctor', 'bits', 'unpack', 'getall'): return new(d)
        if h == 'add': return new(d + mv[2])
        if h == 'radd': return new(mv[2] + d)
        if h in ('mul', 'rmul'): return new(d * mv[2])
        if h == 'join': return new(d + mv[2] + d)
        if h == 'slice': return new(sl(mv[2], mv[3]))
        if h == 'step': return new(d[::-1][mv[2]:mv[3]:mv[4]][::-1] if lsb0 else d[mv[2]:mv[3]:mv[4]])      # any Python slice; lsb0 numbers the same bits from the other end
        if h == 'cut': return (d, pos, [sl(i, min(i + mv[2], n)) for i in range(0, n, mv[2])][:6])
        if n == 0: return same
        if h == 'inv': return new(d.translate(FLIP))
        if h in ('and', 'or'): return new(d)
        if h == 'xor': return new('0' * n)
        if h == 'lsh': return new(d[mv[2]:] + '0' * min(mv[2], n))
        if h == 'rsh': return new('0' * min(mv[2], n) + d[:max(n - mv[2], 0)])
    raise AssertionError(mv)

def do_move(s, mv):
    import copy
    from bitstring import Bits
    k = mv[0]; B = lambda x: Bits(bin=x)
    if k == 'read': return s.read(mv[1])
    if k == 'readfmt': return s.read(f'{mv[1]}:{mv[2]}')
    if k == 'peek': return s.peek(mv[1])
    if k == 'readlist': return s.readlist(', '.join(f'bin:{x}' for x in mv[1]))
    if k == 'rest': return s.read('bin')
    if k == 'align': return s.bytealign()
    if k == 'pos': s.pos = mv[1]; return None
    if k == 'bitpos': s.bitpos = mv[1]; return None
    if k == 'bytepos': s.bytepos = mv[1]; return None
    if k == 'find': return s.find(B(mv[1])) if mv[2] is None else s.find(B(mv[1]), mv[2])
    if k == 'rfind': return s.rfind(B(mv[1]))
    if k == 'readto': return s.readto(B(mv[1]))
    if k == 'append': return s.append(B(mv[1]))
    if k == 'iadd': s += B(mv[1]); return None
    if k == 'prepend': return s.prepend('0b' + mv[1] if mv[1] else B(''))
    if k == 'insert': return s.insert(B(mv[1])) if mv[2] is None else s.insert(B(mv[1]), mv[2])
    if k == 'overwrite': return s.overwrite(B(mv[1])) if mv[2] is None else s.overwrite(B(mv[1]), mv[2])
    if k == 'del': del s[mv[1]:mv[2]]; return None
    if k == 'setslice': s[mv[1]:mv[2]] = B(mv[3]); return None
    if k == 'clear': return s.clear()
    if k == 'setbin': s.bin = mv[1]; return None
    if k == 'imul': s *= mv[1]; return None
    if k == 'reverse': return s.reverse()
    if k == 'invert': return s.invert()
    if k == 'ror': return s.ror(mv[1])
    if k == 'derive':
        h = mv[1]
        if h == 'copy': return s.copy()
        if h == 'ccopy': return copy.copy(s)
        if h == 'ctor': return type(s)(s)
        if h == 'bits': return s.bits
        if h == 'unpack': return s.unpack('bits')
        if h == 'getall': return s[:]
        if h == 'add': return s + B(mv[2])
        if h == 'radd': return ('0b' + mv[2] if mv[2] else []) + s
        if h == 'mul': return s * mv[2]
        if h == 'rmul': return mv[2] * s
        if h == 'join': return B(mv[2]).join([s, s]) if type(s) is Bits else type(s)(bin=mv[2]).join([s, s])
        if h == 'slice': return s[mv[2]:mv[3]]
        if h == 'step': return s[mv[2]:mv[3]:mv[4]]
        if h == 'cut': return [x for _, x in zip(range(6), s.cut(mv[2]))]
        if h == 'inv': return ~s
        if h == 'and': return s & s
        if h == 'or': return s | B('0' * len(s))
        if h == 'xor': return s ^ s
        if h == 'lsh': return s << mv[2]
        if h == 'rsh': return s >> mv[2]
    raise AssertionError(mv)

def rand_move(rng, cls, bits, lsb0):
    """one move an object of class cls holding (about) `bits` can be asked for"""
    n = len(bits)
    p = rng.randrange(0, n + 1)
    small = lambda: rand_bits(rng, rng.choice([0, 1, 2, 3, 8, 9]))
    kinds = ['derive'] * 3
    if cls in STREAMS: kinds += ['read', 'read', 'readfmt', 'peek', 'readlist', 'rest', 'align', 'align', 'pos', 'bitpos', 'bytepos', 'find', 'rfind', 'readto'] * 2
    if cls in MUTABLE and not lsb0: kinds += ['append', 'iadd', 'prepend', 'insert', 'overwrite', 'del', 'setslice', 'clear', 'setbin', 'imul', 'reverse', 'invert', 'ror']
    k = rng.choice(kinds)
    pat = lambda: (bits[p:p + rng.choice([1, 2, 3, 8])] or '1') if rng.random() < 0.7 else rand_bits(rng, rng.choice([1, 2, 3, 9]), 'rand')
    left = n - p
    if k in ('read', 'peek'): return [k, rng.choice([0, 1, 2, 3, 7, 8, left, left + 1, max(left - 1, 0), -1, n, n + 1])]
    if k == 'readfmt': return [k, rng.choice(['bin', 'uint', 'int', 'bits', 'bits', 'hex', 'oct']), rng.choice([1, 2, 3, 4, 6, 8, 12, max(left, 1), left + 1])]
    if k == 'readlist': return [k, [rng.choice([1, 2, 3, 5, 8, max(left, 1)]) for _ in range(rng.randrange(1, 4))]]
    if k in ('rest', 'align', 'clear', 'reverse', 'invert'): return [k]
    if k in ('pos', 'bitpos'): return [k, rng.choice([0, n, n + 1, -1, p, p, 8 * (n // 8), max(n - 1, 0)])]
    if k == 'bytepos': return [k, rng.choice([0, 1, n // 8, n // 8 + 1, -1, (n + 7) // 8])]
    if k == 'find': return [k, pat(), rng.choice([None, None, 0, p])]
    if k in ('rfind', 'readto'): return [k, pat()]
    if k in ('append', 'iadd', 'prepend'): return [k, small()]
    if k in ('insert', 'overwrite'): return [k, small(), rng.choice(([None, None] if cls in STREAMS else []) + [0, p, n, n + 1, -1, -n - 1])]
    if k in ('del', 'setslice'):
        a = rng.randrange(0, n + 1); b = rng.choice([a, n, rng.randrange(a, n + 1)])
        if rng.random() < 0.3: a, b = rng.choice([(0, n), (max(n - 3, 0), n), (0, min(3, n)), (n // 2, n)])      # cut the data down to below where a position may stand
        return [k, a, b] if k == 'del' else [k, a, b, small()]
    if k == 'setbin': return [k, rand_bits(rng, rng.choice([0, 1, 3, 8, max(n - 1, 0), n + 1]))]
    if k == 'imul': return [k, rng.choice([0, 1, 2, 3])]
    if k == 'ror': return [k, rng.choice([0, 1, 3, 8, n, n + 1])]
    h = rng.choice(['copy', 'ccopy', 'ctor', 'bits', 'unpack', 'getall', 'add', 'radd', 'mul', 'rmul', 'join', 'slice', 'slice', 'step', 'step', 'cut', 'inv', 'and', 'or', 'xor', 'lsh', 'lsh', 'rsh', 'rsh'])
    if h in ('add', 'radd', 'join'): return [k, h, small()]
    if h in ('mul', 'rmul'): return [k, h, rng.choice([0, 1, 2, 3])]
    if h == 'slice':
        a = rng.randrange(0, n + 1)
        return [k, h, a, rng.choice([a, n, rng.randrange(a, n + 1)])]
    if h == 'step':
        f = lambda: rng.choice([None, None, 0, 1, -1, n, -n, n + 2, -n - 2, rng.randrange(-n - 1, n + 2)])
        return [k, h, f(), f(), rng.choice([1, -1, -1, 2, -2, 3, 7, None])]
    if h == 'cut': return [k, h, rng.choice([1, 3, 4, 8, max(n, 1), n + 1])]
    if h in ('lsh', 'rsh'): return [k, h, rng.choice([0, 0, 1, 3, 4, 8, max(n - 1, 0), n, n + 1, 1000])]
    return [k, h]

STREAM_LENGTHS = list(range(0, 42)) + [47, 48, 49, 63, 64, 65, 127, 128, 129, 996, 997, 999, 1000, 1001, 1003, 1004, 1023, 1025]

def gen_stream_pos(rng, tier):
    quick = tier == 'quick'
    # (a) sweep: on one object, every position of interest (start, the whole last - possibly partial - byte, byte boundaries) is reached by a stream operation
    #     and then every kind of move is tried from there, the printable forms being taken after each move
    for n in STREAM_LENGTHS:
        for cls in (STREAMS if not quick else [rng.choice(STREAMS)]):
            for lsb0 in ([False, True] if not quick else [rng.random() < 0.3]):
                bits = rand_bits(rng, n)
                starts = sorted(set([0, 1, 7, 8, 9, n // 2] + list(range(8 * (n // 8), n + 1)) + list(range(max(n - 9, 0), n + 1))))
                starts = [x for x in starts if 0 <= x <= n]
                if quick and len(starts) > 8: starts = sorted(rng.sample(starts[:-4], 4) + starts[-4:])
                moves = []
                for st in starts:
                    tests = [['align'], ['read', n - st + 1], ['read', n - st], ['readfmt', 'hex', 3], ['bytepos', n // 8 + 1], ['readlist', [1, n - st + 1]], ['pos', n + 1], ['rest'],
                             ['find', rand_bits(rng, 9, 'rand'), None], ['readto', rand_bits(rng, 11, 'rand')], ['peek', n - st + 1], ['readfmt', 'bin', n - st + 1],
                             ['derive', 'lsh', rng.choice([0, 1, max(n - 1, 0)])], ['derive', 'copy'], ['derive', 'slice', st, n], ['derive', 'step', None, None, rng.choice([-1, 2, -3])]]
                    if quick: tests = [['align']] + rng.sample(tests[1:], 3)
                    for t in tests:
                        reach = rng.choice(['pos', 'bitpos', 'read0', 'read0', 'readlist0', 'find'])
                        if reach in ('pos', 'bitpos'): moves.append([reach, st])
                        elif reach == 'read0': moves += [['pos', 0], ['read', st]]
                        elif reach == 'readlist0': moves += [['bitpos', 0]] + ([['readlist', [st]]] if st else [])
                        else:
                            here = bits[max(n - st - 12, 0):n - st] if lsb0 else bits[st:st + 12]      # what stands at position st (in the numbering in force): found where the search starts
                            moves += [['pos', 0], ['find', here, st]] if here else [['pos', st]]
                        moves.append(t)
                yield {'op': 'stream_pos', 'cls': cls, 'bits': bits, 'lsb0': lsb0, 'pos0': rng.choice([0, 0, n]), 'moves': moves}
    # (b) random histories on objects of all four classes: position moves (streams), documented mutators (mutable classes, msb0), and calls that return new objects
    for _ in range(160 if quick else 5000):
        n = rng.choice(STREAM_LENGTHS) if rng.random() < 0.8 else rng.randrange(0, 300)
        bits = rand_bits(rng, n)
        cls = rng.choice(CLASSES + list(STREAMS) * 2)
        lsb0 = rng.random() < 0.35
        yield {'op': 'stream_pos', 'cls': cls, 'bits': bits, 'lsb0': lsb0, 'pos0': rng.choice([0, 0, n // 2, n]) if cls in STREAMS else None,
               'moves': [rand_move(rng, cls, bits, lsb0) for _ in range(rng.randrange(3, 20))]}

# ---------------------------------------------------------------------------------------------------------------------------------------------------
# USER SUBCLASSES of the four classes (and of Array), written the way applications write them: at module level, inside a function (a factory, a test
# function), inside a nested function, in the body of another class, in a class in a class, in a class in a function, inside a method, made with type(),
# decorated; empty, with methods / properties / class attributes, with __slots__, with an __init__ that calls super(), with a mix-in before or after the
# base, with a metaclass, as a subclass of another user subclass. The class statement is REAL Python source, executed in a namespace of its own (a "user
# module" with a name of its own); the scope in which repr() is evaluated is the one Python itself gives at the point just after the class statement
# (globals + locals there), i.e. exactly where the class is visible under its own name. Property: "evaluating repr(s) rebuilds an equal object of the same
# class (with the same pos for streams)", "Bits(str(s)) == s" - for every object, whatever class it has.
SUB_BODIES = {
    'plain': ['    pass'],
    'doc': ['    """A user subclass."""'],
    'methods': ['    KIND = 7', '    def header(self): return self[:8]', '    @property', '    def size(self): return len(self)', '    @classmethod', '    def make(cls, b): return cls(bin=b)',
                '    @staticmethod', '    def helper(): return 1'],
    'slots0': ['    __slots__ = ()'],
    'slots': ["    __slots__ = ('tag',)"],
    'init': ['    def __init__(self, *args, **kwargs):', '        super().__init__(*args, **kwargs)', '        self.tag = 5'],
    'mixin_first': ['    pass'], 'mixin_last': ['    KIND = 3'], 'abc': ['    pass'],
}
SUB_WHERES = ['module', 'function', 'nested_function', 'class', 'class_in_class', 'class_in_function', 'method', 'classmethod', 'type_call', 'type_call_function', 'decorated', 'decorated_function', 'conditional']
SUB_NAMES = ['Packet', 'Frame', 'Reader', '_Private', 'X', 'Array', 'Stream', 'bits', 'T1', 'Packet_v2', 'Straße', 'pos', 'Outer', 'factory']
SUB_MODNAMES = ['__main__', 'frames', 'userpkg.frames', 'tests.test_frames']
SUB_VIAS = ['plain', 'plain', 'dunder', 'format', 'percent', 'container']

def sub_source(spec):
    name, body, where = spec['name'], spec['body'], spec['where']
    bases = {'mixin_first': 'Mixin, {b}', 'mixin_last': '{b}, Mixin', 'abc': '{b}, metaclass=abc.ABCMeta'}
    def cls_lines(nm, base, bd): return [f"class {nm}({bases.get(bd, '{b}').format(b=base)}):"] + SUB_BODIES[bd]
    ind = lambda ls, k=1: ['    ' * k + l for l in ls]
    pre = ['import abc', 'from bitstring import Bits, BitArray, ConstBitStream, BitStream', 'class Mixin:', '    __slots__ = ()', "    def hello(self): return 'hello'", 'def register(cls):', '    return cls']
    inner, base = [], 'Base_'
    if spec.get('depth') == 2:
        mid = cls_lines('Mid' + name, 'Base_', spec.get('mid_body', 'plain'))
        if spec.get('mid_where') == 'module': pre += mid
        else: inner += mid
        base = 'Mid' + name
    if where.startswith('type_call'): inner.append(f"{name} = type({name!r}, ({base},), {{'KIND': 7, 'header': lambda self: self[:8]}})")
    else: inner += (['@register'] if where.startswith('decorated') else []) + cls_lines(name, base, body)
    grab = ['SCOPE = dict(globals()); SCOPE.update(locals())']
    if where in ('module', 'type_call', 'decorated'): code = inner + grab
    elif where == 'conditional': code = ['if len(Mixin.__slots__) == 0:'] + ind(inner) + grab
    elif where in ('function', 'type_call_function', 'decorated_function'): code = ['def factory():'] + ind(inner + grab + ['return SCOPE']) + ['SCOPE = factory()']
    elif where == 'nested_function': code = ['def outer():', '    def inner():'] + ind(inner + grab + ['return SCOPE'], 2) + ['    return inner()', 'SCOPE = outer()']
    elif where == 'class': code = ['class Outer:'] + ind(inner + grab) + ['SCOPE = Outer.SCOPE']
    elif where == 'class_in_class': code = ['class Outer:', '    class Middle:'] + ind(inner + grab, 2) + ['SCOPE = Outer.Middle.SCOPE']
    elif where == 'class_in_function': code = ['def factory():', '    class Outer:'] + ind(inner + grab, 2) + ['    return Outer.SCOPE', 'SCOPE = factory()']
    elif where == 'method': code = ['class Outer:', '    def build(self):'] + ind(inner + grab + ['return SCOPE'], 2) + ['SCOPE = Outer().build()']
    elif where == 'classmethod': code = ['class Outer:', '    @classmethod', '    def build(cls):'] + ind(inner + grab + ['return SCOPE'], 2) + ['SCOPE = Outer.build()']
    else: raise AssertionError(where)
    return '\n'.join(pre + code) + '\n'

def make_sub(spec):
    """-> (the user subclass, the namespace in which it is visible under its own name)"""
    import bitstring
    ns = {'__name__': spec.get('modname', '__main__'), 'Base_': getattr(bitstring, spec['base'])}
    exec(compile(sub_source(spec), '<user module>', 'exec'), ns)
    scope = ns['SCOPE']
    return scope[spec['name']], scope

def rand_sub(rng, base, where=None, body=None):
    where = where or rng.choice(SUB_WHERES)
    spec = {'base': base, 'where': where, 'name': rng.choice(SUB_NAMES), 'body': body or rng.choice(list(SUB_BODIES)), 'modname': rng.choice(SUB_MODNAMES), 'depth': rng.choice([1, 1, 1, 2])}
    if where in ('class', 'class_in_class', 'class_in_function', 'method', 'classmethod') and spec['name'] == 'Outer': spec['name'] = 'Inner'
    if where in ('function', 'type_call_function', 'decorated_function', 'class_in_function') and spec['name'] == 'factory': spec['name'] = 'Made'
    if spec['depth'] == 2: spec.update({'mid_where': rng.choice(['module', 'same']), 'mid_body': rng.choice(['plain', 'methods', 'slots0', 'init'])})
    return spec

SUB_ROUTES = ['bin', 'auto', 'bytes', 'slice', 'fromstring', 'join', 'from_lib', 'add', 'kwpos']

def build_sub(N, bits, route, pos):
    """an object of the user class N holding bits, through one of the construction routes; streams are put at pos"""
    from bitstring import Bits, BitArray, ConstBitStream
    n = len(bits)
    if route == 'kwpos' and issubclass(N, ConstBitStream): return N(bin=bits, pos=pos) if n else N(pos=pos)
    if route in ('bin', 'kwpos'): o = N(bin=bits)
    elif route == 'auto': o = N('0b' + bits) if n else N()
    elif route == 'bytes':
        padded = '000' + bits + '0' * ((-(3 + n)) % 8)
        o = N(bytes=int(padded, 2).to_bytes(len(padded) // 8, 'big'), offset=3, length=n)
    elif route == 'slice': o = N(bin='101' + bits + '0110')[3:3 + n]
    elif route == 'fromstring': o = N.fromstring('0b' + bits if n else '')
    elif route == 'join': o = N().join([Bits(bin=bits[:n // 2]), BitArray(bin=bits[n // 2:])])
    elif route == 'from_lib': o = N(BitArray(bin=bits))
    elif route == 'add': o = N() + Bits(bin=bits)
    else: raise AssertionError(route)
    if type(o) is not N: raise AssertionError(f'route {route} gave a {type(o).__name__}')
    if isinstance(o, ConstBitStream): o.pos = pos
    return o

def printable_in(x, scope, via='plain'):
    """what str() and repr() say about x (taken through one of the usual ways of asking for them), repr evaluated in scope. The class is compared by IDENTITY: the
    first item of 'eval' is the name of type(x) only when the evaluated object has exactly the class of x."""
    from bitstring import Bits, ConstBitStream
    short = lambda t, a, b: t if len(t) <= a + b + 1 else t[:a] + '~' + t[-b:]
    take_str = {'plain': str, 'dunder': lambda o: o.__str__(), 'format': lambda o: f'{o}', 'percent': lambda o: '%s' % (o,), 'container': lambda o: format(o, '')}[via]
    take_repr = {'plain': repr, 'dunder': lambda o: o.__repr__(), 'format': lambda o: f'{o!r}', 'percent': lambda o: '%r' % (o,), 'container': lambda o: repr([o])[1:-1]}[via]
    out = {'cls': type(x).__name__, 'qual': type(x).__qualname__}
    st = rp = None
    try: st = take_str(x); out['str'] = short(st, 270, 20)
    except Exception as e: out['str_exc'] = f'{type(e).__name__}: {str(e)[:100]}'
    try: rp = take_repr(x); out['repr'] = short(rp, 300, 70)
    except Exception as e: out['repr_exc'] = f'{type(e).__name__}: {str(e)[:100]}'
    if st is not None and not st.endswith('...'):
        try: out['reparse'] = Bits(st).bin if st else ''
        except Exception as e: out['reparse_exc'] = f'{type(e).__name__}: {str(e)[:100]}'
        if rp is not None:
            try:
                e = eval(rp.split('  #')[0], dict(scope))
                who = type(x).__name__ if type(e) is type(x) else f'{type(e).__module__}.{type(e).__qualname__} (not the class of the object)'
                out['eval'] = [who, e.bin, e.pos if isinstance(e, ConstBitStream) else None]
            except Exception as e: out['eval_exc'] = f'{type(e).__name__}: {str(e)[:100]}'
    return out

def gen_subclasses(rng, tier):
    quick = tier == 'quick'
    lengths = list(range(0, 41)) + [47, 48, 49, 63, 64, 65, 127, 128, 129, 996, 999, 1000, 1001, 1004]
    def one(base, where, body=None):
        n = rng.choice(lengths) if rng.random() < 0.85 else rng.randrange(0, 300)
        bits = rand_bits(rng, n); lsb0 = rng.random() < 0.3
        return {'op': 'sub', 'sub': rand_sub(rng, base, where, body), 'bits': bits, 'route': rng.choice(SUB_ROUTES), 'pos0': rng.choice([0, n // 2, n, rng.randrange(0, n + 1)]) if base in STREAMS else None,
                'lsb0': lsb0, 'via': rng.choice(SUB_VIAS), 'moves': [rand_move(rng, base, bits, lsb0) for _ in range(rng.randrange(2, 9))]}
    # every base x every place of definition; every base x every kind of class body
    for rep in range(1 if quick else 12):
        for base in CLASSES:
            for where in SUB_WHERES: yield one(base, where)
            for body in SUB_BODIES: yield one(base, rng.choice(['function', 'method', 'class', 'module', 'nested_function']), body)
    for _ in range(40 if quick else 2500): yield one(rng.choice(CLASSES), None)
    # objects of user subclasses created from a file (repr names the file)
    for _ in range(16 if quick else 300):
        n = 8 * rng.choice([1, 2, 3, 16, 40, 125, 126])
        base = rng.choice(CLASSES)
        yield {'op': 'repr_file', 'cls': base, 'sub': rand_sub(rng, base), 'bits': rand_bits(rng, n, 'rand'), 'how': rng.choice(['filename', 'handle', 'handle_raw', 'filename_len']),
               'edit': rng.choice([None, None, 'invert', 'append', 'del', 'set', 'reverse']), 'pos': rng.choice([0, 0, 8, n])}
    # user subclasses of Array: the printed form evaluates (where the class is visible) to an equal Array
    for _ in range(24 if quick else 400):
        d = rng.choice(['uint8', 'int7', 'hex4', 'bin3', 'float16', 'float32', 'bool', 'bytes2', 'uintle16', '>h', 'oct3'])
        spec = rand_sub(rng, 'Array', body=rng.choice(['plain', 'doc', 'methods', 'init', 'mixin_first', 'mixin_last', 'abc']))
        if spec.get('mid_body') == 'slots0': spec['mid_body'] = 'plain'
        if spec['name'] == 'Array': spec['name'] = 'Samples'
        yield {'op': 'array_repr', 'sub': spec, 'dtype': d, 'n': rng.randrange(0, 6), 'trail': rand_bits(rng, rng.choice([0, 0, 1, 3])), 'seed': rng.randrange(1 << 30)}

def kind(c): return c['op'] + (':subclass' if 'sub' in c else '')

def run_impl(c):
    import bitstring
    from bitstring import Bits, BitArray, ConstBitStream, BitStream, Array
    op = c['op']
    if op == 'maxchars':
        return attempt(lambda: bitstring.bits.MAX_CHARS)
    if op == 'str':
        s = build(c['cls'], c['bits'], c['route'], c['pos'])
        bitstring.options.lsb0 = bool(c.get('lsb0'))
        def f():
            st, rp = str(s), repr(s)
            out = {'str': st, 'repr': rp}
            if not st.endswith('...'):
                out['reparse'] = Bits(st).bin if st else ''
                e = eval(rp.split('  #')[0], {'Bits': Bits, 'BitArray': BitArray, 'ConstBitStream': ConstBitStream, 'BitStream': BitStream})
                out['eval'] = [type(e).__name__, e.bin, getattr(e, 'pos', None)]
            return out
        return attempt(f)
    if op == 'repr_file':
        import tempfile, os
        C = getattr(bitstring, c['cls'])
        scope = {'Bits': Bits, 'BitArray': BitArray, 'ConstBitStream': ConstBitStream, 'BitStream': BitStream}
        if 'sub' in c: C, scope = make_sub(c['sub'])
        fd, path = tempfile.mkstemp(prefix='verif_repr_')
        try:
            with os.fdopen(fd, 'wb') as fh: fh.write(int(c['bits'], 2).to_bytes(len(c['bits']) // 8, 'big'))
            def f():
                how = c['how']
                if how == 'filename': s = C(filename=path)
                elif how == 'filename_len': s = C(filename=path, length=len(c['bits']))
                else:
                    with open(path, 'rb', buffering=(0 if how == 'handle_raw' else -1)) as fh: s = C(fh)
                if hasattr(s, 'pos'): s.pos = c['pos']
                e = c['edit']
                if e and isinstance(s, BitArray):
                    if e == 'invert': s.invert()
                    elif e == 'append': s.append('0b101')
                    elif e == 'del': del s[0:3]
                    elif e == 'set': s.set(1, 0); s.set(0, 1)
                    elif e == 'reverse': s.reverse()
                rp = repr(s)
                if s.__str__().endswith('...') and 'filename' not in rp: return {'repr': rp, 'skipped': True}
                ev = eval(rp.split('  #')[0], dict(scope))
                if 'sub' in c:      # the class is compared by identity
                    return {'repr': rp[:120], 'cls': c['cls'] if type(ev) is C and type(s) is C else f'{type(ev).__module__}.{type(ev).__qualname__} (the object is a {type(s).__qualname__})', 'same': ev.bin == s.bin,
                            'pos': [getattr(ev, 'pos', None), getattr(s, 'pos', None)]}
                return {'repr': rp[:120], 'cls': type(ev).__name__, 'same': ev.bin == s.bin, 'pos': [getattr(ev, 'pos', None), getattr(s, 'pos', None)]}
            return attempt(f)
        finally:
            os.unlink(path)
    if op == 'pp':
        bitstring.options.lsb0 = c['lsb0']; bitstring.options.no_color = c['no_color']
        s = build(c['cls'], c['bits'], 'bin')
        buf = io.StringIO()
        try:
            return attempt(lambda: (s.pp(c['fmt'], width=c['width'], sep=c['sep'], show_offset=c['show_offset'], stream=buf), buf.getvalue())[1])
        finally:
            bitstring.options.no_color = False
    if op == 'pplayout':
        import random
        BPC = {'bin': 1, 'oct': 3, 'hex': 4, 'bytes': 8}
        g = c['g']
        spell = lambda f: f"{f}:{g // 8}" if f == 'bytes' else f"{f}:{g}"
        fmt = spell(c['f1']) + ((', ' + spell(c['f2'])) if c['f2'] else '')
        s = Bits(bin=rand_bits(random.Random(c['seed']), c['n'], 'rand'))
        bitstring.options.no_color = True
        buf = io.StringIO()
        try:
            def f():
                s.pp(fmt, width=c['width'], sep=c['sep'], show_offset=c['show_offset'], stream=buf)
                lines = buf.getvalue().split('\n')
                body = lines[1:lines.index(']')] if ']' in lines else lines[1:-2]
                first = body[0]
                row = first
                if c['show_offset']: row = first.split(': ', 1)[1]
                col1 = row.split(' : ')[0] if c['f2'] else row
                digits = col1
                for ch in c['sep']: digits = digits.replace(ch, '')
                digits = digits.replace(' ', '')
                return {'bits': len(digits) * BPC[c['f1']], 'chars': len(first), 'lines': len(body), 'fmt': fmt}
            return attempt(f)
        finally:
            bitstring.options.no_color = False
    if op == 'stream_pos':
        s = build(c['cls'], c['bits'], 'bin', c['pos0'])
        bitstring.options.lsb0 = bool(c['lsb0'])
        trace = []
        for mv in c['moves']:
            r = attempt(lambda: do_move(s, mv))
            rets = []
            if r[0] == 'ok':
                v = r[1] if isinstance(r[1], (list, tuple)) else [r[1]]
                rets = [[type(x).__name__, printable(x), attempt(lambda: getattr(x, 'pos') if hasattr(type(x), 'pos') else None)[1]] for x in v if isinstance(x, Bits)]
            trace.append(['ok' if r[0] == 'ok' else r[1], printable(s), attempt(lambda: s.pos if hasattr(type(s), 'pos') else None)[1], rets])
        return ('ok', trace)
    if op == 'sub':
        def f():
            N, scope = make_sub(c['sub'])
            s = build_sub(N, c['bits'], c['route'], c['pos0'])
            bitstring.options.lsb0 = bool(c['lsb0'])
            getpos = lambda x: attempt(lambda: x.pos if isinstance(x, ConstBitStream) else None)[1]
            trace = [['start', printable_in(s, scope, c['via']), getpos(s), [], type(s) is N]]
            for mv in c['moves']:
                r = attempt(lambda: do_move(s, mv))
                rets = []
                if r[0] == 'ok':
                    v = r[1] if isinstance(r[1], (list, tuple)) else [r[1]]
                    rets = [[type(x).__name__, printable_in(x, scope, c['via']), getpos(x)] for x in v if isinstance(x, Bits)]
                trace.append(['ok' if r[0] == 'ok' else r[1], printable_in(s, scope, c['via']), getpos(s), rets, type(s) is N])
            return trace
        return attempt(f, 30)
    if op == 'array_repr':
        import random
        from props.c14 import rand_item, pv
        rng = random.Random(c['seed'])
        def f():
            A, scope = Array, {}
            if 'sub' in c: A, scope = make_sub(c['sub'])
            a = A(c['dtype'], [pv(rand_item(rng, c['dtype'])) for _ in range(c['n'])], trailing_bits=Bits(bin=c['trail']) if c['trail'] else None)
            r = repr(a)
            ns = {'Array': Array, 'BitArray': BitArray, 'nan': float('nan'), 'inf': float('inf')}
            ns.update(scope)
            e = eval(r, ns)
            return [r, a.equals(e), a.data.bin == e.data.bin] + ([type(a) is A and isinstance(e, Array)] if 'sub' in c else [])
        return attempt(f)

    if op == 'array_repr_raw':
        import random, math
        rng = random.Random(c['seed'])
        def f():
            a = Array(c['dtype'])
            w = a.itemsize
            items = 0
            while items < c['n']:
                cand = Array(c['dtype'], Bits(uint=rng.getrandbits(w), length=w).tobytes()[: (w + 7) // 8]) if w % 8 == 0 else None
                if cand is None:
                    cand = Array(c['dtype']); cand.data += Bits(uint=rng.getrandbits(w), length=w)
                v = cand[0]
                if isinstance(v, float) and (math.isnan(v) or math.isinf(v)): continue
                a.data += cand.data; items += 1
            r = repr(a)
            e = eval(r, {'Array': Array, 'BitArray': BitArray, 'nan': float('nan'), 'inf': float('inf')})
            return [r, a.equals(e), a.data.bin == e.data.bin]
        return attempt(f)
    if op == 'color_history':
        def f():
            out = []
            flags = [c['first']] + list(c['flags'])
            try:
                for fl in flags:
                    bitstring.options.no_color = fl
                    buf = io.StringIO()
                    if c['what'] in ('bits', 'both'): Bits('0x0123456789abcdef').pp('hex, bin', stream=buf)
                    if c['what'] in ('array', 'both'): Array('uint8', [1, 2, 3]).pp(stream=buf)
                    out.append([fl, '\x1b' in buf.getvalue()])
            finally:
                bitstring.options.no_color = False
            return out
        return attempt(f)

def printable(s):
    """what str() and repr() say about s; each is taken on its own, so that a failure of one does not hide the other"""
    from bitstring import Bits, BitArray, ConstBitStream, BitStream
    short = lambda t, a, b: t if len(t) <= a + b + 1 else t[:a] + '~' + t[-b:]
    out = {}
    st = rp = None
    try: st = str(s); out['str'] = short(st, 270, 20)
    except Exception as e: out['str_exc'] = f'{type(e).__name__}: {str(e)[:100]}'
    try: rp = repr(s); out['repr'] = short(rp, 300, 70)
    except Exception as e: out['repr_exc'] = f'{type(e).__name__}: {str(e)[:100]}'
    if st is not None and not st.endswith('...'):
        try: out['reparse'] = Bits(st).bin if st else ''
        except Exception as e: out['reparse_exc'] = f'{type(e).__name__}: {str(e)[:100]}'
        if rp is not None:
            try:
                e = eval(rp.split('  #')[0], {'Bits': Bits, 'BitArray': BitArray, 'ConstBitStream': ConstBitStream, 'BitStream': BitStream})
                out['eval'] = [type(e).__name__, e.bin, getattr(e, 'pos', None)]
            except Exception as e: out['eval_exc'] = f'{type(e).__name__}: {str(e)[:100]}'
    return out

def judge_printable(cls, d, pos, out):
    """the str / repr clauses of the property for an object of class cls holding the bits d (a str of 0 and 1) at position pos (None for the classes without one)"""
    n = len(d)
    if 'str_exc' in out: return f"str(s) raised {out['str_exc']}"
    if 'repr_exc' in out: return f"repr(s) raised {out['repr_exc']}"
    if n > 1000:
        if not out['str'].endswith('...'): return f"str of {n} bits is not marked as truncated"
        if f'length={n}' not in out['repr']: return f"repr of {n} bits does not state the true length: {out['repr'][-60:]!r}"
        if pos is not None:
            m = re.search(r'pos=(\d+)', out['repr'])
            if (int(m.group(1)) if m else 0) != pos: return f"repr shows {m.group(0) if m else 'no pos (= 0)'}: {out['repr'][-60:]!r}"
        return None
    if out['str'].endswith('...'): return f"str of {n} bits (<= 1000) is truncated"
    if 'reparse_exc' in out: return f"str(s) = {out['str'][:60]!r} does not parse: {out['reparse_exc']}"
    if out['reparse'] != d: return f"Bits(str(s)) != s: str(s) = {out['str'][:60]!r}"
    if 'eval_exc' in out: return f"repr(s) = {out['repr'][:90]!r} cannot be evaluated: {out['eval_exc']}"
    if out.get('eval') != [cls, d, pos]:
        e = out.get('eval') or [None, '', None]
        return f"repr(s) = {out['repr'][:90]!r} evaluates to a {e[0]} with pos={e[2]} and {'the same' if e[1] == d else 'OTHER'} bits"
    return None

ESC = re.compile(r'\x1b\[[0-9;]*m')
DIG = {'bin': (1, '01'), 'hex': (4, '0123456789abcdef'), 'oct': (3, '01234567')}

def check_pp(c, text):
    """returns None or a message"""
    bits = c['bits']
    if c['no_color'] and '\x1b' in text: return 'escape sequence present although options.no_color is set'
    plain = ESC.sub('', text)
    lines = plain.split('\n')
    if not lines[0].startswith('<') or '[' not in lines[0]: return f'unexpected header {lines[0]!r}'
    body = []
    tail = None
    for ln in lines[1:]:
        if ln == ']' or ln.startswith('] + trailing_bits'):       # a data line may start with ']' too (bytes column)
            tail = ln; break
        body.append(ln)
    if tail is None: return 'no closing bracket'
    m = re.match(r"<(\w+), fmt='([^']*)', length=(\d+) bits>", lines[0])
    if not m or int(m.group(3)) != len(bits) or m.group(1) != c['cls']: return f'header {lines[0]!r} does not report class/length {c["cls"]}/{len(bits)}'
    fmts = [x.strip() for x in m.group(2).split(',')]
    names = [re.match(r'[a-z]+', f).group(0) for f in fmts]
    # trailing bits
    trailing = ''
    if 'trailing_bits' in tail:
        t = tail.split('=')[-1].strip()
        import bitstring
        trailing = bitstring.Bits(t).bin
    if c['lsb0']:
        # under lsb0 the groups are counted from the least significant end, so the leftover is at the msb end
        data = bits[len(trailing):] if trailing else bits
        if trailing and not bits.startswith(trailing): return f'reported trailing bits {trailing!r} are not the most significant end of the data'
    else:
        data = bits[:len(bits) - len(trailing)] if trailing else bits
        if trailing and not bits.endswith(trailing): return f'reported trailing bits {trailing!r} are not the end of the data'
    sep = c['sep']
    got = ['' for _ in names]
    # group size in bits: an explicit length in the format, else the documented default for one format (two formats without a length: not documented, skipped)
    stated = [L for _, L in (pp_tokens(c['fmt']) or []) if L is not None]
    if stated: g = stated[0]
    elif len(names) == 1: g = {'bin': 8, 'hex': 8, 'oct': 12, 'bytes': 32}.get(names[0])
    else: g = None
    # the trailing bits are what is left after the whole groups of an explicit group size: fewer than one group, and nothing when the length is a whole number of groups
    if stated and g and len(trailing) != len(bits) % g:
        return f'{len(trailing)} trailing bits are reported; {len(bits)} bits are {len(bits) // g} whole group(s) of {g} bits and {len(bits) % g} trailing bits'
    if not (stated and g) and trailing: return f'trailing bits {trailing[:40]!r} are reported although the format states no group size'
    line_bits = []
    for ln in body:
        if not ln: continue
        if len(ln) > c['width'] and c['width'] > 0:
            pass   # checked below with group information
        row = ln
        if c['show_offset']:
            # msb0: "offset: data" ; lsb0: "data :offset"
            if c['lsb0']:
                mm = re.match(r'^(.*) :\s*(\d+)\s*$', row)
            else:
                mm = re.match(r'^\s*(\d+): (.*)$', row)
            if not mm: return f'line {ln!r} has no offset column'
            row = mm.group(1) if c['lsb0'] else mm.group(2)
        if len(names) == 2: parts = row.rsplit(' : ', 1) if names[0] == 'bytes' else row.split(' : ', 1)    # a bytes column may itself contain ' : '
        else: parts = [row]
        if len(parts) != len(names): return f'line {ln!r} does not have {len(names)} format columns'
        nb = None
        for i, (nm, part) in enumerate(zip(names, parts)):
            if nm in DIG:
                chunk = part
                if sep: chunk = chunk.replace(sep, '') if sep.strip() or sep == ' ' else chunk
                chunk = chunk.replace(' ', '')
                for chx in sep:
                    if chx not in DIG[nm][1]: chunk = chunk.replace(chx, '')
                if any(ch not in DIG[nm][1] for ch in chunk): return f'unexpected characters in {nm} column {part!r}'
                got[i] += chunk
                if nb is None: nb = len(chunk) * DIG[nm][0]
        line_bits.append(nb)
        # width: a line may be wider than `width` only when it holds a single group (ungrouped: the smallest displayable unit)
        if nb is not None and g is not None and c['width'] > 0 and len(ln.rstrip()) > c['width']:
            first_dig = next(nm for nm in names if nm in DIG)
            unit = g if g > 0 else (24 if len(names) == 2 else DIG[first_dig][0])
            if nb > unit: return f'line {ln.rstrip()!r} is {len(ln.rstrip())} characters wide (width={c["width"]}) although it holds {nb} bits, more than one unit of {unit} bits'
    if g:
        for nb in line_bits[:-1]:
            if nb is not None and nb % g: return f'a line holds {nb} bits, which splits a group of {g} bits'
    G = g
    for nm, g in zip(names, got):
        if nm in DIG:
            w, alphabet = DIG[nm]
            exp_src = data
            if c['lsb0']:
                pass
            usable = len(exp_src) - len(exp_src) % w
            exp = ''.join(alphabet[int(exp_src[i:i + w], 2)] for i in range(0, usable, w))
            if not c['lsb0'] and g != exp and not (len(exp_src) % w):
                return f'{nm} digits printed {g[:60]!r} differ from the data digits {exp[:60]!r}'
            if c['lsb0'] and sorted(g) != sorted(exp) and not (len(exp_src) % w):
                return f'{nm} digits printed under lsb0 are not a rearrangement of the data digits'
            # under lsb0 the groups are numbered (and printed) from the least significant end, each group most significant digit first
            if c['lsb0'] and G and G % w == 0 and not (len(exp_src) % w):
                per = G // w
                back = ''.join(reversed([g[k:k + per] for k in range(0, len(g), per)]))
                if back != exp: return f'{nm} groups printed under lsb0, taken from the last to the first, give {back[:60]!r}; the data digits are {exp[:60]!r}'
    return None

def oracle(c, obs):
    op = c['op']
    if op == 'maxchars': return None if obs == ('ok', 250) else f"MAX_CHARS is {obs}, the model assumes 250"
    if op == 'str':
        if obs[0] != 'ok': return f"str/repr of {c['cls']}({len(c['bits'])} bits) raised {obs}"
        o = obs[1]; n = len(c['bits'])
        if n > 1000:
            if not o['str'].endswith('...'): return f"str of {n} bits is not marked as truncated"
            if f'length={n}' not in o['repr']: return f"repr of {n} bits does not state the true length: {o['repr'][-60:]}"
            return None
        if o['str'].endswith('...'): return f"str of {n} bits (<= 1000) is truncated"
        if o['reparse'] != c['bits']: return f"Bits(str(s)) != s for {c['cls']}({c['bits'][:40]!r}..{n}): str={o['str'][:60]!r}"
        pos = c['pos'] if c['cls'] in ('ConstBitStream', 'BitStream') else None
        if o['eval'] != [c['cls'], c['bits'], pos]: return f"eval(repr(s)) = {o['eval'][0]}(.., pos={o['eval'][2]}) for {c['cls']}(pos={pos}): repr={o['repr'][:80]!r}"
        return None
    if op == 'stream_pos':
        d = c['bits']; pos = c['pos0']; lsb0 = bool(c['lsb0'])
        for k, (mv, (r, out, seen_pos, rets)) in enumerate(zip(c['moves'], obs[1])):
            prev, nprev = pos, len(d)
            d, pos, exp = ref_move(d, pos, mv, lsb0)
            where = f"{c['cls']} of {nprev} bits (lsb0={c['lsb0']}) at pos {prev}, move #{k} {mv} ({r}; the moves before it: {c['moves'][max(0, k - 2):k]})"
            if pos == 'open':
                # the documentation leaves the position after this mutator open: it has to be a valid one, and the one the printable forms show
                if not isinstance(seen_pos, int) or not 0 <= seen_pos <= len(d): return f"{where}: the stream reports pos={seen_pos} for {len(d)} bits"
                pos = seen_pos
            msg = judge_printable(c['cls'], d, pos, out)
            if msg: return f"{where}: afterwards {msg}; the (bits, pos) reference has {len(d)} bits, pos={pos}"
            # every bitstring object the call returned: an object of the receiver's class (streams: positioned at 0) holding the bits the reference gives
            if r == 'ok' and exp is not None:
                if len(rets) != len(exp): return f"{where} returned {len(rets)} bitstring object(s), the reference gives {len(exp)}"
                for (rc, rout, rpos), e in zip(rets, exp):
                    msg = judge_printable(c['cls'], e, 0 if c['cls'] in STREAMS else None, rout)
                    if msg: return f"{where}: for the returned {rc} object (reference: {len(e)} bits {e[:40]!r}, .pos gives {rpos}) {msg}"
        return None
    if op == 'sub':
        sp = c['sub']
        who = f"user class {sp['name']}({sp['base']}) defined at '{sp['where']}' level ({sp['body']} body, depth {sp['depth']}, module {sp['modname']!r}), object made by route {c['route']}, forms taken via '{c['via']}'"
        if obs[0] != 'ok': return f"{who}: defining the class or creating the object raised {obs[1]}"
        d = c['bits']; pos = c['pos0']; lsb0 = bool(c['lsb0'])
        stream = sp['base'] in STREAMS
        for k, (mv, (r, out, seen_pos, rets, is_n)) in enumerate(zip([None] + list(c['moves']), obs[1])):
            prev, nprev = pos, len(d)
            exp = None
            if mv is not None: d, pos, exp = ref_move(d, pos, mv, lsb0)
            where = f"{who}, {nprev} bits (lsb0={c['lsb0']}) at pos {prev}, " + ('as created' if mv is None else f"move #{k - 1} {mv} ({r}; the moves before it: {c['moves'][max(0, k - 3):k - 1]})")
            if not is_n: return f"{where}: the object is no longer an instance of its class"
            if pos == 'open':
                if not isinstance(seen_pos, int) or not 0 <= seen_pos <= len(d): return f"{where}: the stream reports pos={seen_pos} for {len(d)} bits"
                pos = seen_pos
            msg = judge_printable(sp['name'], d, pos, out)
            if msg: return f"{where}: afterwards {msg}; the (bits, pos) reference has {len(d)} bits, pos={pos}; the class is {out.get('qual')}"
            if r == 'ok' and exp is not None:
                if len(rets) != len(exp): return f"{where} returned {len(rets)} bitstring object(s), the reference gives {len(exp)}"
                for (rc, rout, rpos), e in zip(rets, exp):
                    # whatever class the returned object has (the user class or a library class): its repr evaluates to an object of THAT class
                    msg = judge_printable(rc, e, 0 if stream else None, rout)
                    if msg: return f"{where}: for the returned {rout.get('qual')} object (reference: {len(e)} bits {e[:40]!r}, .pos gives {rpos}) {msg}"
        return None
    if op == 'pp':
        if obs[0] != 'ok':
            n = len(c['bits'])
            if obs[1] == 'ValueError' and not pp_displayable(c['fmt'], n): return None
            why = ''
            if obs[1] == 'ValueError':
                k, v = pp_group(c['fmt'])
                why = (f": a group size of {v} bits suits every format, so any length is printable (whole groups as digits, the other {n % v} bits as trailing bits)" if k == 'group'
                       else f": {n} bits are a whole number of digits of every format")
            return f"pp({c['fmt']!r}, width={c['width']}, sep={c['sep']!r}, show_offset={c['show_offset']}, lsb0={c['lsb0']}) on {c['cls']} of {n} bits raised {obs[1]}{why}"
        msg = check_pp(c, obs[1])
        return None if msg is None else f"pp({c['fmt']!r}, width={c['width']}, sep={c['sep']!r}, show_offset={c['show_offset']}, lsb0={c['lsb0']}) on {len(c['bits'])} bits: {msg}"
    if op == 'pplayout':
        if obs[0] != 'ok': return f"pp layout case {c} raised {obs}"
        o = obs[1]
        unit = c['g'] if c['g'] else (24 if c['f2'] else {'bin': 1, 'oct': 3, 'hex': 4}[c['f1']])
        if c['width'] > 0 and o['chars'] > c['width'] and o['bits'] > unit:
            return f"pp({o['fmt']!r}, width={c['width']}, sep={c['sep']!r}, show_offset={c['show_offset']}): first line has {o['chars']} characters for {o['bits']} bits (unit {unit})"
        if c['g'] and o['lines'] > 1 and o['bits'] % c['g']: return f"pp({o['fmt']!r}): {o['bits']} bits on a line splits a group of {c['g']}"
        return None
    if op == 'repr_file':
        if obs[0] != 'ok': return f"repr / eval(repr) of {c['cls']} created from a file ({c['how']}, edit={c['edit']}) raised {obs}"
        o = obs[1]
        if o.get('skipped'): return None
        if o['cls'] != c['cls'] or not o['same'] or o['pos'][0] != o['pos'][1]:
            return f"eval(repr(s)) is not s for {c['cls']}{' (user subclass ' + str(c['sub']) + ')' if 'sub' in c else ''} created from a file ({c['how']}) after {c['edit']}: {o}"
        return None
    if op == 'array_repr_raw':
        if obs[0] != 'ok': return f"Array repr {c} raised {obs}"
        return None if obs[1][1] and obs[1][2] else f"eval(repr(Array)) differs from the Array for finite {c['dtype']} items: {obs[1][0][:160]}"
    if op == 'color_history':
        if obs[0] != 'ok': return f"color history {c} raised {obs}"
        for k, (fl, esc) in enumerate(obs[1]):
            if fl and esc: return f"pp() call #{k} of the history {[x[0] for x in obs[1]]} (options.no_color values) printed terminal escape sequences although options.no_color was set"
        return None
    if op == 'array_repr':
        if obs[0] != 'ok': return f"Array repr {c} raised {obs}"
        if 'sub' in c and not obs[1][3]: return f"repr of an object of the user subclass {c['sub']} of Array does not evaluate to an Array: {obs[1][0][:100]}"
        return None if obs[1][1] and obs[1][2] else f"eval(repr(Array)) differs: {obs[1][0][:100]}"

def nontrivial(c, obs): return len(c.get('bits', '')) % 4 != 0 or ',' in c.get('fmt', '')
def classify(c, obs): return None

HEX = '0123456789abcdef'
def coq_check(c, obs):
    if c['op'] == 'pplayout' and obs[0] == 'ok' and obs[1]['lines'] > 1:
        BPC = {'bin': 1, 'oct': 3, 'hex': 4, 'bytes': 8}
        o = obs[1]
        a = f"(mkpp {c['n']} {BPC[c['f1']]} {copt(BPC[c['f2']] if c['f2'] else None, cz)} {c['g']} {cz(c['width'])} {len(c['sep'])} {cbool(c['show_offset'])})"
        return f"(max_bits_per_line {a} =? {o['bits']}) && (line_chars {a} {o['bits']} =? {o['chars']})"
    if c['op'] == 'maxchars' and obs[0] == 'ok': return f"(MAX_CHARS =? {obs[1]})"
    if c['op'] == 'str' and obs[0] == 'ok':
        st = obs[1]['str']
        trunc = st.endswith('...')
        body = st[:-3] if trunc else st
        hexd, binb = [], ''
        for part in [p.strip() for p in body.split(',')] if body else []:
            if part.startswith('0x'): hexd = [HEX.index(ch) for ch in part[2:]]
            elif part.startswith('0b'): binb = part[2:]
        if len(c['bits']) > 4000: return None
        return (f"let p := str_parts {cbits(c['bits'])} in zlist_eqb (p_hex p) {clist(hexd, cz)} && bits_eqb (p_bin p) {cbits(binb)} && Bool.eqb (p_truncated p) {cbool(trunc)}")
    return None

def search(seeds, rng):
    for c in list(seeds) + list(gen_cases(rng, 'quick')):
        try: obs = run_impl(c)
        finally: reset_options()
        msg = oracle(c, obs)
        if msg: return c, obs, msg
    return None
