"""C19 — printable forms faithfully describe the value."""
from vlib import *
from props.common import *
import io, re, ast

ID = 'C19'
COQ_PROPS = ['Props/C19.v']
COQ_IMPORTS = ['Prims', 'CaseLib', 'IntCodec', 'Print', 'PrintPP']
RULE = ('str/repr for all contents and lengths (every residue mod 4 and mod 3, 0..40 exhaustively and around the 1000-bit truncation limit) x four classes x pos: re-parse / eval round trip, '
        'truncation mark and true length; pp() for all pairs of bin/hex/oct/bytes formats x group sizes x widths 0..200 x separators x show_offset x lsb0/no_color: digits in order, groups never split, '
        'line widths, no escape sequences under no_color; Array.__repr__ re-evaluated for unscaled dtypes. non-trivial = length not a multiple of 4 or a pp with two formats; distinct by arguments')
ASSUMPTIONS = ['MAX_CHARS is read from the working tree and compared with the model constant', 'pp layout theorems are not proved (partial): the pp oracle carries that part']

def gen_cases(rng, tier):
    for n in list(range(0, 41)) + [63, 64, 65, 127, 128, 129, 996, 997, 998, 999, 1000, 1001, 1002, 1003, 1004, 1024, 2001, 8193]:
        yield {'op': 'str', 'cls': rng.choice(CLASSES), 'bits': rand_bits(rng, n), 'pos': rng.choice([0, 0, n // 2, n]), 'route': rng.choice(['bin', 'auto', 'slice'])}
    N = 300 if tier == 'quick' else 6000
    for _ in range(N):
        n = rand_len(rng, tier)
        yield {'op': 'str', 'cls': rng.choice(CLASSES), 'bits': rand_bits(rng, n), 'pos': rng.choice([0, n // 3, n]), 'route': rng.choice(['bin', 'auto', 'slice']), 'lsb0': rng.random() < 0.3}
    # objects created from a file (by name or handle): repr must evaluate back to the CURRENT value, also after an in-place change
    for _ in range(40 if tier == 'quick' else 600):
        n = 8 * rng.choice([1, 2, 3, 16, 40, 125, 126])
        yield {'op': 'repr_file', 'cls': rng.choice(CLASSES), 'bits': rand_bits(rng, n, 'rand'), 'how': rng.choice(['filename', 'handle', 'handle_raw', 'filename_len']),
               'edit': rng.choice([None, 'invert', 'append', 'del', 'set', 'reverse']), 'pos': rng.choice([0, 0, 8, n])}
    # pp with more trailing bits than str() shows in full
    for _ in range(4 if tier == 'quick' else 40):
        g = rng.choice([1004, 1200, 2048, 4000])
        yield {'op': 'pp', 'cls': rng.choice(CLASSES), 'bits': rand_bits(rng, g + rng.choice([1001, 1003, g - 1]), 'rand'), 'fmt': rng.choice(['hex', 'bin']) + f':{g}', 'width': 120,
               'sep': ' ', 'show_offset': False, 'lsb0': False, 'no_color': True}
    fmts = ['bin', 'hex', 'oct', 'bytes']
    for _ in range(N):
        f1 = rng.choice(fmts); f2 = rng.choice([None, None] + fmts)
        g = rng.choice([None, None, 0, 1, 2, 3, 4, 6, 8, 12, 16, 24, 32, 64])
        n = rng.choice([0, 1, 7, 8, 12, 24, 48, 96, 100, 200, 384, 1000]) if rng.random() < 0.7 else rng.randrange(0, 600)
        def spell(f):
            if g is None: return f
            return f"{f}:{g}" if f != 'bytes' else f"bytes:{max(1, g // 8) if g else 0}"
        fmt = spell(f1) + ((', ' + (f2 if g is None or rng.random() < 0.5 else spell(f2))) if f2 else '')
        yield {'op': 'pp', 'cls': rng.choice(CLASSES), 'bits': rand_bits(rng, n), 'fmt': fmt, 'width': rng.choice([0, 1, 10, 20, 40, 60, 80, 120, 200, rng.randrange(0, 201)]),
               'sep': rng.choice([' ', ' ', '', '_', ', ']), 'show_offset': rng.random() < 0.6, 'lsb0': rng.random() < 0.25, 'no_color': rng.random() < 0.7}
    # every width for one and two ungrouped (':0') and grouped formats: the line-length computation has a branch per combination
    for fmt in ('bin:0, hex:0', 'bin:0, oct:0', 'hex:0, bin:0', 'bin:0', 'hex:0', 'bin:8, hex:8', 'hex:4, oct:3', 'oct:0, hex:0', 'bytes:0, hex:0'):
        bits = rand_bits(rng, rng.choice([96, 200, 264]), 'rand')
        for w in (range(24, 128) if tier == 'thorough' else range(24, 128, 1 if fmt.count(':0') == 2 else 5)):
            yield {'op': 'pp', 'cls': 'Bits', 'bits': bits, 'fmt': fmt, 'width': w, 'sep': rng.choice([' ', ' ', '_']), 'show_offset': w % 2 == 0, 'lsb0': False, 'no_color': True}
    for _ in range(N // 3):
        d = rng.choice(['uint8', 'int7', 'hex4', 'bin3', 'float16', 'float32', 'bool', 'bytes2', 'uintle16', '>h', 'oct3'])
        yield {'op': 'array_repr', 'dtype': d, 'n': rng.randrange(0, 6), 'trail': rand_bits(rng, rng.choice([0, 0, 1, 3])), 'seed': rng.randrange(1 << 30)}
    # Arrays of float formats holding ARBITRARY finite bit patterns (not only short decimals): eval(repr(a)) must give the same data
    for _ in range(60 if tier == 'quick' else 1500):
        d = rng.choice(['float16', 'float16', 'floatle16', 'float32', 'floatle32', 'float64', 'bfloat', 'bfloatle', 'e4m3mxfp', 'e5m2mxfp', 'p4binary', 'p3binary', 'e3m2mxfp', 'e2m1mxfp', 'mxint', 'e8m0mxfp'])
        yield {'op': 'array_repr_raw', 'dtype': d, 'n': rng.randrange(1, 8), 'seed': rng.randrange(1 << 30)}
    # a history of pp() calls with options.no_color switched on, off and on again (each output judged under the setting in force)
    for _ in range(6 if tier == 'quick' else 60):
        yield {'op': 'color_history', 'flags': [rng.random() < 0.5 for _ in range(rng.randrange(3, 8))], 'first': rng.random() < 0.5, 'what': rng.choice(['bits', 'array', 'both'])}
    yield {'op': 'maxchars'}
    # the layout arithmetic of _pp against PrintPP.v: bits on the first (full) line and its width, for every kind of format pair
    BPC = {'bin': 1, 'oct': 3, 'hex': 4, 'bytes': 8}
    import math
    for _ in range(300 if tier == 'quick' else 6000):
        f1 = rng.choice(['bin', 'oct', 'hex'])
        f2 = rng.choice([None, None, 'bin', 'oct', 'hex', 'bytes'])
        if f2 == f1: f2 = None
        l = BPC[f1] * (BPC[f2] if f2 else 1) // math.gcd(BPC[f1], BPC[f2] if f2 else 1)
        g = rng.choice([0, 0, l, 2 * l, 3 * l, 4 * l, 8 * l])
        n = 24 * max(g, 8) * rng.choice([2, 5, 13])
        yield {'op': 'pplayout', 'f1': f1, 'f2': f2, 'g': g, 'n': n, 'seed': rng.randrange(1 << 30), 'width': rng.choice([0, 1, 10, 40, 60, 61, 62, 63, 80, 100, 120, 160, 200, rng.randrange(0, 260)]),
               'sep': rng.choice([' ', ' ', '', '__', ', ']), 'show_offset': rng.random() < 0.5}

def kind(c): return c['op']

def run_impl(c):
    import bitstring
    from bitstring import Bits, BitArray, ConstBitStream, BitStream, Array
    op = c['op']
    if op == 'maxchars':
        return attempt(lambda: bitstring.bits.MAX_CHARS)
    if op == 'str':
        s = build(c['cls'], c['bits'], c['route'], c['pos'])
        bitstring.options.lsb0 = bool(c.get('lsb0'))
        def f():
            st, rp = str(s), repr(s)
            out = {'str': st, 'repr': rp}
            if not st.endswith('...'):
                out['reparse'] = Bits(st).bin if st else ''
                e = eval(rp.split('  #')[0], {'Bits': Bits, 'BitArray': BitArray, 'ConstBitStream': ConstBitStream, 'BitStream': BitStream})
                out['eval'] = [type(e).__name__, e.bin, getattr(e, 'pos', None)]
            return out
        return attempt(f)
    if op == 'repr_file':
        import tempfile, os
        C = getattr(bitstring, c['cls'])
        fd, path = tempfile.mkstemp(prefix='verif_repr_')
        try:
            with os.fdopen(fd, 'wb') as fh: fh.write(int(c['bits'], 2).to_bytes(len(c['bits']) // 8, 'big'))
            def f():
                how = c['how']
                if how == 'filename': s = C(filename=path)
                elif how == 'filename_len': s = C(filename=path, length=len(c['bits']))
                else:
                    with open(path, 'rb', buffering=(0 if how == 'handle_raw' else -1)) as fh: s = C(fh)
                if hasattr(s, 'pos'): s.pos = c['pos']
                e = c['edit']
                if e and isinstance(s, BitArray):
                    if e == 'invert': s.invert()
                    elif e == 'append': s.append('0b101')
                    elif e == 'del': del s[0:3]
                    elif e == 'set': s.set(1, 0); s.set(0, 1)
                    elif e == 'reverse': s.reverse()
                rp = repr(s)
                if s.__str__().endswith('...') and 'filename' not in rp: return {'repr': rp, 'skipped': True}
                ev = eval(rp.split('  #')[0], {'Bits': Bits, 'BitArray': BitArray, 'ConstBitStream': ConstBitStream, 'BitStream': BitStream})
                return {'repr': rp[:120], 'cls': type(ev).__name__, 'same': ev.bin == s.bin, 'pos': [getattr(ev, 'pos', None), getattr(s, 'pos', None)]}
            return attempt(f)
        finally:
            os.unlink(path)
    if op == 'pp':
        bitstring.options.lsb0 = c['lsb0']; bitstring.options.no_color = c['no_color']
        s = build(c['cls'], c['bits'], 'bin')
        buf = io.StringIO()
        try:
            return attempt(lambda: (s.pp(c['fmt'], width=c['width'], sep=c['sep'], show_offset=c['show_offset'], stream=buf), buf.getvalue())[1])
        finally:
            bitstring.options.no_color = False
    if op == 'pplayout':
        import random
        BPC = {'bin': 1, 'oct': 3, 'hex': 4, 'bytes': 8}
        g = c['g']
        spell = lambda f: f"{f}:{g // 8}" if f == 'bytes' else f"{f}:{g}"
        fmt = spell(c['f1']) + ((', ' + spell(c['f2'])) if c['f2'] else '')
        s = Bits(bin=rand_bits(random.Random(c['seed']), c['n'], 'rand'))
        bitstring.options.no_color = True
        buf = io.StringIO()
        try:
            def f():
                s.pp(fmt, width=c['width'], sep=c['sep'], show_offset=c['show_offset'], stream=buf)
                lines = buf.getvalue().split('\n')
                body = lines[1:lines.index(']')] if ']' in lines else lines[1:-2]
                first = body[0]
                row = first
                if c['show_offset']: row = first.split(': ', 1)[1]
                col1 = row.split(' : ')[0] if c['f2'] else row
                digits = col1
                for ch in c['sep']: digits = digits.replace(ch, '')
                digits = digits.replace(' ', '')
                return {'bits': len(digits) * BPC[c['f1']], 'chars': len(first), 'lines': len(body), 'fmt': fmt}
            return attempt(f)
        finally:
            bitstring.options.no_color = False
    if op == 'array_repr':
        import random
        from props.c14 import rand_item, pv
        rng = random.Random(c['seed'])
        def f():
            a = Array(c['dtype'], [pv(rand_item(rng, c['dtype'])) for _ in range(c['n'])], trailing_bits=Bits(bin=c['trail']) if c['trail'] else None)
            r = repr(a)
            e = eval(r, {'Array': Array, 'BitArray': BitArray, 'nan': float('nan'), 'inf': float('inf')})
            return [r, a.equals(e), a.data.bin == e.data.bin]
        return attempt(f)

    if op == 'array_repr_raw':
        import random, math
        rng = random.Random(c['seed'])
        def f():
            a = Array(c['dtype'])
            w = a.itemsize
            items = 0
            while items < c['n']:
                cand = Array(c['dtype'], Bits(uint=rng.getrandbits(w), length=w).tobytes()[: (w + 7) // 8]) if w % 8 == 0 else None
                if cand is None:
                    cand = Array(c['dtype']); cand.data += Bits(uint=rng.getrandbits(w), length=w)
                v = cand[0]
                if isinstance(v, float) and (math.isnan(v) or math.isinf(v)): continue
                a.data += cand.data; items += 1
            r = repr(a)
            e = eval(r, {'Array': Array, 'BitArray': BitArray, 'nan': float('nan'), 'inf': float('inf')})
            return [r, a.equals(e), a.data.bin == e.data.bin]
        return attempt(f)
    if op == 'color_history':
        def f():
            out = []
            flags = [c['first']] + list(c['flags'])
            try:
                for fl in flags:
                    bitstring.options.no_color = fl
                    buf = io.StringIO()
                    if c['what'] in ('bits', 'both'): Bits('0x0123456789abcdef').pp('hex, bin', stream=buf)
                    if c['what'] in ('array', 'both'): Array('uint8', [1, 2, 3]).pp(stream=buf)
                    out.append([fl, '\x1b' in buf.getvalue()])
            finally:
                bitstring.options.no_color = False
            return out
        return attempt(f)

ESC = re.compile(r'\x1b\[[0-9;]*m')
DIG = {'bin': (1, '01'), 'hex': (4, '0123456789abcdef'), 'oct': (3, '01234567')}

def check_pp(c, text):
    """returns None or a message"""
    bits = c['bits']
    if c['no_color'] and '\x1b' in text: return 'escape sequence present although options.no_color is set'
    plain = ESC.sub('', text)
    lines = plain.split('\n')
    if not lines[0].startswith('<') or '[' not in lines[0]: return f'unexpected header {lines[0]!r}'
    body = []
    tail = None
    for ln in lines[1:]:
        if ln == ']' or ln.startswith('] + trailing_bits'):       # a data line may start with ']' too (bytes column)
            tail = ln; break
        body.append(ln)
    if tail is None: return 'no closing bracket'
    m = re.match(r"<(\w+), fmt='([^']*)', length=(\d+) bits>", lines[0])
    if not m or int(m.group(3)) != len(bits) or m.group(1) != c['cls']: return f'header {lines[0]!r} does not report class/length {c["cls"]}/{len(bits)}'
    fmts = [x.strip() for x in m.group(2).split(',')]
    names = [re.match(r'[a-z]+', f).group(0) for f in fmts]
    # trailing bits
    trailing = ''
    if 'trailing_bits' in tail:
        t = tail.split('=')[-1].strip()
        import bitstring
        trailing = bitstring.Bits(t).bin
    if c['lsb0']:
        # under lsb0 the groups are counted from the least significant end, so the leftover is at the msb end
        data = bits[len(trailing):] if trailing else bits
        if trailing and not bits.startswith(trailing): return f'reported trailing bits {trailing!r} are not the most significant end of the data'
    else:
        data = bits[:len(bits) - len(trailing)] if trailing else bits
        if trailing and not bits.endswith(trailing): return f'reported trailing bits {trailing!r} are not the end of the data'
    sep = c['sep']
    got = ['' for _ in names]
    # group size in bits: an explicit length in the format, else the documented default for one format (two formats without a length: not documented, skipped)
    lens = [int(x) for x in re.findall(r':\s*(\d+)', c['fmt'])] or [int(x) for x in re.findall(r'[a-z]+(\d+)', c['fmt'])]
    if lens: g = lens[0] * (8 if 'bytes' in c['fmt'].split(',')[0] and re.search(r'bytes:?\s*\d', c['fmt'].split(',')[0]) else 1)
    elif len(names) == 1: g = {'bin': 8, 'hex': 8, 'oct': 12, 'bytes': 32}.get(names[0])
    else: g = None
    line_bits = []
    for ln in body:
        if not ln: continue
        if len(ln) > c['width'] and c['width'] > 0:
            pass   # checked below with group information
        row = ln
        if c['show_offset']:
            # msb0: "offset: data" ; lsb0: "data :offset"
            if c['lsb0']:
                mm = re.match(r'^(.*) :\s*(\d+)\s*$', row)
            else:
                mm = re.match(r'^\s*(\d+): (.*)$', row)
            if not mm: return f'line {ln!r} has no offset column'
            row = mm.group(1) if c['lsb0'] else mm.group(2)
        if len(names) == 2: parts = row.rsplit(' : ', 1) if names[0] == 'bytes' else row.split(' : ', 1)    # a bytes column may itself contain ' : '
        else: parts = [row]
        if len(parts) != len(names): return f'line {ln!r} does not have {len(names)} format columns'
        nb = None
        for i, (nm, part) in enumerate(zip(names, parts)):
            if nm in DIG:
                chunk = part
                if sep: chunk = chunk.replace(sep, '') if sep.strip() or sep == ' ' else chunk
                chunk = chunk.replace(' ', '')
                for chx in sep:
                    if chx not in DIG[nm][1]: chunk = chunk.replace(chx, '')
                if any(ch not in DIG[nm][1] for ch in chunk): return f'unexpected characters in {nm} column {part!r}'
                got[i] += chunk
                if nb is None: nb = len(chunk) * DIG[nm][0]
        line_bits.append(nb)
        # width: a line may be wider than `width` only when it holds a single group (ungrouped: the smallest displayable unit)
        if nb is not None and g is not None and c['width'] > 0 and len(ln.rstrip()) > c['width']:
            first_dig = next(nm for nm in names if nm in DIG)
            unit = g if g > 0 else (24 if len(names) == 2 else DIG[first_dig][0])
            if nb > unit: return f'line {ln.rstrip()!r} is {len(ln.rstrip())} characters wide (width={c["width"]}) although it holds {nb} bits, more than one unit of {unit} bits'
    if g:
        for nb in line_bits[:-1]:
            if nb is not None and nb % g: return f'a line holds {nb} bits, which splits a group of {g} bits'
    for nm, g in zip(names, got):
        if nm in DIG:
            w, alphabet = DIG[nm]
            exp_src = data
            if c['lsb0']:
                pass
            usable = len(exp_src) - len(exp_src) % w
            exp = ''.join(alphabet[int(exp_src[i:i + w], 2)] for i in range(0, usable, w))
            if not c['lsb0'] and g != exp and not (len(exp_src) % w):
                return f'{nm} digits printed {g[:60]!r} differ from the data digits {exp[:60]!r}'
            if c['lsb0'] and sorted(g) != sorted(exp) and not (len(exp_src) % w):
                return f'{nm} digits printed under lsb0 are not a rearrangement of the data digits'
    return None

def oracle(c, obs):
    op = c['op']
    if op == 'maxchars': return None if obs == ('ok', 250) else f"MAX_CHARS is {obs}, the model assumes 250"
    if op == 'str':
        if obs[0] != 'ok': return f"str/repr of {c['cls']}({len(c['bits'])} bits) raised {obs}"
        o = obs[1]; n = len(c['bits'])
        if n > 1000:
            if not o['str'].endswith('...'): return f"str of {n} bits is not marked as truncated"
            if f'length={n}' not in o['repr']: return f"repr of {n} bits does not state the true length: {o['repr'][-60:]}"
            return None
        if o['str'].endswith('...'): return f"str of {n} bits (<= 1000) is truncated"
        if o['reparse'] != c['bits']: return f"Bits(str(s)) != s for {c['cls']}({c['bits'][:40]!r}..{n}): str={o['str'][:60]!r}"
        pos = c['pos'] if c['cls'] in ('ConstBitStream', 'BitStream') else None
        if o['eval'] != [c['cls'], c['bits'], pos]: return f"eval(repr(s)) = {o['eval'][0]}(.., pos={o['eval'][2]}) for {c['cls']}(pos={pos}): repr={o['repr'][:80]!r}"
        return None
    if op == 'pp':
        if obs[0] != 'ok':
            return None if obs[1] == 'ValueError' else f"pp({c['fmt']!r}, width={c['width']}) raised {obs}"
        msg = check_pp(c, obs[1])
        return None if msg is None else f"pp({c['fmt']!r}, width={c['width']}, sep={c['sep']!r}, show_offset={c['show_offset']}, lsb0={c['lsb0']}) on {len(c['bits'])} bits: {msg}"
    if op == 'pplayout':
        if obs[0] != 'ok': return f"pp layout case {c} raised {obs}"
        o = obs[1]
        unit = c['g'] if c['g'] else (24 if c['f2'] else {'bin': 1, 'oct': 3, 'hex': 4}[c['f1']])
        if c['width'] > 0 and o['chars'] > c['width'] and o['bits'] > unit:
            return f"pp({o['fmt']!r}, width={c['width']}, sep={c['sep']!r}, show_offset={c['show_offset']}): first line has {o['chars']} characters for {o['bits']} bits (unit {unit})"
        if c['g'] and o['lines'] > 1 and o['bits'] % c['g']: return f"pp({o['fmt']!r}): {o['bits']} bits on a line splits a group of {c['g']}"
        return None
    if op == 'repr_file':
        if obs[0] != 'ok': return f"repr / eval(repr) of {c['cls']} created from a file ({c['how']}, edit={c['edit']}) raised {obs}"
        o = obs[1]
        if o.get('skipped'): return None
        if o['cls'] != c['cls'] or not o['same'] or o['pos'][0] != o['pos'][1]:
            return f"eval(repr(s)) is not s for {c['cls']} created from a file ({c['how']}) after {c['edit']}: {o}"
        return None
    if op == 'array_repr_raw':
        if obs[0] != 'ok': return f"Array repr {c} raised {obs}"
        return None if obs[1][1] and obs[1][2] else f"eval(repr(Array)) differs from the Array for finite {c['dtype']} items: {obs[1][0][:160]}"
    if op == 'color_history':
        if obs[0] != 'ok': return f"color history {c} raised {obs}"
        for k, (fl, esc) in enumerate(obs[1]):
            if fl and esc: return f"pp() call #{k} of the history {[x[0] for x in obs[1]]} (options.no_color values) printed terminal escape sequences although options.no_color was set"
        return None
    if op == 'array_repr':
        if obs[0] != 'ok': return f"Array repr {c} raised {obs}"
        return None if obs[1][1] and obs[1][2] else f"eval(repr(Array)) differs: {obs[1][0][:100]}"

def nontrivial(c, obs): return len(c.get('bits', '')) % 4 != 0 or ',' in c.get('fmt', '')
def classify(c, obs): return None

HEX = '0123456789abcdef'
def coq_check(c, obs):
    if c['op'] == 'pplayout' and obs[0] == 'ok' and obs[1]['lines'] > 1:
        BPC = {'bin': 1, 'oct': 3, 'hex': 4, 'bytes': 8}
        o = obs[1]
        a = f"(mkpp {c['n']} {BPC[c['f1']]} {copt(BPC[c['f2']] if c['f2'] else None, cz)} {c['g']} {cz(c['width'])} {len(c['sep'])} {cbool(c['show_offset'])})"
        return f"(max_bits_per_line {a} =? {o['bits']}) && (line_chars {a} {o['bits']} =? {o['chars']})"
    if c['op'] == 'maxchars' and obs[0] == 'ok': return f"(MAX_CHARS =? {obs[1]})"
    if c['op'] == 'str' and obs[0] == 'ok':
        st = obs[1]['str']
        trunc = st.endswith('...')
        body = st[:-3] if trunc else st
        hexd, binb = [], ''
        for part in [p.strip() for p in body.split(',')] if body else []:
            if part.startswith('0x'): hexd = [HEX.index(ch) for ch in part[2:]]
            elif part.startswith('0b'): binb = part[2:]
        if len(c['bits']) > 4000: return None
        return (f"let p := str_parts {cbits(c['bits'])} in zlist_eqb (p_hex p) {clist(hexd, cz)} && bits_eqb (p_bin p) {cbits(binb)} && Bool.eqb (p_truncated p) {cbool(trunc)}")
    return None

def search(seeds, rng):
    for c in list(seeds) + list(gen_cases(rng, 'quick')):
        try: obs = run_impl(c)
        finally: reset_options()
        msg = oracle(c, obs)
        if msg: return c, obs, msg
    return None
