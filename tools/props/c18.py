"""C18 — struct-code formats match struct/array; endian forms relate by byte reversal."""
from vlib import *
from props.common import *
from gen import dtypes as gendtypes
import struct, array, sys, math, io, re

ID = 'C18'
COQ_PROPS = ['Props/C18.v']
COQ_IMPORTS = ['Prims', 'CaseLib', 'Golomb', 'IntCodec', 'BitsCore', 'Mutators']
RULE = ('all codes b B h H l L i I q Q e f d x prefixes > < = @ x counts 1..4 and multi-code formats x values at the integer limits, special floats (subnormal, inf, -0.0); pack vs struct.pack, '
        'unpack vs struct.unpack; Array(code) vs struct/array.array, array.array input accepted only for matching kind and width; le/be/ne relations and byteswap (BitArray and Array) on whole-byte contents. '
        'byteswap with struct-style string patterns: every code x every spelling of the prefix (none @ = < >) x counts, mixed patterns, several records, bytes before / after, start / end / repeat: '
        'little-endian struct encoding -> big-endian one with the standard item sizes; format strings with a history (pp of every class and of Array, earlier pack / unpack / readlist / peeklist / byteswap, '
        'list formats, Array constructors, callers editing returned lists; cold or warm caches) then compared with struct twice. Multiplicative factors N* on multi-code struct tokens and on (nested) bracketed groups: pack / unpack / readlist / peeklist '
        'vs struct with the format written out. Array.astype (and the equivalent constructions from the values) between all struct codes x prefixes and named int / float / bfloat formats, chains of conversions: '
        'each stage equals the struct encoding of the values. non-trivial = multi-byte code; distinct by arguments')
TRUSTED_BASE = ['translator tools/gen/dtypes.py for REPLACEMENTS_BE/LE/NE and PACK_CODE_SIZE (obligations checked by vm_compute over the generated tables)']
ASSUMPTIONS = ['the real struct and array modules are the reference']

BRIDGE = '''From Coq Require Import ZArith List String Bool Ascii. Import ListNotations.
From Gen Require Import GenDtypes.
Open Scope string_scope. Open Scope Z_scope.
(* struct's standard sizes and kinds, written from the struct documentation *)
Definition std : list (string * (Z * string)) := [
  ("b", (1, "int")); ("B", (1, "uint")); ("h", (2, "int")); ("H", (2, "uint")); ("i", (4, "int")); ("I", (4, "uint"));
  ("l", (4, "int")); ("L", (4, "uint")); ("q", (8, "int")); ("Q", (8, "uint")); ("e", (2, "float")); ("f", (4, "float")); ("d", (8, "float"))].
Fixpoint zdigits (fuel : nat) (n : Z) : string :=
  match fuel with O => "" | S f => if n <? 10 then String (ascii_of_nat (48 + Z.to_nat n)) "" else zdigits f (n / 10) ++ String (ascii_of_nat (48 + Z.to_nat (n mod 10))) "" end.
Definition expected_name (suffix : string) (c : string) (sz : Z) (kind : string) : string :=
  (if sz =? 1 then kind else kind ++ suffix) ++ zdigits 4 (8 * sz).
Definition lookup {A} (k : string) (l : list (string * A)) : option A :=
  match find (fun p => String.eqb (fst p) k) l with Some p => Some (snd p) | None => None end.
Definition table_ok (suffix : string) (t : list (string * string)) : bool :=
  (Nat.eqb (List.length t) (List.length std)) &&
  forallb (fun p => match lookup (fst p) t, lookup (fst p) gen_pack_code_size with
                    | Some name, Some sz => String.eqb name (expected_name suffix (fst p) (fst (snd p)) (snd (snd p))) && (sz =? fst (snd p))
                    | _, _ => false end) std.
(* every code, in each of the three tables, names the dtype of struct's standard size, signedness and the table's endianness *)
Theorem struct_tables_match_struct_module :
  table_ok "be" gen_replacements_be = true /\\ table_ok "le" gen_replacements_le = true /\\ table_ok "ne" gen_replacements_ne = true /\\
  Nat.eqb (List.length gen_pack_code_size) (List.length std) = true.
Proof. vm_compute. repeat split; reflexivity. Qed.
Print Assumptions struct_tables_match_struct_module.
'''

def generate(out):
    text, data = gendtypes.emit(REPO)
    info = gen_build([('GenDtypes', text)], [('BridgeC18', BRIDGE)])
    info['functions'] = ['REPLACEMENTS_BE', 'REPLACEMENTS_LE', 'REPLACEMENTS_NE', 'PACK_CODE_SIZE']
    return info

CODES = 'bBhHlLiIqQefd'
INTW = {'b': 1, 'B': 1, 'h': 2, 'H': 2, 'l': 4, 'L': 4, 'i': 4, 'I': 4, 'q': 8, 'Q': 8}

def rval(rng, code):
    if code in 'efd':
        edge = {'e': [65504.0, 65505.0, -65510.0, 65519.99], 'f': [3.4028234663852886e38, 3.4028235e38, -3.402823466385289e38, 3.4028235677973362e38], 'd': [1.7976931348623157e308, -1.7976931348623157e308]}[code]
        return rng.choice([0.0, -0.0, 1.0, -2.5, 0.1, 6.1e-5, 5.96e-8, 65504.0, float('inf'), float('-inf'), 1e-310 if code == 'd' else 1e-40, rng.uniform(-1000, 1000)] + edge)
    w = 8 * INTW[code]
    lo, hi = (-(1 << (w - 1)), (1 << (w - 1)) - 1) if code.islower() else (0, (1 << w) - 1)
    return rng.choice([lo, hi, 0, 1, lo + 1, hi - 1, rng.randrange(lo, hi + 1)])

def gen_cases(rng, tier):
    N = 500 if tier == 'quick' else 8000
    for code in CODES:
        for pre in '><=@':
            for cnt in (1, 3):
                yield {'op': 'pack', 'fmt': pre + (str(cnt) if cnt > 1 else '') + code, 'codes': code * cnt, 'pre': pre, 'vals': [rval(rng, code) for _ in range(cnt)]}
    for _ in range(N):
        k = rng.randrange(1, 5)
        codes = ''.join(rng.choice(CODES) for _ in range(k))
        pre = rng.choice('><=@')
        fmt, flat = pre, ''
        for ch in codes:
            c = rng.choice([1, 1, 2, 3]); fmt += (str(c) if c > 1 else '') + ch; flat += ch * c
        yield {'op': 'pack', 'fmt': fmt, 'codes': flat, 'pre': pre, 'vals': [rval(rng, ch) for ch in flat]}
    for _ in range(N // 4):
        k = rng.randrange(1, 5)
        codes = ''.join(rng.choice(CODES) for _ in range(k)); pre = rng.choice('><=')
        fmt, flat = pre, ''
        for ch in codes:
            cnt = rng.choice([1, 1, 2, 3]); fmt += (str(cnt) if cnt > 1 else '') + ch; flat += ch * cnt
        yield {'op': 'roundtrip_lsb0', 'fmt': fmt, 'codes': flat, 'pre': pre, 'vals': [rval(rng, ch) for ch in flat], 'extra': rng.choice(['', '', '0b1', '0xff'])}
    for _ in range(N // 3):
        code = rng.choice(CODES)
        yield {'op': 'array', 'code': code, 'pre': rng.choice(['=', '>', '<', '=']), 'vals': [rval(rng, code) for _ in range(rng.randrange(0, 6))], 'other': rng.choice(CODES)}
    for _ in range(60 if tier == 'quick' else 1000):
        code = rng.choice('hHlLiIqQ')
        v = rval(rng, code)
        yield {'op': 'adopt', 'code': code, 'pre': rng.choice('<=@'), 'v': v, 'how': rng.choice(['kw', 'setattr', 'array']), 'edit': rng.choice(['byteswap', 'invert', 'append', 'reverse'])}
    # Array.byteswap: every item byte-reversed (= the same values in the other endianness), the trailing bits - however many, up to one bit short
    # of another item - untouched; twice is the identity
    for _ in range(60 if tier == 'quick' else 900):
        code = rng.choice('hHlLiIqQefd')
        w = 8 * SIZES[code]
        yield {'op': 'array_byteswap', 'code': code, 'pre': rng.choice('<>'), 'vals': [rval(rng, code) for _ in range(rng.randrange(0, 5))],
               'trail': rand_bits(rng, rng.choice([0, 0, 1, 7, 8, 9, w - 8, w - 7, w - 1, w // 2 + 1]), 'rand')}
    for _ in range(N // 2):
        nb = rng.randrange(1, 10)
        yield {'op': 'endian', 'bits': rand_bits(rng, 8 * nb), 'fmt': rng.choice([None, 0, 1, 2, nb, [1, 2], 'h', '2h', 'q', 'bh', 'l', '@L', '=hl', '<2h', '>bq', 'e', '3b', '@lb', 'Lh', '1i']), 'cls': rng.choice(MUTABLE)}
    # byteswap with a struct-style STRING pattern: the endianness character is optional and has no influence, the item sizes are struct's STANDARD
    # sizes for every code (l/L = 4 whatever the platform's C long is); the little-endian encoding of the records becomes the big-endian one.
    # Every code x every spelling of the prefix x counts, then mixed patterns, over several records, with bytes before / after that must stay.
    def swapcase(pre, body, flat):
        tot = sum(SIZES[ch] for ch in flat)
        nrec = rng.choice([1, 1, 2, 3, 0])
        lead = [rng.randrange(256) for _ in range(rng.choice([0, 0, 0, 1, 3]))]
        tail = [rng.randrange(256) for _ in range(rng.choice([0, 0, rng.randrange(0, tot), tot, tot + 1, 2 * tot + 1]))]
        start = 8 * len(lead) if lead or rng.random() < 0.2 else None
        end = 8 * (len(lead) + nrec * tot) if len(tail) >= tot or rng.random() < 0.2 else None
        return {'op': 'swapstruct', 'pre': pre, 'body': body, 'codes': flat, 'recs': [[okval(rng, ch) for ch in flat] for _ in range(nrec)], 'lead': lead, 'tail': tail,
                'start': start, 'end': end, 'repeat': rng.random() < 0.8, 'args': rng.choice(['kw', 'pos']), 'cls': rng.choice(MUTABLE)}
    for code in CODES:
        for pre in SWAP_PREFIXES:
            for body in (code, '2' + code, code * 3):
                if tier == 'quick' and rng.random() < 0.35: continue
                yield swapcase(pre, body, code * (1 if body == code else 2 if body[0] == '2' else 3))
    for _ in range(150 if tier == 'quick' else 4000):
        body, flat = rand_body(rng)
        yield swapcase(rng.choice(SWAP_PREFIXES), body, flat)
    # the format string has a HISTORY: other consumers of the very same string (pretty printers of every class and of Array, earlier pack / unpack /
    # readlist / peeklist calls, list formats, byteswap, Array constructors, callers that edit the list they were given) ran before the comparison
    # with struct, from a cold cache or a warm one. Whatever is remembered about a format must not change what it means.
    for _ in range(260 if tier == 'quick' else 5000):
        body, flat = rand_body(rng, rng.choice(['count', 'count', 'double', 'samesize', 'mix', 'bigcount']))
        pre = rng.choice('><=')
        vals = [okval(rng, ch) for ch in flat]
        ref = list(struct.pack(pre + body, *vals))
        yield {'op': 'hist', 'fmt': pre + body, 'pre': pre, 'codes': flat, 'vals': vals, 'ref': ref, 'cold': rng.random() < 0.6,
               'before': [rng.choice(HIST_CONSUMERS) for _ in range(rng.choice([1, 1, 2, 3, 5]))],
               'data': [rng.randrange(256) for _ in range(len(ref) * rng.choice([1, 2, 3]))]}

    # multiplicative factors ('N*') in front of struct-style tokens with SEVERAL codes and in front of bracketed groups of them, nested, with counts inside the
    # tokens, different byte-order characters side by side: 'N*X' stands for X written N times, so the reference is struct.pack of the format written out
    for pre in '><=@':
        for body, flat in (('hb', 'hb'), ('bH', 'bH'), ('2hB', 'hhB'), ('qe', 'qe'), ('Bl', 'Bl'), ('dbh', 'dbh')):
            for n in (2, 3):
                shape = rng.choice(['tok', 'tok', 'grp', 'grp_in', 'both'])
                text = {'tok': f'{n}*{pre}{body}', 'grp': f'{n}*({pre}{body})', 'grp_in': f'({n}*{pre}{body})', 'both': f'{n}*(2*{pre}{body})'}[shape]
                segs = [[pre, flat]] * (n * (2 if shape == 'both' else 1))
                yield factor_case(rng, text, [text], segs)
    for _ in range(160 if tier == 'quick' else 4000):
        while True:
            items = [rand_factor_item(rng, 0) for _ in range(rng.choice([1, 1, 1, 2, 2, 3]))]
            if sum(len(fl) for _, sgs in items for _, fl in sgs) <= 48: break          # keep the cases small
        sep = rng.choice([',', ',', ', ', ' , '])
        yield factor_case(rng, sep.join(t for t, _ in items), [t for t, _ in items], [sg for _, sgs in items for sg in sgs])
    # Array.astype: "Array with elements of new dtype, initialised from current Array" - the new Array is Array(new format, values of the old one), so its
    # bytes are struct's encoding of those values. Every struct code with every prefix and every named integer / float format (uint int, be le ne, float
    # bfloat, also widths struct does not have) as source and as destination, chains of conversions, sources with a past.
    fl = [f for f in ASTYPE_FORMATS if fmt_spec(f)[0] in ('float', 'bfloat')]
    for a in fl:                                                        # every ordered pair of 16-bit float formats, and each float format to / from them
        for b in fl:
            if a != b and (16 in (fmt_spec(a)[1], fmt_spec(b)[1])) and (tier == 'thorough' or fmt_spec(a)[1] == fmt_spec(b)[1] or rng.random() < 0.25):
                yield astype_case(rng, [a, b])
    for _ in range(200 if tier == 'quick' else 5000):
        k = rng.choice([2, 2, 2, 3, 4])
        r = rng.random()
        pool = fl if r < 0.35 else [f for f in ASTYPE_FORMATS if f not in fl] if r < 0.6 else ASTYPE_FORMATS
        chain = [rng.choice(pool) for _ in range(k)]
        if rng.random() < 0.3:                                          # same kind and width, another byte order / another spelling
            kd, w, _ = fmt_spec(chain[0]); same = [f for f in ASTYPE_FORMATS if fmt_spec(f)[1] == w and (fmt_spec(f)[0] in ('float', 'bfloat')) == (kd in ('float', 'bfloat'))]
            chain[1] = rng.choice(same)
        yield astype_case(rng, chain)

SWAP_PREFIXES = ['', '@', '=', '<', '>']
HIST_CONSUMERS = ['pp_bits', 'pp_bitarray', 'pp_cstream', 'pp_stream', 'pp_array', 'pp_array_own', 'pp_combo', 'pp_lsb0', 'pack', 'pack_other', 'pack_combo', 'pack_mult', 'pack_list',
                  'unpack', 'unpack_mut', 'unpack_list', 'readlist', 'readlist_mut', 'peeklist', 'byteswap', 'array_ctor', 'astype', 'dtype', 'read', 'repr_array',
                  'expanded_names', 'array_dtype_set']

def expanded_name(pre, code):
    """the dtype a struct code stands for, from the struct documentation: kind, standard size, byte order of the prefix"""
    kindname = 'float' if code in 'efd' else 'int' if code.islower() else 'uint'
    return kindname + ('' if SIZES[code] == 1 else {'<': 'le', '>': 'be', '=': 'ne', '@': 'ne'}[pre]), 8 * SIZES[code]
SIZE_GROUPS = ['bB', 'hHe', 'lLiIf', 'qQd']

def okval(rng, code):
    """a value of the code's range that struct itself can pack (struct refuses floats beyond the range of 'e' / 'f')"""
    for _ in range(20):
        v = rval(rng, code)
        try:
            struct.pack('<' + code, v); return v
        except (OverflowError, struct.error): continue
    return 1.5 if code in 'efd' else 1

def rand_body(rng, style=None):
    """(body, flat codes) of a struct-style format without its endianness character"""
    style = style or rng.choice(['count', 'double', 'samesize', 'mix', 'mix', 'mix', 'bigcount'])
    if style == 'count':
        ch = rng.choice(CODES); n = rng.choice([1, 2, 2, 3, 4])
        return (str(n) if n > 1 or rng.random() < 0.25 else '') + ch, ch * n
    if style == 'double':
        ch = rng.choice(CODES); n = rng.choice([2, 2, 3]); return ch * n, ch * n
    if style == 'samesize':
        g = rng.choice(SIZE_GROUPS); a, b = rng.choice(g), rng.choice(g); return a + b, a + b
    if style == 'bigcount':
        ch = rng.choice(CODES); n = rng.choice([10, 11, 12, 16]); return f'{n}{ch}', ch * n
    body, flat = '', ''
    for _ in range(rng.randrange(1, 5)):
        ch = rng.choice(CODES); n = rng.choice([1, 1, 2, 3]); body += (str(n) if n > 1 else '') + ch; flat += ch * n
    return body, flat


# ---- multiplicative factors -----------------------------------------------------------------------------------------------------------------------------
def rand_factor_item(rng, depth):
    """one comma-level item of a format: [N*]<struct token> or [N*](item, item, ..); -> (text, [[prefix, flat codes], ...] in the order the items are laid out)"""
    star = lambda n: f'{n}{rng.choice(["*", "*", "*", " * ", "* "])}'
    if depth < 2 and rng.random() < (0.35 if depth == 0 else 0.2):
        inner = [rand_factor_item(rng, depth + 1) for _ in range(rng.choice([1, 2, 2, 3]))]
        n = rng.choice([None, 1, 2, 2, 2, 3, 0])
        text = ('' if n is None else star(n)) + '(' + rng.choice([',', ', ']).join(t for t, _ in inner) + ')'
        return text, [sg for _, sgs in inner for sg in sgs] * (1 if n is None else n)
    pre = rng.choice('><=@')
    body, flat = rand_body(rng, rng.choice(['mix', 'mix', 'mix', 'samesize', 'count', 'double']))
    n = rng.choice([None, 1, 2, 2, 2, 3, 3, 4, 0]) if len(flat) <= 6 else rng.choice([None, 2])
    tok = pre + body
    if len(flat) == 1 and rng.random() < 0.5:                 # the same item under the name the code stands for (struct documentation: kind, standard size, byte order)
        nm, ln = expanded_name(pre, flat); tok = nm + rng.choice(['', ':']) + str(ln)
    return ('' if n is None else star(n)) + tok, [[pre, flat]] * (1 if n is None else n)

def factor_case(rng, fmt, items, segs):
    vals = [okval(rng, ch) for _, flat in segs for ch in flat]
    return {'op': 'factor', 'fmt': fmt, 'items': items, 'segs': segs, 'vals': vals, 'cls': rng.choice(CLASSES), 'extra': [rng.randrange(256) for _ in range(rng.choice([0, 0, 1, 3]))],
            'cold': rng.random() < 0.3}

def factor_ref(c):
    """struct's bytes and values for the format written out: one struct.pack per token, '@' read as '=' (documented: standard sizes, no alignment)"""
    out, back, i = b'', [], 0
    for pre, flat in c['segs']:
        f = pre.replace('@', '=') + flat
        b = struct.pack(f, *c['vals'][i:i + len(flat)]); i += len(flat)
        out += b; back += list(struct.unpack(f, b))
    return out, [fhex(v) if isinstance(v, float) else v for v in back]

# ---- Array.astype -----------------------------------------------------------------------------------------------------------------------------------------
NATIVE = 'le' if sys.byteorder == 'little' else 'be'
ASTYPE_FORMATS = ([p + ch for p in '<>=@' for ch in CODES] +
                  ['uint8', 'int8', 'uint16', 'int16', 'uint32', 'int32', 'uint64', 'int64', 'uint12', 'int12', 'uint24', 'int24', 'uint5', 'int7', 'uint40'] +
                  [k + e + str(w) for k in ('uint', 'int') for e in ('be', 'le', 'ne') for w in (8, 16, 24, 32, 64)] +
                  ['float' + e + str(w) for e in ('', 'be', 'le', 'ne') for w in (16, 32, 64)] +
                  ['bfloat', 'bfloat16', 'bfloatbe', 'bfloatle', 'bfloatne', 'bfloatbe16', 'bfloatle16', 'bfloatne16'])
# exactly representable in bfloat16 AND in IEEE half precision (at most 8 significant bits, exponent within half's normal range), so that no conversion
# between any two float formats rounds
EXACT_FLOATS = [0.0, -0.0, 1.0, -1.0, 1.5, -2.0, 0.25, 96.0, -0.0078125, 3.0, -1.75, 0.5, 1.9921875, -255.0, 6.103515625e-05, 57344.0, -49152.0, 0.000244140625, float('inf'), float('-inf')]

def fmt_spec(fmt):
    """(kind, bits per item, byte order) of an Array format, from the documentation: struct codes have struct's standard sizes and the prefix's byte order
    ('=' and '@' native); uint / int / float / bfloat are big-endian unless the name says le or ne; bfloat is 16 bits"""
    m = re.fullmatch(r'([<>=@])([bBhHlLiIqQefd])', fmt)
    if m:
        ch = m.group(2)
        return ('float' if ch in 'efd' else 'int' if ch.islower() else 'uint'), 8 * SIZES[ch], {'<': 'le', '>': 'be', '=': NATIVE, '@': NATIVE}[m.group(1)]
    m = re.fullmatch(r'(uint|int|float|bfloat)(be|le|ne|)(\d*)', fmt)
    return m.group(1), int(m.group(3) or 16), {'': 'be', 'be': 'be', 'le': 'le', 'ne': NATIVE}[m.group(2)]

def enc_item(spec, v):
    """the item's bits as a '01' string, or None when the value is outside what the format holds exactly (then nothing is claimed)"""
    kd, w, order = spec
    if kd in ('uint', 'int'):
        if isinstance(v, float):
            if v != v or v in (float('inf'), float('-inf')) or v != int(v): return None
            v = int(v)
        lo, hi = (0, (1 << w) - 1) if kd == 'uint' else (-(1 << (w - 1)), (1 << (w - 1)) - 1)
        if not lo <= v <= hi: return None
        bits = format(v & ((1 << w) - 1), f'0{w}b')
    else:
        try: v = float(v)
        except OverflowError: return None
        if v != v: return None
        if kd == 'bfloat':
            b = struct.pack('>f', v) if abs(v) < 3.4e38 or abs(v) == float('inf') else None
            if b is None or b[2:] != b'\0\0': return None                       # only values bfloat holds exactly
            b = b[:2]
        else:
            try: b = struct.pack('>' + {16: 'e', 32: 'f', 64: 'd'}[w], v)
            except (OverflowError, struct.error): return None
        bits = ''.join(format(x, '08b') for x in b)
    if order == 'le': bits = ''.join(reversed([bits[i:i + 8] for i in range(0, w, 8)]))
    return bits

def dec_item(spec, bits):
    kd, w, order = spec
    if order == 'le': bits = ''.join(reversed([bits[i:i + 8] for i in range(0, w, 8)]))
    u = int(bits, 2)
    if kd == 'uint': return u
    if kd == 'int': return u - (1 << w) if bits[0] == '1' else u
    b = u.to_bytes(w // 8, 'big')
    if kd == 'bfloat': return struct.unpack('>f', b + b'\0\0')[0]
    return struct.unpack('>' + {16: 'e', 32: 'f', 64: 'd'}[w], b)[0]

# how the next Array is made from the values of the current one: astype, or one of the documented equivalents
ASTYPE_VIA = ['astype', 'astype', 'astype', 'astype', 'astype', 'ctor_list', 'ctor_iter', 'extend_list', 'extend_iter', 'setslice', 'append_each']

def astype_case(rng, chain):
    """values the whole chain of formats can hold (so that every stage has a reference), the destination given as a string or as a Dtype, the source made in
    one of several ways and possibly carrying bits beyond its last item"""
    specs = [fmt_spec(f) for f in chain]
    n = rng.choice([0, 1, 2, 3, 3, 5, 8])
    if all(sp[0] in ('float', 'bfloat') for sp in specs):
        if any(sp[0] == 'bfloat' for sp in specs) or rng.random() < 0.3: pool = EXACT_FLOATS
        else: pool = [rval(rng, {16: 'e', 32: 'f', 64: 'd'}[specs[0][1]]) for _ in range(8)] + [0.1, -0.0, 1e-7, 65504.0, 3.0e38, 5e-324]
    else:
        ints = [sp for sp in specs if sp[0] in ('uint', 'int')]
        lo = max(0 if sp[0] == 'uint' else -(1 << (sp[1] - 1)) for sp in ints)
        hi = min((1 << sp[1]) - 1 if sp[0] == 'uint' else (1 << (sp[1] - 1)) - 1 for sp in ints)
        if any(sp[0] == 'bfloat' for sp in specs): lo, hi = max(lo, -255), min(hi, 255)          # integers every float format on the way holds exactly
        elif any(sp[0] == 'float' and sp[1] == 16 for sp in specs): lo, hi = max(lo, -2048), min(hi, 2048)
        elif any(sp[0] == 'float' and sp[1] == 32 for sp in specs): lo, hi = max(lo, -(1 << 24)), min(hi, 1 << 24)
        elif any(sp[0] == 'float' for sp in specs): lo, hi = max(lo, -(1 << 53)), min(hi, 1 << 53)
        pool = [lo, hi, 0, 1, min(hi, 2), max(lo, -1), lo + 1, hi - 1] + [rng.randrange(lo, hi + 1) for _ in range(4)]
        if specs[0][0] in ('float', 'bfloat'): pool = [float(v) for v in pool]
    vals = [rng.choice(pool) for _ in range(n)]
    w0 = specs[0][1]
    return {'op': 'astype', 'chain': chain, 'vals': vals, 'how': [rng.choice(['str', 'str', 'dtype']) for _ in chain[1:]], 'via': [rng.choice(ASTYPE_VIA) for _ in chain[1:]], 'src': rng.choice(['list', 'list', 'bytes', 'dtype_set', 'extend', 'swapped']),
            'trail': rand_bits(rng, rng.choice([0, 0, 0, 1, min(7, w0 - 1), w0 - 1]), 'rand'), 'after': rng.choice(['byteswap', 'append', 'invert', 'none'])}

def kind(c): return c['op']

def fhex(x): return x.hex() if x == x else 'nan'

def run_impl(c):
    import bitstring
    from bitstring import pack, Array, Bits, BitArray
    op = c['op']
    if op == 'pack':
        def f():
            p = pack(c['fmt'], *c['vals'])
            vals = p.unpack(c['fmt'])
            return [list(p.tobytes()), [fhex(v) if isinstance(v, float) else v for v in vals], len(p)]
        return attempt(f)
    if op == 'roundtrip_lsb0':
        import bitstring
        def f():
            bitstring.options.lsb0 = True
            try:
                p = pack(c['fmt'], *c['vals'])
                vals = p.unpack(c['fmt'])
                s2 = bitstring.ConstBitStream(p); vals2 = s2.readlist(c['fmt'])
                return [[fhex(v) if isinstance(v, float) else v for v in vals], [fhex(v) if isinstance(v, float) else v for v in vals2], len(p), s2.pos]
            finally:
                bitstring.options.lsb0 = False
        return attempt(f)
    if op == 'adopt':
        w = 8 * INTW[c['code']]
        name = ('int' if c['code'].islower() else 'uint') + ('le' if c['pre'] == '<' else 'ne')
        def f():
            if c['how'] == 'kw': x = BitArray(**{name: c['v'], 'length': w})
            elif c['how'] == 'setattr':
                x = BitArray(w); setattr(x, name, c['v'])
            else:
                x = Array(c['pre'] + c['code'], [c['v']]).data
            first = list(x.tobytes())
            if c['edit'] == 'byteswap': x.byteswap()
            elif c['edit'] == 'invert': x.invert()
            elif c['edit'] == 'append': x.append('0xff')
            else: x.reverse()
            fmt = c['pre'] + c['code']
            return [first, list(pack(fmt, c['v']).tobytes()), list(Array(fmt, [c['v']]).tobytes()), list(BitArray(**{name: c['v'], 'length': w}).tobytes()), pack(fmt, c['v']).unpack(fmt)]
        return attempt(f)
    if op == 'array':
        def f():
            a = Array(c['pre'] + c['code'] if c['pre'] else c['code'], c['vals'])
            out = {'bytes': list(a.tobytes()), 'list': [fhex(v) if isinstance(v, float) else v for v in a.tolist()]}
            if c['code'] in 'bBhHlLiIqQfd':
                src = array.array(c['code'], [v for v in c['vals'] if not (isinstance(v, int) and not (-(1 << 31) <= v < (1 << 32)) and c['code'] in 'lL')] if False else c['vals'][:0])
            # array.array input: same typecode accepted (only if widths agree with the native array), others rejected
            res = {}
            for tc in (c['code'], c['other']):
                if tc not in 'bBhHiIlLqQfd': continue
                try:
                    aa = array.array(tc, [1, 2] if tc not in 'fd' else [1.0, 2.0])
                except Exception: continue
                b = Array('=' + c['code'])   # native-endian Array of this code
                try:
                    b.extend(aa); res[tc] = ['ok', [fhex(v) if isinstance(v, float) else v for v in b.tolist()], aa.itemsize]
                except Exception as e:
                    res[tc] = ['err', exn_name(e), aa.itemsize]
            out['from_array'] = res
            return out
        return attempt(f)
    if op == 'array_byteswap':
        def f():
            from bitstring import Bits
            a = Array(c['pre'] + c['code'], c['vals'], trailing_bits=Bits(bin=c['trail']) if c['trail'] else None)
            before = a.data.bin
            a.byteswap(); once = a.data.bin
            a.byteswap(); twice = a.data.bin
            return [before, once, twice]
        return attempt(f)
    if op == 'swapstruct':
        def f():
            little = b''.join(struct.pack('<' + c['body'], *r) for r in c['recs'])
            s = cls_of(c['cls'])(bytes=bytes(c['lead']) + little + bytes(c['tail']))
            pat = c['pre'] + c['body']
            if c['args'] == 'pos': call = lambda: s.byteswap(pat, c['start'], c['end'], c['repeat'])
            else:
                kw = {k: c[k] for k in ('start', 'end') if c[k] is not None}
                if not c['repeat'] or c['pre'] == '=': kw['repeat'] = c['repeat']
                call = lambda: s.byteswap(pat, **kw)
            r1 = call(); once = list(s.tobytes()); n1 = len(s)
            r2 = call(); twice = list(s.tobytes())
            return [once, twice, r1, r2, n1]
        return attempt(f)
    if op == 'hist':
        from bitstring import BitStream, ConstBitStream, Dtype
        canon = lambda vs: [fhex(v) if isinstance(v, float) else v for v in vs]
        def tryv(fn):
            try: return ['ok', fn()]
            except Hang: raise
            except Exception as e: return ['err', exn_name(e)]
        def f():
            if c['cold']: clear_caches()
            fmt, vals, data, ref = c['fmt'], c['vals'], bytes(c['data']), bytes(c['ref'])
            code0 = c['pre'] + c['codes'][0]
            sink = io.StringIO()
            def consume(b):
                if b == 'pp_bits': Bits(bytes=data).pp(fmt, stream=sink)
                elif b == 'pp_bitarray': BitArray(bytes=data).pp(fmt, stream=sink, width=60)
                elif b == 'pp_cstream': ConstBitStream(bytes=data).pp(fmt, stream=sink, show_offset=False)
                elif b == 'pp_stream': BitStream(bytes=data).pp(fmt, stream=sink, sep='|')
                elif b == 'pp_array': Array('uint8', data).pp(fmt, stream=sink)
                elif b == 'pp_array_own': Array(code0, data).pp(fmt, stream=sink); Array(code0, data).pp(stream=sink)
                elif b == 'pp_combo': tryv(lambda: Bits(bytes=data).pp(fmt + ', hex', stream=sink)); tryv(lambda: Bits(bytes=data).pp('bin, ' + fmt, stream=sink)); Bits(bytes=data).pp(code0 + ', ' + code0, stream=sink)
                elif b == 'pp_lsb0':
                    bitstring.options.lsb0 = True
                    try: Bits(bytes=data).pp(fmt, stream=sink)
                    finally: bitstring.options.lsb0 = False
                elif b == 'pack': pack(fmt, *vals)
                elif b == 'pack_other': pack(fmt, *[type(v)(1) for v in vals])
                elif b == 'pack_combo': pack(fmt + ', bin', *vals, '01'); pack('hex, ' + fmt, 'f', *vals)
                elif b == 'pack_mult': pack('2*' + fmt, *vals, *vals)
                elif b == 'pack_list': pack(fmt + ',' + fmt, *vals, *vals); pack(fmt, *vals)
                elif b == 'unpack': Bits(bytes=data).unpack(fmt)
                elif b == 'unpack_mut':
                    r = Bits(bytes=data).unpack(fmt); r.reverse(); del r[1:]; r.append(None)
                elif b == 'unpack_list': Bits(bytes=data).unpack([fmt]); Bits(bytes=data + data).unpack([fmt, fmt])
                elif b == 'readlist': ConstBitStream(bytes=data).readlist(fmt)
                elif b == 'readlist_mut':
                    r = BitStream(bytes=data).readlist([fmt]); del r[:]
                elif b == 'peeklist': ConstBitStream(bytes=data).peeklist(fmt)
                elif b == 'byteswap': BitArray(bytes=data).byteswap(fmt)
                elif b == 'array_ctor': tryv(lambda: Array(fmt)); Array(code0, data); Array(code0, vals[:1])
                elif b == 'astype': tryv(lambda: Array('uint8', [1, 2, 3]).astype(code0)); tryv(lambda: Array(code0, vals).astype('float64')); Array(code0, data).astype(code0)
                elif b == 'dtype': Dtype(fmt)
                elif b == 'read': ConstBitStream(bytes=data).read(fmt)
                elif b == 'repr_array': repr(Array(code0, data)); str(Array(code0, data).dtype)
                elif b == 'expanded_names':
                    for ch in dict.fromkeys(c['codes']):
                        nm, ln = expanded_name(c['pre'], ch)
                        Dtype(nm, ln); Dtype(f'{nm}{ln}'); Bits(bytes=data).unpack(f'{nm}{ln}'); Bits(bytes=data).pp(f'{nm}{ln}', stream=sink); Array(f'{nm}{ln}', data)
                elif b == 'array_dtype_set':
                    a = Array(code0, data); a.dtype = '>' + c['codes'][-1]; a.dtype = code0; a.pp(fmt, stream=sink)
                else: raise AssertionError(b)
            notes = []
            for b in c['before']:
                notes.append(tryv(lambda: consume(b))[-1] or 'done')   # several consumers refuse some formats (pp: more than two tokens, Dtype: not a single token): that is their business
            out = []
            for _ in range(2):
                p = tryv(lambda: pack(fmt, *vals))
                out.append([['ok', [list(p[1].tobytes()), len(p[1])]] if p[0] == 'ok' else p,
                            tryv(lambda: canon(p[1].unpack(fmt))) if p[0] == 'ok' else None,
                            tryv(lambda: canon(Bits(bytes=ref).unpack(fmt))),
                            tryv(lambda: canon(ConstBitStream(bytes=ref).readlist(fmt))),
                            tryv(lambda: canon(BitStream(bytes=ref + b'\x55').peeklist([fmt])))])
            arr = None
            if len(set(c['codes'])) == 1:
                arr = tryv(lambda: (lambda a: [list(a.tobytes()), canon(a.tolist())])(Array(code0, vals)))
            return [out, arr, notes]
        return attempt(f)
    if op == 'factor':
        from bitstring import BitStream, ConstBitStream
        canon = lambda vs: [fhex(v) if isinstance(v, float) else v for v in vs]
        def tryv(fn):
            try: return ['ok', fn()]
            except Hang: raise
            except Exception as e: return ['err', exn_name(e)]
        def f():
            if c['cold']: clear_caches()
            fmt, vals = c['fmt'], c['vals']
            ref, _ = factor_ref(c)
            flatfmt = ','.join(pre + flat for pre, flat in c['segs'])
            data = ref + bytes(c['extra'])
            K = cls_of(c['cls'])
            out = {}
            p = tryv(lambda: pack(fmt, *vals))
            out['pack'] = ['ok', [list(p[1].tobytes()), len(p[1])]] if p[0] == 'ok' else p
            if p[0] == 'ok':
                out['pack.unpack'] = tryv(lambda: canon(p[1].unpack(fmt)))
                out['pack.unpack(written out)'] = tryv(lambda: canon(p[1].unpack(flatfmt)) if flatfmt else [])
            out['pack(list of items)'] = tryv(lambda: (lambda q: [list(q.tobytes()), len(q)])(pack(list(c['items']), *vals)))
            out['pack(written out)'] = tryv(lambda: (lambda q: [list(q.tobytes()), len(q)])(pack(flatfmt, *vals)))
            out['unpack'] = tryv(lambda: canon(K(bytes=data).unpack(fmt)))
            out['unpack(list of items)'] = tryv(lambda: canon(K(bytes=data).unpack(list(c['items']))))
            def rd(S, how, lead):
                st = S(bytes=data) if not lead else S('0b' + lead) + S(bytes=data)
                st.pos = len(lead)
                vs = canon(getattr(st, how)(fmt)); return [vs, st.pos]
            out['ConstBitStream.readlist'] = tryv(lambda: rd(ConstBitStream, 'readlist', ''))
            out['BitStream.readlist at bit 3'] = tryv(lambda: rd(BitStream, 'readlist', '101'))
            out['BitStream.peeklist'] = tryv(lambda: rd(BitStream, 'peeklist', ''))
            out['ConstBitStream.peeklist at bit 5'] = tryv(lambda: rd(ConstBitStream, 'peeklist', '11010'))
            return out
        return attempt(f)
    if op == 'astype':
        from bitstring import Dtype
        canon = lambda vs: [fhex(v) if isinstance(v, float) else v for v in vs]
        def f():
            chain, vals = c['chain'], c['vals']
            f0 = chain[0]
            trail = Bits(bin=c['trail']) if c['trail'] else None
            if c['src'] == 'list': a = Array(f0, vals, trail)
            elif c['src'] == 'bytes': a = Array(f0, Array(f0, vals).tobytes(), trail) if len(Array(f0, vals).data) % 8 == 0 else Array(f0, vals, trail)
            elif c['src'] == 'dtype_set':
                a = Array('uint8', [], Array(f0, vals, trail).data); a.dtype = f0
            elif c['src'] == 'extend':
                a = Array(f0, vals[:1]); a.extend(vals[1:])
                if trail is not None: a.data.append(trail)
            else:                                                                       # the values written in the other byte order, then byteswap()
                _, w, order = fmt_spec(f0)
                if w % 8 or w == 8: a = Array(f0, vals, trail)
                else:
                    a = Array(f0, b''.join(bytes(Array(f0, [v]).tobytes()[::-1]) for v in vals), trail); a.byteswap()
            stages = [[a.data.bin, len(a), a.itemsize]]
            cur = a
            for fm, how in zip(chain[1:], c['how']):
                arg = fm
                if how == 'dtype' and fm[0] not in '<>=@':
                    m = re.fullmatch(r'([a-z]+?)(\d*)', fm); arg = Dtype(m.group(1), int(m.group(2))) if m.group(2) else Dtype(m.group(1))
                prev_bin = cur.data.bin
                via = c.get('via', ['astype'] * len(chain))[len(stages) - 1]
                if via == 'astype': new = cur.astype(arg)
                elif via == 'ctor_list': new = Array(arg, cur.tolist())
                elif via == 'ctor_iter': new = Array(arg, iter(cur))
                elif via == 'extend_list':
                    new = Array(arg); new.extend(cur.tolist())
                elif via == 'extend_iter':
                    new = Array(arg); new.extend(v for v in cur)
                elif via == 'setslice':
                    new = Array(arg); new[:] = cur
                else:
                    new = Array(arg)
                    for v in cur: new.append(v)
                stages.append([new.data.bin, len(new), new.itemsize, canon(new.tolist()), cur.data.bin == prev_bin, type(new).__name__, new.trailing_bits.bin])
                cur = new
            # the new Array owns its data: editing it leaves the Arrays it came from alone
            src_bin = a.data.bin
            if c['after'] == 'byteswap':
                if cur.itemsize % 8 == 0: cur.byteswap()
                cur.data.invert()
            elif c['after'] == 'append': cur.data.append('0b1'); cur.data.set(1)
            elif c['after'] == 'invert': cur.data.invert()
            return [stages, a.data.bin == src_bin]
        return attempt(f)
    if op == 'endian':
        s = cls_of(c['cls'])(bin=c['bits'])
        def f():
            rev = cls_of(c['cls'])(bytes=s.bytes[::-1])
            out = [s.uintle == rev.uintbe, s.intle == rev.intbe, s.uintne == (s.uintle if sys.byteorder == 'little' else s.uintbe), s.intne == (s.intle if sys.byteorder == 'little' else s.intbe)]
            t = cls_of(c['cls'])(s)
            r1 = t.byteswap(c['fmt']); once = t.bin
            r2 = t.byteswap(c['fmt']); twice = t.bin
            out += [once, twice, r1, r2, t.uintbe if False else None]
            if len(c['bits']) in (16, 32, 64):
                out.append([fhex(s.floatle) , fhex(rev.floatbe)])
            return out
        return attempt(f)

SIZES = {'b': 1, 'B': 1, 'h': 2, 'H': 2, 'l': 4, 'L': 4, 'i': 4, 'I': 4, 'q': 8, 'Q': 8, 'e': 2, 'f': 4, 'd': 8}
def pattern_sizes(fmt):
    """byte sizes of the items of a struct-style byteswap pattern: optional endianness character (without influence), then codes with optional
    decimal counts; the sizes are struct's standard sizes (SIZES, written from the struct documentation)"""
    m = re.fullmatch(r'[<>@=]?((?:\d*[bBhHlLiIqQefd])+)', fmt)
    sizes = []
    for cnt, ch in re.findall(r'(\d*)([bBhHlLiIqQefd])', m.group(1)): sizes += [SIZES[ch]] * (int(cnt) if cnt else 1)
    return sizes

def ref_byteswap(bits, fmt):
    n = len(bits) // 8
    by = [bits[8 * i:8 * i + 8] for i in range(n)]
    if fmt is None or fmt == 0: sizes = [n]
    elif isinstance(fmt, int): sizes = [fmt]
    elif isinstance(fmt, str): sizes = pattern_sizes(fmt)
    else: sizes = list(fmt)
    tot = sum(sizes)
    if tot == 0: return bits, 0
    reps, p = 0, 0
    while p + tot <= n:
        for sz in sizes:
            by[p:p + sz] = by[p:p + sz][::-1]; p += sz
        reps += 1
    return ''.join(by), reps

def oracle(c, obs):
    op = c['op']
    if op == 'pack':
        if obs[0] != 'ok':
            # a float that does not fit struct's 'e'/'f' raises in struct but saturates to inf here (documented): skip those
            return f"pack({c['fmt']!r}, {c['vals']}) raised {obs}"
        std = c['fmt'].replace('@', '=') if False else c['fmt']
        try: exp = list(struct.pack(c['fmt'], *c['vals']))
        except (OverflowError, struct.error): return None
        if obs[1][0] != exp:
            return f"pack({c['fmt']!r}, {c['vals']}).bytes = {bytes(obs[1][0]).hex()} but struct.pack gives {bytes(exp).hex()}"
        back = [fhex(v) if isinstance(v, float) else v for v in struct.unpack(c['fmt'], bytes(exp))]
        if obs[1][1] != back: return f"unpack({c['fmt']!r}) gave {obs[1][1]}, struct.unpack gives {back}"
        return None
    if op == 'roundtrip_lsb0':
        try: exp = list(struct.pack(c['fmt'], *c['vals']))
        except (OverflowError, struct.error): return None
        if obs[0] != 'ok': return f"lsb0 pack/unpack {c['fmt']!r} {c['vals']} raised {obs}"
        back = [fhex(v) if isinstance(v, float) else v for v in struct.unpack(c['fmt'], bytes(exp))]
        if obs[1][0] != back or obs[1][1] != back or obs[1][2] != 8 * len(exp) or obs[1][3] != 8 * len(exp):
            return f"under lsb0, pack({c['fmt']!r}, {c['vals']}) then unpack / readlist gave {obs[1][0]} / {obs[1][1]} ({obs[1][2]} bits, pos {obs[1][3]}); struct round trip gives {back} ({8 * len(exp)} bits)"
        return None
    if op == 'adopt':
        if obs[0] != 'ok': return f"{c} raised {obs}"
        exp = list(struct.pack(c['pre'].replace('@', '=') + c['code'], c['v']))
        o = obs[1]
        if any(x != exp for x in o[:4]) or o[4] != [c['v']]:
            return (f"{c['pre'] + c['code']} value {c['v']}: a mutable bitstring made from it was edited in place ({c['edit']}); afterwards pack / Array / BitArray give "
                    f"{[bytes(x).hex() for x in o[:4]]} and unpack gives {o[4]}; struct.pack gives {bytes(exp).hex()}")
        return None
    if op == 'array':
        if obs[0] != 'ok': return f"Array {c} raised {obs}"
        pre = c['pre'] or '='
        try: exp = list(struct.pack(pre + str(len(c['vals'])) + c['code'], *c['vals']))
        except (OverflowError, struct.error): return None
        if obs[1]['bytes'] != exp: return f"Array({c['pre'] + c['code']!r}, {c['vals']}).tobytes() = {bytes(obs[1]['bytes']).hex()}, struct gives {bytes(exp).hex()}"
        for tc, r in obs[1]['from_array'].items():
            same_kind = (tc in 'fd') == (c['code'] in 'efd') and (tc in 'fd' or tc.islower() == c['code'].islower())
            match = same_kind and r[2] == SIZES[c['code']] and (tc not in 'fd' or tc == c['code'])
            if match and tc == c['code'] and r[0] != 'ok': return f"Array({c['code']!r}).extend(array.array({tc!r})) (itemsize {r[2]}) was refused: {r}"
            if match and r[0] == 'ok' and r[1] not in ([1, 2], [fhex(1.0), fhex(2.0)]): return f"Array({c['code']!r}).extend(array.array({tc!r}, [1, 2])) read back {r[1]}"
            if not match and r[0] == 'ok': return f"Array({c['code']!r}) accepted array.array({tc!r}) of itemsize {r[2]}: {r}"
        return None
    if op == 'array_byteswap':
        if obs[0] != 'ok': return f"array_byteswap {c} raised {obs}"
        before, once, twice = obs[1]
        try:
            other = {'<': '>', '>': '<'}[c['pre']]
            here = ''.join(format(b, '08b') for b in struct.pack(c['pre'] + str(len(c['vals'])) + c['code'], *c['vals']))
            there = ''.join(format(b, '08b') for b in struct.pack(other + str(len(c['vals'])) + c['code'], *c['vals']))
        except (OverflowError, struct.error): return None
        if before != here + c['trail']: return f"Array({c['pre'] + c['code']!r}, {c['vals']}, trailing {c['trail']!r}).data is {before}, struct gives {here} + trailing"
        if once != there + c['trail']: return f"Array({c['pre'] + c['code']!r}, {c['vals']}, trailing_bits={c['trail']!r}).byteswap() gave {once}; the other endianness of the same values is {there}, trailing bits {c['trail']!r} unchanged"
        if twice != before: return f"Array.byteswap() twice is not the identity: {before} -> {twice}"
        return None
    if op == 'swapstruct':
        pat = c['pre'] + c['body']
        call = f"{c['cls']}.byteswap({pat!r}, start={c['start']}, end={c['end']}, repeat={c['repeat']})"
        little = [struct.pack('<' + c['body'], *r) for r in c['recs']]
        big = [struct.pack('>' + c['body'], *r) for r in c['recs']]
        k = len(little) if c['repeat'] else min(1, len(little))
        before = bytes(c['lead']) + b''.join(little) + bytes(c['tail'])
        exp = bytes(c['lead']) + b''.join(big[:k] + little[k:]) + bytes(c['tail'])
        if obs[0] != 'ok': return f"{call} on {before.hex()} raised {obs}"
        once, twice, r1, r2, n1 = obs[1]
        if once != list(exp) or r1 != k or n1 != 8 * len(exp):
            return (f"{call} on {len(c['recs'])} little-endian record(s) '<{c['body']}' {before.hex()} ({len(c['lead'])} bytes before, {len(c['tail'])} after) gave {bytes(once).hex()} ({r1} repeats); "
                    f"the big-endian encoding struct.pack('>{c['body']}') of the {k} record(s) in range gives {exp.hex()} ({k} repeats): item sizes are the standard sizes {pattern_sizes(pat)} whatever the prefix")
        if twice != list(before) or r2 != k: return f"{call} twice on {before.hex()} gave {bytes(twice).hex()} ({r2} repeats), not the original"
        return None
    if op == 'hist':
        fmt = c['fmt']
        hist = f"after {' -> '.join(c['before'])} with the same format string ({'caches cleared first' if c['cold'] else 'warm caches'})"
        if obs[0] != 'ok': return f"format {fmt!r} {hist}: raised {obs}"
        exp = list(struct.pack(fmt, *c['vals']))
        back = [fhex(v) if isinstance(v, float) else v for v in struct.unpack(fmt, bytes(exp))]
        rounds, arr = obs[1][:2]
        for ri, (p, u, u2, rl, pl) in enumerate(rounds):
            when = f"{hist}, use {ri + 1}"
            if p[0] != 'ok': return f"pack({fmt!r}, {c['vals']}) {when}: raised {p}"
            if p[1][0] != exp or p[1][1] != 8 * len(exp): return f"pack({fmt!r}, {c['vals']}).bytes {when} = {bytes(p[1][0]).hex()} ({p[1][1]} bits) but struct.pack gives {bytes(exp).hex()}"
            for what, got in (('pack(..).unpack', u), ('Bits(bytes=struct.pack(..)).unpack', u2), ('ConstBitStream(..).readlist', rl), ('BitStream(..).peeklist([fmt])', pl)):
                if got != ['ok', back]: return f"{what}({fmt!r}) {when} gave {got}, struct.unpack gives {back}"
        if arr is not None:
            if arr[0] != 'ok' or arr[1][0] != exp or arr[1][1] != back:
                return f"Array({c['pre'] + c['codes'][0]!r}, {c['vals']}) {hist}: tobytes / tolist gave {arr}; struct gives {bytes(exp).hex()} / {back}"
        return None
    if op == 'factor':
        fmt = c['fmt']
        if obs[0] != 'ok': return f"format {fmt!r}: raised {obs}"
        exp, back = factor_ref(c)
        flat = ','.join(pre + fl for pre, fl in c['segs'])
        what = f"{fmt!r} (written out: {flat!r}) with values {c['vals']}"
        o = obs[1]
        for k in ('pack', 'pack(list of items)', 'pack(written out)'):
            r = o[k]
            if r[0] != 'ok': return f"{k} of {what} raised {r[1]}; struct.pack of the written-out format gives {exp.hex()}"
            if r[1] != [list(exp), 8 * len(exp)]: return f"{k} of {what} gave {bytes(r[1][0]).hex()} ({r[1][1]} bits); struct.pack of the written-out format gives {exp.hex()}"
        for k in ('pack.unpack', 'pack.unpack(written out)', 'unpack', 'unpack(list of items)'):
            if o[k] != ['ok', back]: return f"{k} with {what} on {'the packed result' if k.startswith('pack') else c['cls'] + '(bytes=' + (exp + bytes(c['extra'])).hex() + ')'} gave {o[k]}; struct.unpack of the written-out format gives {back}"
        for k, lead, moved in (('ConstBitStream.readlist', 0, True), ('BitStream.readlist at bit 3', 3, True), ('BitStream.peeklist', 0, False), ('ConstBitStream.peeklist at bit 5', 5, False)):
            want = [back, lead + (8 * len(exp) if moved else 0)]
            if o[k] != ['ok', want]: return f"{k} with {what} on struct's bytes {exp.hex()} (+{len(c['extra'])} more) gave {o[k]}; struct.unpack of the written-out format gives {want[0]}, position afterwards {want[1]}"
        return None
    if op == 'astype':
        chain = c['chain']
        desc = f"Array({chain[0]!r}, {c['vals']}" + (f", trailing_bits={c['trail']!r}" if c['trail'] else '') + f") [made by: {c['src']}]"
        if obs[0] != 'ok':
            specs = [fmt_spec(f) for f in chain]
            vals = c['vals']
            for sp in specs:                                   # nothing is claimed when a value is outside what a stage holds
                bits = [enc_item(sp, v) for v in vals]
                if any(b is None for b in bits): return None
                vals = [dec_item(sp, b) for b in bits]
            return f"{desc}" + ''.join(f".astype({f!r})" for f in chain[1:]) + f" raised {obs}"
        stages, src_kept = obs[1]
        vals = c['vals']
        for i, (fm, stg) in enumerate(zip(chain, stages)):
            sp = fmt_spec(fm)
            bits = [enc_item(sp, v) for v in vals]
            if any(b is None for b in bits): return None
            exp = ''.join(bits)
            got = stg[0]
            if i == 0:
                if got != exp + c['trail'] or stg[1] != len(vals) or stg[2] != sp[1]: return f"{desc}.data is {got} ({stg[1]} items of {stg[2]} bits); the encoding of the values is {exp} + trailing {c['trail']!r}"
            else:
                call = desc + ''.join(f".astype({f!r}{' as Dtype' if h == 'dtype' else ''})" + ('' if v == 'astype' else f'[done as {v}]') for f, h, v in zip(chain[1:i + 1], c['how'], c.get('via', ['astype'] * len(chain))))
                sb = bytes(int(exp[j:j + 8], 2) for j in range(0, len(exp) - 7, 8)).hex()
                if got != exp or stg[1] != len(vals) or stg[2] != sp[1] or stg[6] != '':
                    gb = bytes(int(got[j:j + 8], 2) for j in range(0, len(got) - 7, 8)).hex()
                    return (f"{call}: the new Array holds {gb} ({len(got)} bits, {stg[1]} items of {stg[2]} bits, trailing {stg[6]!r}); the values {vals} of the Array it was made from, "
                            f"encoded as {fm!r} ({sp[0]}, {sp[1]} bits, {sp[2]}) as struct does, give {sb} ({len(exp)} bits)")
                want = [fhex(v) if isinstance(v, float) else v for v in (dec_item(sp, b) for b in bits)]
                if stg[3] != want: return f"{call}.tolist() is {stg[3]}; the bytes {sb} hold {want}"
                if not stg[4]: return f"{call} changed the Array it was called on"
                if stg[5] != 'Array': return f"{call} returned a {stg[5]}"
            vals = [dec_item(sp, b) for b in bits]
        if not src_kept: return f"{desc}: editing the result of astype ({c['after']}) changed the source Array"
        return None
    if op == 'endian':
        if obs[0] != 'ok': return f"endian {c} raised {obs}"
        o = obs[1]
        if o[:4] != [True, True, True, True]: return f"le/be/ne relations fail on {c['bits']}: {o[:4]}"
        exp1, reps = ref_byteswap(c['bits'], c['fmt'])
        exp2, _ = ref_byteswap(exp1, c['fmt'])
        if o[4] != exp1 or o[6] != reps: return f"byteswap({c['fmt']}) on {c['bits']} gave {o[4]} ({o[6]} repeats), expected {exp1} ({reps})"
        if o[5] != exp2 or exp2 != c['bits']: return f"byteswap({c['fmt']}) twice on {c['bits']} gave {o[5]}"
        if len(o) > 9 and o[9][0] != o[9][1]: return f"floatle of {c['bits']} != floatbe of the byte-reversed bits: {o[9]}"
        return None

def nontrivial(c, obs): return True

def classify(c, obs):
    if c['op'] == 'pack' and c['pre'] == '@':
        # '@' is documented (and pinned by tests/test_bitstream.py) to mean '=': standard sizes, no alignment
        try: native = struct.pack(c['fmt'], *c['vals']); std = struct.pack('=' + c['fmt'][1:], *c['vals'])
        except Exception: return None
        if native != std: return 'struct-at-is-standard-size-no-alignment'
    return None

def coq_check(c, obs):
    if c['op'] == 'endian' and obs[0] == 'ok':
        b = cbits(c['bits'])
        return f"rz_eqb (getuintle {b}) (getuintbe (frombytes (rev (tobytes {b})))) && rz_eqb (getintle {b}) (getintbe (frombytes (rev (tobytes {b}))))"
    return None

def search(seeds, rng):
    for c in list(seeds) + list(gen_cases(rng, 'quick')):
        try: obs = run_impl(c)
        finally: reset_options()
        msg = oracle(c, obs)
        if msg and classify(c, obs) is None: return c, obs, msg
    return None
