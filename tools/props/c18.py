"""C18 — struct-code formats match struct/array; endian forms relate by byte reversal."""
from vlib import *
from props.common import *
from gen import dtypes as gendtypes
import struct, array, sys, math, io, re

ID = 'C18'
COQ_PROPS = ['Props/C18.v']
COQ_IMPORTS = ['Prims', 'CaseLib', 'Golomb', 'IntCodec', 'BitsCore', 'Mutators']
RULE = ('all codes b B h H l L i I q Q e f d x prefixes > < = @ x counts 1..4 and multi-code formats x values at the integer limits, special floats (subnormal, inf, -0.0); pack vs struct.pack, '
        'unpack vs struct.unpack; Array(code) vs struct/array.array, array.array input accepted only for matching kind and width; le/be/ne relations and byteswap (BitArray and Array) on whole-byte contents. '
        'byteswap with struct-style string patterns: every code x every spelling of the prefix (none @ = < >) x counts, mixed patterns, several records, bytes before / after, start / end / repeat: '
        'little-endian struct encoding -> big-endian one with the standard item sizes; format strings with a history (pp of every class and of Array, earlier pack / unpack / readlist / peeklist / byteswap, '
        'list formats, Array constructors, callers editing returned lists; cold or warm caches) then compared with struct twice. non-trivial = multi-byte code; distinct by arguments')
TRUSTED_BASE = ['translator tools/gen/dtypes.py for REPLACEMENTS_BE/LE/NE and PACK_CODE_SIZE (obligations checked by vm_compute over the generated tables)']
ASSUMPTIONS = ['the real struct and array modules are the reference']

BRIDGE = '''From Coq Require Import ZArith List String Bool Ascii. Import ListNotations.
From Gen Require Import GenDtypes.
Open Scope string_scope. Open Scope Z_scope.
(* struct's standard sizes and kinds, written from the struct documentation *)
Definition std : list (string * (Z * string)) := [
  ("b", (1, "int")); ("B", (1, "uint")); ("h", (2, "int")); ("H", (2, "uint")); ("i", (4, "int")); ("I", (4, "uint"));
  ("l", (4, "int")); ("L", (4, "uint")); ("q", (8, "int")); ("Q", (8, "uint")); ("e", (2, "float")); ("f", (4, "float")); ("d", (8, "float"))].
Fixpoint zdigits (fuel : nat) (n : Z) : string :=
  match fuel with O => "" | S f => if n <? 10 then String (ascii_of_nat (48 + Z.to_nat n)) "" else zdigits f (n / 10) ++ String (ascii_of_nat (48 + Z.to_nat (n mod 10))) "" end.
Definition expected_name (suffix : string) (c : string) (sz : Z) (kind : string) : string :=
  (if sz =? 1 then kind else kind ++ suffix) ++ zdigits 4 (8 * sz).
Definition lookup {A} (k : string) (l : list (string * A)) : option A :=
  match find (fun p => String.eqb (fst p) k) l with Some p => Some (snd p) | None => None end.
Definition table_ok (suffix : string) (t : list (string * string)) : bool :=
  (Nat.eqb (List.length t) (List.length std)) &&
  forallb (fun p => match lookup (fst p) t, lookup (fst p) gen_pack_code_size with
                    | Some name, Some sz => String.eqb name (expected_name suffix (fst p) (fst (snd p)) (snd (snd p))) && (sz =? fst (snd p))
                    | _, _ => false end) std.
(* every code, in each of the three tables, names the dtype of struct's standard size, signedness and the table's endianness *)
Theorem struct_tables_match_struct_module :
  table_ok "be" gen_replacements_be = true /\\ table_ok "le" gen_replacements_le = true /\\ table_ok "ne" gen_replacements_ne = true /\\
  Nat.eqb (List.length gen_pack_code_size) (List.length std) = true.
Proof. vm_compute. repeat split; reflexivity. Qed.
Print Assumptions struct_tables_match_struct_module.
'''

def generate(out):
    text, data = gendtypes.emit(REPO)
    info = gen_build([('GenDtypes', text)], [('BridgeC18', BRIDGE)])
    info['functions'] = ['REPLACEMENTS_BE', 'REPLACEMENTS_LE', 'REPLACEMENTS_NE', 'PACK_CODE_SIZE']
    return info

CODES = 'bBhHlLiIqQefd'
INTW = {'b': 1, 'B': 1, 'h': 2, 'H': 2, 'l': 4, 'L': 4, 'i': 4, 'I': 4, 'q': 8, 'Q': 8}

def rval(rng, code):
    if code in 'efd':
        edge = {'e': [65504.0, 65505.0, -65510.0, 65519.99], 'f': [3.4028234663852886e38, 3.4028235e38, -3.402823466385289e38, 3.4028235677973362e38], 'd': [1.7976931348623157e308, -1.7976931348623157e308]}[code]
        return rng.choice([0.0, -0.0, 1.0, -2.5, 0.1, 6.1e-5, 5.96e-8, 65504.0, float('inf'), float('-inf'), 1e-310 if code == 'd' else 1e-40, rng.uniform(-1000, 1000)] + edge)
    w = 8 * INTW[code]
    lo, hi = (-(1 << (w - 1)), (1 << (w - 1)) - 1) if code.islower() else (0, (1 << w) - 1)
    return rng.choice([lo, hi, 0, 1, lo + 1, hi - 1, rng.randrange(lo, hi + 1)])

def gen_cases(rng, tier):
    N = 500 if tier == 'quick' else 8000
    for code in CODES:
        for pre in '><=@':
            for cnt in (1, 3):
                yield {'op': 'pack', 'fmt': pre + (str(cnt) if cnt > 1 else '') + code, 'codes': code * cnt, 'pre': pre, 'vals': [rval(rng, code) for _ in range(cnt)]}
    for _ in range(N):
        k = rng.randrange(1, 5)
        codes = ''.join(rng.choice(CODES) for _ in range(k))
        pre = rng.choice('><=@')
        fmt, flat = pre, ''
        for ch in codes:
            c = rng.choice([1, 1, 2, 3]); fmt += (str(c) if c > 1 else '') + ch; flat += ch * c
        yield {'op': 'pack', 'fmt': fmt, 'codes': flat, 'pre': pre, 'vals': [rval(rng, ch) for ch in flat]}
    for _ in range(N // 4):
        k = rng.randrange(1, 5)
        codes = ''.join(rng.choice(CODES) for _ in range(k)); pre = rng.choice('><=')
        fmt, flat = pre, ''
        for ch in codes:
            cnt = rng.choice([1, 1, 2, 3]); fmt += (str(cnt) if cnt > 1 else '') + ch; flat += ch * cnt
        yield {'op': 'roundtrip_lsb0', 'fmt': fmt, 'codes': flat, 'pre': pre, 'vals': [rval(rng, ch) for ch in flat], 'extra': rng.choice(['', '', '0b1', '0xff'])}
    for _ in range(N // 3):
        code = rng.choice(CODES)
        yield {'op': 'array', 'code': code, 'pre': rng.choice(['=', '>', '<', '=']), 'vals': [rval(rng, code) for _ in range(rng.randrange(0, 6))], 'other': rng.choice(CODES)}
    for _ in range(60 if tier == 'quick' else 1000):
        code = rng.choice('hHlLiIqQ')
        v = rval(rng, code)
        yield {'op': 'adopt', 'code': code, 'pre': rng.choice('<=@'), 'v': v, 'how': rng.choice(['kw', 'setattr', 'array']), 'edit': rng.choice(['byteswap', 'invert', 'append', 'reverse'])}
    # Array.byteswap: every item byte-reversed (= the same values in the other endianness), the trailing bits - however many, up to one bit short
    # of another item - untouched; twice is the identity
    for _ in range(60 if tier == 'quick' else 900):
        code = rng.choice('hHlLiIqQefd')
        w = 8 * SIZES[code]
        yield {'op': 'array_byteswap', 'code': code, 'pre': rng.choice('<>'), 'vals': [rval(rng, code) for _ in range(rng.randrange(0, 5))],
               'trail': rand_bits(rng, rng.choice([0, 0, 1, 7, 8, 9, w - 8, w - 7, w - 1, w // 2 + 1]), 'rand')}
    for _ in range(N // 2):
        nb = rng.randrange(1, 10)
        yield {'op': 'endian', 'bits': rand_bits(rng, 8 * nb), 'fmt': rng.choice([None, 0, 1, 2, nb, [1, 2], 'h', '2h', 'q', 'bh', 'l', '@L', '=hl', '<2h', '>bq', 'e', '3b', '@lb', 'Lh', '1i']), 'cls': rng.choice(MUTABLE)}
    # byteswap with a struct-style STRING pattern: the endianness character is optional and has no influence, the item sizes are struct's STANDARD
    # sizes for every code (l/L = 4 whatever the platform's C long is); the little-endian encoding of the records becomes the big-endian one.
    # Every code x every spelling of the prefix x counts, then mixed patterns, over several records, with bytes before / after that must stay.
    def swapcase(pre, body, flat):
        tot = sum(SIZES[ch] for ch in flat)
        nrec = rng.choice([1, 1, 2, 3, 0])
        lead = [rng.randrange(256) for _ in range(rng.choice([0, 0, 0, 1, 3]))]
        tail = [rng.randrange(256) for _ in range(rng.choice([0, 0, rng.randrange(0, tot), tot, tot + 1, 2 * tot + 1]))]
        start = 8 * len(lead) if lead or rng.random() < 0.2 else None
        end = 8 * (len(lead) + nrec * tot) if len(tail) >= tot or rng.random() < 0.2 else None
        return {'op': 'swapstruct', 'pre': pre, 'body': body, 'codes': flat, 'recs': [[okval(rng, ch) for ch in flat] for _ in range(nrec)], 'lead': lead, 'tail': tail,
                'start': start, 'end': end, 'repeat': rng.random() < 0.8, 'args': rng.choice(['kw', 'pos']), 'cls': rng.choice(MUTABLE)}
    for code in CODES:
        for pre in SWAP_PREFIXES:
            for body in (code, '2' + code, code * 3):
                if tier == 'quick' and rng.random() < 0.35: continue
                yield swapcase(pre, body, code * (1 if body == code else 2 if body[0] == '2' else 3))
    for _ in range(150 if tier == 'quick' else 4000):
        body, flat = rand_body(rng)
        yield swapcase(rng.choice(SWAP_PREFIXES), body, flat)
    # the format string has a HISTORY: other consumers of the very same string (pretty printers of every class and of Array, earlier pack / unpack /
    # readlist / peeklist calls, list formats, byteswap, Array constructors, callers that edit the list they were given) ran before the comparison
    # with struct, from a cold cache or a warm one. Whatever is remembered about a format must not change what it means.
    for _ in range(260 if tier == 'quick' else 5000):
        body, flat = rand_body(rng, rng.choice(['count', 'count', 'double', 'samesize', 'mix', 'bigcount']))
        pre = rng.choice('><=')
        vals = [okval(rng, ch) for ch in flat]
        ref = list(struct.pack(pre + body, *vals))
        yield {'op': 'hist', 'fmt': pre + body, 'pre': pre, 'codes': flat, 'vals': vals, 'ref': ref, 'cold': rng.random() < 0.6,
               'before': [rng.choice(HIST_CONSUMERS) for _ in range(rng.choice([1, 1, 2, 3, 5]))],
               'data': [rng.randrange(256) for _ in range(len(ref) * rng.choice([1, 2, 3]))]}

SWAP_PREFIXES = ['', '@', '=', '<', '>']
HIST_CONSUMERS = ['pp_bits', 'pp_bitarray', 'pp_cstream', 'pp_stream', 'pp_array', 'pp_array_own', 'pp_combo', 'pp_lsb0', 'pack', 'pack_other', 'pack_combo', 'pack_mult', 'pack_list',
                  'unpack', 'unpack_mut', 'unpack_list', 'readlist', 'readlist_mut', 'peeklist', 'byteswap', 'array_ctor', 'astype', 'dtype', 'read', 'repr_array',
                  'expanded_names', 'array_dtype_set']

def expanded_name(pre, code):
    """the dtype a struct code stands for, from the struct documentation: kind, standard size, byte order of the prefix"""
    kindname = 'float' if code in 'efd' else 'int' if code.islower() else 'uint'
    return kindname + ('' if SIZES[code] == 1 else {'<': 'le', '>': 'be', '=': 'ne', '@': 'ne'}[pre]), 8 * SIZES[code]
SIZE_GROUPS = ['bB', 'hHe', 'lLiIf', 'qQd']

def okval(rng, code):
    """a value of the code's range that struct itself can pack (struct refuses floats beyond the range of 'e' / 'f')"""
    for _ in range(20):
        v = rval(rng, code)
        try:
            struct.pack('<' + code, v); return v
        except (OverflowError, struct.error): continue
    return 1.5 if code in 'efd' else 1

def rand_body(rng, style=None):
    """(body, flat codes) of a struct-style format without its endianness character"""
    style = style or rng.choice(['count', 'double', 'samesize', 'mix', 'mix', 'mix', 'bigcount'])
    if style == 'count':
        ch = rng.choice(CODES); n = rng.choice([1, 2, 2, 3, 4])
        return (str(n) if n > 1 or rng.random() < 0.25 else '') + ch, ch * n
    if style == 'double':
        ch = rng.choice(CODES); n = rng.choice([2, 2, 3]); return ch * n, ch * n
    if style == 'samesize':
        g = rng.choice(SIZE_GROUPS); a, b = rng.choice(g), rng.choice(g); return a + b, a + b
    if style == 'bigcount':
        ch = rng.choice(CODES); n = rng.choice([10, 11, 12, 16]); return f'{n}{ch}', ch * n
    body, flat = '', ''
    for _ in range(rng.randrange(1, 5)):
        ch = rng.choice(CODES); n = rng.choice([1, 1, 2, 3]); body += (str(n) if n > 1 else '') + ch; flat += ch * n
    return body, flat

def kind(c): return c['op']

def fhex(x): return x.hex() if x == x else 'nan'

def run_impl(c):
    import bitstring
    from bitstring import pack, Array, Bits, BitArray
    op = c['op']
    if op == 'pack':
        def f():
            p = pack(c['fmt'], *c['vals'])
            vals = p.unpack(c['fmt'])
            return [list(p.tobytes()), [fhex(v) if isinstance(v, float) else v for v in vals], len(p)]
        return attempt(f)
    if op == 'roundtrip_lsb0':
        import bitstring
        def f():
            bitstring.options.lsb0 = True
            try:
                p = pack(c['fmt'], *c['vals'])
                vals = p.unpack(c['fmt'])
                s2 = bitstring.ConstBitStream(p); vals2 = s2.readlist(c['fmt'])
                return [[fhex(v) if isinstance(v, float) else v for v in vals], [fhex(v) if isinstance(v, float) else v for v in vals2], len(p), s2.pos]
            finally:
                bitstring.options.lsb0 = False
        return attempt(f)
    if op == 'adopt':
        w = 8 * INTW[c['code']]
        name = ('int' if c['code'].islower() else 'uint') + ('le' if c['pre'] == '<' else 'ne')
        def f():
            if c['how'] == 'kw': x = BitArray(**{name: c['v'], 'length': w})
            elif c['how'] == 'setattr':
                x = BitArray(w); setattr(x, name, c['v'])
            else:
                x = Array(c['pre'] + c['code'], [c['v']]).data
            first = list(x.tobytes())
            if c['edit'] == 'byteswap': x.byteswap()
            elif c['edit'] == 'invert': x.invert()
            elif c['edit'] == 'append': x.append('0xff')
            else: x.reverse()
            fmt = c['pre'] + c['code']
            return [first, list(pack(fmt, c['v']).tobytes()), list(Array(fmt, [c['v']]).tobytes()), list(BitArray(**{name: c['v'], 'length': w}).tobytes()), pack(fmt, c['v']).unpack(fmt)]
        return attempt(f)
    if op == 'array':
        def f():
            a = Array(c['pre'] + c['code'] if c['pre'] else c['code'], c['vals'])
            out = {'bytes': list(a.tobytes()), 'list': [fhex(v) if isinstance(v, float) else v for v in a.tolist()]}
            if c['code'] in 'bBhHlLiIqQfd':
                src = array.array(c['code'], [v for v in c['vals'] if not (isinstance(v, int) and not (-(1 << 31) <= v < (1 << 32)) and c['code'] in 'lL')] if False else c['vals'][:0])
            # array.array input: same typecode accepted (only if widths agree with the native array), others rejected
            res = {}
            for tc in (c['code'], c['other']):
                if tc not in 'bBhHiIlLqQfd': continue
                try:
                    aa = array.array(tc, [1, 2] if tc not in 'fd' else [1.0, 2.0])
                except Exception: continue
                b = Array('=' + c['code'])   # native-endian Array of this code
                try:
                    b.extend(aa); res[tc] = ['ok', [fhex(v) if isinstance(v, float) else v for v in b.tolist()], aa.itemsize]
                except Exception as e:
                    res[tc] = ['err', exn_name(e), aa.itemsize]
            out['from_array'] = res
            return out
        return attempt(f)
    if op == 'array_byteswap':
        def f():
            from bitstring import Bits
            a = Array(c['pre'] + c['code'], c['vals'], trailing_bits=Bits(bin=c['trail']) if c['trail'] else None)
            before = a.data.bin
            a.byteswap(); once = a.data.bin
            a.byteswap(); twice = a.data.bin
            return [before, once, twice]
        return attempt(f)
    if op == 'swapstruct':
        def f():
            little = b''.join(struct.pack('<' + c['body'], *r) for r in c['recs'])
            s = cls_of(c['cls'])(bytes=bytes(c['lead']) + little + bytes(c['tail']))
            pat = c['pre'] + c['body']
            if c['args'] == 'pos': call = lambda: s.byteswap(pat, c['start'], c['end'], c['repeat'])
            else:
                kw = {k: c[k] for k in ('start', 'end') if c[k] is not None}
                if not c['repeat'] or c['pre'] == '=': kw['repeat'] = c['repeat']
                call = lambda: s.byteswap(pat, **kw)
            r1 = call(); once = list(s.tobytes()); n1 = len(s)
            r2 = call(); twice = list(s.tobytes())
            return [once, twice, r1, r2, n1]
        return attempt(f)
    if op == 'hist':
        from bitstring import BitStream, ConstBitStream, Dtype
        canon = lambda vs: [fhex(v) if isinstance(v, float) else v for v in vs]
        def tryv(fn):
            try: return ['ok', fn()]
            except Hang: raise
            except Exception as e: return ['err', exn_name(e)]
        def f():
            if c['cold']: clear_caches()
            fmt, vals, data, ref = c['fmt'], c['vals'], bytes(c['data']), bytes(c['ref'])
            code0 = c['pre'] + c['codes'][0]
            sink = io.StringIO()
            def consume(b):
                if b == 'pp_bits': Bits(bytes=data).pp(fmt, stream=sink)
                elif b == 'pp_bitarray': BitArray(bytes=data).pp(fmt, stream=sink, width=60)
                elif b == 'pp_cstream': ConstBitStream(bytes=data).pp(fmt, stream=sink, show_offset=False)
                elif b == 'pp_stream': BitStream(bytes=data).pp(fmt, stream=sink, sep='|')
                elif b == 'pp_array': Array('uint8', data).pp(fmt, stream=sink)
                elif b == 'pp_array_own': Array(code0, data).pp(fmt, stream=sink); Array(code0, data).pp(stream=sink)
                elif b == 'pp_combo': tryv(lambda: Bits(bytes=data).pp(fmt + ', hex', stream=sink)); tryv(lambda: Bits(bytes=data).pp('bin, ' + fmt, stream=sink)); Bits(bytes=data).pp(code0 + ', ' + code0, stream=sink)
                elif b == 'pp_lsb0':
                    bitstring.options.lsb0 = True
                    try: Bits(bytes=data).pp(fmt, stream=sink)
                    finally: bitstring.options.lsb0 = False
                elif b == 'pack': pack(fmt, *vals)
                elif b == 'pack_other': pack(fmt, *[type(v)(1) for v in vals])
                elif b == 'pack_combo': pack(fmt + ', bin', *vals, '01'); pack('hex, ' + fmt, 'f', *vals)
                elif b == 'pack_mult': pack('2*' + fmt, *vals, *vals)
                elif b == 'pack_list': pack(fmt + ',' + fmt, *vals, *vals); pack(fmt, *vals)
                elif b == 'unpack': Bits(bytes=data).unpack(fmt)
                elif b == 'unpack_mut':
                    r = Bits(bytes=data).unpack(fmt); r.reverse(); del r[1:]; r.append(None)
                elif b == 'unpack_list': Bits(bytes=data).unpack([fmt]); Bits(bytes=data + data).unpack([fmt, fmt])
                elif b == 'readlist': ConstBitStream(bytes=data).readlist(fmt)
                elif b == 'readlist_mut':
                    r = BitStream(bytes=data).readlist([fmt]); del r[:]
                elif b == 'peeklist': ConstBitStream(bytes=data).peeklist(fmt)
                elif b == 'byteswap': BitArray(bytes=data).byteswap(fmt)
                elif b == 'array_ctor': tryv(lambda: Array(fmt)); Array(code0, data); Array(code0, vals[:1])
                elif b == 'astype': tryv(lambda: Array('uint8', [1, 2, 3]).astype(code0)); tryv(lambda: Array(code0, vals).astype('float64')); Array(code0, data).astype(code0)
                elif b == 'dtype': Dtype(fmt)
                elif b == 'read': ConstBitStream(bytes=data).read(fmt)
                elif b == 'repr_array': repr(Array(code0, data)); str(Array(code0, data).dtype)
                elif b == 'expanded_names':
                    for ch in dict.fromkeys(c['codes']):
                        nm, ln = expanded_name(c['pre'], ch)
                        Dtype(nm, ln); Dtype(f'{nm}{ln}'); Bits(bytes=data).unpack(f'{nm}{ln}'); Bits(bytes=data).pp(f'{nm}{ln}', stream=sink); Array(f'{nm}{ln}', data)
                elif b == 'array_dtype_set':
                    a = Array(code0, data); a.dtype = '>' + c['codes'][-1]; a.dtype = code0; a.pp(fmt, stream=sink)
                else: raise AssertionError(b)
            notes = []
            for b in c['before']:
                notes.append(tryv(lambda: consume(b))[-1] or 'done')   # several consumers refuse some formats (pp: more than two tokens, Dtype: not a single token): that is their business
            out = []
            for _ in range(2):
                p = tryv(lambda: pack(fmt, *vals))
                out.append([['ok', [list(p[1].tobytes()), len(p[1])]] if p[0] == 'ok' else p,
                            tryv(lambda: canon(p[1].unpack(fmt))) if p[0] == 'ok' else None,
                            tryv(lambda: canon(Bits(bytes=ref).unpack(fmt))),
                            tryv(lambda: canon(ConstBitStream(bytes=ref).readlist(fmt))),
                            tryv(lambda: canon(BitStream(bytes=ref + b'\x55').peeklist([fmt])))])
            arr = None
            if len(set(c['codes'])) == 1:
                arr = tryv(lambda: (lambda a: [list(a.tobytes()), canon(a.tolist())])(Array(code0, vals)))
            return [out, arr, notes]
        return attempt(f)
    if op == 'endian':
        s = cls_of(c['cls'])(bin=c['bits'])
        def f():
            rev = cls_of(c['cls'])(bytes=s.bytes[::-1])
            out = [s.uintle == rev.uintbe, s.intle == rev.intbe, s.uintne == (s.uintle if sys.byteorder == 'little' else s.uintbe), s.intne == (s.intle if sys.byteorder == 'little' else s.intbe)]
            t = cls_of(c['cls'])(s)
            r1 = t.byteswap(c['fmt']); once = t.bin
            r2 = t.byteswap(c['fmt']); twice = t.bin
            out += [once, twice, r1, r2, t.uintbe if False else None]
            if len(c['bits']) in (16, 32, 64):
                out.append([fhex(s.floatle) , fhex(rev.floatbe)])
            return out
        return attempt(f)

SIZES = {'b': 1, 'B': 1, 'h': 2, 'H': 2, 'l': 4, 'L': 4, 'i': 4, 'I': 4, 'q': 8, 'Q': 8, 'e': 2, 'f': 4, 'd': 8}
def pattern_sizes(fmt):
    """byte sizes of the items of a struct-style byteswap pattern: optional endianness character (without influence), then codes with optional
    decimal counts; the sizes are struct's standard sizes (SIZES, written from the struct documentation)"""
    m = re.fullmatch(r'[<>@=]?((?:\d*[bBhHlLiIqQefd])+)', fmt)
    sizes = []
    for cnt, ch in re.findall(r'(\d*)([bBhHlLiIqQefd])', m.group(1)): sizes += [SIZES[ch]] * (int(cnt) if cnt else 1)
    return sizes

def ref_byteswap(bits, fmt):
    n = len(bits) // 8
    by = [bits[8 * i:8 * i + 8] for i in range(n)]
    if fmt is None or fmt == 0: sizes = [n]
    elif isinstance(fmt, int): sizes = [fmt]
    elif isinstance(fmt, str): sizes = pattern_sizes(fmt)
    else: sizes = list(fmt)
    tot = sum(sizes)
    if tot == 0: return bits, 0
    reps, p = 0, 0
    while p + tot <= n:
        for sz in sizes:
            by[p:p + sz] = by[p:p + sz][::-1]; p += sz
        reps += 1
    return ''.join(by), reps

def oracle(c, obs):
    op = c['op']
    if op == 'pack':
        if obs[0] != 'ok':
            # a float that does not fit struct's 'e'/'f' raises in struct but saturates to inf here (documented): skip those
            return f"pack({c['fmt']!r}, {c['vals']}) raised {obs}"
        std = c['fmt'].replace('@', '=') if False else c['fmt']
        try: exp = list(struct.pack(c['fmt'], *c['vals']))
        except (OverflowError, struct.error): return None
        if obs[1][0] != exp:
            return f"pack({c['fmt']!r}, {c['vals']}).bytes = {bytes(obs[1][0]).hex()} but struct.pack gives {bytes(exp).hex()}"
        back = [fhex(v) if isinstance(v, float) else v for v in struct.unpack(c['fmt'], bytes(exp))]
        if obs[1][1] != back: return f"unpack({c['fmt']!r}) gave {obs[1][1]}, struct.unpack gives {back}"
        return None
    if op == 'roundtrip_lsb0':
        try: exp = list(struct.pack(c['fmt'], *c['vals']))
        except (OverflowError, struct.error): return None
        if obs[0] != 'ok': return f"lsb0 pack/unpack {c['fmt']!r} {c['vals']} raised {obs}"
        back = [fhex(v) if isinstance(v, float) else v for v in struct.unpack(c['fmt'], bytes(exp))]
        if obs[1][0] != back or obs[1][1] != back or obs[1][2] != 8 * len(exp) or obs[1][3] != 8 * len(exp):
            return f"under lsb0, pack({c['fmt']!r}, {c['vals']}) then unpack / readlist gave {obs[1][0]} / {obs[1][1]} ({obs[1][2]} bits, pos {obs[1][3]}); struct round trip gives {back} ({8 * len(exp)} bits)"
        return None
    if op == 'adopt':
        if obs[0] != 'ok': return f"{c} raised {obs}"
        exp = list(struct.pack(c['pre'].replace('@', '=') + c['code'], c['v']))
        o = obs[1]
        if any(x != exp for x in o[:4]) or o[4] != [c['v']]:
            return (f"{c['pre'] + c['code']} value {c['v']}: a mutable bitstring made from it was edited in place ({c['edit']}); afterwards pack / Array / BitArray give "
                    f"{[bytes(x).hex() for x in o[:4]]} and unpack gives {o[4]}; struct.pack gives {bytes(exp).hex()}")
        return None
    if op == 'array':
        if obs[0] != 'ok': return f"Array {c} raised {obs}"
        pre = c['pre'] or '='
        try: exp = list(struct.pack(pre + str(len(c['vals'])) + c['code'], *c['vals']))
        except (OverflowError, struct.error): return None
        if obs[1]['bytes'] != exp: return f"Array({c['pre'] + c['code']!r}, {c['vals']}).tobytes() = {bytes(obs[1]['bytes']).hex()}, struct gives {bytes(exp).hex()}"
        for tc, r in obs[1]['from_array'].items():
            same_kind = (tc in 'fd') == (c['code'] in 'efd') and (tc in 'fd' or tc.islower() == c['code'].islower())
            match = same_kind and r[2] == SIZES[c['code']] and (tc not in 'fd' or tc == c['code'])
            if match and tc == c['code'] and r[0] != 'ok': return f"Array({c['code']!r}).extend(array.array({tc!r})) (itemsize {r[2]}) was refused: {r}"
            if match and r[0] == 'ok' and r[1] not in ([1, 2], [fhex(1.0), fhex(2.0)]): return f"Array({c['code']!r}).extend(array.array({tc!r}, [1, 2])) read back {r[1]}"
            if not match and r[0] == 'ok': return f"Array({c['code']!r}) accepted array.array({tc!r}) of itemsize {r[2]}: {r}"
        return None
    if op == 'array_byteswap':
        if obs[0] != 'ok': return f"array_byteswap {c} raised {obs}"
        before, once, twice = obs[1]
        try:
            other = {'<': '>', '>': '<'}[c['pre']]
            here = ''.join(format(b, '08b') for b in struct.pack(c['pre'] + str(len(c['vals'])) + c['code'], *c['vals']))
            there = ''.join(format(b, '08b') for b in struct.pack(other + str(len(c['vals'])) + c['code'], *c['vals']))
        except (OverflowError, struct.error): return None
        if before != here + c['trail']: return f"Array({c['pre'] + c['code']!r}, {c['vals']}, trailing {c['trail']!r}).data is {before}, struct gives {here} + trailing"
        if once != there + c['trail']: return f"Array({c['pre'] + c['code']!r}, {c['vals']}, trailing_bits={c['trail']!r}).byteswap() gave {once}; the other endianness of the same values is {there}, trailing bits {c['trail']!r} unchanged"
        if twice != before: return f"Array.byteswap() twice is not the identity: {before} -> {twice}"
        return None
    if op == 'swapstruct':
        pat = c['pre'] + c['body']
        call = f"{c['cls']}.byteswap({pat!r}, start={c['start']}, end={c['end']}, repeat={c['repeat']})"
        little = [struct.pack('<' + c['body'], *r) for r in c['recs']]
        big = [struct.pack('>' + c['body'], *r) for r in c['recs']]
        k = len(little) if c['repeat'] else min(1, len(little))
        before = bytes(c['lead']) + b''.join(little) + bytes(c['tail'])
        exp = bytes(c['lead']) + b''.join(big[:k] + little[k:]) + bytes(c['tail'])
        if obs[0] != 'ok': return f"{call} on {before.hex()} raised {obs}"
        once, twice, r1, r2, n1 = obs[1]
        if once != list(exp) or r1 != k or n1 != 8 * len(exp):
            return (f"{call} on {len(c['recs'])} little-endian record(s) '<{c['body']}' {before.hex()} ({len(c['lead'])} bytes before, {len(c['tail'])} after) gave {bytes(once).hex()} ({r1} repeats); "
                    f"the big-endian encoding struct.pack('>{c['body']}') of the {k} record(s) in range gives {exp.hex()} ({k} repeats): item sizes are the standard sizes {pattern_sizes(pat)} whatever the prefix")
        if twice != list(before) or r2 != k: return f"{call} twice on {before.hex()} gave {bytes(twice).hex()} ({r2} repeats), not the original"
        return None
    if op == 'hist':
        fmt = c['fmt']
        hist = f"after {' -> '.join(c['before'])} with the same format string ({'caches cleared first' if c['cold'] else 'warm caches'})"
        if obs[0] != 'ok': return f"format {fmt!r} {hist}: raised {obs}"
        exp = list(struct.pack(fmt, *c['vals']))
        back = [fhex(v) if isinstance(v, float) else v for v in struct.unpack(fmt, bytes(exp))]
        rounds, arr = obs[1][:2]
        for ri, (p, u, u2, rl, pl) in enumerate(rounds):
            when = f"{hist}, use {ri + 1}"
            if p[0] != 'ok': return f"pack({fmt!r}, {c['vals']}) {when}: raised {p}"
            if p[1][0] != exp or p[1][1] != 8 * len(exp): return f"pack({fmt!r}, {c['vals']}).bytes {when} = {bytes(p[1][0]).hex()} ({p[1][1]} bits) but struct.pack gives {bytes(exp).hex()}"
            for what, got in (('pack(..).unpack', u), ('Bits(bytes=struct.pack(..)).unpack', u2), ('ConstBitStream(..).readlist', rl), ('BitStream(..).peeklist([fmt])', pl)):
                if got != ['ok', back]: return f"{what}({fmt!r}) {when} gave {got}, struct.unpack gives {back}"
        if arr is not None:
            if arr[0] != 'ok' or arr[1][0] != exp or arr[1][1] != back:
                return f"Array({c['pre'] + c['codes'][0]!r}, {c['vals']}) {hist}: tobytes / tolist gave {arr}; struct gives {bytes(exp).hex()} / {back}"
        return None
    if op == 'endian':
        if obs[0] != 'ok': return f"endian {c} raised {obs}"
        o = obs[1]
        if o[:4] != [True, True, True, True]: return f"le/be/ne relations fail on {c['bits']}: {o[:4]}"
        exp1, reps = ref_byteswap(c['bits'], c['fmt'])
        exp2, _ = ref_byteswap(exp1, c['fmt'])
        if o[4] != exp1 or o[6] != reps: return f"byteswap({c['fmt']}) on {c['bits']} gave {o[4]} ({o[6]} repeats), expected {exp1} ({reps})"
        if o[5] != exp2 or exp2 != c['bits']: return f"byteswap({c['fmt']}) twice on {c['bits']} gave {o[5]}"
        if len(o) > 9 and o[9][0] != o[9][1]: return f"floatle of {c['bits']} != floatbe of the byte-reversed bits: {o[9]}"
        return None

def nontrivial(c, obs): return True

def classify(c, obs):
    if c['op'] == 'pack' and c['pre'] == '@':
        # '@' is documented (and pinned by tests/test_bitstream.py) to mean '=': standard sizes, no alignment
        try: native = struct.pack(c['fmt'], *c['vals']); std = struct.pack('=' + c['fmt'][1:], *c['vals'])
        except Exception: return None
        if native != std: return 'struct-at-is-standard-size-no-alignment'
    return None

def coq_check(c, obs):
    if c['op'] == 'endian' and obs[0] == 'ok':
        b = cbits(c['bits'])
        return f"rz_eqb (getuintle {b}) (getuintbe (frombytes (rev (tobytes {b})))) && rz_eqb (getintle {b}) (getintbe (frombytes (rev (tobytes {b}))))"
    return None

def search(seeds, rng):
    for c in list(seeds) + list(gen_cases(rng, 'quick')):
        try: obs = run_impl(c)
        finally: reset_options()
        msg = oracle(c, obs)
        if msg and classify(c, obs) is None: return c, obs, msg
    return None
