"""C18 — struct-code formats match struct/array; endian forms relate by byte reversal."""
from vlib import *
from props.common import *
from gen import dtypes as gendtypes
import struct, array, sys, math

ID = 'C18'
COQ_PROPS = ['Props/C18.v']
COQ_IMPORTS = ['Prims', 'CaseLib', 'Golomb', 'IntCodec', 'BitsCore', 'Mutators']
RULE = ('all codes b B h H l L i I q Q e f d x prefixes > < = @ x counts 1..4 and multi-code formats x values at the integer limits, special floats (subnormal, inf, -0.0); pack vs struct.pack, '
        'unpack vs struct.unpack; Array(code) vs struct/array.array, array.array input accepted only for matching kind and width; le/be/ne relations and byteswap (BitArray and Array) on whole-byte contents. '
        'non-trivial = multi-byte code; distinct by arguments')
TRUSTED_BASE = ['translator tools/gen/dtypes.py for REPLACEMENTS_BE/LE/NE and PACK_CODE_SIZE (obligations checked by vm_compute over the generated tables)']
ASSUMPTIONS = ['the real struct and array modules are the reference']

BRIDGE = '''From Coq Require Import ZArith List String Bool Ascii. Import ListNotations.
From Gen Require Import GenDtypes.
Open Scope string_scope. Open Scope Z_scope.
(* struct's standard sizes and kinds, written from the struct documentation *)
Definition std : list (string * (Z * string)) := [
  ("b", (1, "int")); ("B", (1, "uint")); ("h", (2, "int")); ("H", (2, "uint")); ("i", (4, "int")); ("I", (4, "uint"));
  ("l", (4, "int")); ("L", (4, "uint")); ("q", (8, "int")); ("Q", (8, "uint")); ("e", (2, "float")); ("f", (4, "float")); ("d", (8, "float"))].
Fixpoint zdigits (fuel : nat) (n : Z) : string :=
  match fuel with O => "" | S f => if n <? 10 then String (ascii_of_nat (48 + Z.to_nat n)) "" else zdigits f (n / 10) ++ String (ascii_of_nat (48 + Z.to_nat (n mod 10))) "" end.
Definition expected_name (suffix : string) (c : string) (sz : Z) (kind : string) : string :=
  (if sz =? 1 then kind else kind ++ suffix) ++ zdigits 4 (8 * sz).
Definition lookup {A} (k : string) (l : list (string * A)) : option A :=
  match find (fun p => String.eqb (fst p) k) l with Some p => Some (snd p) | None => None end.
Definition table_ok (suffix : string) (t : list (string * string)) : bool :=
  (Nat.eqb (List.length t) (List.length std)) &&
  forallb (fun p => match lookup (fst p) t, lookup (fst p) gen_pack_code_size with
                    | Some name, Some sz => String.eqb name (expected_name suffix (fst p) (fst (snd p)) (snd (snd p))) && (sz =? fst (snd p))
                    | _, _ => false end) std.
(* every code, in each of the three tables, names the dtype of struct's standard size, signedness and the table's endianness *)
Theorem struct_tables_match_struct_module :
  table_ok "be" gen_replacements_be = true /\\ table_ok "le" gen_replacements_le = true /\\ table_ok "ne" gen_replacements_ne = true /\\
  Nat.eqb (List.length gen_pack_code_size) (List.length std) = true.
Proof. vm_compute. repeat split; reflexivity. Qed.
Print Assumptions struct_tables_match_struct_module.
'''

def generate(out):
    text, data = gendtypes.emit(REPO)
    info = gen_build([('GenDtypes', text)], [('BridgeC18', BRIDGE)])
    info['functions'] = ['REPLACEMENTS_BE', 'REPLACEMENTS_LE', 'REPLACEMENTS_NE', 'PACK_CODE_SIZE']
    return info

CODES = 'bBhHlLiIqQefd'
INTW = {'b': 1, 'B': 1, 'h': 2, 'H': 2, 'l': 4, 'L': 4, 'i': 4, 'I': 4, 'q': 8, 'Q': 8}

def rval(rng, code):
    if code in 'efd':
        edge = {'e': [65504.0, 65505.0, -65510.0, 65519.99], 'f': [3.4028234663852886e38, 3.4028235e38, -3.402823466385289e38, 3.4028235677973362e38], 'd': [1.7976931348623157e308, -1.7976931348623157e308]}[code]
        return rng.choice([0.0, -0.0, 1.0, -2.5, 0.1, 6.1e-5, 5.96e-8, 65504.0, float('inf'), float('-inf'), 1e-310 if code == 'd' else 1e-40, rng.uniform(-1000, 1000)] + edge)
    w = 8 * INTW[code]
    lo, hi = (-(1 << (w - 1)), (1 << (w - 1)) - 1) if code.islower() else (0, (1 << w) - 1)
    return rng.choice([lo, hi, 0, 1, lo + 1, hi - 1, rng.randrange(lo, hi + 1)])

def gen_cases(rng, tier):
    N = 500 if tier == 'quick' else 8000
    for code in CODES:
        for pre in '><=@':
            for cnt in (1, 3):
                yield {'op': 'pack', 'fmt': pre + (str(cnt) if cnt > 1 else '') + code, 'codes': code * cnt, 'pre': pre, 'vals': [rval(rng, code) for _ in range(cnt)]}
    for _ in range(N):
        k = rng.randrange(1, 5)
        codes = ''.join(rng.choice(CODES) for _ in range(k))
        pre = rng.choice('><=@')
        fmt, flat = pre, ''
        for ch in codes:
            c = rng.choice([1, 1, 2, 3]); fmt += (str(c) if c > 1 else '') + ch; flat += ch * c
        yield {'op': 'pack', 'fmt': fmt, 'codes': flat, 'pre': pre, 'vals': [rval(rng, ch) for ch in flat]}
    for _ in range(N // 4):
        k = rng.randrange(1, 5)
        codes = ''.join(rng.choice(CODES) for _ in range(k)); pre = rng.choice('><=')
        fmt, flat = pre, ''
        for ch in codes:
            cnt = rng.choice([1, 1, 2, 3]); fmt += (str(cnt) if cnt > 1 else '') + ch; flat += ch * cnt
        yield {'op': 'roundtrip_lsb0', 'fmt': fmt, 'codes': flat, 'pre': pre, 'vals': [rval(rng, ch) for ch in flat], 'extra': rng.choice(['', '', '0b1', '0xff'])}
    for _ in range(N // 3):
        code = rng.choice(CODES)
        yield {'op': 'array', 'code': code, 'pre': rng.choice(['=', '>', '<', '=']), 'vals': [rval(rng, code) for _ in range(rng.randrange(0, 6))], 'other': rng.choice(CODES)}
    for _ in range(60 if tier == 'quick' else 1000):
        code = rng.choice('hHlLiIqQ')
        v = rval(rng, code)
        yield {'op': 'adopt', 'code': code, 'pre': rng.choice('<=@'), 'v': v, 'how': rng.choice(['kw', 'setattr', 'array']), 'edit': rng.choice(['byteswap', 'invert', 'append', 'reverse'])}
    # Array.byteswap: every item byte-reversed (= the same values in the other endianness), the trailing bits - however many, up to one bit short
    # of another item - untouched; twice is the identity
    for _ in range(60 if tier == 'quick' else 900):
        code = rng.choice('hHlLiIqQefd')
        w = 8 * SIZES[code]
        yield {'op': 'array_byteswap', 'code': code, 'pre': rng.choice('<>'), 'vals': [rval(rng, code) for _ in range(rng.randrange(0, 5))],
               'trail': rand_bits(rng, rng.choice([0, 0, 1, 7, 8, 9, w - 8, w - 7, w - 1, w // 2 + 1]), 'rand')}
    for _ in range(N // 2):
        nb = rng.randrange(1, 10)
        yield {'op': 'endian', 'bits': rand_bits(rng, 8 * nb), 'fmt': rng.choice([None, 0, 1, 2, nb, [1, 2], 'h', '2h', 'q', 'bh']), 'cls': rng.choice(MUTABLE)}

def kind(c): return c['op']

def fhex(x): return x.hex() if x == x else 'nan'

def run_impl(c):
    import bitstring
    from bitstring import pack, Array, Bits, BitArray
    op = c['op']
    if op == 'pack':
        def f():
            p = pack(c['fmt'], *c['vals'])
            vals = p.unpack(c['fmt'])
            return [list(p.tobytes()), [fhex(v) if isinstance(v, float) else v for v in vals], len(p)]
        return attempt(f)
    if op == 'roundtrip_lsb0':
        import bitstring
        def f():
            bitstring.options.lsb0 = True
            try:
                p = pack(c['fmt'], *c['vals'])
                vals = p.unpack(c['fmt'])
                s2 = bitstring.ConstBitStream(p); vals2 = s2.readlist(c['fmt'])
                return [[fhex(v) if isinstance(v, float) else v for v in vals], [fhex(v) if isinstance(v, float) else v for v in vals2], len(p), s2.pos]
            finally:
                bitstring.options.lsb0 = False
        return attempt(f)
    if op == 'adopt':
        w = 8 * INTW[c['code']]
        name = ('int' if c['code'].islower() else 'uint') + ('le' if c['pre'] == '<' else 'ne')
        def f():
            if c['how'] == 'kw': x = BitArray(**{name: c['v'], 'length': w})
            elif c['how'] == 'setattr':
                x = BitArray(w); setattr(x, name, c['v'])
            else:
                x = Array(c['pre'] + c['code'], [c['v']]).data
            first = list(x.tobytes())
            if c['edit'] == 'byteswap': x.byteswap()
            elif c['edit'] == 'invert': x.invert()
            elif c['edit'] == 'append': x.append('0xff')
            else: x.reverse()
            fmt = c['pre'] + c['code']
            return [first, list(pack(fmt, c['v']).tobytes()), list(Array(fmt, [c['v']]).tobytes()), list(BitArray(**{name: c['v'], 'length': w}).tobytes()), pack(fmt, c['v']).unpack(fmt)]
        return attempt(f)
    if op == 'array':
        def f():
            a = Array(c['pre'] + c['code'] if c['pre'] else c['code'], c['vals'])
            out = {'bytes': list(a.tobytes()), 'list': [fhex(v) if isinstance(v, float) else v for v in a.tolist()]}
            if c['code'] in 'bBhHlLiIqQfd':
                src = array.array(c['code'], [v for v in c['vals'] if not (isinstance(v, int) and not (-(1 << 31) <= v < (1 << 32)) and c['code'] in 'lL')] if False else c['vals'][:0])
            # array.array input: same typecode accepted (only if widths agree with the native array), others rejected
            res = {}
            for tc in (c['code'], c['other']):
                if tc not in 'bBhHiIlLqQfd': continue
                try:
                    aa = array.array(tc, [1, 2] if tc not in 'fd' else [1.0, 2.0])
                except Exception: continue
                b = Array('=' + c['code'])   # native-endian Array of this code
                try:
                    b.extend(aa); res[tc] = ['ok', [fhex(v) if isinstance(v, float) else v for v in b.tolist()], aa.itemsize]
                except Exception as e:
                    res[tc] = ['err', exn_name(e), aa.itemsize]
            out['from_array'] = res
            return out
        return attempt(f)
    if op == 'array_byteswap':
        def f():
            from bitstring import Bits
            a = Array(c['pre'] + c['code'], c['vals'], trailing_bits=Bits(bin=c['trail']) if c['trail'] else None)
            before = a.data.bin
            a.byteswap(); once = a.data.bin
            a.byteswap(); twice = a.data.bin
            return [before, once, twice]
        return attempt(f)
    if op == 'endian':
        s = cls_of(c['cls'])(bin=c['bits'])
        def f():
            rev = cls_of(c['cls'])(bytes=s.bytes[::-1])
            out = [s.uintle == rev.uintbe, s.intle == rev.intbe, s.uintne == (s.uintle if sys.byteorder == 'little' else s.uintbe), s.intne == (s.intle if sys.byteorder == 'little' else s.intbe)]
            t = cls_of(c['cls'])(s)
            r1 = t.byteswap(c['fmt']); once = t.bin
            r2 = t.byteswap(c['fmt']); twice = t.bin
            out += [once, twice, r1, r2, t.uintbe if False else None]
            if len(c['bits']) in (16, 32, 64):
                out.append([fhex(s.floatle) , fhex(rev.floatbe)])
            return out
        return attempt(f)

SIZES = {'b': 1, 'B': 1, 'h': 2, 'H': 2, 'l': 4, 'L': 4, 'i': 4, 'I': 4, 'q': 8, 'Q': 8, 'e': 2, 'f': 4, 'd': 8}
def ref_byteswap(bits, fmt):
    n = len(bits) // 8
    by = [bits[8 * i:8 * i + 8] for i in range(n)]
    if fmt is None or fmt == 0: sizes = [n]
    elif isinstance(fmt, int): sizes = [fmt]
    elif isinstance(fmt, str): sizes = [SIZES[ch] for ch in fmt.replace('2h', 'hh')]
    else: sizes = list(fmt)
    tot = sum(sizes)
    if tot == 0: return bits, 0
    reps, p = 0, 0
    while p + tot <= n:
        for sz in sizes:
            by[p:p + sz] = by[p:p + sz][::-1]; p += sz
        reps += 1
    return ''.join(by), reps

def oracle(c, obs):
    op = c['op']
    if op == 'pack':
        if obs[0] != 'ok':
            # a float that does not fit struct's 'e'/'f' raises in struct but saturates to inf here (documented): skip those
            return f"pack({c['fmt']!r}, {c['vals']}) raised {obs}"
        std = c['fmt'].replace('@', '=') if False else c['fmt']
        try: exp = list(struct.pack(c['fmt'], *c['vals']))
        except (OverflowError, struct.error): return None
        if obs[1][0] != exp:
            return f"pack({c['fmt']!r}, {c['vals']}).bytes = {bytes(obs[1][0]).hex()} but struct.pack gives {bytes(exp).hex()}"
        back = [fhex(v) if isinstance(v, float) else v for v in struct.unpack(c['fmt'], bytes(exp))]
        if obs[1][1] != back: return f"unpack({c['fmt']!r}) gave {obs[1][1]}, struct.unpack gives {back}"
        return None
    if op == 'roundtrip_lsb0':
        try: exp = list(struct.pack(c['fmt'], *c['vals']))
        except (OverflowError, struct.error): return None
        if obs[0] != 'ok': return f"lsb0 pack/unpack {c['fmt']!r} {c['vals']} raised {obs}"
        back = [fhex(v) if isinstance(v, float) else v for v in struct.unpack(c['fmt'], bytes(exp))]
        if obs[1][0] != back or obs[1][1] != back or obs[1][2] != 8 * len(exp) or obs[1][3] != 8 * len(exp):
            return f"under lsb0, pack({c['fmt']!r}, {c['vals']}) then unpack / readlist gave {obs[1][0]} / {obs[1][1]} ({obs[1][2]} bits, pos {obs[1][3]}); struct round trip gives {back} ({8 * len(exp)} bits)"
        return None
    if op == 'adopt':
        if obs[0] != 'ok': return f"{c} raised {obs}"
        exp = list(struct.pack(c['pre'].replace('@', '=') + c['code'], c['v']))
        o = obs[1]
        if any(x != exp for x in o[:4]) or o[4] != [c['v']]:
            return (f"{c['pre'] + c['code']} value {c['v']}: a mutable bitstring made from it was edited in place ({c['edit']}); afterwards pack / Array / BitArray give "
                    f"{[bytes(x).hex() for x in o[:4]]} and unpack gives {o[4]}; struct.pack gives {bytes(exp).hex()}")
        return None
    if op == 'array':
        if obs[0] != 'ok': return f"Array {c} raised {obs}"
        pre = c['pre'] or '='
        try: exp = list(struct.pack(pre + str(len(c['vals'])) + c['code'], *c['vals']))
        except (OverflowError, struct.error): return None
        if obs[1]['bytes'] != exp: return f"Array({c['pre'] + c['code']!r}, {c['vals']}).tobytes() = {bytes(obs[1]['bytes']).hex()}, struct gives {bytes(exp).hex()}"
        for tc, r in obs[1]['from_array'].items():
            same_kind = (tc in 'fd') == (c['code'] in 'efd') and (tc in 'fd' or tc.islower() == c['code'].islower())
            match = same_kind and r[2] == SIZES[c['code']] and (tc not in 'fd' or tc == c['code'])
            if match and tc == c['code'] and r[0] != 'ok': return f"Array({c['code']!r}).extend(array.array({tc!r})) (itemsize {r[2]}) was refused: {r}"
            if match and r[0] == 'ok' and r[1] not in ([1, 2], [fhex(1.0), fhex(2.0)]): return f"Array({c['code']!r}).extend(array.array({tc!r}, [1, 2])) read back {r[1]}"
            if not match and r[0] == 'ok': return f"Array({c['code']!r}) accepted array.array({tc!r}) of itemsize {r[2]}: {r}"
        return None
    if op == 'array_byteswap':
        if obs[0] != 'ok': return f"array_byteswap {c} raised {obs}"
        before, once, twice = obs[1]
        try:
            other = {'<': '>', '>': '<'}[c['pre']]
            here = ''.join(format(b, '08b') for b in struct.pack(c['pre'] + str(len(c['vals'])) + c['code'], *c['vals']))
            there = ''.join(format(b, '08b') for b in struct.pack(other + str(len(c['vals'])) + c['code'], *c['vals']))
        except (OverflowError, struct.error): return None
        if before != here + c['trail']: return f"Array({c['pre'] + c['code']!r}, {c['vals']}, trailing {c['trail']!r}).data is {before}, struct gives {here} + trailing"
        if once != there + c['trail']: return f"Array({c['pre'] + c['code']!r}, {c['vals']}, trailing_bits={c['trail']!r}).byteswap() gave {once}; the other endianness of the same values is {there}, trailing bits {c['trail']!r} unchanged"
        if twice != before: return f"Array.byteswap() twice is not the identity: {before} -> {twice}"
        return None
    if op == 'endian':
        if obs[0] != 'ok': return f"endian {c} raised {obs}"
        o = obs[1]
        if o[:4] != [True, True, True, True]: return f"le/be/ne relations fail on {c['bits']}: {o[:4]}"
        exp1, reps = ref_byteswap(c['bits'], c['fmt'])
        exp2, _ = ref_byteswap(exp1, c['fmt'])
        if o[4] != exp1 or o[6] != reps: return f"byteswap({c['fmt']}) on {c['bits']} gave {o[4]} ({o[6]} repeats), expected {exp1} ({reps})"
        if o[5] != exp2 or exp2 != c['bits']: return f"byteswap({c['fmt']}) twice on {c['bits']} gave {o[5]}"
        if len(o) > 9 and o[9][0] != o[9][1]: return f"floatle of {c['bits']} != floatbe of the byte-reversed bits: {o[9]}"
        return None

def nontrivial(c, obs): return True

def classify(c, obs):
    if c['op'] == 'pack' and c['pre'] == '@':
        # '@' is documented (and pinned by tests/test_bitstream.py) to mean '=': standard sizes, no alignment
        try: native = struct.pack(c['fmt'], *c['vals']); std = struct.pack('=' + c['fmt'][1:], *c['vals'])
        except Exception: return None
        if native != std: return 'struct-at-is-standard-size-no-alignment'
    return None

def coq_check(c, obs):
    if c['op'] == 'endian' and obs[0] == 'ok':
        b = cbits(c['bits'])
        return f"rz_eqb (getuintle {b}) (getuintbe (frombytes (rev (tobytes {b})))) && rz_eqb (getintle {b}) (getintbe (frombytes (rev (tobytes {b}))))"
    return None

def search(seeds, rng):
    for c in list(seeds) + list(gen_cases(rng, 'quick')):
        try: obs = run_impl(c)
        finally: reset_options()
        msg = oracle(c, obs)
        if msg and classify(c, obs) is None: return c, obs, msg
    return None
