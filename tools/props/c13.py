"""C13 — equality and hashing form a consistent contract across classes and routes."""
from vlib import *
from props.common import *

ID = 'C13'
COQ_PROPS = ['Props/C13.v']
COQ_IMPORTS = ['Prims', 'CaseLib', 'BitsCore', 'Search', 'Store']
RULE = ('pairs and triples over (class, content, length incl. 1999/2000/2001/3601/8193, route, pos); equal contents, single-bit differences at the start, middle (outside the hashed ends) '
        'and end; promotable right operands (str, bytes, list, bitarray) and non-promotable ones (int, float, None, object, dict); hash input captured at run time and compared with the model; '
        'non-trivial = both sides non-empty; distinct by arguments')
ASSUMPTIONS = ['hash() of a tuple is a function of the tuple (only congruence is used)']

def gen_cases(rng, tier):
    N = 300 if tier == 'quick' else 4000
    lens = [0, 1, 7, 8, 9, 64, 100, 1599, 1600, 1601, 1999, 2000, 2001, 2002, 3601, 8193]
    for i in range(N):
        n = rng.choice(lens) if rng.random() < 0.5 else rand_len(rng, tier)
        a = rand_bits(rng, n)
        r = rng.random()
        if r < 0.45: b = a
        elif r < 0.8 and n > 0:
            j = rng.choice([0, n - 1, n // 2, rng.randrange(n), min(n - 1, 800), max(0, n - 801), min(n - 1, 900)])
            b = a[:j] + ('1' if a[j] == '0' else '0') + a[j + 1:]
        elif r < 0.9: b = a + rng.choice(['0', '1', '00000000'])
        else: b = rand_bits(rng, rand_len(rng, tier))
        other = rng.choice(CLASSES + CLASSES + ['str', 'list', 'bitarray', 'bytes', 'int', 'float', 'none', 'object', 'dict'] + ITERATOR_KINDS)
        if other == 'bytes': b = b[:len(b) - len(b) % 8]
        yield {'op': 'pair', 'ca': rng.choice(CLASSES), 'a': a, 'ra': rng.choice(ROUTES), 'pa': rng.choice([None, 0, n // 2, n]),
               'other': other, 'b': b, 'rb': rng.choice(ROUTES), 'pb': rng.choice([None, 0])}
    # a token string whose bits depend on an option (out-of-range value for the 8-bit float formats): equal to the keyword-built object under the option
    # value in force at the time of the comparison, before and after the option is changed
    for _ in range(12 if tier == 'quick' else 150):
        yield {'op': 'optpair', 'fmt': rng.choice(['e4m3mxfp', 'e5m2mxfp']), 'v': rng.choice([1000.0, 1e6, -1e5, 500.0, 60000.0, -70000.0]), 'first': rng.random() < 0.5, 'cls': rng.choice(CLASSES)}
    # same zero-padded bytes, different lengths: == must compare lengths whatever store either side has (memory-mapped file, slice, copy...)
    for _ in range(60 if tier == 'quick' else 800):
        n = 8 * rng.choice([1, 2, 3, 8, 250, 251])
        j = rng.randrange(1, 8)
        a = rand_bits(rng, n - j, 'rand') + '0' * j
        b = a[:n - rng.randrange(1, j + 1)]
        if rng.random() < 0.5: a, b = b, a
        yield {'op': 'pair', 'ca': rng.choice(CLASSES), 'a': a, 'ra': rng.choice(['file_exact', 'file_exact', 'file', 'bytes', 'slice']), 'pa': None,
               'other': rng.choice(CLASSES), 'b': b, 'rb': rng.choice(['file_exact', 'file_exact', 'file', 'bin', 'copy']), 'pb': None}
    for _ in range(40 if tier == 'quick' else 600):
        n = rng.choice([0, 5, 64, 2001, 3000])
        a = rand_bits(rng, n)
        yield {'op': 'triple', 'a': a, 'cs': [rng.choice(CLASSES) for _ in range(3)], 'rs': [rng.choice(ROUTES) for _ in range(3)], 'same': rng.random() < 0.7}

def kind(c): return c['op']

def mk_other(c):
    k = c['other']
    if k in CLASSES: return build(k, c['b'], c['rb'], c['pb'])
    if k in ('str', 'list', 'bitarray', 'bytes') or k in ITERATOR_KINDS: return promotable(c['b'], k)
    return {'int': 5, 'float': 1.5, 'none': None, 'object': object(), 'dict': {1: 2}}[k]

def run_optpair(c):
    import bitstring
    C = getattr(bitstring, c['cls'])
    tok = f"{c['fmt']}={c['v']!r}"
    out = []
    try:
        for mode in (['saturate', 'overflow', 'saturate'] if c['first'] else ['overflow', 'saturate', 'overflow']):
            bitstring.options.mxfp_overflow = mode
            x = C(**{c['fmt']: c['v']})
            r = {'mode': mode, 'eq': x == tok, 'ne': x != tok, 'req': C(tok) == x}
            if c['cls'] in ('Bits', 'ConstBitStream'): r['hash'] = hash(x) == hash(C(tok)); r['in_set'] = C(tok) in {x}
            out.append(r)
    finally:
        bitstring.options.mxfp_overflow = 'saturate'
    return ('ok', out)

def run_impl(c):
    if c['op'] == 'optpair': return run_optpair(c)
    import bitstring
    if c['op'] == 'triple':
        def f():
            b = c['a'] if c['same'] else (c['a'] + '1')
            x, y, z = (build(cl, bb, r) for cl, bb, r in zip(c['cs'], [c['a'], c['a'], b], c['rs']))
            return [x == y, y == z, x == z, x == x, (y == x), (x != y)]
        return attempt(f)
    captured = []
    real_hash = hash
    def spy(t):
        captured.append(t); return real_hash(t)
    def f():
        x = build(c['ca'], c['a'], c['ra'], c['pa'])
        if c['other'] == 'str' and c['b']:
            # the same literal has been used before - handed to pack, added to empty objects, given to mutable objects that were then edited in place:
            # what a string means as an operand of == must not depend on that
            from bitstring import pack, BitArray, BitStream
            lit = promotable(c['b'], 'str')
            def setbits():
                t = BitArray(); t.bits = lit; return t
            for mk in (lambda: pack('bits', lit), lambda: lit + BitArray(), lambda: BitStream() + lit, lambda: BitArray(lit), lambda: BitStream(lit), setbits, lambda: BitArray().join([lit])):
                try:
                    r = mk(); r.invert(); r.append('0b1'); r.prepend('0b0')
                except Exception: pass
        y = mk_other(c)
        out = {'eq': x == y, 'ne': x != (mk_other(c) if c['other'] in ITERATOR_KINDS else y)}      # a one-shot iterator serves one comparison
        if c['other'] in CLASSES:
            out['req'] = (y == x)
        bitstring.bits.hash = spy
        try:
            for name, o in (('hx', x), ('hy', y)):
                if isinstance(o, bitstring.Bits):
                    try:
                        captured.clear(); h = hash(o); out[name] = h
                        t = captured[-1]; out[name + '_in'] = [list(t[0]), t[1]]
                    except TypeError:
                        out[name] = 'unhashable'
        finally:
            del bitstring.bits.hash
        # the hash of an (immutable) object does not depend on the bit numbering in force when it is taken
        if out.get('hx') not in (None, 'unhashable'):
            bitstring.options.lsb0 = True
            try: out['hx_lsb0'] = hash(x); out['eq_lsb0'] = (x == y) if not (c['other'] in ITERATOR_KINDS) else None
            finally: bitstring.options.lsb0 = False
        if out.get('hx') not in (None, 'unhashable') and out.get('hy') not in (None, 'unhashable'):
            out['in_set'] = y in {x}
            out['dict'] = {x: 1}.get(y)
        return out
    return attempt(f)

def oracle(c, obs):
    if obs[0] != 'ok': return f"{c} raised {obs}"
    if c['op'] == 'optpair':
        for r in obs[1]:
            if not (r['eq'] and not r['ne'] and r['req'] and r.get('hash', True) and r.get('in_set', True)):
                return f"{c['cls']}({c['fmt']}={c['v']}) compared with the token string '{c['fmt']}={c['v']!r}' under mxfp_overflow={r['mode']} (sequence {[x['mode'] for x in obs[1]]}): {r}"
        return None
    if c['op'] == 'triple':
        s = c['same']
        exp = [True, s, s, True, True, False]
        return None if obs[1] == exp else f"triple {c['cs']} same={s}: got {obs[1]}, expected {exp}"
    o = obs[1]
    promot = c['other'] in CLASSES + ['str', 'list', 'bitarray', 'bytes'] + ITERATOR_KINDS
    eq = promot and c['a'] == c['b']
    if c['other'] == 'dict':  # a dict is an iterable (of its keys): promotable
        return None
    where = f"{c['ca']}({len(c['a'])} bits, route {c['ra']}, pos {c['pa']}) vs {c['other']}({len(c['b'])} bits, route {c['rb']})"
    if o['eq'] != eq or o['ne'] != (not eq): return f"{where}: == gave {o['eq']}, != gave {o['ne']}; contents equal: {eq}"
    if 'req' in o and o['req'] != eq: return f"{where}: reflected == gave {o['req']}"
    if 'hx_lsb0' in o and o['hx_lsb0'] != o['hx']: return f"{where}: hash() of the same object is {o['hx']} under msb0 and {o['hx_lsb0']} under lsb0"
    if o.get('eq_lsb0') is not None and o['eq_lsb0'] != eq: return f"{where}: == gave {o['eq_lsb0']} under lsb0"
    mut = lambda k: k in MUTABLE
    if mut(c['ca']) != (o.get('hx') == 'unhashable'): return f"{where}: hashability of {c['ca']} wrong: {o.get('hx')}"
    if c['other'] in CLASSES and mut(c['other']) != (o.get('hy') == 'unhashable'): return f"{where}: hashability of {c['other']} wrong"
    if eq and 'in_set' in o:
        if o['hx'] != o['hy']: return f"{where}: equal bitstrings have different hashes"
        if not o['in_set'] or o['dict'] != 1: return f"{where}: equal bitstring not found in set/dict"
    return None

def nontrivial(c, obs): return len(c.get('a', 'x')) > 0

def classify(c, obs): return None

def coq_check(c, obs):
    if c['op'] != 'pair' or obs[0] != 'ok': return None
    o = obs[1]; terms = []
    if c['other'] in CLASSES:
        terms.append(f"Bool.eqb (bs_eq (mkstore {cbits(c['a'])} None) (mkstore {cbits(c['b'])} None)) {cbool(o['eq'])}")
    if 'hx_in' in o and len(c['a']) <= 4000:
        terms.append(f"pair_eqb zlist_eqb Z.eqb (hash_input {cbits(c['a'])}) ({clist(o['hx_in'][0], cz)}, {cz(o['hx_in'][1])})")
    return ' && '.join('(' + t + ')' for t in terms) if terms else None

def search(seeds, rng):
    for c in list(seeds) + list(gen_cases(rng, 'thorough'))[:5000]:
        try: obs = run_impl(c)
        finally: reset_options()
        msg = oracle(c, obs)
        if msg: return c, obs, msg
    return None
