"""C13 — equality and hashing form a consistent contract across classes and routes."""
from vlib import *
from props.common import *

ID = 'C13'
COQ_PROPS = ['Props/C13.v']
COQ_IMPORTS = ['Prims', 'CaseLib', 'BitsCore', 'Search', 'Store']
RULE = ('non-promotable operands of every kind (ints incl. huge, bools, floats incl. nan/inf/-0.0, Decimal, Fraction, complex, numpy scalars, singletons, types, callables, objects with raising special methods), '
        'as written, reflected and through containers; objects derived from objects with a history (hashed, used as keys, compared) by copy / deepcopy / pickle (protocols 2-5) / conversion / operators, and '
        'objects, dicts, sets pickled by one interpreter and loaded by another with a different PYTHONHASHSEED, each probed against freshly built equal and unequal bitstrings of all four classes; '
        'pairs and triples over (class, content, length incl. 1999/2000/2001/3601/8193, route, pos); equal contents, single-bit differences at the start, middle (outside the hashed ends) '
        'and end; promotable right operands (str, bytes, list, bitarray) and non-promotable ones (int, float, None, object, dict); hash input captured at run time and compared with the model; '
        'results of combining constructions (join with empty / non-empty separators over every pattern of empty and non-empty items of every promotable kind, chains of + either way round, *, &|^~, shifts, '
        'in-place chains, several tokens in one string, pack, cut + join, joins of joins) against the content computed on str, probed like every other object, again after moving pos and after in-place changes of inputs / result; '
        'non-trivial = both sides non-empty; distinct by arguments')
ASSUMPTIONS = ['hash() of a tuple is a function of the tuple (only congruence is used)']

def gen_cases(rng, tier):
    yield from _gen_base(rng, tier)
    yield from gen_odd(rng, tier)
    yield from gen_derive(rng, tier)
    yield from gen_xproc(rng, tier)
    yield from gen_combine(rng, tier)

def _gen_base(rng, tier):
    N = 300 if tier == 'quick' else 4000
    lens = [0, 1, 7, 8, 9, 64, 100, 1599, 1600, 1601, 1999, 2000, 2001, 2002, 3601, 8193]
    for i in range(N):
        n = rng.choice(lens) if rng.random() < 0.5 else rand_len(rng, tier)
        a = rand_bits(rng, n)
        r = rng.random()
        if r < 0.45: b = a
        elif r < 0.8 and n > 0:
            j = rng.choice([0, n - 1, n // 2, rng.randrange(n), min(n - 1, 800), max(0, n - 801), min(n - 1, 900)])
            b = a[:j] + ('1' if a[j] == '0' else '0') + a[j + 1:]
        elif r < 0.9: b = a + rng.choice(['0', '1', '00000000'])
        else: b = rand_bits(rng, rand_len(rng, tier))
        other = rng.choice(CLASSES + CLASSES + ['str', 'list', 'bitarray', 'bytes', 'int', 'float', 'none', 'object', 'dict'] + ITERATOR_KINDS)
        if other == 'bytes': b = b[:len(b) - len(b) % 8]
        yield {'op': 'pair', 'ca': rng.choice(CLASSES), 'a': a, 'ra': rng.choice(ROUTES), 'pa': rng.choice([None, 0, n // 2, n]),
               'other': other, 'b': b, 'rb': rng.choice(ROUTES), 'pb': rng.choice([None, 0])}
    # a token string whose bits depend on an option (out-of-range value for the 8-bit float formats): equal to the keyword-built object under the option
    # value in force at the time of the comparison, before and after the option is changed
    for _ in range(12 if tier == 'quick' else 150):
        yield {'op': 'optpair', 'fmt': rng.choice(['e4m3mxfp', 'e5m2mxfp']), 'v': rng.choice([1000.0, 1e6, -1e5, 500.0, 60000.0, -70000.0]), 'first': rng.random() < 0.5, 'cls': rng.choice(CLASSES)}
    # same zero-padded bytes, different lengths: == must compare lengths whatever store either side has (memory-mapped file, slice, copy...)
    for _ in range(60 if tier == 'quick' else 800):
        n = 8 * rng.choice([1, 2, 3, 8, 250, 251])
        j = rng.randrange(1, 8)
        a = rand_bits(rng, n - j, 'rand') + '0' * j
        b = a[:n - rng.randrange(1, j + 1)]
        if rng.random() < 0.5: a, b = b, a
        yield {'op': 'pair', 'ca': rng.choice(CLASSES), 'a': a, 'ra': rng.choice(['file_exact', 'file_exact', 'file', 'bytes', 'slice']), 'pa': None,
               'other': rng.choice(CLASSES), 'b': b, 'rb': rng.choice(['file_exact', 'file_exact', 'file', 'bin', 'copy']), 'pb': None}
    for _ in range(40 if tier == 'quick' else 600):
        n = rng.choice([0, 5, 64, 2001, 3000])
        a = rand_bits(rng, n)
        yield {'op': 'triple', 'a': a, 'cs': [rng.choice(CLASSES) for _ in range(3)], 'rs': [rng.choice(ROUTES) for _ in range(3)], 'same': rng.random() < 0.7}


# ---------------------------------------------------------------------------------------------------------------------------------
# Non-promotable right-hand (and, reflected, left-hand) operands: numbers of every kind and value, singletons, types, callables,
# objects with unhelpful special methods.  == is False, != is True, nothing is raised.
# ---------------------------------------------------------------------------------------------------------------------------------
class _RaisingRepr:
    def __repr__(self): raise ValueError('no repr')
    def __str__(self): raise OverflowError('no str')
    def __format__(self, spec): raise ZeroDivisionError('no format')
class _RaisingIterTE:
    def __iter__(self): raise TypeError('not really iterable')
class _RaisingIndex:
    def __index__(self): raise ValueError('no index')
class _HasIndex:
    def __index__(self): return 3
class _HasIntFloat:
    def __int__(self): raise OverflowError('no int')
    def __float__(self): raise ValueError('no float')
class _RaisingBool:
    def __bool__(self): raise ValueError('no truth value')
class _RaisingLen:
    def __len__(self): raise ValueError('no len')
class _RaisingGetattr:
    def __getattr__(self, name): raise ValueError(name)
class _EqNotImplemented:
    def __eq__(self, other): return NotImplemented
    def __ne__(self, other): return NotImplemented
    __hash__ = None
class _MyInt(int): pass
class _MyFloat(float): pass
class _Slotted:
    __slots__ = ('_bitstore',)
class _HasBitstoreAttr:
    _bitstore = None
    len = 0

def _np(name, arg):
    try:
        import numpy
        return getattr(numpy, name)(arg)
    except ImportError:
        return float(arg)

def _odd_table():
    import decimal, fractions, datetime, re, sys, enum, bitstring
    D, F = decimal.Decimal, fractions.Fraction
    class _E(enum.Enum): A = 1
    class _IE(enum.IntEnum): A = 1; Z = 0
    return {
        # ints and bools (content-dependent ones are made in odd_operand)
        'int0': lambda: 0, 'int1': lambda: 1, 'int_neg': lambda: -3, 'int5': lambda: 5, 'int8': lambda: 8, 'true': lambda: True, 'false': lambda: False,
        'int_2p63': lambda: 2 ** 63, 'int_2p64': lambda: 2 ** 64, 'int_m2p63': lambda: -2 ** 63 - 1, 'int_1e400': lambda: 10 ** 400, 'int_m1e400': lambda: -10 ** 400, 'int_4299digits': lambda: 10 ** 4298 + 7,
        'int_huge_digits': lambda: 10 ** 5000, 'int_neg_huge_digits': lambda: -(10 ** 4300), 'int_shift_huge': lambda: 1 << 100000,
        'myint0': lambda: _MyInt(0), 'myint8': lambda: _MyInt(8), 'intenum': lambda: _IE.A, 'intenum0': lambda: _IE.Z,        # (an enum.IntFlag member is iterable, hence promotable: not here)
        # floats
        'f0': lambda: 0.0, 'fm0': lambda: -0.0, 'f1': lambda: 1.0, 'f8': lambda: 8.0, 'f1_5': lambda: 1.5, 'fneg': lambda: -2.25, 'f1e308': lambda: 1e308, 'fm1e308': lambda: -1.7976931348623157e308, 'fdenorm': lambda: 5e-324,
        'nan': lambda: float('nan'), 'mnan': lambda: -float('nan'), 'inf': lambda: float('inf'), 'minf': lambda: float('-inf'), 'myfloat_nan': lambda: _MyFloat('nan'), 'myfloat_inf': lambda: _MyFloat('inf'), 'myfloat1': lambda: _MyFloat(1),
        # decimals, fractions, complex
        'dec_nan': lambda: D('NaN'), 'dec_mnan': lambda: D('-NaN'), 'dec_snan': lambda: D('sNaN'), 'dec_nan_payload': lambda: D('NaN123'), 'dec_inf': lambda: D('Infinity'), 'dec_minf': lambda: D('-Infinity'),
        'dec1_5': lambda: D('1.5'), 'dec8': lambda: D('8'), 'dec0': lambda: D('0'), 'dec_m0': lambda: D('-0'), 'dec_1e1000': lambda: D('1E+1000'), 'dec_1em1000': lambda: D('1E-1000'), 'dec_huge': lambda: D('1E+999999'),
        'frac_third': lambda: F(1, 3), 'frac0': lambda: F(0), 'frac8': lambda: F(8, 1), 'frac_huge': lambda: F(10 ** 400, 3), 'frac_tiny': lambda: F(1, 10 ** 400),
        'cplx': lambda: 1 + 2j, 'cplx0': lambda: 0j, 'cplx8': lambda: complex(8, 0), 'cplx_nan': lambda: complex('nan'), 'cplx_inf': lambda: complex('inf'), 'cplx_nan_nan': lambda: complex(float('nan'), float('nan')), 'cplx_minf_j': lambda: complex(0, float('-inf')),
        # numpy scalars (direct comparison only: the reflected one is numpy's business)
        'np_int64': lambda: _np('int64', 5), 'np_uint8_0': lambda: _np('uint8', 0), 'np_float64_nan': lambda: _np('float64', 'nan'), 'np_float32_inf': lambda: _np('float32', 'inf'), 'np_float16_1': lambda: _np('float16', 1),
        'np_bool': lambda: _np('bool_', True), 'np_complex_nan': lambda: _np('complex128', 'nan'),
        # singletons, types, callables, modules, assorted library and standard-library objects
        'none': lambda: None, 'object': lambda: object(), 'ellipsis': lambda: Ellipsis, 'notimplemented': lambda: NotImplemented, 'type_int': lambda: int, 'type_float': lambda: float, 'type_type': lambda: type,
        'cls_Bits': lambda: bitstring.Bits, 'cls_BitStream': lambda: bitstring.BitStream, 'builtin_len': lambda: len, 'lambda': lambda: (lambda: 0), 'module': lambda: sys, 'module_bitstring': lambda: bitstring,
        'slice': lambda: slice(1, 2), 'slice_none': lambda: slice(None), 'date': lambda: datetime.date(2020, 1, 1), 'timedelta0': lambda: datetime.timedelta(0), 'regex': lambda: re.compile('0b1'),
        'enum': lambda: _E.A, 'dtype': lambda: bitstring.Dtype('uint8'), 'options': lambda: bitstring.options, 'exception': lambda: ValueError('0b1'), 'exc_class': lambda: TypeError, 'bound_method': lambda: bitstring.Bits('0b1').find,
        'property': lambda: bitstring.Bits.bin, 'code': lambda: (lambda: 0).__code__, 'weakref': lambda: __import__('weakref').ref(_Slotted),
        # objects whose special methods are unhelpful
        'raising_repr': lambda: _RaisingRepr(), 'raising_iter_typeerror': lambda: _RaisingIterTE(), 'raising_index': lambda: _RaisingIndex(), 'has_index': lambda: _HasIndex(), 'raising_int_float': lambda: _HasIntFloat(),
        'raising_bool': lambda: _RaisingBool(), 'raising_len': lambda: _RaisingLen(), 'raising_getattr': lambda: _RaisingGetattr(), 'eq_notimplemented': lambda: _EqNotImplemented(), 'slotted': lambda: _Slotted(),
        'has_bitstore_attr': lambda: _HasBitstoreAttr(),
    }
_ODD = None
ODD_KEYS_CONTENT = ['int_len', 'int_uint', 'float_len', 'float_uint', 'bool_first', 'int_m_uint', 'dec_uint', 'frac_uint', 'cplx_uint', 'int_hash']
NO_REFLECT = ('np_',)          # numpy scalars look inside the other operand themselves
# KNOWN_OPEN: sub-classes that are not generated because the unchanged library is known to violate the property text on them. Empty: an int with more than 4300
# decimal digits as operand of == / != used to raise ValueError (integer string conversion limit, from the text of the TypeError built for an integer operand;
# reproducer bitstring.Bits() == 10**4300) - repaired in /repo as D65, so 'int_huge_digits', 'int_neg_huge_digits', 'int_shift_huge' are generated.
KNOWN_OPEN = set()

def odd_keys():
    global _ODD
    if _ODD is None: _ODD = _odd_table()
    return [k for k in _ODD if k not in KNOWN_OPEN] + ODD_KEYS_CONTENT

def odd_operand(key, bits):
    import decimal, fractions
    global _ODD
    if _ODD is None: _ODD = _odd_table()
    u = int(bits, 2) if bits else 0
    if key == 'int_len': return len(bits)
    if key == 'int_uint': return u
    if key == 'int_m_uint': return -u
    if key == 'float_len': return float(len(bits))
    if key == 'float_uint': return float(u) if u < 2 ** 1000 else float('inf')
    if key == 'bool_first': return bits[:1] == '1'
    if key == 'dec_uint': return decimal.Decimal(u)
    if key == 'frac_uint': return fractions.Fraction(u, 1)
    if key == 'cplx_uint': return complex(float(u) if u < 2 ** 1000 else 0.0, 0)
    if key == 'int_hash':
        import bitstring
        return hash(bitstring.Bits(bin=bits))
    return _ODD[key]()

def gen_odd(rng, tier):
    keys = odd_keys()
    lens = [0, 1, 1, 7, 8, 8, 9, 32, 64, 100, 2001, 4096]
    reps = 1 if tier == 'quick' else 12
    for rep in range(reps):
        for k in keys:
            n = rng.choice(lens)
            a = rand_bits(rng, n)
            yield {'op': 'odd', 'ca': CLASSES[(rep + keys.index(k)) % 4] if rep < 4 else rng.choice(CLASSES), 'a': a, 'ra': rng.choice(ROUTES), 'pa': rng.choice([None, 0, n // 2, n]), 'operand': k,
                   'lsb0': rng.random() < 0.15, 'used': rng.random() < 0.3}

# ---------------------------------------------------------------------------------------------------------------------------------
# Objects obtained FROM objects that already have a history (hashed, used as keys, compared, read): copies, deep copies, pickles of every
# protocol, conversions, and derived values - in this interpreter (derive) and pickled by one interpreter, loaded by another one whose
# hash randomisation differs (xproc).  Equal contents <=> ==, equal hashes, interchangeable as keys and members.
# ---------------------------------------------------------------------------------------------------------------------------------
PRE_OPS = ['hash', 'dictkey', 'setmember', 'eq_same', 'eq_str', 'eq_other', 'read_props', 'hash_lsb0', 'frozenset', 'hash_twice', 'find', 'copy_kept', 'bool_len']
DERIVATIONS = ['pickle2', 'pickle3', 'pickle4', 'pickle5', 'deepcopy', 'copy', 'ctor_same', 'ctor_Bits', 'ctor_ConstBitStream', 'ctor_BitArray', 'ctor_BitStream', 'slice_all', 'add_empty', 'radd_empty', 'mul1',
               'deepcopy_in_dict', 'pickle_in_set', 'pickle_twice', 'append1', 'prepend0', 'slice1', 'slice_last', 'invert', 'reversed', 'via_mutable_flip', 'via_mutable_append', 'and_self', 'xor_ones', 'shift1', 'join2', 'cut_first']

def apply_pre(o, pre, bits):
    """give the object a history; returns things that must be kept alive"""
    import bitstring
    keep = []
    hashable = type(o).__name__ in ('Bits', 'ConstBitStream')
    for p in pre:
        if p in ('hash', 'hash_twice'):
            if hashable: keep.append(hash(o)); keep.append(hash(o) if p == 'hash_twice' else 0)
        elif p == 'dictkey':
            if hashable: d = {o: 1}; keep.append(d[o]); keep.append(d)
        elif p == 'setmember':
            if hashable: st = {o}; keep.append(o in st); keep.append(st)
        elif p == 'frozenset':
            if hashable: keep.append(frozenset([o, o]))
        elif p == 'eq_same': keep.append(o == bitstring.Bits(bin=bits))
        elif p == 'eq_str': keep.append(o == ('0b' + bits if bits else ''))
        elif p == 'eq_other': keep.append(o == bitstring.BitArray(bin=bits + '1')); keep.append(o != 5)
        elif p == 'read_props': keep.append((o.bin, len(o), o.tobytes(), o.hex if len(bits) % 4 == 0 else None, o.uint if bits else None))
        elif p == 'hash_lsb0':
            if hashable:
                bitstring.options.lsb0 = True
                try: keep.append(hash(o))
                finally: bitstring.options.lsb0 = False
        elif p == 'find': keep.append(o.find('0b1')); keep.append(o.count(1))
        elif p == 'copy_kept':
            import copy
            keep.append(copy.copy(o)); keep.append(o[:])
        elif p == 'bool_len': keep.append((bool(o), len(o), o.any(1) if bits else None))
    return keep

def ref_derived(bits, how):
    """the content the derived object must have (reference: str operations)"""
    flip = lambda c: '1' if c == '0' else '0'
    if how == 'append1': return bits + '1'
    if how == 'prepend0': return '0' + bits
    if how == 'slice1': return bits[1:]
    if how == 'slice_last': return bits[-1:]
    if how == 'invert': return ''.join(flip(c) for c in bits)
    if how == 'reversed': return bits[::-1]
    if how == 'via_mutable_flip': return (flip(bits[0]) + bits[1:]) if bits else ''
    if how == 'via_mutable_append': return bits + '10'
    if how == 'and_self': return bits
    if how == 'xor_ones': return ''.join(flip(c) for c in bits)
    if how == 'shift1': return (bits[1:] + '0') if bits else ''
    if how == 'join2': return bits + bits
    if how == 'cut_first': return bits[:3]
    return bits

def derive(o, how, bits):
    import bitstring, pickle, copy
    C = type(o)
    if how.startswith('pickle') and how[6:].isdigit(): return pickle.loads(pickle.dumps(o, int(how[6:])))
    if how == 'deepcopy': return copy.deepcopy(o)
    if how == 'copy': return copy.copy(o)
    if how == 'ctor_same': return C(o)
    if how.startswith('ctor_'): return getattr(bitstring, how[5:])(o)
    if how == 'slice_all': return o[:]
    if how == 'add_empty': return o + bitstring.Bits()
    if how == 'radd_empty': return '' + o
    if how == 'mul1': return o * 1
    if how == 'deepcopy_in_dict': return list(copy.deepcopy({'k': [o, o]})['k'])[1]
    if how == 'pickle_in_set':
        if type(o).__name__ in ('Bits', 'ConstBitStream'): return list(pickle.loads(pickle.dumps({o}, 4)))[0]
        return pickle.loads(pickle.dumps([o], 4))[0]
    if how == 'pickle_twice': return pickle.loads(pickle.dumps(pickle.loads(pickle.dumps(o, 5)), 2))
    if how == 'append1': return o + '0b1'
    if how == 'prepend0': return '0b0' + o
    if how == 'slice1': return o[1:]
    if how == 'slice_last': return o[-1:] if bits else o[:]
    if how == 'invert': return ~o if bits else o[:]
    if how == 'reversed': return o[::-1]
    if how == 'via_mutable_flip':
        b = bitstring.BitArray(o)
        if bits: b.invert(0)
        return bitstring.Bits(b)
    if how == 'via_mutable_append':
        b = bitstring.BitStream(o); b.append('0b10')
        return bitstring.ConstBitStream(b)
    if how == 'and_self': return (o & o) if bits else o[:]
    if how == 'xor_ones': return (o ^ bitstring.Bits(bin='1' * len(bits))) if bits else o[:]
    if how == 'shift1': return (o << 1) if bits else o[:]
    if how == 'join2': return bitstring.Bits().join([o, o])
    if how == 'cut_first':
        for piece in o.cut(3): return piece
        return o[:]
    raise AssertionError(how)

def probe_pair(x, bits, tag=''):
    """x is said to hold `bits`: compare it with freshly built objects of every class holding the same bits, and with ones that differ in one bit / in length"""
    import bitstring
    out = {}
    def rec(k, fn):
        try: out[tag + k] = fn()
        except BaseException as e:
            if isinstance(e, (KeyboardInterrupt, SystemExit, Hang)): raise
            out[tag + k] = 'exc:' + type(e).__name__
    rec('bin', lambda: x.bin)
    rec('cls', lambda: type(x).__name__)
    hashable = type(x).__name__ in ('Bits', 'ConstBitStream')
    other = (bits[:-1] + ('1' if bits[-1] == '0' else '0')) if bits else '0'
    for cn in CLASSES:
        f = getattr(bitstring, cn)(bin=bits)
        g = getattr(bitstring, cn)(bin=other)
        rec(f'eq_{cn}', lambda: [x == f, f == x, x != f, f != x, x == g, g == x, x != g])
        if hashable and cn in ('Bits', 'ConstBitStream'):
            rec(f'hash_{cn}', lambda: hash(x) == hash(f))
            rec(f'member_{cn}', lambda: [f in {x}, x in {f}, {x: 1}.get(f), {f: 2}.get(x), f in frozenset([x]), len({x, f}), g in {x}])
    if hashable: rec('hash_stable', lambda: hash(x) == hash(x))
    else: rec('unhashable', lambda: _unhashable(x))
    rec('eq_str', lambda: [x == ('0b' + bits if bits else ''), x != ('0b' + bits if bits else '')])
    return out

def _unhashable(x):
    try: hash(x)
    except TypeError: return True
    return False

def expected_probe(cls, bits, tag=''):
    exp = {tag + 'bin': bits, tag + 'cls': cls, tag + 'eq_str': [True, False]}
    hashable = cls in ('Bits', 'ConstBitStream')
    for cn in CLASSES:
        exp[tag + f'eq_{cn}'] = [True, True, False, False, False, False, True]
        if hashable and cn in ('Bits', 'ConstBitStream'):
            exp[tag + f'hash_{cn}'] = True
            exp[tag + f'member_{cn}'] = [True, True, 1, 2, True, 1, False]
    if hashable: exp[tag + 'hash_stable'] = True
    else: exp[tag + 'unhashable'] = True
    return exp

def derived_class(cls, how):
    if how.startswith('ctor_') and how != 'ctor_same': return how[5:]
    if how == 'via_mutable_flip': return 'Bits'
    if how == 'via_mutable_append': return 'ConstBitStream'
    if how == 'join2': return 'Bits'
    if how == 'radd_empty' or how == 'prepend0': return cls
    return cls

def gen_derive(rng, tier):
    lens = [0, 1, 5, 8, 13, 64, 100, 1999, 2000, 2001, 2002, 3601, 8193]
    N = 90 if tier == 'quick' else 2500
    for i in range(N):
        n = rng.choice(lens) if rng.random() < 0.6 else rand_len(rng, tier)
        hist = rng.sample(PRE_OPS, rng.choice([0, 1, 1, 2, 3]))
        if i % 3 and 'hash' not in hist and 'dictkey' not in hist: hist.insert(rng.randrange(len(hist) + 1), rng.choice(['hash', 'dictkey', 'setmember']))
        yield {'op': 'derive', 'cls': CLASSES[i % 4] if i % 2 else rng.choice(['Bits', 'ConstBitStream']), 'bits': rand_bits(rng, n), 'route': rng.choice(ROUTES), 'pos': rng.choice([None, 0, n // 2, n]), 'pre': hist,
               'how': DERIVATIONS[i % len(DERIVATIONS)] if i < 2 * len(DERIVATIONS) else rng.choice(DERIVATIONS), 'post': rng.sample(PRE_OPS, rng.choice([0, 1]))}

def gen_xproc(rng, tier):
    lens = [0, 1, 7, 8, 13, 64, 100, 1999, 2000, 2001, 3601, 5000]
    for i in range(8 if tier == 'quick' else 60):
        objs, seen = [], set()
        for j in range(rng.choice([6, 10, 14])):
            n = rng.choice(lens) if rng.random() < 0.7 else rand_len(rng, tier)
            bits = rand_bits(rng, n, rng.choice(['rand', 'rand', 'periodic', 'zeros']))
            if bits in seen: continue                  # one table entry per content
            seen.add(bits)
            hist = rng.sample(PRE_OPS, rng.choice([0, 1, 2, 3]))
            if j % 4 == 3: hist = [h for h in hist if h not in ('hash', 'dictkey', 'setmember', 'frozenset', 'hash_twice', 'hash_lsb0')]        # never hashed before it is pickled
            objs.append({'cls': CLASSES[j % 4] if j % 3 else rng.choice(['Bits', 'ConstBitStream']), 'bits': bits, 'route': rng.choice(ROUTES), 'pos': rng.choice([None, 0, n // 2, n]), 'pre': hist,
                         'in_table': rng.random() < 0.8})
        ws = rng.randrange(1, 2 ** 32)
        rs = rng.choice([0, ws, rng.randrange(1, 2 ** 32), rng.randrange(1, 2 ** 32), rng.randrange(1, 2 ** 32)])
        yield {'op': 'xproc', 'objs': objs, 'protocol': rng.choice([2, 3, 4, 5]), 'writer_seed': ws, 'reader': rng.choice(['sub', 'sub', 'main']), 'reader_seed': rs,
               'writer_lsb0': rng.random() < 0.15}

# -- the two halves of an xproc case; each runs in its own interpreter (python -c ... worker_main) with its own PYTHONHASHSEED
def xproc_write(c):
    """build the objects, give them their history, pickle them bare, as dict keys, as set members and inside a frozenset / tuple"""
    import pickle, bitstring
    objs, keep = [], []
    for spec in c['objs']: objs.append(build(spec['cls'], spec['bits'], spec['route'], spec['pos']))
    if c.get('writer_lsb0'): bitstring.options.lsb0 = True       # the history (hashing included) and the pickling happen under the other bit numbering; the reader uses msb0
    for o, spec in zip(objs, c['objs']):
        keep.append(apply_pre(o, [p for p in spec['pre'] if p != 'hash_lsb0'] if c.get('writer_lsb0') else spec['pre'], spec['bits']))
    hashable = [(o, s) for o, s in zip(objs, c['objs']) if s['cls'] in ('Bits', 'ConstBitStream') and s['in_table']]
    table = {o: s['bits'] for o, s in hashable}
    members = {o for o, s in hashable}
    payload = {'objs': objs, 'table': table, 'members': members, 'frozen': frozenset(members), 'pairs': [(o, o) for o in objs], 'nested': {'t': tuple(table.items())}}
    try: return pickle.dumps(payload, c['protocol'])
    finally: bitstring.options.lsb0 = False

def xproc_read(c, blob):
    import pickle, bitstring
    p = pickle.loads(blob)
    out = {'n': len(p['objs']), 'table_len': len(p['table']), 'members_len': len(p['members']), 'frozen_len': len(p['frozen']), 'objs': []}
    for spec, o, pair in zip(c['objs'], p['objs'], p['pairs']):
        r = probe_pair(o, spec['bits'])
        r['pair_same'] = pair[0] is pair[1] and pair[0] == o
        if spec['cls'] in ('Bits', 'ConstBitStream') and spec['in_table']:
            lk = {}
            for cn in ('Bits', 'ConstBitStream'):
                fresh = getattr(bitstring, cn)(bin=spec['bits'])
                try: lk[cn] = [p['table'].get(fresh) == spec['bits'], fresh in p['members'], fresh in p['frozen'], p['table'].get(o) == spec['bits'], o in p['members'], fresh in dict(p['nested']['t']),
                               fresh in set(p['members']), fresh in {k: v for k, v in p['table'].items()}]
                except Exception as e: lk[cn] = 'exc:' + type(e).__name__
            r['lookup'] = lk
        out['objs'].append(r)
    return out

def worker_main():
    """python -c '... c13.worker_main()' write|read : the case (and, for read, the pickle as hex) arrive as JSON on stdin; write answers with the pickle as hex, read with the observations as JSON"""
    import sys, json
    sys.path.insert(0, REPO)
    req = json.load(sys.stdin)
    if sys.argv[1] == 'write': sys.stdout.write(xproc_write(req['case']).hex())
    else: sys.stdout.write(json.dumps(xproc_read(req['case'], bytes.fromhex(req['blob']))))

def _spawn(mode, hashseed, req):
    import subprocess, sys, os, json
    tools = os.path.dirname(os.path.dirname(os.path.abspath(__file__)))
    env = dict(os.environ, PYTHONPATH=REPO + os.pathsep + tools, VERIF_REPO=REPO)
    env.pop('PYTHONHASHSEED', None)
    if hashseed != 'random': env['PYTHONHASHSEED'] = str(hashseed)          # 'random': the interpreter's default, a fresh random seed per process
    r = subprocess.run([sys.executable, '-c', 'import sys; from props import c13; c13.worker_main()', mode], input=json.dumps(req), capture_output=True, text=True, env=env, timeout=120)
    if r.returncode != 0: raise RuntimeError(f'{mode} process failed: ' + r.stderr[-300:].replace('\n', ' | '))
    return r.stdout

def run_xproc(c):
    import json
    def f():
        blob = _spawn('write', c['writer_seed'], {'case': c})
        if c['reader'] == 'main': return xproc_read(c, bytes.fromhex(blob))      # this process runs with PYTHONHASHSEED=0 (or whatever the caller set): another seed than the writer's
        return json.loads(_spawn('read', c['reader_seed'], {'case': c, 'blob': blob}))
    return attempt(f, secs=240)

def run_derive(c):
    def f():
        bits = c['bits']
        o = build(c['cls'], bits, c['route'], c['pos'])
        hashable = c['cls'] in ('Bits', 'ConstBitStream')
        keep = apply_pre(o, c['pre'], bits)
        h1 = hash(o) if hashable and ('hash' in c['pre'] or 'dictkey' in c['pre']) else None
        d = derive(o, c['how'], bits)
        keep2 = apply_pre(o, c['post'], bits)
        out = probe_pair(d, ref_derived(bits, c['how']), 'derived.')
        out.update(probe_pair(o, bits, 'source.'))
        out['hash_unchanged'] = (h1 is None) or h1 == hash(o)
        out['derived_eq_source'] = [d == o, o == d, d != o]
        return out
    return attempt(f, secs=20)

def run_odd(c):
    import bitstring
    def f():
        x = build(c['ca'], c['a'], c['ra'], c['pa'])
        if c['used'] and c['ca'] in ('Bits', 'ConstBitStream'): hash(x)
        y = odd_operand(c['operand'], c['a'])
        out = {}
        def rec(k, fn):
            try: out[k] = fn()
            except BaseException as e:
                if isinstance(e, (KeyboardInterrupt, SystemExit, Hang)): raise
                out[k] = 'exc:' + type(e).__name__ + ':' + str(e)[:60]
        if c['lsb0']: bitstring.options.lsb0 = True
        try:
            rec('eq', lambda: x == y); rec('ne', lambda: x != y)
            rec('in_list', lambda: y in [x]); rec('count', lambda: [x, x].count(y))
            if not c['operand'].startswith(NO_REFLECT):
                rec('req', lambda: y == x); rec('rne', lambda: y != x); rec('rin_list', lambda: x in [y, None]); rec('tuple_eq', lambda: (x, 1) == (y, 1))
            rec('eq_again', lambda: x == y)
            rec('self_eq', lambda: [x == build(c['ca'], c['a']), x != bitstring.Bits(bin=c['a']), x == ('0b' + c['a'] if c['a'] else '')])
        finally:
            bitstring.options.lsb0 = False
        return out
    return attempt(f, secs=20)

# ---------------------------------------------------------------------------------------------------------------------------------
# "... independent of how either side was built": objects that are the RESULT of a combining construction - join (separator empty /
# non-empty, no items / one item / items that are empty at the front, at the back, in the middle, all empty, items of every promotable
# kind, the sequence a list / tuple / one-shot iterator), chains of + with a bitstring or a promotable operand on either side, * and
# reflected *, &, |, ^ (also reflected), ~, shifts, in-place chains on the mutable classes (+=, append, prepend, *=, insert),
# several tokens in one string, pack of several tokens, a bitstring cut to pieces and joined again, a join of joins.
# The content the result must have is computed on str ('0' / '1') with str.join, +, * and character-wise operators; the result is then
# probed like every other object (==, != both ways against all four classes, hash, set / dict membership, promotable operands, a
# one-bit difference at the end / in the middle, a length difference), again after the stream position was moved, after the inputs were
# changed in place, and the inputs are probed after the result was changed in place.
# ---------------------------------------------------------------------------------------------------------------------------------
COMBINE_HOWS = ['join', 'join', 'join', 'add', 'radd', 'mul', 'rmul', 'bitwise', 'rbitwise', 'invert', 'shift', 'inplace', 'tokens', 'pack', 'cut_join', 'slices_join', 'nested_join']
ITEM_KINDS = CLASSES + ['str', 'hexstr', 'octstr', 'tokenstr', 'list', 'tuple', 'bitarray', 'frozenbitarray', 'bytes', 'bytearray', 'memoryview', 'array_B', 'bytesio'] + ITERATOR_KINDS
ITEM_PATTERNS = ['none', 'single', 'single_empty', 'all_empty', 'leading_empties', 'trailing_empties', 'middle_empties', 'both_ends_empty', 'alternating', 'no_empties', 'random', 'random']

def _operand(kind, bits, route='bin'):
    if kind in CLASSES: return build(kind, bits, route)
    if kind == 'hexstr': return ('0x' + format(int(bits, 2), f'0{len(bits) // 4}x')) if bits else ''
    if kind == 'octstr': return ('0o' + format(int(bits, 2), f'0{len(bits) // 3}o')) if bits else ''
    if kind == 'tokenstr': return f'uint:{len(bits)}={int(bits, 2)}' if bits else ''
    if kind == 'frozenbitarray':
        import bitarray
        return bitarray.frozenbitarray(bits)
    if kind == 'memoryview': return memoryview(promotable(bits, 'bytes'))
    if kind == 'array_B':
        import array
        return array.array('B', promotable(bits, 'bytes'))
    if kind == 'bytesio':
        import io
        return io.BytesIO(promotable(bits, 'bytes'))
    return promotable(bits, kind)

def _fit_kind(kind, bits):
    """a kind that can hold these bits (whole bytes for bytes-like kinds, whole nibbles for a hex string)"""
    if kind in ('bytes', 'bytearray', 'memoryview', 'array_B', 'bytesio') and len(bits) % 8: return 'bitarray' if kind in ('bytes', 'bytearray') else 'frozenbitarray'
    if kind == 'hexstr' and len(bits) % 4: return 'str'
    if kind == 'octstr' and len(bits) % 3: return 'tokenstr'
    return kind

def _seq(items, seqkind):
    if seqkind == 'tuple': return tuple(items)
    if seqkind == 'gen': return (x for x in items)
    if seqkind == 'iter': return iter(items)
    if seqkind == 'map': return map(lambda x: x, items)
    if seqkind == 'deque':
        import collections
        return collections.deque(items)
    return list(items)

def _flip(s): return ''.join('1' if ch == '0' else '0' for ch in s)

def combine_model(c):
    """(bits of the result, class of the result) on str"""
    how = c['how']; its = [b for _, b, _ in c['items']]
    if how == 'join': return c['sep'].join(its), c['cls']
    if how in ('add', 'radd', 'tokens'): return ''.join(its), c['cls']
    if how == 'pack': return ''.join(its), 'BitStream'
    if how in ('mul', 'rmul'): return its[0] * c['k'], c['cls']
    if how in ('bitwise', 'rbitwise'):
        f = {'and': lambda a, b: a == b == '1', 'or': lambda a, b: '1' in (a, b), 'xor': lambda a, b: a != b}[c['bop']]
        return ''.join('1' if f(a, b) else '0' for a, b in zip(its[0], its[1])), c['cls']
    if how == 'invert': return _flip(its[0]), c['cls']
    if how == 'shift':
        a, k = its[0], min(c['k'], len(its[0]))
        return (a[k:] + '0' * k) if c['bop'] == 'l' else ('0' * k + a[:len(a) - k]), c['cls']
    if how == 'inplace':
        cur = its[0]
        for (step, arg), b in zip(c['steps'], its[1:]):
            if step in ('iadd', 'append'): cur = cur + b
            elif step == 'prepend': cur = b + cur
            elif step == 'imul': cur = cur * arg
            elif step == 'insert': cur = cur[:arg] + b + cur[arg:]
        return cur, c['cls']
    if how == 'cut_join':
        a, k = its[0], c['k']
        return c['sep'].join(a[i:i + k] for i in range(0, len(a), k)), c['cls']          # chunks of k bits, the last one holds what is left
    if how == 'slices_join': return its[0], c['cls']
    if how == 'nested_join':
        inner = [c['sep2'].join(its[i:j]) for i, j in zip(c['groups'], c['groups'][1:])]
        return c['sep'].join(inner), c['cls']
    raise AssertionError(how)

def combine_build(c):
    """-> (result, [(input object, its bits)]) ; the inputs are the bitstring operands that went in"""
    import bitstring
    how = c['how']; C = cls_of(c['cls']); inputs = []
    def opnd(i):
        kind, bits, route = c['items'][i]
        o = _operand(kind, bits, route)
        if kind in CLASSES: inputs.append((o, bits))
        if c.get('item_pos') and hasattr(o, 'pos'): o.pos = len(bits) - len(bits) // 3          # operands that are streams part-way through their data: the whole operand counts
        return o
    n = len(c['items'])
    if how == 'join':
        sep = build(c['cls'], c['sep'], c['route'], c.get('pos')); inputs.append((sep, c['sep']))
        return sep.join(_seq([opnd(i) for i in range(n)], c['seqkind'])), inputs
    if how == 'add':
        x = opnd(0)
        for i in range(1, n): x = x + opnd(i)
        return x, inputs
    if how == 'radd':
        # the bitstring is the last operand; everything before it is folded in from the right: p0 + (p1 + (... + x))
        x = opnd(n - 1)
        for i in range(n - 2, -1, -1): x = opnd(i) + x
        return x, inputs
    if how == 'mul': return opnd(0) * c['k'], inputs
    if how == 'rmul': return c['k'] * opnd(0), inputs
    if how in ('bitwise', 'rbitwise'):
        import operator
        f = {'and': operator.and_, 'or': operator.or_, 'xor': operator.xor}[c['bop']]
        a, b = opnd(0), opnd(1)
        return f(a, b), inputs
    if how == 'invert': return ~opnd(0), inputs
    if how == 'shift':
        a = opnd(0)
        return (a << c['k']) if c['bop'] == 'l' else (a >> c['k']), inputs
    if how == 'inplace':
        x = build(c['cls'], c['items'][0][1], c['items'][0][2])
        for i, (step, arg) in enumerate(c['steps']):
            b = opnd(i + 1) if step != 'imul' else None
            if step == 'iadd': x += b
            elif step == 'append': x.append(b)
            elif step == 'prepend': x.prepend(b)
            elif step == 'imul': x *= arg
            elif step == 'insert': x.insert(b, arg)
        return x, inputs
    if how == 'tokens':
        toks = []
        for j, (kind, bits, _) in enumerate(c['items']):
            if not bits: toks.append('')
            elif kind == 'hexstr': toks.append('0x' + format(int(bits, 2), f'0{len(bits) // 4}x'))
            elif kind == 'uint': toks.append(f'uint:{len(bits)}={int(bits, 2)}')
            elif kind == 'bin': toks.append(f'bin{len(bits)}={bits}')
            else: toks.append('0b' + bits)
        return C(', '.join(t for t in toks if t) if c['seqkind'] != 'keep_empty' else ','.join(toks)), inputs
    if how == 'pack':
        fmt, vals = [], []
        for kind, bits, route in c['items']:
            if kind == 'uint' and bits: fmt.append(f'uint:{len(bits)}'); vals.append(int(bits, 2))
            elif kind == 'bin' and bits: fmt.append(f'bin:{len(bits)}'); vals.append(bits)
            elif kind in CLASSES:
                o = build(kind, bits, route); inputs.append((o, bits)); fmt.append('bits'); vals.append(o)
            else: fmt.append('bits'); vals.append('0b' + bits if bits else bitstring.Bits())
        return bitstring.pack(', '.join(fmt), *vals), inputs
    if how == 'cut_join':
        a = opnd(0); sep = build(c['cls'], c['sep'], c['route']); inputs.append((sep, c['sep']))
        return sep.join(a.cut(c['k'])), inputs
    if how == 'slices_join':
        a = opnd(0); cuts = [0] + c['cuts'] + [len(c['items'][0][1])]
        return C().join(_seq([a[i:j] for i, j in zip(cuts, cuts[1:])], c['seqkind'])), inputs
    if how == 'nested_join':
        sep = build(c['cls'], c['sep'], c['route']); inputs.append((sep, c['sep']))
        sep2 = build(c['cls2'], c['sep2'], 'bin'); inputs.append((sep2, c['sep2']))
        ops = [opnd(i) for i in range(n)]
        inner = [sep2.join(ops[i:j]) for i, j in zip(c['groups'], c['groups'][1:])]
        return sep.join(_seq(inner, c['seqkind'])), inputs
    raise AssertionError(how)

def probe_more(x, bits, tag=''):
    """further comparisons of x (said to hold `bits`) with promotable operands and with near misses"""
    import bitstring, bitarray
    out = {}
    def rec(k, fn):
        try: out[tag + k] = fn()
        except BaseException as e:
            if isinstance(e, (KeyboardInterrupt, SystemExit, Hang)): raise
            out[tag + k] = 'exc:' + type(e).__name__
    n = len(bits)
    rec('len', lambda: len(x))
    rec('eq_list', lambda: [x == [int(ch) for ch in bits], x != [ch == '1' for ch in bits]])
    rec('eq_tuple', lambda: x == tuple(ch == '1' for ch in bits))
    rec('eq_bitarray', lambda: [x == bitarray.bitarray(bits), x != bitarray.bitarray(bits)])
    if n % 8 == 0: rec('eq_bytes', lambda: [x == (int(bits, 2).to_bytes(n // 8, 'big') if n else b''), x != (bytearray(int(bits, 2).to_bytes(n // 8, 'big')) if n else bytearray())])
    rec('eq_gen', lambda: x == (ch == '1' for ch in bits))
    near = [bits + '0', bits + '1', '0' + bits, bits[:-1], bits[1:]] if n else ['0', '1', '00000000']
    if n > 2: near += [bits[:n // 2] + _flip(bits[n // 2]) + bits[n // 2 + 1:], _flip(bits[0]) + bits[1:]]
    near = [b for b in near if b != bits]
    rec('near_misses', lambda: [[x == bitstring.Bits(bin=b), bitstring.BitArray(bin=b) == x, x != bitstring.ConstBitStream(bin=b), x == ('0b' + b if b else '')] for b in near])
    return out

def expected_more(bits, tag=''):
    n = len(bits)
    exp = {tag + 'len': n, tag + 'eq_list': [True, False], tag + 'eq_tuple': True, tag + 'eq_bitarray': [True, False], tag + 'eq_gen': True}
    if n % 8 == 0: exp[tag + 'eq_bytes'] = [True, False]
    k = len([b for b in ([bits + '0', bits + '1', '0' + bits, bits[:-1], bits[1:]] if n else ['0', '1', '00000000']) + ([1, 2] if n > 2 else []) if b != bits])
    exp[tag + 'near_misses'] = [[False, False, True, False]] * k
    return exp

def run_combine(c):
    import bitstring
    def f():
        model, mcls = combine_model(c)
        x, inputs = combine_build(c)
        out = probe_pair(x, model, 'result.')
        out.update(probe_more(x, model, 'result.'))
        out['inputs_intact'] = [o.bin == b and o == bitstring.Bits(bin=b) for o, b in inputs]
        if hasattr(x, 'pos') and len(model):
            # == does not depend on the stream position
            for p in (len(model), len(model) // 2):
                x.pos = p
                out[f'pos{p == len(model)}'] = [x == bitstring.Bits(bin=model), bitstring.ConstBitStream(bin=model) == x, x != bitstring.BitStream(bin=model, pos=1), x == ('0b' + model)]
        # the inputs are changed in place: the result is an object of its own
        changed = 0
        for o, b in inputs:
            if isinstance(o, bitstring.BitArray) and o is not x:
                o.append('0b1'); o.invert(); changed += 1
        if changed: out.update({k: v for k, v in probe_pair(x, model, 'after_inputs_changed.').items() if k.split('.')[1] in ('bin', 'eq_Bits', 'eq_BitArray', 'eq_str', 'hash_Bits', 'member_Bits')})
        # the result is changed in place: it is equal to the new content, and the (immutable) inputs are what they were
        if isinstance(x, bitstring.BitArray) and c.get('mutate_result'):
            x.prepend('0b10'); x.append('0x5')
            if len(model): x.invert(2)
            m2 = '10' + ((_flip(model[0]) + model[1:]) if model else '') + '0101'
            out.update({k: v for k, v in probe_pair(x, m2, 'result_changed.').items() if k.split('.')[1] in ('bin', 'eq_Bits', 'eq_BitStream', 'eq_str')})
            out['inputs_after_result_changed'] = [o.bin == b for o, b in inputs if not isinstance(o, bitstring.BitArray)]
        return out
    return attempt(f, secs=30)

def describe_combine(c):
    sh = lambda b: (b if len(b) <= 24 else b[:20] + f'...({len(b)} bits)')
    its = ', '.join(f"{k}:{sh(b)!r}" + (f'/{r}' if k in CLASSES and r != 'bin' else '') for k, b, r in c['items'])
    how = c['how']
    if how == 'join': return f"{c['cls']}({sh(c['sep'])!r}, route {c['route']}).join({c['seqkind']} of [{its}])"
    if how == 'add': return f"sum from the left of [{its}] with +"
    if how == 'radd': return f"[{its}] added with + from the right (the bitstring is the last operand)"
    if how in ('mul', 'rmul'): return f"{'k * x' if how == 'rmul' else 'x * k'} with k={c['k']}, x = {its}"
    if how in ('bitwise', 'rbitwise'): return f"{c['bop']} of [{its}]"
    if how == 'invert': return f"~ of {its}"
    if how == 'shift': return f"{its} {'<<' if c['bop'] == 'l' else '>>'} {c['k']}"
    if how == 'inplace': return f"{c['cls']} starting from {its.split(', ')[0]} after the in-place steps {c['steps']} with operands [{its}]"
    if how == 'tokens': return f"{c['cls']}(one string of the tokens [{its}])"
    if how == 'pack': return f"pack of the tokens [{its}]"
    if how == 'cut_join': return f"{c['cls']}({sh(c['sep'])!r}).join(x.cut({c['k']})) for x = {its}"
    if how == 'slices_join': return f"{c['cls']}().join({c['seqkind']} of the slices of x at {c['cuts']}) for x = {its}"
    if how == 'nested_join': return f"{c['cls']}({sh(c['sep'])!r}).join of {c['cls2']}({sh(c['sep2'])!r}).join over the groups {c['groups']} of [{its}]"
    return how

def oracle_combine(c, obs):
    model, mcls = combine_model(c)
    where = describe_combine(c)
    sh = model if len(model) <= 64 else model[:60] + '...'
    if obs[0] != 'ok': return f"{where}: must give a {mcls} holding {sh!r} ({len(model)} bits, computed on str); the construction / comparison raised {obs}"
    o = obs[1]
    exp = expected_probe(mcls, model, 'result.')
    exp.update(expected_more(model, 'result.'))
    for k in o:
        if k.startswith('pos'): exp[k] = [True, True, False, True]
        if k.startswith('after_inputs_changed.'): exp[k] = expected_probe(mcls, model, 'after_inputs_changed.')[k]
    if 'inputs_after_result_changed' in o or any(k.startswith('result_changed.') for k in o):
        m2 = '10' + ((_flip(model[0]) + model[1:]) if model else '') + '0101'
        e2 = expected_probe(mcls, m2, 'result_changed.')
        for k in o:
            if k.startswith('result_changed.'): exp[k] = e2[k]
        exp['inputs_after_result_changed'] = [True] * len(o.get('inputs_after_result_changed', []))
    exp['inputs_intact'] = [True] * len(o.get('inputs_intact', []))
    bad = diff_probe(o, exp)
    if bad:
        return (f"{where}: the result must be a {mcls} holding {sh!r} ({len(model)} bits; computed on str with join / + / * / character-wise operators) and compare like any other bitstring with these bits "
                f"(result.*: ==, != both ways with all four classes, hash, set / dict membership, promotable operands, near misses; pos*: after moving the position; after_inputs_changed.* / result_changed.*: "
                f"after in-place changes of the inputs / the result); (observed, expected) differ in {str(bad)[:900]}")
    return None

def gen_combine(rng, tier):
    thorough = tier != 'quick'
    SHORT = [1, 1, 1, 2, 3, 4, 7, 8, 8, 9, 15, 16, 17]
    LONG = [700, 1999, 2000, 2001, 3601]
    def ilen(): return rng.choice(LONG) if rng.random() < 0.03 else rng.choice(SHORT)
    def pattern(name=None, maxn=6):
        name = name or rng.choice(ITEM_PATTERNS)
        ne = lambda: rand_bits(rng, ilen())
        k = rng.randrange(1, 4)
        if name == 'none': return []
        if name == 'single': return [ne()]
        if name == 'single_empty': return ['']
        if name == 'all_empty': return [''] * rng.randrange(2, 5)
        if name == 'leading_empties': return [''] * k + [ne() for _ in range(rng.randrange(1, 4))]
        if name == 'trailing_empties': return [ne() for _ in range(rng.randrange(1, 4))] + [''] * k
        if name == 'middle_empties': return [ne() for _ in range(rng.randrange(1, 3))] + [''] * k + [ne() for _ in range(rng.randrange(1, 3))]
        if name == 'both_ends_empty': return [''] * k + [ne() for _ in range(rng.randrange(1, 3))] + [''] * rng.randrange(1, 3)
        if name == 'alternating':
            first = rng.random() < 0.5
            return [ne() if (i % 2 == 0) == first else '' for i in range(rng.randrange(2, maxn + 1))]
        if name == 'no_empties': return [ne() for _ in range(rng.randrange(2, maxn + 1))]
        return [ne() if rng.random() < 0.6 else '' for _ in range(rng.randrange(0, maxn + 1))]
    def kinds_for(items, only=None):
        out = []
        for b in items:
            kd = _fit_kind(rng.choice(only or ITEM_KINDS), b)
            out.append([kd, b, rng.choice(ROUTES) if kd in CLASSES and rng.random() < 0.4 else 'bin'])
        return out
    def sepbits(): return rng.choice(['', '1', '0', '01', '10', '11110000', rand_bits(rng, rng.choice([1, 2, 3, 7, 8, 9, 16])), rand_bits(rng, rng.choice([1, 5, 8]))]) if rng.random() > 0.03 else rand_bits(rng, rng.choice([700, 2001]))
    def base(how, cls, **kw):
        c = {'op': 'combine', 'how': how, 'cls': cls, 'route': 'bin', 'seqkind': 'list', 'sep': '', 'items': [], 'mutate_result': rng.random() < 0.5, 'item_pos': rng.random() < 0.4}
        c.update(kw); return c
    # 1. the small space of join: separators x up to three items out of a handful (all of it in the thorough tier, a sample otherwise)
    import itertools
    small = [(cls, sep, list(items)) for cls in CLASSES for sep in ['', '1', '01', '11110000'] for n in range(0, 4) for items in itertools.product(['', '0', '1', '0110'], repeat=n)]
    if not thorough: small = rng.sample(small, 160)
    for cls, sep, items in small:
        homog = rng.random() < 0.5
        yield base('join', cls, sep=sep, items=[['Bits', b, 'bin'] for b in items] if homog else kinds_for(items), seqkind=rng.choice(['list', 'list', 'tuple', 'gen', 'iter']))
    # 2. every way of combining x every pattern of empty / non-empty operands
    N = 420 if not thorough else 9000
    for i in range(N):
        how = COMBINE_HOWS[i % len(COMBINE_HOWS)] if i < 6 * len(COMBINE_HOWS) else rng.choice(COMBINE_HOWS)
        cls = CLASSES[(i // len(COMBINE_HOWS)) % 4] if i < 6 * len(COMBINE_HOWS) else rng.choice(CLASSES)
        pat = ITEM_PATTERNS[(i // 3) % len(ITEM_PATTERNS)] if i % 2 else None
        if how == 'join':
            yield base(how, cls, sep=sepbits(), route=rng.choice(ROUTES) if rng.random() < 0.3 else 'bin', items=kinds_for(pattern(pat)), seqkind=rng.choice(['list', 'list', 'tuple', 'gen', 'iter', 'map', 'deque']),
                       pos=rng.choice([None, None, 0]))
        elif how == 'add':
            items = pattern(pat) or ['']
            ks = kinds_for(items); ks[0] = [cls, items[0], rng.choice(ROUTES) if rng.random() < 0.3 else 'bin']
            yield base(how, cls, items=ks)
        elif how == 'radd':
            items = pattern(pat) or ['']
            ks = kinds_for(items, only=['str', 'hexstr', 'octstr', 'tokenstr', 'list', 'tuple', 'bitarray', 'bytes', 'bytearray', 'memoryview', 'gen', 'iter_truthy']); ks[-1] = [cls, items[-1], rng.choice(ROUTES) if rng.random() < 0.3 else 'bin']
            yield base(how, cls, items=ks)
        elif how in ('mul', 'rmul'):
            b = rng.choice(['', rand_bits(rng, ilen()), rand_bits(rng, rng.choice([1, 8, 9]))])
            k = rng.choice([0, 1, 2, 3, 5, 8])
            if len(b) * k > 20000: k = 2
            yield base(how, cls, items=[[cls, b, rng.choice(ROUTES) if rng.random() < 0.3 else 'bin']], k=k)
        elif how in ('bitwise', 'rbitwise'):
            n = rng.choice([1, 2, 7, 8, 9, 16, 17, 64, 2001])
            a, b = rand_bits(rng, n), rand_bits(rng, n)
            other = _fit_kind(rng.choice(ITEM_KINDS if how == 'bitwise' else ['str', 'hexstr', 'list', 'tuple', 'bytes', 'gen']), b)
            if how == 'rbitwise' and other in ('bitarray', 'frozenbitarray'): other = 'list'          # a bitarray as the LEFT operand of & | ^ answers itself (bitarray's business, like a numpy scalar's ==)
            ks = [[cls, a, rng.choice(ROUTES) if rng.random() < 0.3 else 'bin'], [other, b, 'bin']]
            yield base(how, cls, items=ks if how == 'bitwise' else ks[::-1], bop=rng.choice(['and', 'or', 'xor']))
        elif how == 'invert':
            yield base(how, cls, items=[[cls, rand_bits(rng, rng.choice(SHORT + [64, 2001])), rng.choice(ROUTES) if rng.random() < 0.3 else 'bin']])
        elif how == 'shift':
            n = rng.choice(SHORT + [64, 2001])
            yield base(how, cls, items=[[cls, rand_bits(rng, n), rng.choice(ROUTES) if rng.random() < 0.3 else 'bin']], k=rng.choice([0, 1, 2, 7, 8, n - 1, n, n + 3]), bop=rng.choice('lr'))
        elif how == 'inplace':
            cls = rng.choice(MUTABLE)
            items = pattern(pat, maxn=5) or ['']
            steps = []; cur = len(items[0]); its = [items[0]]
            for b in items[1:]:
                st = rng.choice(['iadd', 'append', 'prepend', 'insert', 'imul'])
                if st == 'imul':
                    k = rng.choice([0, 1, 2, 3]) if cur < 3000 else 1
                    steps.append(['imul', k]); its.append(''); cur *= k
                elif st == 'insert': steps.append(['insert', rng.randrange(0, cur + 1)]); its.append(b); cur += len(b)
                else: steps.append([st, None]); its.append(b); cur += len(b)
            ks = kinds_for(its); ks[0] = [cls, its[0], rng.choice(ROUTES) if rng.random() < 0.3 else 'bin']
            yield base(how, cls, items=ks, steps=steps)
        elif how == 'tokens':
            items = pattern(pat)
            if not any(items) and rng.random() < 0.7: items = items + [rand_bits(rng, 3)]
            yield base(how, cls, items=[[_fit_kind(rng.choice(['str', 'hexstr', 'uint', 'bin']), b), b, 'bin'] for b in items], seqkind=rng.choice(['list', 'list', 'keep_empty']))
        elif how == 'pack':
            items = pattern(pat)
            yield base(how, 'BitStream', items=[[rng.choice(CLASSES + ['str', 'uint', 'bin']), b, rng.choice(ROUTES) if rng.random() < 0.2 else 'bin'] for b in items])
        elif how == 'cut_join':
            k = rng.choice([1, 2, 3, 8, 9])
            a = rand_bits(rng, rng.choice([0, 1, k - 1, k, k + 1, 2 * k, 3 * k + 1, 5 * k, 64]))
            yield base(how, cls, items=[[rng.choice(CLASSES), a, rng.choice(ROUTES) if rng.random() < 0.3 else 'bin']], k=k, sep=sepbits(), route='bin')
        elif how == 'slices_join':
            n = rng.choice([0, 1, 2, 8, 9, 17, 64, 2001])
            cuts = sorted(rng.choice([0, n, rng.randrange(0, n + 1), rng.randrange(0, n + 1)]) for _ in range(rng.randrange(0, 5)))
            yield base(how, cls, items=[[rng.choice(CLASSES), rand_bits(rng, n), rng.choice(ROUTES) if rng.random() < 0.3 else 'bin']], cuts=cuts, seqkind=rng.choice(['list', 'tuple', 'gen']))
        elif how == 'nested_join':
            items = pattern(pat)
            cutp = sorted(rng.randrange(0, len(items) + 1) for _ in range(rng.randrange(0, 4)))
            yield base(how, cls, items=kinds_for(items), groups=[0] + cutp + [len(items)], sep=sepbits(), sep2=sepbits(), cls2=rng.choice(CLASSES), seqkind=rng.choice(['list', 'gen']))

def kind(c): return c['op'] if c['op'] != 'combine' else 'combine:' + c['how']

def mk_other(c):
    k = c['other']
    if k in CLASSES: return build(k, c['b'], c['rb'], c['pb'])
    if k in ('str', 'list', 'bitarray', 'bytes') or k in ITERATOR_KINDS: return promotable(c['b'], k)
    return {'int': 5, 'float': 1.5, 'none': None, 'object': object(), 'dict': {1: 2}}[k]

def run_optpair(c):
    import bitstring
    C = getattr(bitstring, c['cls'])
    tok = f"{c['fmt']}={c['v']!r}"
    out = []
    try:
        for mode in (['saturate', 'overflow', 'saturate'] if c['first'] else ['overflow', 'saturate', 'overflow']):
            bitstring.options.mxfp_overflow = mode
            x = C(**{c['fmt']: c['v']})
            r = {'mode': mode, 'eq': x == tok, 'ne': x != tok, 'req': C(tok) == x}
            if c['cls'] in ('Bits', 'ConstBitStream'): r['hash'] = hash(x) == hash(C(tok)); r['in_set'] = C(tok) in {x}
            out.append(r)
    finally:
        bitstring.options.mxfp_overflow = 'saturate'
    return ('ok', out)

def run_impl(c):
    if c['op'] == 'optpair': return run_optpair(c)
    if c['op'] == 'odd': return run_odd(c)
    if c['op'] == 'derive': return run_derive(c)
    if c['op'] == 'xproc': return run_xproc(c)
    if c['op'] == 'combine': return run_combine(c)
    import bitstring
    if c['op'] == 'triple':
        def f():
            b = c['a'] if c['same'] else (c['a'] + '1')
            x, y, z = (build(cl, bb, r) for cl, bb, r in zip(c['cs'], [c['a'], c['a'], b], c['rs']))
            return [x == y, y == z, x == z, x == x, (y == x), (x != y)]
        return attempt(f)
    captured = []
    real_hash = hash
    def spy(t):
        captured.append(t); return real_hash(t)
    def f():
        x = build(c['ca'], c['a'], c['ra'], c['pa'])
        if c['other'] == 'str' and c['b']:
            # the same literal has been used before - handed to pack, added to empty objects, given to mutable objects that were then edited in place:
            # what a string means as an operand of == must not depend on that
            from bitstring import pack, BitArray, BitStream
            lit = promotable(c['b'], 'str')
            def setbits():
                t = BitArray(); t.bits = lit; return t
            for mk in (lambda: pack('bits', lit), lambda: lit + BitArray(), lambda: BitStream() + lit, lambda: BitArray(lit), lambda: BitStream(lit), setbits, lambda: BitArray().join([lit])):
                try:
                    r = mk(); r.invert(); r.append('0b1'); r.prepend('0b0')
                except Exception: pass
        y = mk_other(c)
        out = {'eq': x == y, 'ne': x != (mk_other(c) if c['other'] in ITERATOR_KINDS else y)}      # a one-shot iterator serves one comparison
        if c['other'] in CLASSES:
            out['req'] = (y == x)
        bitstring.bits.hash = spy
        try:
            for name, o in (('hx', x), ('hy', y)):
                if isinstance(o, bitstring.Bits):
                    try:
                        captured.clear(); h = hash(o); out[name] = h
                        t = captured[-1]; out[name + '_in'] = [list(t[0]), t[1]]
                    except TypeError:
                        out[name] = 'unhashable'
        finally:
            del bitstring.bits.hash
        # the hash of an (immutable) object does not depend on the bit numbering in force when it is taken
        if out.get('hx') not in (None, 'unhashable'):
            bitstring.options.lsb0 = True
            try: out['hx_lsb0'] = hash(x); out['eq_lsb0'] = (x == y) if not (c['other'] in ITERATOR_KINDS) else None
            finally: bitstring.options.lsb0 = False
        if out.get('hx') not in (None, 'unhashable') and out.get('hy') not in (None, 'unhashable'):
            out['in_set'] = y in {x}
            out['dict'] = {x: 1}.get(y)
        return out
    return attempt(f)

def diff_probe(got, exp):
    return {k: (got.get(k), exp[k]) for k in exp if got.get(k) != exp[k]}

def oracle_new(c, obs):
    if c['op'] == 'odd':
        where = f"{c['ca']}({len(c['a'])} bits, route {c['ra']}, pos {c['pa']}{', lsb0' if c['lsb0'] else ''}) compared with the non-promotable operand {c['operand']}"
        if obs[0] != 'ok': return f"{where}: {obs}"
        o = obs[1]
        exp = {'eq': False, 'ne': True, 'in_list': False, 'count': 0, 'req': False, 'rne': True, 'rin_list': False, 'tuple_eq': False, 'eq_again': False, 'self_eq': [True, False, True]}
        bad = {k: v for k, v in o.items() if v != exp[k]}
        if bad: return f"{where}: == must be False and != True without an exception (eq/ne: as written, req/rne: operands swapped, in_list/count/tuple_eq: through containers); got {bad}"
        return None
    if c['op'] == 'derive':
        where = f"{c['cls']}({len(c['bits'])} bits, route {c['route']}, pos {c['pos']}) with history {c['pre']}, then {c['how']} (then {c['post']})"
        if obs[0] != 'ok': return f"{where}: {obs}"
        o = obs[1]
        dbits = ref_derived(c['bits'], c['how'])
        exp = expected_probe(derived_class(c['cls'], c['how']), dbits, 'derived.')
        exp.update(expected_probe(c['cls'], c['bits'], 'source.'))
        exp['hash_unchanged'] = True
        same = dbits == c['bits']
        exp['derived_eq_source'] = [same, same, not same]
        bad = diff_probe(o, exp)
        if bad: return f"{where}: the derived object must behave as a fresh bitstring holding {dbits[:40]}{'...' if len(dbits) > 40 else ''} ({len(dbits)} bits) and the source as before; (observed, expected) differ in {bad}"
        return None
    if c['op'] == 'xproc':
        where = f"{len(c['objs'])} objects pickled (protocol {c['protocol']}) by an interpreter with PYTHONHASHSEED={c['writer_seed']}{' under lsb0' if c.get('writer_lsb0') else ''}, loaded by {'this process' if c['reader'] == 'main' else 'an interpreter with PYTHONHASHSEED=' + str(c['reader_seed'])}"
        if obs[0] != 'ok': return f"{where}: {obs}"
        o = obs[1]
        ntab = sum(1 for s in c['objs'] if s['cls'] in ('Bits', 'ConstBitStream') and s['in_table'])
        if [o['n'], o['table_len'], o['members_len'], o['frozen_len']] != [len(c['objs']), ntab, ntab, ntab]:
            return f"{where}: the unpickled containers hold {[o['n'], o['table_len'], o['members_len'], o['frozen_len']]} entries, expected {[len(c['objs']), ntab, ntab, ntab]}"
        for i, (spec, r) in enumerate(zip(c['objs'], o['objs'])):
            exp = expected_probe(spec['cls'], spec['bits'])
            exp['pair_same'] = True
            if spec['cls'] in ('Bits', 'ConstBitStream') and spec['in_table']: exp['lookup'] = {cn: [True] * 8 for cn in ('Bits', 'ConstBitStream')}
            bad = diff_probe(r, exp)
            if bad:
                return (f"{where}: object {i} = {spec['cls']}({len(spec['bits'])} bits, route {spec['route']}, history before pickling {spec['pre']}) compared with freshly built equal bitstrings "
                        f"(eq_*: ==/!= both ways, hash_*: equal hashes, member_*: set / dict interchange, lookup: fresh keys in the unpickled dict / set / frozenset): (observed, expected) differ in {bad}")
        return None

def oracle(c, obs):
    if c['op'] in ('odd', 'derive', 'xproc'): return oracle_new(c, obs)
    if c['op'] == 'combine': return oracle_combine(c, obs)
    if obs[0] != 'ok': return f"{c} raised {obs}"
    if c['op'] == 'optpair':
        for r in obs[1]:
            if not (r['eq'] and not r['ne'] and r['req'] and r.get('hash', True) and r.get('in_set', True)):
                return f"{c['cls']}({c['fmt']}={c['v']}) compared with the token string '{c['fmt']}={c['v']!r}' under mxfp_overflow={r['mode']} (sequence {[x['mode'] for x in obs[1]]}): {r}"
        return None
    if c['op'] == 'triple':
        s = c['same']
        exp = [True, s, s, True, True, False]
        return None if obs[1] == exp else f"triple {c['cs']} same={s}: got {obs[1]}, expected {exp}"
    o = obs[1]
    promot = c['other'] in CLASSES + ['str', 'list', 'bitarray', 'bytes'] + ITERATOR_KINDS
    eq = promot and c['a'] == c['b']
    if c['other'] == 'dict':  # a dict is an iterable (of its keys): promotable
        return None
    where = f"{c['ca']}({len(c['a'])} bits, route {c['ra']}, pos {c['pa']}) vs {c['other']}({len(c['b'])} bits, route {c['rb']})"
    if o['eq'] != eq or o['ne'] != (not eq): return f"{where}: == gave {o['eq']}, != gave {o['ne']}; contents equal: {eq}"
    if 'req' in o and o['req'] != eq: return f"{where}: reflected == gave {o['req']}"
    if 'hx_lsb0' in o and o['hx_lsb0'] != o['hx']: return f"{where}: hash() of the same object is {o['hx']} under msb0 and {o['hx_lsb0']} under lsb0"
    if o.get('eq_lsb0') is not None and o['eq_lsb0'] != eq: return f"{where}: == gave {o['eq_lsb0']} under lsb0"
    mut = lambda k: k in MUTABLE
    if mut(c['ca']) != (o.get('hx') == 'unhashable'): return f"{where}: hashability of {c['ca']} wrong: {o.get('hx')}"
    if c['other'] in CLASSES and mut(c['other']) != (o.get('hy') == 'unhashable'): return f"{where}: hashability of {c['other']} wrong"
    if eq and 'in_set' in o:
        if o['hx'] != o['hy']: return f"{where}: equal bitstrings have different hashes"
        if not o['in_set'] or o['dict'] != 1: return f"{where}: equal bitstring not found in set/dict"
    return None

def nontrivial(c, obs): return len(c.get('a', c.get('bits', 'x'))) > 0 if c['op'] != 'combine' else len(combine_model(c)[0]) > 0

def classify(c, obs): return None

def coq_check(c, obs):
    if c['op'] != 'pair' or obs[0] != 'ok': return None
    o = obs[1]; terms = []
    if c['other'] in CLASSES:
        terms.append(f"Bool.eqb (bs_eq (mkstore {cbits(c['a'])} None) (mkstore {cbits(c['b'])} None)) {cbool(o['eq'])}")
    if 'hx_in' in o and len(c['a']) <= 4000:
        terms.append(f"pair_eqb zlist_eqb Z.eqb (hash_input {cbits(c['a'])}) ({clist(o['hx_in'][0], cz)}, {cz(o['hx_in'][1])})")
    return ' && '.join('(' + t + ')' for t in terms) if terms else None

def search(seeds, rng):
    for c in list(seeds) + list(gen_cases(rng, 'thorough'))[:5000]:
        try: obs = run_impl(c)
        finally: reset_options()
        msg = oracle(c, obs)
        if msg: return c, obs, msg
    return None
