"""C14 — Array behaves as a list of fixed-width items over one contiguous bit buffer."""
from vlib import *
from props.common import *
import operator, math, struct, copy as _copy

ID = 'C14'
COQ_PROPS = ['Props/C14.v']
COQ_IMPORTS = ['Prims', 'CaseLib', 'BitsCore', 'Mutators', 'ArrayM', 'ArrayOps', 'ArrayCases']
RULE = ('programs of 1..14 list operations (len, index, slice with any step, item and slice assignment, deletion, append, extend, insert, pop, reverse, count, tolist, iteration, equals, copy, '
        'dtype change) and element-wise operators (arithmetic, shifts, bitwise, comparisons, in-place forms, between Arrays with promotion) on Arrays of uint/int of various widths, le/be/ne, hex, bin, oct, '
        'bool, float16/32/64, 8-bit floats, bytesN and struct codes, with and without trailing bits; a Python list + per-item encoder is the reference; a.tolist(), len, a.data.bin and trailing_bits '
        'compared after every step. non-trivial = program containing a mutation; distinct by program')
ASSUMPTIONS = ['items are compared through their encodings (floats via struct bytes)', 'reverse/append/extend/fromfile refuse trailing bits by documented design']

DTYPES = ['uint8', 'uint5', 'int7', 'uint12', 'int16', 'uintle16', 'intbe24', 'uintne32', 'hex4', 'hex8', 'bin3', 'oct6', 'bool', 'float16', 'float32', 'floatle64', 'bfloat',
          'p4binary', 'e4m3mxfp', 'e2m1mxfp', 'mxint', 'bytes1', 'bytes3', '>h', '<H', '=B', '>f', 'bits5']

def dtype_info(d):
    from bitstring import Dtype, Array
    if str(d).startswith('Dtype('): return '', 0          # the str() of a scaled dtype: no rule of the oracle applies to those
    a = Array(d)
    return a.dtype.name, a.dtype.bitlength

def rand_item(rng, d):
    name, w = dtype_info(d)
    if name.startswith('uint'): return rng.choice([0, 1, (1 << w) - 1, rng.randrange(1 << w)])
    if name.startswith('int'): return rng.choice([0, -1, (1 << (w - 1)) - 1, -(1 << (w - 1)), rng.randrange(-(1 << (w - 1)), 1 << (w - 1))])
    if name == 'hex': return ''.join(rng.choice('0123456789abcdef') for _ in range(w // 4))
    if name == 'bin': return ''.join(rng.choice('01') for _ in range(w))
    if name == 'oct': return ''.join(rng.choice('01234567') for _ in range(w // 3))
    if name == 'bool': return rng.random() < 0.5
    if name == 'bytes': return {'b': [rng.randrange(256) for _ in range(w // 8)]}
    if name == 'bits': return {'bits': ''.join(rng.choice('01') for _ in range(w))}
    return rng.choice([0.0, 1.0, -1.5, 0.25, 2.0, 3.0, -0.5, -0.0, 0.0, -0.0])

def gen_step(rng, d, n):
    op = rng.choice(['getitem', 'getslice', 'setitem', 'setslice', 'delitem', 'delslice', 'append', 'extend', 'insert', 'pop', 'reverse', 'count', 'copy', 'iter', 'equals', 'astype', 'scalar_op', 'array_op', 'inplace_op', 'byteswap'])
    s = {'op': op}
    idx = lambda: rng.choice([0, -1, n - 1, n, -n, -n - 1, rng.randrange(-n - 2, n + 3)])
    sl = lambda: [rng.choice([None, idx()]), rng.choice([None, idx()]), rng.choice([None, None, 1, 2, -1, -2, 3])]
    if op in ('getitem', 'delitem', 'pop'): s['i'] = idx()
    if op in ('getslice', 'delslice'): s['k'] = sl()
    if op == 'setitem': s.update(i=idx(), v=rand_item(rng, d))
    if op == 'setslice':
        s.update(k=sl(), vs=[rand_item(rng, d) for _ in range(rng.randrange(0, 4))])
        if rng.random() < 0.3: s['operand'] = rng.choice(['array', 'array_trailing', 'tuple', 'generator'])      # the values given as another Array (also one with trailing bits), a tuple, a generator
    if op == 'append': s['v'] = rand_item(rng, d)
    if op == 'extend':
        s['vs'] = [rand_item(rng, d) for _ in range(rng.randrange(0, 4))]
        if rng.random() < 0.15: s['as_array'] = rng.choice([2, 4])
    if op in ('extend', 'setslice') and rng.random() < 0.22 and not s.get('as_array'):
        # the values given as a bytes-like object (bytes, bytearray, memoryview of every item kind): an ordinary iterable of ints (floats, bools)
        s['operand'], s['vs'] = buf_operand(rng, d, op, len(s['vs']) if rng.random() < 0.6 else rng.randrange(0, 5))
    if op == 'insert': s.update(i=idx(), v=rand_item(rng, d))
    if op == 'count': s['v'] = rand_item(rng, d)
    if op == 'astype': s['d'] = rng.choice(['uint8', 'int16', 'hex4', 'float16'] * 2 + REFUSED_DTYPES)
    if op in ('scalar_op', 'inplace_op'): s.update(f=rng.choice(['add', 'sub', 'mul', 'floordiv', 'truediv', 'mod', 'lshift', 'rshift', 'and', 'or', 'xor', 'lt', 'eq', 'neg', 'abs', 'radd', 'rsub', 'rsub', 'rmul']), x=rng.choice([0, 1, 2, 3, -1, 0.5, 7, 255, 256, 300]))
    if op == 'array_op': s.update(f=rng.choice(['add', 'sub', 'mul', 'lt', 'eq']), d2=rng.choice(['uint8', 'int16', 'float16', 'uint5', 'int7', 'float32']), same_len=rng.random() < 0.85)
    return s

def gen_cases(rng, tier):
    N = 240 if tier == 'quick' else 4000
    yield from gen_equals(rng, tier)
    # documented type promotion of element-wise operators between two Arrays, for every pair of dtypes
    for d1 in PROMO:
        for d2 in PROMO:
            if tier == 'quick' and rng.random() < 0.7: continue
            yield {'op': 'promote', 'd1': d1, 'd2': d2, 'f': rng.choice(['mul', 'mul', 'add', 'sub'])}
    # scaled dtypes in equals() and with array.array operands (D68, D69): two Arrays holding the same codes under different scales have different items;
    # an array.array given to a scaled Array (constructor / extend) contributes its VALUES, like a list
    for _ in range(40 if tier == 'quick' else 600):
        nm, code = rng.choice([('uint8', 'B'), ('int8', 'b'), ('uintne16', 'H'), ('intne16', 'h'), ('uintne32', 'I'), ('intne32', 'i'), ('floatne32', 'f'), ('floatne64', 'd')])
        fl = nm.startswith('float')
        ks = [rng.randrange(0, 8 if nm.endswith('8') else 20) for _ in range(rng.randrange(0, 4))]
        yield {'op': 'scaled', 'name': nm, 'code': code, 's1': rng.choice([None, 2, 4, 0.5, 2.0]), 's2': rng.choice([None, 2, 4, 0.5, 2.0]), 'ks': [float(k) for k in ks] if fl else ks,
               'how': rng.choice(['equals', 'equals', 'init_array', 'extend_array'])}
    # ... and for dtypes that differ only in their scale (same name and length: "a tie goes to the first", D62), or in scale and something else
    for d1, d2 in (('uint8', 'uint8'), ('int16', 'int16'), ('float16', 'float16'), ('uint8', 'uintbe8'), ('uint8', 'int8'), ('uint16', 'uint8'), ('float32', 'int16'), ('e4m3mxfp', 'e4m3mxfp')):
        for s1, s2 in ((2, 4), (4, 2), (None, 2), (2, None), (2, 2)):
            yield {'op': 'promote', 'd1': d1, 'd2': d2, 's1': s1, 's2': s2, 'f': rng.choice(['add', 'sub'])}
    # every element-wise operator on every float dtype, on items that include both zeros (the sign of a zero result is part of the value)
    for d in ('float16', 'float32', 'float64', 'floatle32', 'bfloat', 'p4binary', 'e4m3mxfp', 'e5m2mxfp', 'e2m1mxfp'):
        for f, x in (('neg', 0), ('abs', 0), ('add', 0.0), ('add', -0.0), ('sub', 0.0), ('mul', -1.0), ('mul', 1.0), ('rsub', 0.0), ('rsub', -0.0), ('radd', -0.0), ('rmul', -1.0), ('mul', 0.0), ('mul', -0.0)):
            if tier == 'quick' and rng.random() < 0.5: continue
            yield {'op': 'program', 'dtype': d, 'items': [0.0, -0.0, 1.5, -2.0, 0.0], 'trail': '', 'steps': [{'op': 'scalar_op', 'f': f, 'x': x}], 'seed': 1}
    # the same programs under options.lsb0: an Array is the same list of items in both bit numberings
    for _ in range(N // 4):
        d = rng.choice(DTYPES)
        n = rng.randrange(0, 7)
        yield {'op': 'program', 'dtype': d, 'items': [rand_item(rng, d) for _ in range(n)], 'trail': '', 'lsb0': True,
               'steps': [gen_step(rng, d, n) for _ in range(rng.randrange(1, 8))], 'seed': rng.randrange(1 << 30)}
    # element-wise operator programs on int items (each step is also evaluated on the loop models of ArrayOps.v): results at and over the limits of
    # the item width, zero divisors, negative shifts, operands of other int dtypes (promotion), trailing bits (dropped by the pure forms)
    for _ in range(N // 3):
        d = rng.choice(['uint8', 'int8', 'uint5', 'int7', 'int16', 'uint16', 'uint3', 'int4', 'uint12'])
        n = rng.randrange(0, 6)
        def estep():
            o = rng.choice(['scalar_op', 'scalar_op', 'inplace_op', 'array_op'])
            if o == 'array_op': return {'op': o, 'f': rng.choice(['add', 'sub', 'mul', 'lt', 'eq']), 'd2': rng.choice(['uint8', 'int16', 'uint5', 'int7', 'int8', 'uint16']), 'same_len': rng.random() < 0.85}
            f = rng.choice(['add', 'sub', 'mul', 'floordiv', 'mod', 'lshift', 'rshift', 'lt', 'eq', 'neg', 'abs', 'radd', 'rsub', 'rmul'] if o == 'scalar_op' else ['add', 'sub', 'mul', 'floordiv', 'mod', 'lshift', 'rshift'])
            return {'op': o, 'f': f, 'x': rng.choice([0, 1, 2, 3, -1, -2, 7, 8, 127, 128, 255, 256, -128, -129, 300, rng.randrange(-40, 40)])}
        yield {'op': 'program', 'dtype': d, 'items': [rand_item(rng, d) for _ in range(n)], 'trail': rand_bits(rng, rng.choice([0, 0, 1, 2])),
               'steps': [estep() for _ in range(rng.randrange(1, 5))], 'seed': rng.randrange(1 << 30)}
    for _ in range(N):
        d = rng.choice(DTYPES)
        n = rng.randrange(0, 7)
        yield {'op': 'program', 'dtype': d, 'items': [rand_item(rng, d) for _ in range(n)], 'trail': rand_bits(rng, rng.choice([0, 0, 0, 1, 2, 3])),
               'steps': [gen_step(rng, d, n) for _ in range(rng.randrange(1, 15))], 'seed': rng.randrange(1 << 30)}
    # bytes-like operands: extend / slice assignment (any step) take them as iterables of ints, one item per value, for EVERY dtype (the list model decides what fits);
    # as an initializer they are raw data (doc/array.rst). Programs, so that the same Array meets lists and buffers in turn; both bit numberings; trailing bits.
    for _ in range(N // 3):
        d = rng.choice(BUF_DTYPES) if rng.random() < 0.85 else rng.choice(DTYPES)
        n = rng.randrange(0, 6)
        def bstep():
            o = rng.choice(['extend', 'extend', 'setslice', 'setslice', 'setslice', 'append', 'pop', 'reverse', 'getslice', 'astype'])
            st = gen_step(rng, d, n)
            while st['op'] != o: st = gen_step(rng, d, n)
            if o in ('extend', 'setslice') and not str(st.get('operand', '')).startswith('buf:'):
                st.pop('as_array', None)
                if o == 'setslice' and rng.random() < 0.5:
                    k = st['k']; m = len(range(*slice(k[0], k[1], k[2] or 1).indices(n)))          # as many values as the slice has positions (needed for extended slices)
                else: m = rng.randrange(0, 5)
                st['operand'], st['vs'] = buf_operand(rng, d, o, m)
            return st
        yield {'op': 'program', 'dtype': d, 'items': [rand_item(rng, d) for _ in range(n)], 'trail': rand_bits(rng, rng.choice([0, 0, 0, 0, 1, 2])), 'lsb0': rng.random() < 0.2,
               'steps': [bstep() for _ in range(rng.randrange(1, 6))], 'seed': rng.randrange(1 << 30)}
    # ... and a grid: every kind of object x every class of dtype (8 bits signed / unsigned / float / not a number, narrower, wider, little-endian, floats, bool, struct codes) x
    # extend / slice assignment / extended slice assignment, as the only step of the program
    dclasses = [['int8', '=b'], ['uint8', '=B'], ['p4binary', 'e4m3mxfp', 'e5m2mxfp', 'mxint', 'p3binary'], ['hex8', 'bytes1', 'bin8', 'bits8'], ['uint5', 'int7', 'uint3', 'e2m1mxfp', 'e3m2mxfp', 'oct6', 'hex4'],
                ['uint12', 'int16', 'uint16', 'intbe24', 'uint32', 'int64', '>h'], ['uintle16', 'intle32', 'uintne32', '<H'], ['float16', 'float32', 'floatle64', 'bfloat', '>f', '<d'], ['bool']]
    for kind in BUF_BYTE_KINDS + BUF_ITEM_KINDS + ['bits:' + k for k in BUF_BITS_KINDS] + BUF_ARRAY_KINDS:
        for dc in dclasses:
            for o in ('extend', 'setslice', 'extslice'):
                if tier == 'quick' and rng.random() < 0.55: continue
                if kind in BUF_ARRAY_KINDS and o == 'extend': continue
                d = rng.choice(dc); n = rng.randrange(0, 5)
                items = [rand_item(rng, d) for _ in range(n)]
                if o == 'extend': st = {'op': 'extend', 'vs': None}; m = rng.randrange(1, 5)
                elif o == 'setslice': a_ = rng.randrange(0, n + 1); st = {'op': 'setslice', 'k': [a_, rng.randrange(a_, n + 1), None]}; m = rng.randrange(0, 4)
                else:
                    step = rng.choice([2, -1, -2, 3]); st = {'op': 'setslice', 'k': [None, None, step]}; m = len(range(*slice(None, None, step).indices(n)))
                st['operand'], st['vs'] = buf_operand(rng, d, 'setslice' if kind in BUF_ARRAY_KINDS else o, m, kind=kind)
                yield {'op': 'program', 'dtype': d, 'items': items, 'trail': rand_bits(rng, min(dtype_info(d)[1] - 1, rng.choice([0, 0, 0, 1]))) if o != 'extend' else '', 'steps': [st], 'seed': 1}
    for _ in range(N // 6):
        d = rng.choice(BUF_DTYPES + DTYPES)
        kind, vs = buf_operand(rng, d, 'init', rng.randrange(0, 7))
        lsb0 = rng.random() < 0.2          # (trailing bits are attached at the other end of the data under lsb0: no trailing bits there)
        if kind.startswith('buf:bits:'): lsb0 = False
        yield {'op': 'bufinit', 'dtype': d, 'buf': kind[4:], 'vs': vs, 'trail': '' if lsb0 else rand_bits(rng, rng.choice([0, 0, 1, 3])), 'lsb0': lsb0}
    # every arithmetic / shift operator between two Arrays, pure and augmented, for every promotion outcome (left wins, right wins, tie, refused), with results that fit
    # and that do not, zero divisors, negative shifts, different lengths, the Array itself as right operand: the name bound afterwards is an Array of the promoted dtype
    # holding op(x, y) item by item; on failure both operands are as before. Comparisons give a bool Array.
    pairs = [(d1, d2) for d1 in PROMO for d2 in PROMO]
    # a grid, so that no run misses a stratum: every operator x every promotion outcome x (results that fit | only the last item fails), augmented form (and the pure form now and then)
    strata = {'same int': [(d, d) for d in ('uint8', 'int8', 'uint16', 'int16', 'uint5', 'int7', 'uintle16', 'int32')], 'same float': [(d, d) for d in ('float16', 'float32', 'float64', 'bfloat', 'floatle32')],
              'left int': [('int16', 'uint8'), ('uint16', 'uint8'), ('int8', 'uint16'), ('int32', 'int8'), ('uint12', 'uint5'), ('int7', 'uint5'), ('int16', 'intle16')],
              'right int': [('uint8', 'int16'), ('uint8', 'uint16'), ('uint16', 'int8'), ('int8', 'int32'), ('uint5', 'uint12'), ('uint5', 'int7'), ('uintle16', 'int32')],
              # the winner has the same item size as the loser: only the interpretation of the bits changes
              'left int same size': [('int8', 'uint8'), ('int16', 'uint16'), ('int16', 'uintle16'), ('int7', 'uint7'), ('uint16', 'uintle16'), ('int32', 'uint32')],
              'right int same size': [('uint8', 'int8'), ('uint16', 'int16'), ('uintle16', 'int16'), ('uint7', 'int7'), ('uint32', 'int32'), ('uint12', 'int12')],
              'left float': [('float32', 'uint8'), ('float16', 'int32'), ('float64', 'float32'), ('float32', 'float16'), ('bfloat', 'int8'), ('floatle32', 'int8')],
              'right float': [('uint8', 'float32'), ('int32', 'float16'), ('float32', 'float64'), ('float16', 'float32'), ('int8', 'bfloat'), ('uint5', 'float16'), ('int8', 'floatle32'), ('bool', 'float16')],
              'left float same size': [('float16', 'uint16'), ('float32', 'int32'), ('bfloat', 'int16'), ('float16', 'bfloat'), ('float32', 'floatle32'), ('e4m3mxfp', 'uint8'), ('float64', 'int64')],
              'right float same size': [('uint16', 'float16'), ('int32', 'float32'), ('int16', 'bfloat'), ('uint8', 'e4m3mxfp'), ('int8', 'p4binary'), ('uint64', 'float64'), ('uintle32', 'float32')]}
    for f in BETWEEN_ARITH:
        for name_, ps in strata.items():
            for mode in ('fit', 'late'):
                if mode == 'late' and 'float' in name_: continue
                for rep in range((2 if mode == 'late' else 1) if tier == 'quick' else 6):
                    d1, d2 = rng.choice(ps)
                    yield between_case(rng, d1, d2, f, inplace=True, mode=mode)
                    if rng.random() < 0.3: yield between_case(rng, d1, d2, f, inplace=False, mode=mode)
    if tier != 'quick':
        for d1, d2 in pairs:
            for f in BETWEEN_ARITH:
                yield between_case(rng, d1, d2, f, inplace=True)
                if rng.random() < 0.5: yield between_case(rng, d1, d2, f, inplace=False)
    for _ in range(N * 5 // 4):
        d1, d2 = rng.choice(pairs) if rng.random() < 0.55 else (rng.choice(BETWEEN_NUM), rng.choice(BETWEEN_NUM))
        if rng.random() < 0.15: d2 = d1          # the same dtype on both sides (no promotion: the place for a genuinely in-place implementation)
        r = rng.random()
        yield between_case(rng, d1, d2, rng.choice(BETWEEN_ARITH) if r < 0.85 else rng.choice(BETWEEN_CMP), inplace=r < 0.55)

PROMO = ['uint8', 'uint5', 'int7', 'int16', 'uint16', 'int8', 'float16', 'float32', 'float64', 'bfloat', 'e4m3mxfp', 'e5m2mxfp', 'e3m2mxfp', 'e2m3mxfp', 'e2m1mxfp', 'e8m0mxfp', 'mxint',
         'p4binary', 'p3binary', 'bool', 'uintle16', 'intbe16', 'hex4', 'bytes1']

# ---- equals() with every kind of operand ---------------------------------------------------------------------------------------------------------
# a.equals(array.array): True exactly when the Array has no trailing bits, the item widths are the same and the two LISTS of items are equal - whatever the
# byte order / layout of the Array's dtype (an array.array holds native items; the Array's data need not look like them), for every typecode against every
# dtype: other endianness, other width with equal small values, items whose bytes coincide although the values differ (byte-swapped values, two's complement
# readings, the same bytes at another item width), zeros of either sign (equal as items), one item off at any position, one item more or fewer.
# a.equals(Array): the same dtype and the same items -> True; another dtype -> False even when the data or the lists are the same.
# Anything else (tuple, bytes, bitstrings, memoryviews, numbers, None) is not equal to an Array.
# The Arrays are made through several routes (list, raw bytes, dtype change, item by item, a slice of a longer one, repaired after a mutation, a copy).
# The reference is the pair of plain Python lists in the case and the tables below; where the documentation and the list model can be read differently
# (nan against nan, a typecode of another number kind holding == values, 0.0 against -0.0 between two Arrays, 'uint16' against 'uintbe16') nothing is demanded.
import sys as _sys
_NAT = 'le' if _sys.byteorder == 'little' else 'be'
# dtype -> (kind, byte order, bits). 'plain' = the bit-wise big-endian types without a byte order in their name
EQ_DTYPES = {'uint8': ('u', 'plain', 8), 'u8': ('u', 'plain', 8), 'int8': ('i', 'plain', 8), '=B': ('u', 'plain', 8), '>b': ('i', 'plain', 8),
             'uint16': ('u', 'plain', 16), 'int16': ('i', 'plain', 16), 'uint32': ('u', 'plain', 32), 'int32': ('i', 'plain', 32), 'uint64': ('u', 'plain', 64), 'int64': ('i', 'plain', 64),
             'uintbe16': ('u', 'be', 16), 'intbe16': ('i', 'be', 16), 'uintbe32': ('u', 'be', 32), 'intbe64': ('i', 'be', 64), 'uintle16': ('u', 'le', 16), 'intle16': ('i', 'le', 16),
             'uintle32': ('u', 'le', 32), 'intle32': ('i', 'le', 32), 'uintle64': ('u', 'le', 64), 'intle64': ('i', 'le', 64), 'uintne16': ('u', _NAT, 16), 'intne32': ('i', _NAT, 32), 'uintne64': ('u', _NAT, 64),
             '>H': ('u', 'be', 16), '<H': ('u', 'le', 16), '=H': ('u', _NAT, 16), '>h': ('i', 'be', 16), '<h': ('i', 'le', 16), '=h': ('i', _NAT, 16), '>I': ('u', 'be', 32), '<I': ('u', 'le', 32), '>i': ('i', 'be', 32),
             '<l': ('i', 'le', 32), '>L': ('u', 'be', 32), '>Q': ('u', 'be', 64), '<q': ('i', 'le', 64), '=q': ('i', _NAT, 64), '>q': ('i', 'be', 64),
             'float32': ('f', 'plain', 32), 'float64': ('f', 'plain', 64), 'floatbe32': ('f', 'be', 32), 'floatbe64': ('f', 'be', 64), 'floatle32': ('f', 'le', 32), 'floatle64': ('f', 'le', 64),
             'floatne32': ('f', _NAT, 32), 'floatne64': ('f', _NAT, 64), '>f': ('f', 'be', 32), '<f': ('f', 'le', 32), '=f': ('f', _NAT, 32), '>d': ('f', 'be', 64), '<d': ('f', 'le', 64), '=d': ('f', _NAT, 64),
             'float16': ('f', 'plain', 16), 'floatle16': ('f', 'le', 16), '>e': ('f', 'be', 16), 'bfloat': ('bf', 'plain', 16),
             # widths no typecode has, and items that are not numbers
             'uint12': ('u', 'plain', 12), 'uint5': ('u', 'plain', 5), 'int7': ('i', 'plain', 7), 'uint24': ('u', 'plain', 24), 'intle24': ('i', 'le', 24), 'uint4': ('u', 'plain', 4), 'uint9': ('u', 'plain', 9), 'uint1': ('u', 'plain', 1),
             'uint2': ('u', 'plain', 2), 'uint15': ('u', 'plain', 15), 'uint17': ('u', 'plain', 17), 'uint31': ('u', 'plain', 31), 'uint33': ('u', 'plain', 33), 'uint63': ('u', 'plain', 63), 'uint65': ('u', 'plain', 65),
             'int9': ('i', 'plain', 9), 'int12': ('i', 'plain', 12), 'int20': ('i', 'plain', 20), 'int36': ('i', 'plain', 36), 'int4': ('i', 'plain', 4), 'int2': ('i', 'plain', 2), 'uint128': ('u', 'plain', 128), 'uintle128': ('u', 'le', 128),
             'hex8': ('hex', 'plain', 8), 'hex16': ('hex', 'plain', 16), 'bin8': ('bin', 'plain', 8), 'bytes1': ('bytes', 'plain', 8), 'bytes2': ('bytes', 'plain', 16), 'bytes4': ('bytes', 'plain', 32), 'bool': ('bool', 'plain', 1),
             'p4binary': ('p4', 'plain', 8), 'e4m3mxfp': ('e4m3', 'plain', 8)}
EQ_CODES = 'bBhHiIlLqQfd'
EQ_OTHERS = ['tuple', 'bytes', 'bytearray', 'memoryview', 'mv_array', 'Bits', 'BitArray', 'BitStream', 'int', 'None', 'str', 'float', 'iter', 'dict', 'set']
EQ_ROUTES = ['list', 'list', 'bytes', 'astype', 'grow', 'slice', 'mutated', 'copy', 'tuple', 'data']

def eq_code_info(code):
    """(kind, bits) of an array.array typecode on this machine (struct's native sizes)"""
    return ('f' if code in 'fd' else 'i' if code.islower() else 'u'), 8 * struct.calcsize('@' + code)

def eq_bytes(d, v):
    """the bytes of item v under dtype d (whole-byte numeric dtypes), by struct / int.to_bytes"""
    k, order, w = EQ_DTYPES[d]
    big = order in ('plain', 'be')
    if k == 'f': return struct.pack(('>' if big else '<') + {16: 'e', 32: 'f', 64: 'd'}[w], v)
    return int(v).to_bytes(w // 8, 'big' if big else 'little', signed=(k == 'i'))

def eq_pool(rng, k, w, narrow=None):
    """a value of the kind, exactly representable at w bits (and, with `narrow`, also at that smaller width)"""
    ww = min(w, narrow) if narrow else w
    if k == 'u':
        return rng.choice([0, 1, 2, 3, 255, 256, 257, 258, 0x0102, 0x0201, 0x0101, 1 << (ww - 1), (1 << ww) - 1, (1 << ww) - 2, 1 << (ww // 2), rng.randrange(1 << ww), rng.randrange(1 << ww)]) % (1 << ww)
    if k == 'i':
        lo, hi = -(1 << (ww - 1)), (1 << (ww - 1)) - 1
        return max(lo, min(hi, rng.choice([0, 1, -1, 2, -2, 5, -257, 1280, 255, 256, -256, lo, hi, lo + 1, rng.randrange(lo, hi + 1), rng.randrange(lo, hi + 1)])))
    if k == 'f':
        if w == 16 and narrow is None: return rng.choice([0.0, -0.0, 1.0, 1.5, -3.25, 2.0, 0.5, -0.5, 100.0, 65504.0, 0.25])
        return rng.choice([0.0, -0.0, 0.0, 1.0, 1.5, -3.25, 2.0, 0.5, -0.5, 100.0, 0.25, 3.0, -1.0, 1024.0, 7.0] + ([1e300, 0.1, -2.5e-7] if w == 64 and not narrow else []))
    if k in ('p4', 'e4m3', 'bf'): return rng.choice([0.0, 1.0, -1.0, 2.0, 0.5, 1.5, -2.0, 3.0, 4.0])
    if k == 'hex': return ''.join(rng.choice('0123456789abcdef') for _ in range(w // 4))
    if k == 'bin': return ''.join(rng.choice('01') for _ in range(w))
    if k == 'bytes': return {'b': [rng.choice([0, 1, 2, 97, 255, rng.randrange(256)]) for _ in range(w // 8)]}
    if k == 'bool': return rng.random() < 0.5
    raise AssertionError(k)

def eq_code_value(rng, code):
    k, bits = eq_code_info(code)
    return eq_pool(rng, k, bits)

def eq_fits(code, v):
    k, bits = eq_code_info(code)
    if k == 'f': return isinstance(v, (int, float)) and not isinstance(v, bool)
    if not isinstance(v, int) or isinstance(v, bool): return False
    return (-(1 << (bits - 1)) <= v < (1 << (bits - 1))) if k == 'i' else (0 <= v < (1 << bits))

def eq_is_code(d): return d[0] in '<>='

def eq_same_dtype(d, d2):
    """True: certainly one dtype; False: certainly two; None: two spellings of one layout, where "equivalent" can be read either way ('uint16' / 'uintbe16' / '>H')"""
    (k, o, w), (k2, o2, w2) = EQ_DTYPES[d], EQ_DTYPES[d2]
    if (k, w) != (k2, w2): return False
    if o != o2: return False if 'le' in (o, o2) and w > 8 else None
    return True if d == d2 or eq_is_code(d) == eq_is_code(d2) else None

def gen_equals(rng, tier):
    quick = tier == 'quick'
    numeric = [d for d, (k, o, w) in EQ_DTYPES.items() if k in 'uif']
    def codes_for(k, w): return [cd for cd in EQ_CODES if eq_code_info(cd) == (k, w)]
    def case(d, other, rel, n=None, route=None, trail=None, lsb0=None):
        """other: 'array:<code>' | 'Array:<dtype>' | one of EQ_OTHERS; rel: how the second list relates to the first"""
        k, order, w = EQ_DTYPES[d]
        n = rng.choice([0, 1, 1, 2, 3, 3, 4, 5, 8]) if n is None else n
        okind, _, oarg = other.partition(':')
        k2, w2 = eq_code_info(oarg) if okind == 'array' else (EQ_DTYPES[oarg][0], EQ_DTYPES[oarg][2]) if okind == 'Array' else (k, w)
        # values both sides can hold (so that "the same small values at another width / signedness" occurs)
        narrow = None
        if k in 'ui' and k2 in 'ui' and (k2, w2) != (k, w): narrow = max(1, min(w, w2) - (1 if k != k2 else 0))
        elif k == 'f' and k2 == 'f' and w2 != w: narrow = 16
        def draw():
            x = eq_pool(rng, k, w, narrow)
            return abs(x) if narrow and k == 'i' and k2 == 'u' else x
        v1 = [draw() for _ in range(n)]
        if rel == 'signzero' and k == 'f' and n: v1[rng.randrange(n)] = rng.choice([0.0, -0.0])
        if rel in ('nan', 'nan_one') and k == 'f' and n: v1[rng.randrange(n)] = float('nan')
        v2 = list(v1)
        if rel == 'one_off' and n:
            i = rng.choice([0, n - 1, rng.randrange(n)])
            for _ in range(20):
                x = draw()
                if x != v1[i]: v2[i] = x; break
        elif rel == 'shorter' and n: v2 = v2[:-1] if rng.random() < 0.7 else v2[1:]
        elif rel == 'longer': v2 = v2 + [draw()] if rng.random() < 0.7 or not n else [v2[0]] + v2
        elif rel == 'signzero' and k == 'f': v2 = [(-x if x == 0 else x) for x in v2]
        elif rel == 'nan_one' and k == 'f' and n:
            i = next(i for i, x in enumerate(v1) if x != x); v2[i] = rng.choice([0.0, 1.0])
        elif rel == 'swapped' and k in 'uif' and w % 8 == 0 and okind == 'array' and w2 == w:
            v2 = [struct.unpack('@' + oarg, eq_bytes(d, x))[0] for x in v1]          # the items whose NATIVE bytes are the bytes the Array stores
        elif rel == 'rebytes' and k in 'uif' and w % 8 == 0 and okind == 'array':
            raw = b''.join(eq_bytes(d, x) for x in v1); sz = struct.calcsize('@' + oarg)          # the same bytes seen at the operand's item width
            raw = raw[:len(raw) // sz * sz]
            v2 = list(struct.unpack('@' + str(len(raw) // sz) + oarg, raw))
        if okind == 'array':
            # what the typecode cannot hold is replaced (the lists then differ, which the reference sees)
            v2 = [x if (x != x and oarg in 'fd') or (x == x and eq_fits(oarg, x)) else eq_code_value(rng, oarg) for x in v2]
            if oarg in 'fd': v2 = [float(x) for x in v2]
            if oarg == 'f': v2 = [x if x != x else (struct.unpack('@f', struct.pack('@f', x))[0] if abs(x) < 3e38 else 1.0) for x in v2]          # (what the array will really hold)
        elif okind == 'Array' and ((k2 != k and not (k in 'ui' and k2 in 'ui')) or (w2 != w and k not in 'uif')):
            v2 = [eq_pool(rng, k2, w2) for _ in range(len(v2))]          # items of another kind of dtype
        lsb0 = (rng.random() < 0.12) if lsb0 is None else lsb0
        c = {'op': 'equals', 'dtype': d, 'v1': [cv(x) for x in v1], 'other': other, 'v2': [cv(x) for x in v2], 'rel': rel, 'route': route or rng.choice(EQ_ROUTES),
             'trail': '' if lsb0 else ((rand_bits(rng, rng.randrange(1, w)) if w > 1 and rng.random() < 0.12 else '') if trail is None else trail), 'lsb0': lsb0, 'sub': rng.random() < 0.1}
        if okind == 'Array': c['trail2'] = '' if lsb0 else c['trail'] if len(c['trail']) < w2 and rng.random() < 0.8 else (rand_bits(rng, rng.randrange(1, w2)) if w2 > 1 and rng.random() < 0.5 else '')
        if c['route'] in ('bytes', 'astype') and not (k in 'uif' and w % 8 == 0): c['route'] = 'list'
        if c['route'] == 'mutated' and not n: c['route'] = 'list'
        if lsb0 and c['route'] in ('bytes', 'astype', 'slice', 'data', 'grow'): c['route'] = 'list'
        return c
    rels = ['same', 'same', 'one_off', 'shorter', 'longer', 'swapped', 'swapped', 'rebytes', 'signzero', 'nan', 'nan_one']
    # 1. a grid: every dtype x a typecode of the same kind and width (every relation), so that no run misses a stratum
    for d, (k, order, w) in EQ_DTYPES.items():
        match = codes_for(k, w) if k in 'uif' else []
        if not match: continue
        for rel in ('same', 'one_off', 'swapped', 'signzero', 'longer', 'shorter'):
            if rel == 'signzero' and k != 'f': continue
            if quick and rng.random() < (0.35 if rel in ('same', 'swapped') else 0.7): continue
            yield case(d, 'array:' + rng.choice(match), rel, n=rng.choice([1, 2, 3, 4]), trail='', lsb0=False)
    # 1b. ... and a typecode of the same width but another kind (signed against unsigned: two's complement readings of the same bytes; int against float)
    for d, (k, order, w) in EQ_DTYPES.items():
        other_kind = [cd for cd in EQ_CODES if eq_code_info(cd)[1] == w and eq_code_info(cd)[0] != k]
        if not other_kind or (quick and rng.random() < 0.5): continue
        yield case(d, 'array:' + rng.choice(other_kind), rng.choice(['same', 'swapped', 'rebytes', 'one_off']), n=rng.choice([1, 2, 3]), trail='', lsb0=False)
    # 1c. widths that an arithmetic slip would take for the typecode's: its size in bytes read as bits, 8 * size + 1 .. 7, 64 * size, half and double
    for code in EQ_CODES:
        ck, cb = eq_code_info(code)
        near = [d for d, (k, o, w) in EQ_DTYPES.items() if k in 'ui' and w != cb and (w == cb // 8 or cb < w < cb + 8 or cb - 8 < w < cb or w == 8 * cb or w == 2 * cb or 2 * w == cb)]
        for d in near:
            if quick and rng.random() < 0.6: continue
            yield case(d, 'array:' + code, 'same', n=rng.choice([1, 2, 3, 5]), trail='', lsb0=False)
    # 2. every typecode x dtypes of every kind and width (the same small values at another width are not the same items ...)
    for code in EQ_CODES:
        for d in rng.sample(list(EQ_DTYPES), 10 if quick else len(EQ_DTYPES)):
            yield case(d, 'array:' + code, rng.choice(rels))
    # 3. random pairs, mostly with a typecode that could match
    for _ in range(150 if quick else 5000):
        d = rng.choice(numeric) if rng.random() < 0.85 else rng.choice(list(EQ_DTYPES))
        k, order, w = EQ_DTYPES[d]
        match = codes_for(k, w)
        code = rng.choice(match) if match and rng.random() < 0.7 else rng.choice(EQ_CODES)
        yield case(d, 'array:' + code, rng.choice(rels))
    # 4. an Array as the operand: the same dtype, and every other one
    for _ in range(120 if quick else 4000):
        d = rng.choice(list(EQ_DTYPES)); k, order, w = EQ_DTYPES[d]
        r = rng.random()
        if r < 0.4: d2 = d
        elif r < 0.75: d2 = rng.choice([x for x, (k2, o2, w2) in EQ_DTYPES.items() if x != d and (w2 == w or k2 == k)])
        else: d2 = rng.choice(list(EQ_DTYPES))
        yield case(d, 'Array:' + d2, rng.choice(['same', 'same', 'same', 'one_off', 'shorter', 'longer', 'signzero', 'nan', 'samedata', 'samedata']))
    # ... the very same data under every other dtype (another reading of the same bits is another Array)
    for d in EQ_DTYPES:
        if quick and rng.random() < 0.5: continue
        k, order, w = EQ_DTYPES[d]
        d2 = rng.choice([x for x, (k2, o2, w2) in EQ_DTYPES.items() if x != d and (w2 == w or w % w2 == 0 or w2 % w == 0) and (k2 in 'ui' or k2 in ('hex', 'bin', 'bytes', 'bool') or w2 != w or k in 'ui')])
        yield case(d, 'Array:' + d2, 'samedata', n=rng.choice([0, 1, 2, 4, 8]))
    # 5. operands that are neither
    for o in EQ_OTHERS:
        for _ in range(3 if quick else 20):
            yield case(rng.choice(list(EQ_DTYPES)), o, 'same')

def eq_expected(c):
    """True / False / None (nothing demanded) from the case alone"""
    d = c['dtype']; k, order, w = EQ_DTYPES[d]
    v1 = [pv(x) for x in c['v1']]; v2 = [pv(x) for x in c['v2']]
    okind, _, oarg = c['other'].partition(':')
    isnan = lambda x: isinstance(x, float) and x != x
    def lists():
        """'equal' / 'differ' / 'nan' (equal but for nan against nan)"""
        if len(v1) != len(v2): return 'differ'
        r = 'equal'
        for x, y in zip(v1, v2):
            if isnan(x) and isnan(y): r = 'nan'
            elif x != y: return 'differ'
        return r
    if okind == 'array':
        ck, cb = eq_code_info(oarg)
        if c['trail']: return False
        if cb != w: return False
        L = lists()
        if L == 'differ': return False
        if L != 'equal' or ck != k: return None          # nan against nan; a typecode of another number kind whose values happen to be ==
        return True
    if okind == 'Array':
        same = eq_same_dtype(d, oarg)
        if same is False: return False          # another dtype: never equal, whatever the data or the lists
        if same is None: return None
        if c['rel'] == 'samedata': return None if any(isnan(x) for x in v1) else True          # the same dtype over the same bits
        L = lists()
        if L == 'differ': return False
        if c['trail'] != c.get('trail2', ''): return None          # the same items, other trailing bits: the list model and "the same data" part ways
        if L == 'nan': return None
        if any(isinstance(x, float) and x == 0 and math.copysign(1, x) != math.copysign(1, y) for x, y in zip(v1, v2)): return None          # equal items, different data
        return True
    return False

def eq_operand(c, a):
    """the right operand of the case (runner side)"""
    import array as _array, bitstring
    from bitstring import Array, Bits
    okind, _, oarg = c['other'].partition(':')
    v2 = [pv(x) for x in c['v2']]
    if okind == 'array':
        if c.get('sub'):
            class Sub(_array.array): pass
            return Sub(oarg, v2)
        return _array.array(oarg, v2)
    if okind == 'Array' and c['rel'] == 'samedata':
        b = Array(oarg); b.data = bitstring.BitArray(a.data); return b          # the same bits (trailing bits included) under the operand's dtype
    if okind == 'Array': return Array(oarg, v2, trailing_bits=Bits(bin=c['trail2']) if c.get('trail2') else None)
    items = a.tolist()
    return {'tuple': lambda: tuple(items), 'bytes': a.tobytes, 'bytearray': lambda: bytearray(a.tobytes()), 'memoryview': lambda: memoryview(a.tobytes()),
            'mv_array': lambda: memoryview(_array.array('B', a.tobytes())), 'Bits': lambda: Bits(a.data), 'BitArray': lambda: bitstring.BitArray(a.data), 'BitStream': lambda: bitstring.BitStream(a.data),
            'int': lambda: len(items), 'None': lambda: None, 'str': lambda: str(items), 'float': lambda: 1.0, 'iter': lambda: iter(items), 'dict': lambda: dict.fromkeys(range(len(items))),
            'set': lambda: frozenset(range(len(items)))}[okind]()

def eq_build(c):
    """the Array of the case through its route: must hold v1 (+ the trailing bits)"""
    import bitstring
    from bitstring import Array, Bits, BitArray
    d = c['dtype']; v1 = [pv(x) for x in c['v1']]; r = c['route']
    T = Bits(bin=c['trail']) if c['trail'] else None
    if r == 'bytes': return Array(d, b''.join(eq_bytes(d, x) for x in v1), trailing_bits=T)
    if r == 'astype':
        a = Array('uint8', b''.join(eq_bytes(d, x) for x in v1), trailing_bits=T); a.dtype = d; return a
    if r == 'grow':
        a = Array(d)
        for x in v1: a.append(x)
        if T is not None: a.data += T
        return a
    if r == 'slice':
        big = Array(d, v1[-1:] + v1 + v1[:1]); a = big[1:len(v1) + 1] if v1 else big[0:0]
        if T is not None: a.data += T
        return a
    if r == 'mutated':
        a = Array(d, v1 + v1[:1], trailing_bits=T); a[0] = v1[-1]; a.pop(); a[0] = v1[0]; return a
    if r == 'copy': return _copy.copy(Array(d, v1, trailing_bits=T))
    if r == 'tuple': return Array(d, tuple(v1), trailing_bits=T)
    if r == 'data':
        a = Array(d); a.data = BitArray(Array(d, v1).data); 
        if T is not None: a.data += T
        return a
    return Array(d, v1, trailing_bits=T)

def run_equals(c):
    import bitstring
    def f():
        bitstring.options.lsb0 = bool(c.get('lsb0'))
        try:
            a = eq_build(c)
            b = eq_operand(c, a)
            before = snap(a)
            isarr = c['other'].startswith(('array:', 'Array:'))
            b_before = [cv(x) for x in b.tolist()] if isarr else None
            r1 = a.equals(b); r2 = a.equals(b)
            out = {'a': before, 'b': b_before, 'r': [r1, r2], 'a_same': snap(a) == before, 'b_same': ([cv(x) for x in b.tolist()] == b_before) if isarr else None}
            if c['other'].startswith('Array:'): out['rev'] = b.equals(a); out['b_trail'] = b.trailing_bits.bin
            out['self'] = [a.equals(a), a.equals(_copy.copy(a))]
            return out
        finally: bitstring.options.lsb0 = False
    return attempt(f)

def oracle_equals(c, obs):
    d = c['dtype']; k, order, w = EQ_DTYPES[d]
    okind, _, oarg = c['other'].partition(':')
    shown = f"array.array({oarg!r}, {c['v2']})" if okind == 'array' else f"an Array({oarg!r}) over the same data" if c['rel'] == 'samedata' else (f"Array({oarg!r}, {c['v2']}{', trailing ' + repr(c['trail2']) if c.get('trail2') else ''})" if okind == 'Array' else f"a {okind} made from it")
    what = f"Array({d!r}, {c['v1']}{', trailing ' + repr(c['trail']) if c['trail'] else ''}) [made by route {c['route']!r}{', lsb0' if c.get('lsb0') else ''}] .equals({shown})"
    if obs[0] != 'ok': return f"{what}: raised {obs[1]}"
    o = obs[1]
    same_items = lambda xs, ys: list(xs) == list(ys)          # (canonical items: floats by their hex form)
    # the operands are what the case says (list model of construction)
    if not same_items(o['a'][0], c['v1']) or o['a'][3] != c['trail']: return f"{what}: the Array holds {o['a'][0]} trailing {o['a'][3]!r}"
    if o['b'] is not None and okind == 'array' and not same_items(o['b'], c['v2']): return None          # (the array.array does not hold the intended items: no case)
    if okind == 'Array' and c['rel'] != 'samedata' and (not same_items(o['b'], c['v2']) or o['b_trail'] != c.get('trail2', '')): return f"{what}: the operand holds {o['b']} trailing {o['b_trail']!r}"
    if type(o['r'][0]) is not bool or o['r'][0] != o['r'][1]: return f"{what}: returned {o['r'][0]!r}, then {o['r'][1]!r}"
    if not o['a_same'] or o['b_same'] is False: return f"{what}: the comparison changed an operand"
    exp = eq_expected(c)
    if exp is not None and o['r'][0] is not exp:
        why = ''
        if okind == 'array':
            ck, cb = eq_code_info(oarg)
            why = (f"the Array has trailing bits" if c['trail'] else f"items of {w} bits against items of {cb} bits" if cb != w else
                   "the two lists of items are equal" if exp else "the two lists of items differ")
        elif okind == 'Array': why = "the same dtype and the same items" if exp else ("the lists of items differ" if eq_same_dtype(d, oarg) else "another dtype")
        else: why = "only an Array or an array.array can be equal to an Array"
        return f"{what} returned {o['r'][0]}; the list model says {exp} ({why})"
    if okind == 'Array' and exp is not None and o['rev'] is not exp: return f"{what}: {exp} as expected, but the operands exchanged give {o['rev']}"
    has_nan = any(isinstance(pv(x), float) and pv(x) != pv(x) for x in c['v1'])
    if not has_nan and o['self'] != [True, True]: return f"{what}: the Array against itself / its copy: {o['self']}"
    return None

# ---- bytes-like operands -----------------------------------------------------------------------------------------------------------------
BUF_DTYPES = ['int8', 'int8', 'uint8', 'hex8', 'bytes1', 'bin8', 'bits8', 'oct6', 'e5m2mxfp', 'e2m1mxfp', 'intle16', 'uint8', 'int8', 'uint5', 'int7', 'uint3', 'uint12', 'int16', 'uint16', 'uintle16', 'intbe24', 'uintne32', 'int32', 'uint64', 'float16', 'float32', 'floatle64', 'bfloat', 'p4binary',
              'e4m3mxfp', 'mxint', 'bool', '>h', '<H', '=B', '>f']
BUF_BYTE_KINDS = ['bytes', 'bytearray', 'mv', 'mv_w', 'mv_strided', 'mv_sub', 'mv_rev', 'mv_cast:B', 'bytesio_buf']
BUF_ITEM_KINDS = ['mv_cast:b', 'mv_array:b', 'mv_array:H', 'mv_cast:H', 'mv_array:h', 'mv_array:I', 'mv_array:q', 'mv_strided:H', 'mv_array:d', 'mv_array:f', 'mv_cast:?']
BUF_BITS_KINDS = ['Bits', 'BitArray', 'ConstBitStream', 'BitStream', 'BitStream@1']          # '@1': a stream whose position is not 0 (the position is not part of its content)
BUF_ARRAY_KINDS = ['array:B', 'array:H', 'array:b', 'array:d']          # array.array itself: an iterable for slice assignment (extend and the constructor have their own documented rule for it)

def buf_operand(rng, d, op, m, kind=None):
    """('buf:<kind>', values) with list(the object) == values"""
    name, w = dtype_info(d)
    r = rng.random()
    kinds = BUF_BYTE_KINDS if r < 0.65 else (BUF_ITEM_KINDS if r < 0.92 or op != 'setslice' else BUF_ARRAY_KINDS)
    if kind is None:
        kind = rng.choice(kinds)
        if rng.random() < (0.4 if name == 'bool' else 0.04): kind = 'bits:' + rng.choice(BUF_BITS_KINDS)          # a bitstring: an iterable of bools (as an initializer: the data)
    if kind.startswith('bits:'): return 'buf:' + kind, [rng.random() < 0.5 for _ in range(m)]
    code = kind.split(':')[1] if ':' in kind else 'B'
    small = rng.random() < 0.55          # values that fit a narrow or signed dtype as well
    edges = [x for x in ((1 << w) - 1, 1 << w, (1 << (w - 1)) - 1, 1 << (w - 1), -(1 << (w - 1)), -(1 << (w - 1)) - 1) if w <= 64]          # at and just outside the limits of the dtype
    def val():
        if code in 'df': return rng.choice([0.0, 1.0, -1.5, 0.25, 2.0, 3.0, -0.5, 100.0])
        if code == '?': return rng.random() < 0.5
        bits = {'B': 8, 'b': 8, 'H': 16, 'h': 16, 'I': 32, 'q': 64}[code]
        lo, hi = (-(1 << (bits - 1)), (1 << (bits - 1)) - 1) if code in 'bhq' else (0, (1 << bits) - 1)
        if small: return rng.randrange(max(lo, -2), min(hi, (1 << max(1, min(w, 8) - 1)) - 1) + 1)
        return rng.choice([lo, hi, 0, 1, 127, min(hi, 128), min(hi, 255), min(hi, 256), rng.randrange(lo, hi + 1)] + [e for e in edges if lo <= e <= hi] * 2)
    return 'buf:' + kind, [val() for _ in range(m)]

def mk_buf(kind, vs):
    """the bytes-like object whose items are vs"""
    import array, struct, io
    base, _, code = kind.partition(':')
    if base == 'bits':
        import bitstring
        b = ''.join('1' if v else '0' for v in vs)
        o = getattr(bitstring, code.split('@')[0])(bin=b)
        if list(o) != list(vs): o = getattr(bitstring, code.split('@')[0])(bin=b[::-1])          # (under lsb0 a bitstring is enumerated from its other end)
        if '@' in code and len(o): o.pos = 1
    elif base in ('array', 'mv_array'):
        a = array.array(code, vs); o = a if base == 'array' else memoryview(a)
    elif base == 'mv_cast': o = memoryview(struct.pack(f'={len(vs)}{code}', *vs)).cast(code)
    elif base == 'mv_strided' and code:
        a = array.array(code, [x for v in vs for x in (v, 0xa5)]); o = memoryview(a)[::2]
    elif base == 'bytes': o = bytes(vs)
    elif base == 'bytearray': o = bytearray(vs)
    elif base == 'mv': o = memoryview(bytes(vs))
    elif base == 'mv_w': o = memoryview(bytearray(vs))
    elif base == 'mv_strided': o = memoryview(bytes(x for v in vs for x in (v, 0xa5)))[::2]
    elif base == 'mv_sub': o = memoryview(bytearray(b'\xff\xfe' + bytes(vs) + b'\xfd'))[2:-1]
    elif base == 'mv_rev': o = memoryview(bytes(vs)[::-1])[::-1]
    elif base == 'bytesio_buf': o = io.BytesIO(bytes(vs)).getbuffer()
    else: raise AssertionError(kind)
    assert list(o) == list(vs), 'harness: the buffer does not hold the intended items'
    return o

# ---- operators between two Arrays -----------------------------------------------------------------------------------------------------------
BETWEEN_ARITH = ['add', 'sub', 'mul', 'floordiv', 'truediv', 'mod', 'lshift', 'rshift']
BETWEEN_CMP = ['lt', 'gt', 'le', 'ge', 'eq', 'ne']
BETWEEN_NUM = ['uint8', 'int8', 'uint5', 'int7', 'uint16', 'int16', 'uint12', 'int10', 'uint4', 'int32', 'uint32', 'uintle16', 'intle16', 'intbe16', 'float16', 'float32', 'float64', 'floatle32', 'bfloat', 'bool']
# Sub-classes the unchanged library does not satisfy (reported, kept switched off): `a == b` / `a != b` between Arrays of DIFFERENT dtypes raise TypeError
# (Array._eq_ne rebuilds the right operand as Array(self.dtype, other), which refuses an Array of another dtype) instead of comparing item by item like < <= > >= do.
KNOWN_OPEN = set()       # 'eq_ne_between_different_dtypes' (== / != between Arrays of different dtypes raised TypeError) was repaired in /repo as D66

def between_case(rng, d1, d2, f, inplace, mode=None):
    from bitstring import Array
    def vals(d, n, right):
        t = Array(d).dtype; w = t.bitlength
        if t.return_type is float:
            if t.name == 'e8m0mxfp': pool = [1.0, 2.0, 0.5, 4.0, 1.0]
            else: pool = [0.5, 1.0, 1.5, 2.0, 3.0, 4.0, 0.0, -0.0] + ([-1.5, -0.5, -2.0, 0.25, 6.0] if t.name != 'e8m0mxfp' else [])
            if right and f in ('floordiv', 'truediv', 'mod') and rng.random() < 0.8: pool = [x for x in pool if x != 0]
            return [rng.choice(pool) for _ in range(n)]
        if t.return_type is bool: return [rng.random() < 0.5 for _ in range(n)]
        if t.return_type is int:
            lo, hi = (-(1 << (w - 1)), (1 << (w - 1)) - 1) if t.is_signed else (0, (1 << w) - 1)
            if right and f in ('lshift', 'rshift'): pool = [0, 1, 2, 3, min(hi, w - 1), min(hi, w), min(hi, 70)] + ([-1] if lo < 0 and rng.random() < 0.2 else [])
            elif right and f in ('floordiv', 'truediv', 'mod'): pool = [1, 2, 3, min(hi, 7), max(lo, -2), max(lo, -1)] + ([0] if rng.random() < 0.2 else [])
            else: pool = [0, 1, 2, 3, 5, hi, lo, hi // 2, max(lo, -1), max(lo, -3), rng.randrange(lo, hi + 1)]
            if rng.random() < 0.6 or mode == 'fit': pool = [x for x in pool if -8 <= x <= 8] or [0]          # mostly results that fit
            return [rng.choice(pool) for _ in range(n)]
        return [rand_item(rng, d) for _ in range(n)]
    n = rng.choice([0, 1, 2, 3, 3, 4, 5]) if mode is None else rng.choice([2, 3, 4])
    same = rng.random() < 0.06 and mode is None
    if same: d2 = d1
    n2 = n if rng.random() < 0.93 or mode else n + rng.choice([1, -1, 2])
    v1, v2 = vals(d1, n, same), vals(d2, max(0, n2), True)
    t1, t2 = Array(d1).dtype, Array(d2).dtype
    if n >= 2 and n2 == n and (rng.random() < 0.22 if mode is None else mode == 'late') and t1.return_type is int and t2.return_type is int:
        # the first items are fine, the LAST one fails (zero divisor, negative shift, a result beyond the promoted dtype): nothing may have been stored by then
        lim = lambda t: ((-(1 << (t.bitlength - 1)), (1 << (t.bitlength - 1)) - 1) if t.is_signed else (0, (1 << t.bitlength) - 1))
        (lo1, hi1), (lo2, hi2) = lim(t1), lim(t2)
        v1 = [max(lo1, min(hi1, x)) for x in [rng.choice([5, 6, 7]) for _ in range(n)]]; v2 = [max(lo2, min(hi2, x)) for x in [rng.choice([1, 2] if f == 'lshift' else [2, 3]) for _ in range(n)]]          # (every result differs from the item it would replace)
        if f in ('floordiv', 'truediv', 'mod'): v2[-1] = 0
        elif f in ('lshift', 'rshift'): v2[-1] = -1 if lo2 < 0 else (min(hi2, 70) if f == 'lshift' else v2[-1])
        elif f == 'sub': v1[-1], v2[-1] = lo1, hi2
        else: v1[-1], v2[-1] = hi1, hi2
    c = {'op': 'between', 'd1': d1, 'v1': v1, 'd2': d2, 'v2': v2, 'f': f, 'inplace': bool(inplace), 'self': same,
         'trail1': rand_bits(rng, min(Array(d1).dtype.bitlength - 1, rng.choice([0, 0, 0, 0, 1, 2]))) if mode is None else '', 'lsb0': rng.random() < 0.15 and mode is None}
    return c

# dtype assignments that must be refused (ValueError) and leave the Array exactly as it was: 'auto' scales (only valid at creation), zero or missing lengths
REFUSED_DTYPES = ['auto:e4m3mxfp', 'auto:float16', 'auto:uint8', 'uint0', 'hex0', 'se', 'float', 'bytes0']

def kind(c): return c.get('dtype', c['op'])

def pv(v):
    import bitstring
    if isinstance(v, dict): return bytes(v['b']) if 'b' in v else bitstring.Bits(bin=v['bits'])
    if isinstance(v, list) and len(v) == 2 and v[0] == 'f': return float.fromhex(v[1]) if v[1] != 'nan' else float('nan')
    return v
def cv(v):
    """canonical item"""
    import bitstring
    if isinstance(v, float): return ['f', v.hex() if v == v else 'nan']
    if isinstance(v, bytes): return {'b': list(v)}
    if isinstance(v, bitstring.Bits): return {'bits': v.bin}
    return v

OPS = {'add': operator.add, 'sub': operator.sub, 'mul': operator.mul, 'floordiv': operator.floordiv, 'truediv': operator.truediv, 'mod': operator.mod, 'lshift': operator.lshift,
       'rshift': operator.rshift, 'and': operator.and_, 'or': operator.or_, 'xor': operator.xor, 'lt': operator.lt, 'eq': operator.eq,
       'radd': lambda a, x: x + a, 'rsub': lambda a, x: x - a, 'rmul': lambda a, x: x * a}      # scalar on the left
OPS2 = dict(OPS, gt=operator.gt, le=operator.le, ge=operator.ge, ne=operator.ne)
IOPS = {'add': operator.iadd, 'sub': operator.isub, 'mul': operator.imul, 'floordiv': operator.ifloordiv, 'truediv': operator.itruediv, 'mod': operator.imod, 'lshift': operator.ilshift,
        'rshift': operator.irshift, 'and': operator.iand, 'or': operator.ior, 'xor': operator.ixor}

SIDE = {}          # what a step records beside its result (the twin run of a bytes-like operand); moved into the trace by run_impl

def snap(a):
    return [[cv(x) for x in a.tolist()], len(a), a.data.bin, a.trailing_bits.bin, str(a.dtype)]

def apply_impl(a, st, rng):
    import bitstring, random
    from bitstring import Array, Bits
    op = st['op']
    if op == 'getitem': return cv(a[st['i']])
    if op == 'getslice':
        r = a[slice(*st['k'])]; return [snap(r), type(r).__name__]
    if op == 'setitem': a[st['i']] = pv(st['v']); return None
    if op == 'setslice':
        vals = [pv(v) for v in st['vs']]
        kindo = st.get('operand')
        if str(kindo).startswith('buf:'):
            twin = _copy.copy(a)          # the same assignment from list(the object) on a copy: must end in the same state
            rt = attempt(lambda: twin.__setitem__(slice(*st['k']), [pv(v) for v in st['vs']]))
            SIDE['twin'] = [list(rt), snap(twin)]
            vals = mk_buf(kindo[4:], st['vs'])
        elif kindo in ('array', 'array_trailing'):
            try: vals = Array(a.dtype, vals, trailing_bits=Bits('0b1') if kindo == 'array_trailing' and a.itemsize > 1 else None)          # (one bit is a whole item when itemsize is 1)
            except Exception: pass          # a value that does not fit: keep the list (the assignment itself must refuse it)
        elif kindo == 'tuple': vals = tuple(vals)
        elif kindo == 'generator': vals = (x for x in list(vals))
        a[slice(*st['k'])] = vals; return None
    if op == 'delitem': del a[st['i']]; return None
    if op == 'delslice': del a[slice(*st['k'])]; return None
    if op == 'append': return a.append(pv(st['v']))
    if op == 'extend':
        if str(st.get('operand')).startswith('buf:'):
            twin = _copy.copy(a)
            rt = attempt(lambda: twin.extend([pv(v) for v in st['vs']]))
            SIDE['twin'] = [list(rt), snap(twin)]
            return a.extend(mk_buf(st['operand'][4:], st['vs']))
        if st.get('as_array') and all(isinstance(v, int) and not isinstance(v, bool) for v in st['vs']) and str(a.dtype).startswith(('uint', 'int')):
            import bitstring
            other = Array(bitstring.Dtype(a.dtype.name, a.dtype.length, scale=st['as_array']), [v * st['as_array'] for v in st['vs']])
            before = a.tolist()
            try: a.extend(other)
            except TypeError: return ['refused']
            return ['extended', a.tolist() == before + other.tolist()]
        return a.extend([pv(v) for v in st['vs']])
    if op == 'insert': return a.insert(st['i'], pv(st['v']))
    if op == 'pop': return cv(a.pop(st['i']))
    if op == 'reverse': return a.reverse()
    if op == 'count': return a.count(pv(st['v']))
    if op == 'copy':
        b = _copy.copy(a); c2 = a[:]
        r = [snap(b), snap(c2), b.equals(a)]
        if len(b): 
            try: b[0] = b[-1]; b.append(b[0])
            except Exception: pass
        return r + [snap(a)]
    if op == 'iter': return [cv(x) for x in a]
    if op == 'equals':
        # ... and against an array.array of the matching typecode holding the same items (whatever byte order the dtype stores them in), and one with an item changed
        import array as _array
        nm = a.dtype.name; items = a.tolist(); arr = None
        knd = 'u' if nm.startswith('uint') else 'i' if nm.startswith('int') else 'f' if nm.startswith('float') else None
        code = next((cd for cd in EQ_CODES if knd and eq_code_info(cd) == (knd, a.itemsize)), None)
        if code is not None and a.dtype.scale is None:
            other = _array.array(code, items)
            changed = _array.array(code, items[:-1] + [(1 if items[-1] != 1 else 2) if knd != 'f' else (1.0 if items[-1] != 1.0 else 2.0)]) if items else None
            arr = [code, a.equals(other), a.equals(changed) if changed is not None else None, other.tolist() == items]
        return [a.equals(Array(a.dtype, a.tolist(), trailing_bits=a.trailing_bits)), a.equals(a[:-1]) if len(a) else False, a.equals(5), arr]
    if op == 'astype':
        before = a.data.bin
        a.dtype = bitstring.Dtype(st['d'][5:], scale='auto') if st['d'].startswith('auto:') else st['d']
        return [before == a.data.bin]
    if op == 'byteswap':
        return a.byteswap()
    if op in ('scalar_op', 'inplace_op'):
        f = st['f']
        if f == 'neg': r = -a
        elif f == 'abs': r = abs(a)
        elif op == 'inplace_op':
            if f not in IOPS: return 'skip'
            b = a; b = IOPS[f](b, st['x']); return ['inplace', b is a]
        else: r = OPS[f](a, st['x'])
        return [snap(r)]
    if op == 'array_op':
        n = len(a) if st['same_len'] else len(a) + 1
        other = Array(st['d2'], [(i % 3) for i in range(n)] if not st['d2'].startswith('float') else [float(i % 3) for i in range(n)])
        r = OPS[st['f']](a, other)
        return [snap(r), snap(other)]

def run_impl(c):
    import bitstring, random
    from bitstring import Array, Bits
    if c['op'] == 'scaled':
        import array as _array
        D = lambda sc: bitstring.Dtype(c['name'], scale=sc) if sc is not None else bitstring.Dtype(c['name'])
        def f():
            if c['how'] == 'equals':
                a = Array(D(c['s1']), [k * (c['s1'] or 1) for k in c['ks']]); b = Array(D(c['s2']), [k * (c['s2'] or 1) for k in c['ks']])
                return [a.equals(b), b.equals(a), a.data.bin == b.data.bin, [cv(x) for x in a.tolist()], [cv(x) for x in b.tolist()]]
            src = _array.array(c['code'], [k * 4 for k in c['ks']])          # multiples of every scale used, so that value / scale is exact
            if c['how'] == 'init_array': a = Array(D(c['s1']), src)
            else:
                a = Array(D(c['s1'])); a.extend(src)
            return [[cv(x) for x in a.tolist()], [cv(x) for x in src.tolist()]]
        return attempt(f)
    if c['op'] == 'equals': return run_equals(c)
    if c['op'] == 'promote':
        def one(d, sc=None):
            a = Array(d)
            if sc is not None:
                d = bitstring.Dtype(d, scale=sc)
                return Array(d, [float(sc), float(sc)] if a.dtype.return_type is float else [sc, sc])
            if a.dtype.return_type in (float,): return Array(d, [1.0, 1.0])
            if a.dtype.return_type is bool: return Array(d, [True, True])
            if a.dtype.return_type is int: return Array(d, [1, 1])
            if d.startswith('hex'): return Array(d, ['1', '1'])
            return Array(d, [b'a', b'a'])
        def f():
            a, b = one(c['d1'], c.get('s1')), one(c['d2'], c.get('s2'))
            r = OPS[c['f']](a, b)
            return [str(r.dtype), [cv(x) for x in r.tolist()], str(a.dtype), str(b.dtype)]
        return attempt(f)
    bitstring.options.lsb0 = bool(c.get('lsb0'))         # reset by the driver
    if c['op'] == 'bufinit':
        import struct
        kind = c['buf']; code = kind.split(':')[1] if ':' in kind else 'B'
        def f():
            a = Array(c['dtype'], mk_buf(kind, c['vs']), trailing_bits=Bits(bin=c['trail']) if c['trail'] else None)
            return snap(a)
        raw = ''.join('1' if v else '0' for v in c['vs']) if kind.startswith('bits:') else ''.join(format(b, '08b') for b in struct.pack(f"={len(c['vs'])}{code}", *c['vs']))
        return ('ok', {'raw': raw, 'r': list(attempt(f))})
    if c['op'] == 'between':
        def f():
            a = Array(c['d1'], [pv(v) for v in c['v1']], trailing_bits=Bits(bin=c['trail1']) if c['trail1'] else None)
            b = a if c['self'] else Array(c['d2'], [pv(v) for v in c['v2']])
            before = [snap(a), snap(b)]
            def go():
                res = (IOPS if c['inplace'] else OPS2)[c['f']](a, b)
                return [snap(res), res is a, type(res).__name__]
            r = attempt(go)
            return [before[0], before[1], list(r), snap(a), snap(b)]
        return attempt(f)
    rng = random.Random(c['seed'])
    def build():
        return Array(c['dtype'], [pv(v) for v in c['items']], trailing_bits=Bits(bin=c['trail']) if c['trail'] else None)
    r0 = attempt(build)
    if r0[0] != 'ok': return ('ok', {'init': list(r0), 'trace': []})
    a = r0[1]
    trace = []
    for st in c['steps']:
        before = snap(a)
        SIDE.clear()
        r = attempt(lambda: apply_impl(a, st, rng))
        trace.append([before, list(r), snap(a)] + ([SIDE.pop('twin')] if 'twin' in SIDE else []))
    return ('ok', {'init': ['ok', snap(a) if not trace else trace[0][0]], 'trace': trace})

# ---------------- reference: python list + encoder ----------------
def kind_ok(d, v):
    """the value has the Python type the dtype documents (the generator draws values for the initial dtype; astype may have changed it)"""
    name, w = dtype_info(d)
    if name.startswith('uint') or name.startswith('int'): return isinstance(v, int) and not isinstance(v, bool)
    if name in ('hex', 'bin', 'oct'): return isinstance(v, str)
    if name == 'bool': return isinstance(v, bool)
    if name == 'bytes': return isinstance(v, dict) and 'b' in v
    if name == 'bits': return isinstance(v, dict) and 'bits' in v
    return isinstance(v, (int, float)) and not isinstance(v, bool)

def enc_item(d, v):
    """encoding of one item through an independent route (struct / format); None if not encodable"""
    import bitstring
    name, w = dtype_info(d)
    try:
        if name.startswith('uint') or name.startswith('int'):
            signed = name.startswith('int')
            if not isinstance(v, int) or isinstance(v, bool) and False: pass
            lo, hi = (-(1 << (w - 1)), (1 << (w - 1)) - 1) if signed else (0, (1 << w) - 1)
            v = int(v)
            if not lo <= v <= hi: return None
            be = format(v & ((1 << w) - 1), f'0{w}b')
            import sys
            if name.endswith('le') or (name.endswith('ne') and sys.byteorder == 'little'): be = ''.join(be[i:i + 8] for i in range(w - 8, -1, -8))
            return be
        return bitstring.Dtype(d if not d[0] in '<>=' else bitstring.Array(d).dtype).build(pv(v)).bin
    except Exception:
        return None

def oracle(c, obs):
    try:
        return oracle_(c, obs)
    except Exception as e:   # an oracle crash must not pass silently
        import traceback
        return 'oracle error: ' + traceback.format_exc()[-300:]

def promo_rule(d1, d2, s1=None, s2=None):
    """the documented rules (Array._promotetype docstring / doc/array.rst): only int and float kinds; float beats int; signed int beats unsigned int;
    longer beats shorter; a tie goes to the first"""
    from bitstring import Array, Dtype
    t1, t2 = Array(d1).dtype, Array(d2).dtype
    if s1 is not None: t1 = Dtype(d1, scale=s1)
    if s2 is not None: t2 = Dtype(d2, scale=s2)
    fl = lambda t: t.return_type is float
    it = lambda t: t.return_type is int or t.return_type is bool
    if not ((fl(t1) or it(t1)) and (fl(t2) or it(t2))): return None
    if fl(t1) != fl(t2): return t1 if fl(t1) else t2
    if it(t1) and t1.is_signed != t2.is_signed and t1.name != t2.name: return t1 if t1.is_signed else t2
    return t2 if t2.length > t1.length else t1

def oracle_(c, obs):
    if c['op'] == 'scaled':
        if obs[0] != 'ok': return f"{c}: raised {obs[1]}"
        o = obs[1]
        if c['how'] == 'equals':
            same = (c['s1'] is None and c['s2'] is None) or (c['s1'] is not None and c['s2'] is not None and c['s1'] == c['s2'])
            mixed = (c['s1'] is None) != (c['s2'] is None)
            if o[0] != o[1]: return f"{c}: a.equals(b) = {o[0]} but b.equals(a) = {o[1]}"
            if same and o[0] is not True: return f"{c}: the same dtype, scale and items, yet equals() is {o[0]}"
            if not same and not mixed and [pv(x) for x in o[3]] != [pv(x) for x in o[4]] and o[0] is not False: return f"{c}: the items are {o[3]} and {o[4]} (same codes, different scales), yet equals() is {o[0]}"
            if mixed and (c['s1'] or c['s2']) != 1 and [pv(x) for x in o[3]] != [pv(x) for x in o[4]] and o[0] is not False: return f"{c}: the items are {o[3]} and {o[4]} (scaled against unscaled), yet equals() is {o[0]}"
            return None
        if len(o[0]) != len(o[1]) or any(pv(x) != pv(y) for x, y in zip(o[0], o[1])): return f"{c}: an array.array of {o[1]} given to the scaled Array reads back as {o[0]}: its values, not its raw items, are what a list of them would give"
        return None
    if c['op'] == 'promote':
        exp = promo_rule(c['d1'], c['d2'], c.get('s1'), c.get('s2'))
        if exp is None:
            return None if obs[0] == 'err' and obs[1] in ('ValueError', 'TypeError') else f"Arrays of {c['d1']} and {c['d2']} (not both int/float) combined: {obs}"
        if obs[0] != 'ok': return None          # the result may not fit the promoted type (it raises, as documented)
        if obs[1][0] != str(exp): return f"Array({c['d1']}) {c['f']} Array({c['d2']}) has dtype {obs[1][0]}; the documented promotion gives {exp}"
        return None
    if c['op'] == 'bufinit': return oracle_bufinit(c, obs)
    if c['op'] == 'between': return oracle_between(c, obs)
    if c['op'] == 'equals': return oracle_equals(c, obs)
    o = obs[1]
    if o['init'][0] != 'ok': return f"Array({c['dtype']!r}, {c['items']}) could not be built: {o['init']}"
    name, w = dtype_info(c['dtype'])
    for st, tr in zip(c['steps'], o['trace']):
        before, r, after = tr[:3]
        items, n, data, trail, dt = before
        isbuf = str(st.get('operand')).startswith('buf:')
        if isbuf and len(tr) > 3 and (tr[3][0] != r or tr[3][1] != after) and not (r[0] == 'err' and tr[3][0][0] == 'err' and st['op'] == 'extend'):
            return (f"Array({dt}, {str(items)[:120]}, trailing {trail!r}) {st}: a bytes-like object is an iterable of its items, yet {st['op']} from it gave {str(r)[:40]} and left "
                    f"{after[1]} items {str(after[0])[:150]} (trailing {after[3]!r}, dtype {after[4]}); the same call with list(the object) gave {str(tr[3][0])[:40]} and left {tr[3][1][1]} items {str(tr[3][1][0])[:150]} (trailing {tr[3][1][3]!r})")
        where = f"Array({dt}, {items}, trailing {trail!r}) {st}"
        # invariants of every state
        for sname, s in (('before', before), ('after', after)):
            its, ln, dat, tr, dd = s
            ww = w if dd == dt and sname == 'before' else None
        its2, n2, data2, trail2, dt2 = after
        if n2 != len(its2): return f"{where}: len()={n2} but tolist() has {len(its2)} items"
        op = st['op']
        L = list(items)
        E = lambda xs: [enc_item(dt, x) for x in xs]
        newvals = [st['v']] if 'v' in st and op in ('setitem', 'append', 'insert') else (st.get('vs', []) if op in ('setslice', 'extend') else [])
        if op == 'extend' and st.get('as_array') and r[0] == 'ok' and isinstance(r[1], list) and r[1] and r[1][0] in ('refused', 'extended'):
            # extend with an Array of the same dtype name and length but another scale: either refused or the decoded items are appended
            if r[1][0] == 'extended' and not r[1][1]: return f"{where}: extend() with an Array of another scale reinterpreted its raw data"
            continue
        if any(not kind_ok(dt, x) for x in newvals + ([st['v']] if op == 'count' else [])):
            continue          # an earlier step changed the dtype: this value is of a Python type the current dtype does not document (not specified)
        if any(enc_item(dt, x) is None for x in newvals):
            # a value that does not fit the (current) dtype: must raise and change nothing
            if r[0] != 'err': return f"{where}: a value that does not fit {dt} was accepted: {str(after)[:200]}"
            if op == 'extend' and not trail:
                # like list.extend with a failing iterator: the items before the bad one may have been added
                k = next(i for i, x in enumerate(newvals) if enc_item(dt, x) is None)
                if c.get('lsb0'):          # the same, stated on the items (the new items sit at the other end of the data in this numbering)
                    if E(after[0]) not in (E(L), E(L + newvals[:k])) or after[3:] != before[3:]: return f"{where} raised and left {after}"
                elif after[2] not in (before[2], before[2] + ''.join(enc_item(dt, x) for x in newvals[:k])): return f"{where} raised and left {after}"
                continue
            if after != before: return f"{where} raised {r[1]} and changed the Array"
            continue
        try:
            if op == 'getitem':
                exp = ('ok', L[st['i']])
                if r[0] != 'ok' or enc_item(dt, r[1]) != enc_item(dt, exp[1]): return f"{where} returned {r}, list gives {exp}"
            elif op == 'getslice':
                exp = L[slice(*st['k'])] if st['k'][2] != 0 else None
                if exp is None: continue
                if r[0] != 'ok' or E(r[1][0][0]) != E(exp) or r[1][1] != 'Array': return f"{where} returned {str(r)[:200]}, list gives {exp}"
                if r[1][0][3] != '': return f"{where}: the slice carries trailing bits {r[1][0][3]!r}"
            elif op == 'setitem':
                L[st['i']] = st['v']
                if r[0] == 'ok':
                    if [enc_item(dt, x) for x in its2] != [enc_item(dt, x) for x in L]: return f"{where} left {its2}, list gives {L}"
                    if trail2 != trail: return f"{where} changed the trailing bits to {trail2!r}"
            elif op == 'delitem':
                del L[st['i']]
                if r[0] != 'ok' or E(its2) != E(L) or trail2 != trail: return f"{where}: got {r} items {its2} trailing {trail2!r}; list gives {L}"
            elif op == 'delslice':
                if st['k'][2] == 0: continue
                del L[slice(*st['k'])]
                if r[0] != 'ok' or E(its2) != E(L) or trail2 != trail: return f"{where}: got {r} items {its2} trailing {trail2!r}; list gives {L}"
            elif op == 'setslice':
                if st['k'][2] == 0: continue
                try: L[slice(*st['k'])] = st['vs']
                except ValueError:
                    if r[0] != 'err': return f"{where} should raise ValueError (extended slice size mismatch), got {r}"
                    if after != before: return f"{where} raised but changed the Array"
                    continue
                if isbuf and r[0] != 'ok': return f"{where}: every value of the bytes-like object fits {dt}, the list model gives {L}; raised {r[1]}"
                if r[0] == 'ok' and ([enc_item(dt, x) for x in its2] != [enc_item(dt, x) for x in L] or trail2 != trail): return f"{where} left {its2} / {trail2!r}, list gives {L}"
            elif op in ('append', 'extend', 'reverse'):
                if trail:
                    if r[0] != 'err' or r[1] != 'ValueError' or after != before: return f"{where} with trailing bits must raise ValueError and change nothing: {r}"
                    continue
                if op == 'append': L.append(st['v'])
                elif op == 'extend': L.extend(st['vs'])
                else: L.reverse()
                if r[0] != 'ok' or [enc_item(dt, x) for x in its2] != [enc_item(dt, x) for x in L]: return f"{where}: got {r} {its2}; list gives {L}"
            elif op == 'insert':
                L.insert(st['i'], st['v'])
                if r[0] != 'ok' or [enc_item(dt, x) for x in its2] != [enc_item(dt, x) for x in L] or trail2 != trail: return f"{where}: got {r} {its2} {trail2!r}; list gives {L}"
            elif op == 'pop':
                if not L:
                    if r[0] != 'err' or r[1] != 'IndexError': return f"{where} on empty must raise IndexError: {r}"
                    continue
                x = L.pop(st['i'])
                if r[0] != 'ok' or enc_item(dt, r[1]) != enc_item(dt, x) or E(its2) != E(L) or trail2 != trail: return f"{where}: got {r} {its2}; list gives {x}, {L}"
            elif op == 'count':
                ev = enc_item(dt, st['v'])
                if ev is None: continue          # the value is not one of the current dtype (the dtype was changed by an earlier step): not specified
                num = lambda z: isinstance(z, (int, float)) and not isinstance(z, bool)
                same = lambda x: (pv(x) == pv(st['v'])) if (type(pv(x)) is type(pv(st['v'])) or (num(pv(x)) and num(pv(st['v'])))) else (enc_item(dt, x) == ev)
                exp = sum(1 for x in L if same(x))
                if r[0] == 'ok' and r[1] != exp: return f"{where} returned {r}, list gives {exp}"
            elif op == 'iter':
                if r[0] != 'ok' or E(r[1]) != E(L): return f"{where}: iteration gave {r}"
            elif op == 'copy':
                if r[0] != 'ok': return f"{where}: {r}"
                b, c2, eq, a_after = r[1]
                if b != before or c2[:2] != before[:2] or not eq: return f"{where}: copy {b} / slice copy {c2} differ from {before}"
                if a_after != before: return f"{where}: mutating the copy changed the original: {a_after}"
            elif op == 'equals':
                if r[0] == 'ok' and ['f', 'nan'] not in L and (r[1][0] is not True or r[1][2] is not False or (n and r[1][1] is not False)): return f"{where}: equals gave {r}"
                if r[0] == 'ok' and ['f', 'nan'] not in L and len(r[1]) > 3 and r[1][3] is not None and r[1][3][3]:
                    code, same, off = r[1][3][:3]
                    if same is not (not trail): return f"{where}: equals(array.array({code!r}, the same items)) gave {same}; the list model says {not trail}" + (' (trailing bits)' if trail else '')
                    if off not in (None, False): return f"{where}: equals(array.array({code!r}, the items with the last one changed)) gave {off}"
            elif op == 'astype':
                if st['d'] in REFUSED_DTYPES and r != ['err', 'ValueError']: return f"{where}: assigning this dtype must raise ValueError, got {str(r)[:100]}"
                if r[0] == 'ok' and r[1] != [True]: return f"{where}: changing dtype altered the data"
                if r[0] == 'ok' and data2 != data: return f"{where}: data changed"
        except IndexError:
            if r[0] != 'err' or r[1] != 'IndexError': return f"{where} should raise IndexError, got {str(r)[:120]}"
            if after != before: return f"{where} raised IndexError but changed the Array"
            continue
        # a failing operation never changes the array (in-place operators included)
        if r[0] == 'err' and after != before: return f"{where} raised {r[1]} and left the Array changed: {after}"
        # data is always the concatenation of the item encodings followed by the trailing bits
        encs = [enc_item(dt2, x) for x in its2]
        if all(e is not None for e in encs) and not dt2.startswith('Dtype') and ['f', 'nan'] not in its2 and not c.get('lsb0'):
            if ''.join(encs) + trail2 != data2: return f"{where}: data {data2!r} is not the concatenation of the item encodings {encs} + trailing {trail2!r}"
        # element-wise operators
        if op == 'scalar_op' and r[0] == 'err' and dtype_info(dt)[0] in ('uint', 'int') and not trail and isinstance(st.get('x'), int) \
                and st['f'] in ('add', 'sub', 'mul', 'radd', 'rsub', 'rmul', 'neg', 'abs') and all(isinstance(v, int) for v in L):
            # "a result that does not fit raises": and one in which every item fits must not
            f = st['f']; x = st['x']
            exp = [-v for v in L] if f == 'neg' else ([abs(v) for v in L] if f == 'abs' else [OPS[f](v, x) for v in L])
            if all(enc_item(dt, v) is not None for v in exp):
                return f"{where}: every item of the element-wise result {exp} fits {dt}, yet the operator raised {r[1]}"
        if op == 'scalar_op' and r[0] == 'ok' and r[1] != 'skip' and not trail and dtype_info(dt)[0].startswith(('float', 'bfloat')) and st['f'] in ('neg', 'abs', 'add', 'sub', 'mul', 'radd', 'rsub', 'rmul') \
                and all(isinstance(pv(v), float) for v in L) and not isinstance(st.get('x'), bool):
            f = st['f']; x = st['x']
            vals = [pv(v) for v in L]
            try: exp = [-v for v in vals] if f == 'neg' else ([abs(v) for v in vals] if f == 'abs' else [OPS[f](v, x) for v in vals])
            except Exception: exp = None
            if exp is not None and str(r[1][0][4]) == str(dt):
                want = [enc_item(dt, cv(e)) for e in exp]
                got = [enc_item(dt, g) for g in r[1][0][0]]
                if None not in want and want != got:
                    return f"{where}: element-wise result {r[1][0][0]}, the operator mapped over the items gives {[cv(e) for e in exp]} (compared through their encodings, sign of zero included)"
        if op in ('scalar_op',) and r[0] == 'ok' and r[1] != 'skip' and dtype_info(dt)[0] in ('uint', 'int') and all(isinstance(v, int) and not isinstance(v, bool) for v in L) and not trail:
            f = st['f']; x = st['x']
            try:
                if f == 'neg': exp = [-v for v in L]
                elif f == 'abs': exp = [abs(v) for v in L]
                else: exp = [OPS[f](v, x) for v in L]
            except (ZeroDivisionError, TypeError, ValueError): continue
            got = r[1][0][0]
            if f in ('lt', 'eq'):
                if got != exp: return f"{where}: comparison gave {got}, map gives {exp}"
            elif f in ('and', 'or', 'xor'): pass
            elif f == 'truediv' or isinstance(x, float): pass
            else:
                if got != exp: return f"{where}: element-wise result {got}, map gives {exp}"
    return None

def oracle_bufinit(c, obs):
    """Array(dtype, bytes-like): the object's bytes are the data (doc/array.rst: 'a bytes or bytearray object ...'), followed by the trailing bits"""
    o = obs[1]; r = o['r']
    name, w = dtype_info(c['dtype'])
    raw = o['raw'] + c['trail']
    what = f"Array({c['dtype']!r}, <{c['buf']} of {c['vs']}>, trailing_bits={c['trail']!r})"
    if r[0] != 'ok': return f"{what}: a bytes-like initializer is the Array's data; raised {r[1]}"
    its, n, data, trail, dt = r[1]
    if data != raw: return f"{what}: the data must be the object's {len(o['raw'])} bits + the trailing bits = {raw!r}; it is {data!r}"
    if n != len(raw) // w or len(its) != n or (trail != raw[len(raw) - len(raw) % w:] and not c.get('lsb0')): return f"{what}: {len(raw)} bits at {w} bits per item: len {n}, {len(its)} items, trailing {trail!r}"
    if not c.get('lsb0'):
        for i, x in enumerate(its):
            e = enc_item(dt, x)
            if e is not None and x != ['f', 'nan'] and e != raw[i * w:(i + 1) * w]: return f"{what}: item {i} is {x}, its slot holds {raw[i * w:(i + 1) * w]!r}"
    return None

def oracle_between(c, obs):
    from bitstring import Array
    f = c['f']; sym = {'add': '+', 'sub': '-', 'mul': '*', 'floordiv': '//', 'truediv': '/', 'mod': '%', 'lshift': '<<', 'rshift': '>>', 'lt': '<', 'gt': '>', 'le': '<=', 'ge': '>=', 'eq': '==', 'ne': '!='}[f]
    cmp_ = f in BETWEEN_CMP
    if obs[0] != 'ok': return f"between {c}: the operands could not be built: {obs}"
    ba, bb, r, aa, ab = obs[1]
    what = f"Array({ba[4]}, {ba[0]}{', trailing ' + repr(ba[3]) if ba[3] else ''}) {sym}{'=' if c['inplace'] else ''} {'the same Array' if c['self'] else f'Array({bb[4]}, {bb[0]})'}{' [lsb0]' if c.get('lsb0') else ''}"
    if cmp_ and f in ('eq', 'ne') and str(ba[4]) != str(bb[4]) and 'eq_ne_between_different_dtypes' in KNOWN_OPEN: return None
    x = [pv(v) for v in ba[0]]; y = [pv(v) for v in bb[0]]
    def refused(why, classes=('ValueError',)):
        if r[0] != 'err': return f"{what}: {why}, must raise; got {str(r[1][0])[:200]}"
        if classes and r[1] not in classes: return f"{what}: {why}, must raise {' / '.join(classes)}; raised {r[1]}"
        if aa != ba: return f"{what}: {why}; it raised {r[1]} but the left Array is now {aa}"
        if ab != bb: return f"{what}: {why}; it raised {r[1]} but the right Array is now {ab}"
        return None
    if len(x) != len(y): return refused(f"the Arrays have {len(x)} and {len(y)} items")
    exp_dt = None if cmp_ else promo_rule(c['d1'], c['d2'])
    if not cmp_ and exp_dt is None: return refused(f"{ba[4]} and {bb[4]} are not both integer / floating point types", ('ValueError', 'TypeError'))
    if f == 'lshift' and any(isinstance(q, int) and q > 4096 for q in y): return None          # the reference itself would need astronomically large integers
    try: exp = [OPS2[f](p, q) for p, q in zip(x, y)]
    except TypeError: return refused("the Python operator does not take these items", ())
    except (ZeroDivisionError, ValueError, OverflowError) as e: return refused(f"the Python operator fails on an item ({type(e).__name__})")
    dts = 'bool' if cmp_ else str(exp_dt)
    int_result_of_truediv = f == 'truediv' and not cmp_ and exp_dt.return_type is not float
    if int_result_of_truediv and not all(float(e).is_integer() for e in exp): want = None          # a fractional quotient stored in an integer dtype: the documentation does not say how
    else:
        if int_result_of_truediv: exp = [int(e) for e in exp]
        want = [enc_item(dts, cv(e)) for e in exp]
        if None in want: return refused(f"the result {[cv(e) for e in exp]} does not fit {dts}")
    if want is None and r[0] == 'err': return refused('(a fractional quotient for an integer dtype)', ())
    if r[0] != 'ok': return f"{what}: the result {[cv(e) for e in exp]} fits {dts}, must succeed; raised {r[1]}"
    res, same_obj, cls = r[1]
    its, n, data, trail, dt = res
    if cls != 'Array': return f"{what}: the result is a {cls}"
    if dt != dts: return f"{what}: the result has dtype {dt} (items {its}); the documented promotion gives {dts} with items {[cv(e) for e in exp]}"
    if n != len(x) or len(its) != n: return f"{what}: the result has {n} items {its} (data {data!r}); the operator mapped over the items gives the {len(x)} items {[cv(e) for e in exp]} of dtype {dts}"
    if trail and not (same_obj and trail == ba[3]): return f"{what}: the result has trailing bits {trail!r}"
    if want is not None:
        got = [enc_item(dts, g) for g in its]
        if got != want: return f"{what}: the result holds {its}; the operator mapped over the items gives {[cv(e) for e in exp]} (dtype {dts}, compared through their encodings)"
        if not c.get('lsb0') and not trail and data != ''.join(want): return f"{what}: the data {data!r} is not the concatenation of the encodings {want} of {[cv(e) for e in exp]}"
    if not c['self'] and ab != bb: return f"{what}: the right operand changed: {ab}"
    if not same_obj and aa != ba: return f"{what}: a new Array was returned, yet the left operand changed as well: {aa}"
    if same_obj and aa != res: return f"{what}: the object returned is the left operand, which now reads {aa}, not {res}"
    return None

def coq_between(c, obs):
    """plain big-endian int dtypes, + - * and < ==, msb0, no trailing bits: the loop model of ArrayCases.v"""
    if obs[0] != 'ok' or c.get('lsb0') or c['trail1'] or c['f'] not in ('add', 'sub', 'mul', 'lt', 'eq'): return None
    ba, bb, r, aa, ab = obs[1]
    if int_dt(ba[4]) is None or int_dt(bb[4]) is None or (r[0] == 'err' and r[1] != 'ValueError'): return None
    from bitstring import Array
    (T1, _), (T2, _) = cdt(Array(ba[4]).dtype), cdt(Array(bb[4]).dtype)
    D, D2 = cbits(ba[2]), cbits(bb[2]); f = c['f']
    if f in ('lt', 'eq'):
        return f"rbits_eqb (arr_between_cmp {T1} {T2} {'BLt' if f == 'lt' else 'BEq'} {D} {D2}) " + (f"(Ok {cbits(r[1][0][2])})" if r[0] == 'ok' else "(Err ValueError)")
    if r[0] == 'err': return f"between_err (arr_between_int {T1} {T2} {'B' + f.capitalize()} {D} {D2}) ValueError"
    res_dt = int_dt(r[1][0][4])
    if res_dt is None: return 'false'
    return f"between_is (arr_between_int {T1} {T2} {'B' + f.capitalize()} {D} {D2}) \"{'int' if res_dt[1] else 'uint'}\" {res_dt[0]} {cbits(r[1][0][2])}"

def nontrivial(c, obs):
    if c['op'] == 'between': return c['inplace']
    if c['op'] == 'bufinit': return True
    return c['op'] == 'program' and any(s['op'] in ('setitem', 'setslice', 'delitem', 'delslice', 'append', 'extend', 'insert', 'pop', 'reverse', 'inplace_op') for s in c['steps'])
def classify(c, obs): return None

def cdt(t):
    """a Dtype of the library as the record ArrayOps.dt: name, kind of the return type, signedness, length (in units), scale as the tag"""
    k = 'KFloat' if t.return_type is float else ('KInt' if t.return_type in (int, bool) else 'KOther')
    sc = 0 if t.scale is None else int(t.scale)
    return f'(mkdt "{t.name}" {k} {cbool(bool(t.is_signed))} {cz(t.length)} {cz(sc)})', (t.name, t.length, sc)

def int_dt(dt):
    """(width, signed) when str(dtype) is a plain big-endian uintN / intN"""
    import re
    m = re.fullmatch(r'(u?)int(\d+)', str(dt))
    return (int(m.group(2)), m.group(1) == '') if m else None

AOPS = {'add': 'AAdd', 'radd': 'AAdd', 'sub': 'ASub', 'mul': 'AMul', 'rmul': 'AMul', 'rsub': 'ARsub', 'floordiv': 'AFloordiv', 'mod': 'AMod', 'lshift': 'ALshift', 'rshift': 'ARshift'}

def coq_check(c, obs):
    """index / assignment / deletion / insert / append on the data bits, for dtypes whose item is w bits; the element-wise loops of ArrayOps.v
    for int items (scalar, in-place and Array-Array operators, comparisons) and the promotion function"""
    if c['op'] in ('scaled', 'equals'): return None          # (equals with foreign operands: the Python oracle decides)
    if c['op'] == 'promote':
        from bitstring import Array, Dtype
        t1 = Dtype(c['d1'], scale=c['s1']) if c.get('s1') is not None else Array(c['d1']).dtype
        t2 = Dtype(c['d2'], scale=c['s2']) if c.get('s2') is not None else Array(c['d2']).dtype
        (T1, i1), (T2, i2) = cdt(t1), cdt(t2)
        if obs[0] == 'ok':
            want = next((i for i, t in ((i1, t1), (i2, t2)) if str(t) == obs[1][0]), None)
            if want is None: return 'false'                                            # "one of the two types gets returned"
            return f'promo_is (promotetype {T1} {T2}) "{want[0]}" {cz(want[1])} {cz(want[2])}'
        if obs[1] == 'ValueError' and promo_rule(c['d1'], c['d2'], c.get('s1'), c.get('s2')) is None: return f'promo_err (promotetype {T1} {T2}) ValueError'
        return None
    if c['op'] == 'between': return coq_between(c, obs)
    if c['op'] != 'program' or c.get('lsb0'): return None         # the Array model is stated for msb0 data layout
    o = obs[1]
    if o['init'][0] != 'ok': return None
    name, w = dtype_info(c['dtype'])
    terms = []
    for st, (before, r, after) in zip(c['steps'], [t[:3] for t in o['trace']]):
        items, n, data, trail, dt = before
        if dt != (after[4]): continue
        try: wcur = dtype_info(c['dtype'])[1] if dt == str(__import__('bitstring').Array(c['dtype']).dtype) else None
        except Exception: wcur = None
        if wcur is None: continue
        D = cbits(data); op = st['op']
        res = ('ok', after[2]) if r[0] == 'ok' else ('err', r[1])
        if op == 'getslice':
            if r[0] == 'ok': terms.append(f"rbits_eqb (arr_getslice {wcur} {D} {cslice(*st['k'])}) (Ok {cbits(r[1][0][2])})")
            elif r[1] == 'ValueError': terms.append(f"rbits_eqb (arr_getslice {wcur} {D} {cslice(*st['k'])}) (Err ValueError)")
        elif op == 'pop':
            # the data after pop, and (on success) nothing else to compare at bit level: the returned item is checked by the oracle
            if r[0] == 'ok': terms.append(f"res_eqb bits_eqb (do xd <- arr_pop {wcur} {D} {cz(st['i'])}; Ok (snd xd)) (Ok {cbits(after[2])})")
            elif r[1] == 'IndexError': terms.append(f"res_eqb bits_eqb (do xd <- arr_pop {wcur} {D} {cz(st['i'])}; Ok (snd xd)) (Err IndexError)")
        elif op == 'delitem': terms.append(f"rbits_eqb (arr_delitem {wcur} {D} {cz(st['i'])}) {cres(res, cbits)}")
        elif op == 'setitem' and r[0] == 'ok':
            k = st['i'] + n if st['i'] < 0 else st['i']
            e = after[2][k * wcur:(k + 1) * wcur]
            terms.append(f"rbits_eqb (arr_setitem {wcur} {D} {cz(st['i'])} {cbits(e)}) (Ok {cbits(after[2])})")
        elif op == 'insert' and r[0] == 'ok':
            k = st['i']; k = max(k + n, 0) if k < 0 else k; k = min(k, n)
            e = after[2][k * wcur:(k + 1) * wcur]
            terms.append(f"rbits_eqb (arr_insert {wcur} {D} {cz(st['i'])} {cbits(e)}) (Ok {cbits(after[2])})")
        elif op == 'append' and r[0] == 'ok':
            terms.append(f"rbits_eqb (arr_append {wcur} {D} {cbits(after[2][len(data):])}) (Ok {cbits(after[2])})")
        elif op == 'append' and r[0] == 'err' and trail:
            terms.append(f"rbits_eqb (arr_append {wcur} {D} (repeat false {wcur}%nat)) (Err ValueError)")
    # element-wise operators on int items, whatever the dtype has become by now
    for st, (before, r, after) in zip(c['steps'], [t[:3] for t in o['trace']]):
        items, n, data, trail, dt = before
        wi = int_dt(dt)
        if wi is None or r == ['ok', 'skip'] or (r[0] == 'err' and r[1] != 'ValueError'): continue
        w, sg = wi; D = cbits(data); op = st['op']; S = cbool(sg)
        if op in ('scalar_op', 'inplace_op'):
            f, x = st['f'], st.get('x')
            if f in ('neg', 'abs'): A = 'ANeg' if f == 'neg' else 'AAbs'
            elif f in AOPS and isinstance(x, int) and not isinstance(x, bool) and abs(x) <= 1000: A = f'({AOPS[f]} {cz(x)})'
            elif f in ('lt', 'eq') and op == 'scalar_op' and isinstance(x, int) and not isinstance(x, bool):
                if r[0] == 'ok': terms.append(f"rbits_eqb (arr_scalar_cmp {w} {S} ({'CLt' if f == 'lt' else 'CEq'} {cz(x)}) {D}) (Ok {cbits(r[1][0][2])})")
                continue
            else: continue
            if op == 'scalar_op':
                terms.append(f"rbits_eqb (arr_scalar_op {w} {S} {A} {D}) " + (f"(Ok {cbits(r[1][0][2])})" if r[0] == 'ok' else "(Err ValueError)"))
            elif f in IOPS:
                terms.append(f"iop_is (arr_scalar_iop {w} {S} {A} {D}) {cbits(after[2])} " + ("(Ok tt)" if r[0] == 'ok' else "(Err ValueError)"))
        elif op == 'array_op' and r[0] == 'err':
            # a length mismatch or a result that does not fit: the operand is rebuilt here exactly as the runner builds it
            if int_dt(st['d2']) is None: continue
            from bitstring import Array
            m = n if st['same_len'] else n + 1
            other = Array(st['d2'], [(i % 3) for i in range(m)])
            (T1, _), (T2, _) = cdt(Array(dt).dtype), cdt(other.dtype)
            if st['f'] in ('lt', 'eq'): terms.append(f"rbits_eqb (arr_between_cmp {T1} {T2} {'BLt' if st['f'] == 'lt' else 'BEq'} {D} {cbits(other.data.bin)}) (Err ValueError)")
            else: terms.append(f"between_err (arr_between_int {T1} {T2} {'B' + st['f'].capitalize()} {D} {cbits(other.data.bin)}) ValueError")
        elif op == 'array_op' and r[0] == 'ok':
            w2 = int_dt(r[1][1][4])
            if w2 is None: continue
            from bitstring import Array
            (T1, _), (T2, _) = cdt(Array(dt).dtype), cdt(Array(r[1][1][4]).dtype)
            D2 = cbits(r[1][1][2]); res_dt = int_dt(r[1][0][4])
            if st['f'] in ('lt', 'eq'):
                terms.append(f"rbits_eqb (arr_between_cmp {T1} {T2} {'BLt' if st['f'] == 'lt' else 'BEq'} {D} {D2}) (Ok {cbits(r[1][0][2])})")
            elif res_dt is not None:
                terms.append(f"between_is (arr_between_int {T1} {T2} {'B' + st['f'].capitalize()} {D} {D2}) \"{'int' if res_dt[1] else 'uint'}\" {res_dt[0]} {cbits(r[1][0][2])}")
    return ' && '.join('(' + t + ')' for t in terms) if terms else None

def search(seeds, rng):
    for c in list(seeds) + list(gen_cases(rng, 'quick')):
        try: obs = run_impl(c)
        finally: reset_options()
        msg = oracle(c, obs)
        if msg: return c, obs, msg
    return None
