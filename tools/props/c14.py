"""C14 — Array behaves as a list of fixed-width items over one contiguous bit buffer."""
from vlib import *
from props.common import *
import operator, math, struct, copy as _copy

ID = 'C14'
COQ_PROPS = ['Props/C14.v']
COQ_IMPORTS = ['Prims', 'CaseLib', 'BitsCore', 'Mutators', 'ArrayM', 'ArrayOps', 'ArrayCases']
RULE = ('programs of 1..14 list operations (len, index, slice with any step, item and slice assignment, deletion, append, extend, insert, pop, reverse, count, tolist, iteration, equals, copy, '
        'dtype change) and element-wise operators (arithmetic, shifts, bitwise, comparisons, in-place forms, between Arrays with promotion) on Arrays of uint/int of various widths, le/be/ne, hex, bin, oct, '
        'bool, float16/32/64, 8-bit floats, bytesN and struct codes, with and without trailing bits; a Python list + per-item encoder is the reference; a.tolist(), len, a.data.bin and trailing_bits '
        'compared after every step. non-trivial = program containing a mutation; distinct by program')
ASSUMPTIONS = ['items are compared through their encodings (floats via struct bytes)', 'reverse/append/extend/fromfile refuse trailing bits by documented design']

DTYPES = ['uint8', 'uint5', 'int7', 'uint12', 'int16', 'uintle16', 'intbe24', 'uintne32', 'hex4', 'hex8', 'bin3', 'oct6', 'bool', 'float16', 'float32', 'floatle64', 'bfloat',
          'p4binary', 'e4m3mxfp', 'e2m1mxfp', 'mxint', 'bytes1', 'bytes3', '>h', '<H', '=B', '>f', 'bits5']

def dtype_info(d):
    from bitstring import Dtype, Array
    if str(d).startswith('Dtype('): return '', 0          # the str() of a scaled dtype: no rule of the oracle applies to those
    a = Array(d)
    return a.dtype.name, a.dtype.bitlength

def rand_item(rng, d):
    name, w = dtype_info(d)
    if name.startswith('uint'): return rng.choice([0, 1, (1 << w) - 1, rng.randrange(1 << w)])
    if name.startswith('int'): return rng.choice([0, -1, (1 << (w - 1)) - 1, -(1 << (w - 1)), rng.randrange(-(1 << (w - 1)), 1 << (w - 1))])
    if name == 'hex': return ''.join(rng.choice('0123456789abcdef') for _ in range(w // 4))
    if name == 'bin': return ''.join(rng.choice('01') for _ in range(w))
    if name == 'oct': return ''.join(rng.choice('01234567') for _ in range(w // 3))
    if name == 'bool': return rng.random() < 0.5
    if name == 'bytes': return {'b': [rng.randrange(256) for _ in range(w // 8)]}
    if name == 'bits': return {'bits': ''.join(rng.choice('01') for _ in range(w))}
    return rng.choice([0.0, 1.0, -1.5, 0.25, 2.0, 3.0, -0.5, -0.0, 0.0, -0.0])

def gen_step(rng, d, n):
    op = rng.choice(['getitem', 'getslice', 'setitem', 'setslice', 'delitem', 'delslice', 'append', 'extend', 'insert', 'pop', 'reverse', 'count', 'copy', 'iter', 'equals', 'astype', 'scalar_op', 'array_op', 'inplace_op', 'byteswap'])
    s = {'op': op}
    idx = lambda: rng.choice([0, -1, n - 1, n, -n, -n - 1, rng.randrange(-n - 2, n + 3)])
    sl = lambda: [rng.choice([None, idx()]), rng.choice([None, idx()]), rng.choice([None, None, 1, 2, -1, -2, 3])]
    if op in ('getitem', 'delitem', 'pop'): s['i'] = idx()
    if op in ('getslice', 'delslice'): s['k'] = sl()
    if op == 'setitem': s.update(i=idx(), v=rand_item(rng, d))
    if op == 'setslice':
        s.update(k=sl(), vs=[rand_item(rng, d) for _ in range(rng.randrange(0, 4))])
        if rng.random() < 0.3: s['operand'] = rng.choice(['array', 'array_trailing', 'tuple', 'generator'])      # the values given as another Array (also one with trailing bits), a tuple, a generator
    if op == 'append': s['v'] = rand_item(rng, d)
    if op == 'extend':
        s['vs'] = [rand_item(rng, d) for _ in range(rng.randrange(0, 4))]
        if rng.random() < 0.15: s['as_array'] = rng.choice([2, 4])
    if op == 'insert': s.update(i=idx(), v=rand_item(rng, d))
    if op == 'count': s['v'] = rand_item(rng, d)
    if op == 'astype': s['d'] = rng.choice(['uint8', 'int16', 'hex4', 'float16'] * 2 + REFUSED_DTYPES)
    if op in ('scalar_op', 'inplace_op'): s.update(f=rng.choice(['add', 'sub', 'mul', 'floordiv', 'truediv', 'mod', 'lshift', 'rshift', 'and', 'or', 'xor', 'lt', 'eq', 'neg', 'abs', 'radd', 'rsub', 'rsub', 'rmul']), x=rng.choice([0, 1, 2, 3, -1, 0.5, 7, 255, 256, 300]))
    if op == 'array_op': s.update(f=rng.choice(['add', 'sub', 'mul', 'lt', 'eq']), d2=rng.choice(['uint8', 'int16', 'float16', 'uint5', 'int7', 'float32']), same_len=rng.random() < 0.85)
    return s

def gen_cases(rng, tier):
    N = 240 if tier == 'quick' else 4000
    # documented type promotion of element-wise operators between two Arrays, for every pair of dtypes
    for d1 in PROMO:
        for d2 in PROMO:
            if tier == 'quick' and rng.random() < 0.7: continue
            yield {'op': 'promote', 'd1': d1, 'd2': d2, 'f': rng.choice(['mul', 'mul', 'add', 'sub'])}
    # ... and for dtypes that differ only in their scale (same name and length: "a tie goes to the first", D62), or in scale and something else
    for d1, d2 in (('uint8', 'uint8'), ('int16', 'int16'), ('float16', 'float16'), ('uint8', 'uintbe8'), ('uint8', 'int8'), ('uint16', 'uint8'), ('float32', 'int16'), ('e4m3mxfp', 'e4m3mxfp')):
        for s1, s2 in ((2, 4), (4, 2), (None, 2), (2, None), (2, 2)):
            yield {'op': 'promote', 'd1': d1, 'd2': d2, 's1': s1, 's2': s2, 'f': rng.choice(['add', 'sub'])}
    # every element-wise operator on every float dtype, on items that include both zeros (the sign of a zero result is part of the value)
    for d in ('float16', 'float32', 'float64', 'floatle32', 'bfloat', 'p4binary', 'e4m3mxfp', 'e5m2mxfp', 'e2m1mxfp'):
        for f, x in (('neg', 0), ('abs', 0), ('add', 0.0), ('add', -0.0), ('sub', 0.0), ('mul', -1.0), ('mul', 1.0), ('rsub', 0.0), ('rsub', -0.0), ('radd', -0.0), ('rmul', -1.0), ('mul', 0.0), ('mul', -0.0)):
            if tier == 'quick' and rng.random() < 0.5: continue
            yield {'op': 'program', 'dtype': d, 'items': [0.0, -0.0, 1.5, -2.0, 0.0], 'trail': '', 'steps': [{'op': 'scalar_op', 'f': f, 'x': x}], 'seed': 1}
    # the same programs under options.lsb0: an Array is the same list of items in both bit numberings
    for _ in range(N // 4):
        d = rng.choice(DTYPES)
        n = rng.randrange(0, 7)
        yield {'op': 'program', 'dtype': d, 'items': [rand_item(rng, d) for _ in range(n)], 'trail': '', 'lsb0': True,
               'steps': [gen_step(rng, d, n) for _ in range(rng.randrange(1, 8))], 'seed': rng.randrange(1 << 30)}
    # element-wise operator programs on int items (each step is also evaluated on the loop models of ArrayOps.v): results at and over the limits of
    # the item width, zero divisors, negative shifts, operands of other int dtypes (promotion), trailing bits (dropped by the pure forms)
    for _ in range(N // 3):
        d = rng.choice(['uint8', 'int8', 'uint5', 'int7', 'int16', 'uint16', 'uint3', 'int4', 'uint12'])
        n = rng.randrange(0, 6)
        def estep():
            o = rng.choice(['scalar_op', 'scalar_op', 'inplace_op', 'array_op'])
            if o == 'array_op': return {'op': o, 'f': rng.choice(['add', 'sub', 'mul', 'lt', 'eq']), 'd2': rng.choice(['uint8', 'int16', 'uint5', 'int7', 'int8', 'uint16']), 'same_len': rng.random() < 0.85}
            f = rng.choice(['add', 'sub', 'mul', 'floordiv', 'mod', 'lshift', 'rshift', 'lt', 'eq', 'neg', 'abs', 'radd', 'rsub', 'rmul'] if o == 'scalar_op' else ['add', 'sub', 'mul', 'floordiv', 'mod', 'lshift', 'rshift'])
            return {'op': o, 'f': f, 'x': rng.choice([0, 1, 2, 3, -1, -2, 7, 8, 127, 128, 255, 256, -128, -129, 300, rng.randrange(-40, 40)])}
        yield {'op': 'program', 'dtype': d, 'items': [rand_item(rng, d) for _ in range(n)], 'trail': rand_bits(rng, rng.choice([0, 0, 1, 2])),
               'steps': [estep() for _ in range(rng.randrange(1, 5))], 'seed': rng.randrange(1 << 30)}
    for _ in range(N):
        d = rng.choice(DTYPES)
        n = rng.randrange(0, 7)
        yield {'op': 'program', 'dtype': d, 'items': [rand_item(rng, d) for _ in range(n)], 'trail': rand_bits(rng, rng.choice([0, 0, 0, 1, 2, 3])),
               'steps': [gen_step(rng, d, n) for _ in range(rng.randrange(1, 15))], 'seed': rng.randrange(1 << 30)}

PROMO = ['uint8', 'uint5', 'int7', 'int16', 'uint16', 'int8', 'float16', 'float32', 'float64', 'bfloat', 'e4m3mxfp', 'e5m2mxfp', 'e3m2mxfp', 'e2m3mxfp', 'e2m1mxfp', 'e8m0mxfp', 'mxint',
         'p4binary', 'p3binary', 'bool', 'uintle16', 'intbe16', 'hex4', 'bytes1']

# dtype assignments that must be refused (ValueError) and leave the Array exactly as it was: 'auto' scales (only valid at creation), zero or missing lengths
REFUSED_DTYPES = ['auto:e4m3mxfp', 'auto:float16', 'auto:uint8', 'uint0', 'hex0', 'se', 'float', 'bytes0']

def kind(c): return c.get('dtype', c['op'])

def pv(v):
    import bitstring
    if isinstance(v, dict): return bytes(v['b']) if 'b' in v else bitstring.Bits(bin=v['bits'])
    if isinstance(v, list) and len(v) == 2 and v[0] == 'f': return float.fromhex(v[1]) if v[1] != 'nan' else float('nan')
    return v
def cv(v):
    """canonical item"""
    import bitstring
    if isinstance(v, float): return ['f', v.hex() if v == v else 'nan']
    if isinstance(v, bytes): return {'b': list(v)}
    if isinstance(v, bitstring.Bits): return {'bits': v.bin}
    return v

OPS = {'add': operator.add, 'sub': operator.sub, 'mul': operator.mul, 'floordiv': operator.floordiv, 'truediv': operator.truediv, 'mod': operator.mod, 'lshift': operator.lshift,
       'rshift': operator.rshift, 'and': operator.and_, 'or': operator.or_, 'xor': operator.xor, 'lt': operator.lt, 'eq': operator.eq,
       'radd': lambda a, x: x + a, 'rsub': lambda a, x: x - a, 'rmul': lambda a, x: x * a}      # scalar on the left
IOPS = {'add': operator.iadd, 'sub': operator.isub, 'mul': operator.imul, 'floordiv': operator.ifloordiv, 'truediv': operator.itruediv, 'mod': operator.imod, 'lshift': operator.ilshift,
        'rshift': operator.irshift, 'and': operator.iand, 'or': operator.ior, 'xor': operator.ixor}

def snap(a):
    return [[cv(x) for x in a.tolist()], len(a), a.data.bin, a.trailing_bits.bin, str(a.dtype)]

def apply_impl(a, st, rng):
    import bitstring, random
    from bitstring import Array, Bits
    op = st['op']
    if op == 'getitem': return cv(a[st['i']])
    if op == 'getslice':
        r = a[slice(*st['k'])]; return [snap(r), type(r).__name__]
    if op == 'setitem': a[st['i']] = pv(st['v']); return None
    if op == 'setslice':
        vals = [pv(v) for v in st['vs']]
        kindo = st.get('operand')
        if kindo in ('array', 'array_trailing'):
            try: vals = Array(a.dtype, vals, trailing_bits=Bits('0b1') if kindo == 'array_trailing' else None)
            except Exception: pass          # a value that does not fit: keep the list (the assignment itself must refuse it)
        elif kindo == 'tuple': vals = tuple(vals)
        elif kindo == 'generator': vals = (x for x in list(vals))
        a[slice(*st['k'])] = vals; return None
    if op == 'delitem': del a[st['i']]; return None
    if op == 'delslice': del a[slice(*st['k'])]; return None
    if op == 'append': return a.append(pv(st['v']))
    if op == 'extend':
        if st.get('as_array') and all(isinstance(v, int) and not isinstance(v, bool) for v in st['vs']) and str(a.dtype).startswith(('uint', 'int')):
            import bitstring
            other = Array(bitstring.Dtype(a.dtype.name, a.dtype.length, scale=st['as_array']), [v * st['as_array'] for v in st['vs']])
            before = a.tolist()
            try: a.extend(other)
            except TypeError: return ['refused']
            return ['extended', a.tolist() == before + other.tolist()]
        return a.extend([pv(v) for v in st['vs']])
    if op == 'insert': return a.insert(st['i'], pv(st['v']))
    if op == 'pop': return cv(a.pop(st['i']))
    if op == 'reverse': return a.reverse()
    if op == 'count': return a.count(pv(st['v']))
    if op == 'copy':
        b = _copy.copy(a); c2 = a[:]
        r = [snap(b), snap(c2), b.equals(a)]
        if len(b): 
            try: b[0] = b[-1]; b.append(b[0])
            except Exception: pass
        return r + [snap(a)]
    if op == 'iter': return [cv(x) for x in a]
    if op == 'equals': return [a.equals(Array(a.dtype, a.tolist(), trailing_bits=a.trailing_bits)), a.equals(a[:-1]) if len(a) else False, a.equals(5)]
    if op == 'astype':
        before = a.data.bin
        a.dtype = bitstring.Dtype(st['d'][5:], scale='auto') if st['d'].startswith('auto:') else st['d']
        return [before == a.data.bin]
    if op == 'byteswap':
        return a.byteswap()
    if op in ('scalar_op', 'inplace_op'):
        f = st['f']
        if f == 'neg': r = -a
        elif f == 'abs': r = abs(a)
        elif op == 'inplace_op':
            if f not in IOPS: return 'skip'
            b = a; b = IOPS[f](b, st['x']); return ['inplace', b is a]
        else: r = OPS[f](a, st['x'])
        return [snap(r)]
    if op == 'array_op':
        n = len(a) if st['same_len'] else len(a) + 1
        other = Array(st['d2'], [(i % 3) for i in range(n)] if not st['d2'].startswith('float') else [float(i % 3) for i in range(n)])
        r = OPS[st['f']](a, other)
        return [snap(r), snap(other)]

def run_impl(c):
    import bitstring, random
    from bitstring import Array, Bits
    if c['op'] == 'promote':
        def one(d, sc=None):
            a = Array(d)
            if sc is not None:
                d = bitstring.Dtype(d, scale=sc)
                return Array(d, [float(sc), float(sc)] if a.dtype.return_type is float else [sc, sc])
            if a.dtype.return_type in (float,): return Array(d, [1.0, 1.0])
            if a.dtype.return_type is bool: return Array(d, [True, True])
            if a.dtype.return_type is int: return Array(d, [1, 1])
            if d.startswith('hex'): return Array(d, ['1', '1'])
            return Array(d, [b'a', b'a'])
        def f():
            a, b = one(c['d1'], c.get('s1')), one(c['d2'], c.get('s2'))
            r = OPS[c['f']](a, b)
            return [str(r.dtype), [cv(x) for x in r.tolist()], str(a.dtype), str(b.dtype)]
        return attempt(f)
    bitstring.options.lsb0 = bool(c.get('lsb0'))         # reset by the driver
    rng = random.Random(c['seed'])
    def build():
        return Array(c['dtype'], [pv(v) for v in c['items']], trailing_bits=Bits(bin=c['trail']) if c['trail'] else None)
    r0 = attempt(build)
    if r0[0] != 'ok': return ('ok', {'init': list(r0), 'trace': []})
    a = r0[1]
    trace = []
    for st in c['steps']:
        before = snap(a)
        r = attempt(lambda: apply_impl(a, st, rng))
        trace.append([before, list(r), snap(a)])
    return ('ok', {'init': ['ok', snap(a) if not trace else trace[0][0]], 'trace': trace})

# ---------------- reference: python list + encoder ----------------
def kind_ok(d, v):
    """the value has the Python type the dtype documents (the generator draws values for the initial dtype; astype may have changed it)"""
    name, w = dtype_info(d)
    if name.startswith('uint') or name.startswith('int'): return isinstance(v, int) and not isinstance(v, bool)
    if name in ('hex', 'bin', 'oct'): return isinstance(v, str)
    if name == 'bool': return isinstance(v, bool)
    if name == 'bytes': return isinstance(v, dict) and 'b' in v
    if name == 'bits': return isinstance(v, dict) and 'bits' in v
    return isinstance(v, (int, float)) and not isinstance(v, bool)

def enc_item(d, v):
    """encoding of one item through an independent route (struct / format); None if not encodable"""
    import bitstring
    name, w = dtype_info(d)
    try:
        if name.startswith('uint') or name.startswith('int'):
            signed = name.startswith('int')
            if not isinstance(v, int) or isinstance(v, bool) and False: pass
            lo, hi = (-(1 << (w - 1)), (1 << (w - 1)) - 1) if signed else (0, (1 << w) - 1)
            v = int(v)
            if not lo <= v <= hi: return None
            be = format(v & ((1 << w) - 1), f'0{w}b')
            import sys
            if name.endswith('le') or (name.endswith('ne') and sys.byteorder == 'little'): be = ''.join(be[i:i + 8] for i in range(w - 8, -1, -8))
            return be
        return bitstring.Dtype(d if not d[0] in '<>=' else bitstring.Array(d).dtype).build(pv(v)).bin
    except Exception:
        return None

def oracle(c, obs):
    try:
        return oracle_(c, obs)
    except Exception as e:   # an oracle crash must not pass silently
        import traceback
        return 'oracle error: ' + traceback.format_exc()[-300:]

def promo_rule(d1, d2, s1=None, s2=None):
    """the documented rules (Array._promotetype docstring / doc/array.rst): only int and float kinds; float beats int; signed int beats unsigned int;
    longer beats shorter; a tie goes to the first"""
    from bitstring import Array, Dtype
    t1, t2 = Array(d1).dtype, Array(d2).dtype
    if s1 is not None: t1 = Dtype(d1, scale=s1)
    if s2 is not None: t2 = Dtype(d2, scale=s2)
    fl = lambda t: t.return_type is float
    it = lambda t: t.return_type is int or t.return_type is bool
    if not ((fl(t1) or it(t1)) and (fl(t2) or it(t2))): return None
    if fl(t1) != fl(t2): return t1 if fl(t1) else t2
    if it(t1) and t1.is_signed != t2.is_signed and t1.name != t2.name: return t1 if t1.is_signed else t2
    return t2 if t2.length > t1.length else t1

def oracle_(c, obs):
    if c['op'] == 'promote':
        exp = promo_rule(c['d1'], c['d2'], c.get('s1'), c.get('s2'))
        if exp is None:
            return None if obs[0] == 'err' and obs[1] in ('ValueError', 'TypeError') else f"Arrays of {c['d1']} and {c['d2']} (not both int/float) combined: {obs}"
        if obs[0] != 'ok': return None          # the result may not fit the promoted type (it raises, as documented)
        if obs[1][0] != str(exp): return f"Array({c['d1']}) {c['f']} Array({c['d2']}) has dtype {obs[1][0]}; the documented promotion gives {exp}"
        return None
    o = obs[1]
    if o['init'][0] != 'ok': return f"Array({c['dtype']!r}, {c['items']}) could not be built: {o['init']}"
    name, w = dtype_info(c['dtype'])
    for st, (before, r, after) in zip(c['steps'], o['trace']):
        items, n, data, trail, dt = before
        where = f"Array({dt}, {items}, trailing {trail!r}) {st}"
        # invariants of every state
        for sname, s in (('before', before), ('after', after)):
            its, ln, dat, tr, dd = s
            ww = w if dd == dt and sname == 'before' else None
        its2, n2, data2, trail2, dt2 = after
        if n2 != len(its2): return f"{where}: len()={n2} but tolist() has {len(its2)} items"
        op = st['op']
        L = list(items)
        E = lambda xs: [enc_item(dt, x) for x in xs]
        newvals = [st['v']] if 'v' in st and op in ('setitem', 'append', 'insert') else (st.get('vs', []) if op in ('setslice', 'extend') else [])
        if op == 'extend' and st.get('as_array') and r[0] == 'ok' and isinstance(r[1], list) and r[1] and r[1][0] in ('refused', 'extended'):
            # extend with an Array of the same dtype name and length but another scale: either refused or the decoded items are appended
            if r[1][0] == 'extended' and not r[1][1]: return f"{where}: extend() with an Array of another scale reinterpreted its raw data"
            continue
        if any(not kind_ok(dt, x) for x in newvals + ([st['v']] if op == 'count' else [])):
            continue          # an earlier step changed the dtype: this value is of a Python type the current dtype does not document (not specified)
        if any(enc_item(dt, x) is None for x in newvals):
            # a value that does not fit the (current) dtype: must raise and change nothing
            if r[0] != 'err': return f"{where}: a value that does not fit {dt} was accepted: {str(after)[:200]}"
            if op == 'extend' and not trail:
                # like list.extend with a failing iterator: the items before the bad one may have been added
                k = next(i for i, x in enumerate(newvals) if enc_item(dt, x) is None)
                if after[2] not in (before[2], before[2] + ''.join(enc_item(dt, x) for x in newvals[:k])): return f"{where} raised and left {after}"
                continue
            if after != before: return f"{where} raised {r[1]} and changed the Array"
            continue
        try:
            if op == 'getitem':
                exp = ('ok', L[st['i']])
                if r[0] != 'ok' or enc_item(dt, r[1]) != enc_item(dt, exp[1]): return f"{where} returned {r}, list gives {exp}"
            elif op == 'getslice':
                exp = L[slice(*st['k'])] if st['k'][2] != 0 else None
                if exp is None: continue
                if r[0] != 'ok' or E(r[1][0][0]) != E(exp) or r[1][1] != 'Array': return f"{where} returned {str(r)[:200]}, list gives {exp}"
                if r[1][0][3] != '': return f"{where}: the slice carries trailing bits {r[1][0][3]!r}"
            elif op == 'setitem':
                L[st['i']] = st['v']
                if r[0] == 'ok':
                    if [enc_item(dt, x) for x in its2] != [enc_item(dt, x) for x in L]: return f"{where} left {its2}, list gives {L}"
                    if trail2 != trail: return f"{where} changed the trailing bits to {trail2!r}"
            elif op == 'delitem':
                del L[st['i']]
                if r[0] != 'ok' or E(its2) != E(L) or trail2 != trail: return f"{where}: got {r} items {its2} trailing {trail2!r}; list gives {L}"
            elif op == 'delslice':
                if st['k'][2] == 0: continue
                del L[slice(*st['k'])]
                if r[0] != 'ok' or E(its2) != E(L) or trail2 != trail: return f"{where}: got {r} items {its2} trailing {trail2!r}; list gives {L}"
            elif op == 'setslice':
                if st['k'][2] == 0: continue
                try: L[slice(*st['k'])] = st['vs']
                except ValueError:
                    if r[0] != 'err': return f"{where} should raise ValueError (extended slice size mismatch), got {r}"
                    if after != before: return f"{where} raised but changed the Array"
                    continue
                if r[0] == 'ok' and ([enc_item(dt, x) for x in its2] != [enc_item(dt, x) for x in L] or trail2 != trail): return f"{where} left {its2} / {trail2!r}, list gives {L}"
            elif op in ('append', 'extend', 'reverse'):
                if trail:
                    if r[0] != 'err' or r[1] != 'ValueError' or after != before: return f"{where} with trailing bits must raise ValueError and change nothing: {r}"
                    continue
                if op == 'append': L.append(st['v'])
                elif op == 'extend': L.extend(st['vs'])
                else: L.reverse()
                if r[0] != 'ok' or [enc_item(dt, x) for x in its2] != [enc_item(dt, x) for x in L]: return f"{where}: got {r} {its2}; list gives {L}"
            elif op == 'insert':
                L.insert(st['i'], st['v'])
                if r[0] != 'ok' or [enc_item(dt, x) for x in its2] != [enc_item(dt, x) for x in L] or trail2 != trail: return f"{where}: got {r} {its2} {trail2!r}; list gives {L}"
            elif op == 'pop':
                if not L:
                    if r[0] != 'err' or r[1] != 'IndexError': return f"{where} on empty must raise IndexError: {r}"
                    continue
                x = L.pop(st['i'])
                if r[0] != 'ok' or enc_item(dt, r[1]) != enc_item(dt, x) or E(its2) != E(L) or trail2 != trail: return f"{where}: got {r} {its2}; list gives {x}, {L}"
            elif op == 'count':
                ev = enc_item(dt, st['v'])
                if ev is None: continue          # the value is not one of the current dtype (the dtype was changed by an earlier step): not specified
                num = lambda z: isinstance(z, (int, float)) and not isinstance(z, bool)
                same = lambda x: (pv(x) == pv(st['v'])) if (type(pv(x)) is type(pv(st['v'])) or (num(pv(x)) and num(pv(st['v'])))) else (enc_item(dt, x) == ev)
                exp = sum(1 for x in L if same(x))
                if r[0] == 'ok' and r[1] != exp: return f"{where} returned {r}, list gives {exp}"
            elif op == 'iter':
                if r[0] != 'ok' or E(r[1]) != E(L): return f"{where}: iteration gave {r}"
            elif op == 'copy':
                if r[0] != 'ok': return f"{where}: {r}"
                b, c2, eq, a_after = r[1]
                if b != before or c2[:2] != before[:2] or not eq: return f"{where}: copy {b} / slice copy {c2} differ from {before}"
                if a_after != before: return f"{where}: mutating the copy changed the original: {a_after}"
            elif op == 'equals':
                if r[0] == 'ok' and ['f', 'nan'] not in L and (r[1][0] is not True or r[1][2] is not False or (n and r[1][1] is not False)): return f"{where}: equals gave {r}"
            elif op == 'astype':
                if st['d'] in REFUSED_DTYPES and r != ['err', 'ValueError']: return f"{where}: assigning this dtype must raise ValueError, got {str(r)[:100]}"
                if r[0] == 'ok' and r[1] != [True]: return f"{where}: changing dtype altered the data"
                if r[0] == 'ok' and data2 != data: return f"{where}: data changed"
        except IndexError:
            if r[0] != 'err' or r[1] != 'IndexError': return f"{where} should raise IndexError, got {str(r)[:120]}"
            if after != before: return f"{where} raised IndexError but changed the Array"
            continue
        # a failing operation never changes the array (in-place operators included)
        if r[0] == 'err' and after != before: return f"{where} raised {r[1]} and left the Array changed: {after}"
        # data is always the concatenation of the item encodings followed by the trailing bits
        encs = [enc_item(dt2, x) for x in its2]
        if all(e is not None for e in encs) and not dt2.startswith('Dtype') and ['f', 'nan'] not in its2 and not c.get('lsb0'):
            if ''.join(encs) + trail2 != data2: return f"{where}: data {data2!r} is not the concatenation of the item encodings {encs} + trailing {trail2!r}"
        # element-wise operators
        if op == 'scalar_op' and r[0] == 'err' and dtype_info(dt)[0] in ('uint', 'int') and not trail and isinstance(st.get('x'), int) \
                and st['f'] in ('add', 'sub', 'mul', 'radd', 'rsub', 'rmul', 'neg', 'abs') and all(isinstance(v, int) for v in L):
            # "a result that does not fit raises": and one in which every item fits must not
            f = st['f']; x = st['x']
            exp = [-v for v in L] if f == 'neg' else ([abs(v) for v in L] if f == 'abs' else [OPS[f](v, x) for v in L])
            if all(enc_item(dt, v) is not None for v in exp):
                return f"{where}: every item of the element-wise result {exp} fits {dt}, yet the operator raised {r[1]}"
        if op == 'scalar_op' and r[0] == 'ok' and r[1] != 'skip' and not trail and dtype_info(dt)[0].startswith(('float', 'bfloat')) and st['f'] in ('neg', 'abs', 'add', 'sub', 'mul', 'radd', 'rsub', 'rmul') \
                and all(isinstance(pv(v), float) for v in L) and not isinstance(st.get('x'), bool):
            f = st['f']; x = st['x']
            vals = [pv(v) for v in L]
            try: exp = [-v for v in vals] if f == 'neg' else ([abs(v) for v in vals] if f == 'abs' else [OPS[f](v, x) for v in vals])
            except Exception: exp = None
            if exp is not None and str(r[1][0][4]) == str(dt):
                want = [enc_item(dt, cv(e)) for e in exp]
                got = [enc_item(dt, g) for g in r[1][0][0]]
                if None not in want and want != got:
                    return f"{where}: element-wise result {r[1][0][0]}, the operator mapped over the items gives {[cv(e) for e in exp]} (compared through their encodings, sign of zero included)"
        if op in ('scalar_op',) and r[0] == 'ok' and r[1] != 'skip' and dtype_info(dt)[0] in ('uint', 'int') and all(isinstance(v, int) and not isinstance(v, bool) for v in L) and not trail:
            f = st['f']; x = st['x']
            try:
                if f == 'neg': exp = [-v for v in L]
                elif f == 'abs': exp = [abs(v) for v in L]
                else: exp = [OPS[f](v, x) for v in L]
            except (ZeroDivisionError, TypeError, ValueError): continue
            got = r[1][0][0]
            if f in ('lt', 'eq'):
                if got != exp: return f"{where}: comparison gave {got}, map gives {exp}"
            elif f in ('and', 'or', 'xor'): pass
            elif f == 'truediv' or isinstance(x, float): pass
            else:
                if got != exp: return f"{where}: element-wise result {got}, map gives {exp}"
    return None

def nontrivial(c, obs): return c['op'] == 'program' and any(s['op'] in ('setitem', 'setslice', 'delitem', 'delslice', 'append', 'extend', 'insert', 'pop', 'reverse', 'inplace_op') for s in c['steps'])
def classify(c, obs): return None

def cdt(t):
    """a Dtype of the library as the record ArrayOps.dt: name, kind of the return type, signedness, length (in units), scale as the tag"""
    k = 'KFloat' if t.return_type is float else ('KInt' if t.return_type in (int, bool) else 'KOther')
    sc = 0 if t.scale is None else int(t.scale)
    return f'(mkdt "{t.name}" {k} {cbool(bool(t.is_signed))} {cz(t.length)} {cz(sc)})', (t.name, t.length, sc)

def int_dt(dt):
    """(width, signed) when str(dtype) is a plain big-endian uintN / intN"""
    import re
    m = re.fullmatch(r'(u?)int(\d+)', str(dt))
    return (int(m.group(2)), m.group(1) == '') if m else None

AOPS = {'add': 'AAdd', 'radd': 'AAdd', 'sub': 'ASub', 'mul': 'AMul', 'rmul': 'AMul', 'rsub': 'ARsub', 'floordiv': 'AFloordiv', 'mod': 'AMod', 'lshift': 'ALshift', 'rshift': 'ARshift'}

def coq_check(c, obs):
    """index / assignment / deletion / insert / append on the data bits, for dtypes whose item is w bits; the element-wise loops of ArrayOps.v
    for int items (scalar, in-place and Array-Array operators, comparisons) and the promotion function"""
    if c['op'] == 'promote':
        from bitstring import Array, Dtype
        t1 = Dtype(c['d1'], scale=c['s1']) if c.get('s1') is not None else Array(c['d1']).dtype
        t2 = Dtype(c['d2'], scale=c['s2']) if c.get('s2') is not None else Array(c['d2']).dtype
        (T1, i1), (T2, i2) = cdt(t1), cdt(t2)
        if obs[0] == 'ok':
            want = next((i for i, t in ((i1, t1), (i2, t2)) if str(t) == obs[1][0]), None)
            if want is None: return 'false'                                            # "one of the two types gets returned"
            return f'promo_is (promotetype {T1} {T2}) "{want[0]}" {cz(want[1])} {cz(want[2])}'
        if obs[1] == 'ValueError' and promo_rule(c['d1'], c['d2'], c.get('s1'), c.get('s2')) is None: return f'promo_err (promotetype {T1} {T2}) ValueError'
        return None
    if c['op'] != 'program' or c.get('lsb0'): return None         # the Array model is stated for msb0 data layout
    o = obs[1]
    if o['init'][0] != 'ok': return None
    name, w = dtype_info(c['dtype'])
    terms = []
    for st, (before, r, after) in zip(c['steps'], o['trace']):
        items, n, data, trail, dt = before
        if dt != (after[4]): continue
        try: wcur = dtype_info(c['dtype'])[1] if dt == str(__import__('bitstring').Array(c['dtype']).dtype) else None
        except Exception: wcur = None
        if wcur is None: continue
        D = cbits(data); op = st['op']
        res = ('ok', after[2]) if r[0] == 'ok' else ('err', r[1])
        if op == 'getslice':
            if r[0] == 'ok': terms.append(f"rbits_eqb (arr_getslice {wcur} {D} {cslice(*st['k'])}) (Ok {cbits(r[1][0][2])})")
            elif r[1] == 'ValueError': terms.append(f"rbits_eqb (arr_getslice {wcur} {D} {cslice(*st['k'])}) (Err ValueError)")
        elif op == 'pop':
            # the data after pop, and (on success) nothing else to compare at bit level: the returned item is checked by the oracle
            if r[0] == 'ok': terms.append(f"res_eqb bits_eqb (do xd <- arr_pop {wcur} {D} {cz(st['i'])}; Ok (snd xd)) (Ok {cbits(after[2])})")
            elif r[1] == 'IndexError': terms.append(f"res_eqb bits_eqb (do xd <- arr_pop {wcur} {D} {cz(st['i'])}; Ok (snd xd)) (Err IndexError)")
        elif op == 'delitem': terms.append(f"rbits_eqb (arr_delitem {wcur} {D} {cz(st['i'])}) {cres(res, cbits)}")
        elif op == 'setitem' and r[0] == 'ok':
            k = st['i'] + n if st['i'] < 0 else st['i']
            e = after[2][k * wcur:(k + 1) * wcur]
            terms.append(f"rbits_eqb (arr_setitem {wcur} {D} {cz(st['i'])} {cbits(e)}) (Ok {cbits(after[2])})")
        elif op == 'insert' and r[0] == 'ok':
            k = st['i']; k = max(k + n, 0) if k < 0 else k; k = min(k, n)
            e = after[2][k * wcur:(k + 1) * wcur]
            terms.append(f"rbits_eqb (arr_insert {wcur} {D} {cz(st['i'])} {cbits(e)}) (Ok {cbits(after[2])})")
        elif op == 'append' and r[0] == 'ok':
            terms.append(f"rbits_eqb (arr_append {wcur} {D} {cbits(after[2][len(data):])}) (Ok {cbits(after[2])})")
        elif op == 'append' and r[0] == 'err' and trail:
            terms.append(f"rbits_eqb (arr_append {wcur} {D} (repeat false {wcur}%nat)) (Err ValueError)")
    # element-wise operators on int items, whatever the dtype has become by now
    for st, (before, r, after) in zip(c['steps'], o['trace']):
        items, n, data, trail, dt = before
        wi = int_dt(dt)
        if wi is None or r == ['ok', 'skip'] or (r[0] == 'err' and r[1] != 'ValueError'): continue
        w, sg = wi; D = cbits(data); op = st['op']; S = cbool(sg)
        if op in ('scalar_op', 'inplace_op'):
            f, x = st['f'], st.get('x')
            if f in ('neg', 'abs'): A = 'ANeg' if f == 'neg' else 'AAbs'
            elif f in AOPS and isinstance(x, int) and not isinstance(x, bool) and abs(x) <= 1000: A = f'({AOPS[f]} {cz(x)})'
            elif f in ('lt', 'eq') and op == 'scalar_op' and isinstance(x, int) and not isinstance(x, bool):
                if r[0] == 'ok': terms.append(f"rbits_eqb (arr_scalar_cmp {w} {S} ({'CLt' if f == 'lt' else 'CEq'} {cz(x)}) {D}) (Ok {cbits(r[1][0][2])})")
                continue
            else: continue
            if op == 'scalar_op':
                terms.append(f"rbits_eqb (arr_scalar_op {w} {S} {A} {D}) " + (f"(Ok {cbits(r[1][0][2])})" if r[0] == 'ok' else "(Err ValueError)"))
            elif f in IOPS:
                terms.append(f"iop_is (arr_scalar_iop {w} {S} {A} {D}) {cbits(after[2])} " + ("(Ok tt)" if r[0] == 'ok' else "(Err ValueError)"))
        elif op == 'array_op' and r[0] == 'err':
            # a length mismatch or a result that does not fit: the operand is rebuilt here exactly as the runner builds it
            if int_dt(st['d2']) is None: continue
            from bitstring import Array
            m = n if st['same_len'] else n + 1
            other = Array(st['d2'], [(i % 3) for i in range(m)])
            (T1, _), (T2, _) = cdt(Array(dt).dtype), cdt(other.dtype)
            if st['f'] in ('lt', 'eq'): terms.append(f"rbits_eqb (arr_between_cmp {T1} {T2} {'BLt' if st['f'] == 'lt' else 'BEq'} {D} {cbits(other.data.bin)}) (Err ValueError)")
            else: terms.append(f"between_err (arr_between_int {T1} {T2} {'B' + st['f'].capitalize()} {D} {cbits(other.data.bin)}) ValueError")
        elif op == 'array_op' and r[0] == 'ok':
            w2 = int_dt(r[1][1][4])
            if w2 is None: continue
            from bitstring import Array
            (T1, _), (T2, _) = cdt(Array(dt).dtype), cdt(Array(r[1][1][4]).dtype)
            D2 = cbits(r[1][1][2]); res_dt = int_dt(r[1][0][4])
            if st['f'] in ('lt', 'eq'):
                terms.append(f"rbits_eqb (arr_between_cmp {T1} {T2} {'BLt' if st['f'] == 'lt' else 'BEq'} {D} {D2}) (Ok {cbits(r[1][0][2])})")
            elif res_dt is not None:
                terms.append(f"between_is (arr_between_int {T1} {T2} {'B' + st['f'].capitalize()} {D} {D2}) \"{'int' if res_dt[1] else 'uint'}\" {res_dt[0]} {cbits(r[1][0][2])}")
    return ' && '.join('(' + t + ')' for t in terms) if terms else None

def search(seeds, rng):
    for c in list(seeds) + list(gen_cases(rng, 'quick')):
        try: obs = run_impl(c)
        finally: reset_options()
        msg = oracle(c, obs)
        if msg: return c, obs, msg
    return None
