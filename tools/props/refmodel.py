"""Reference semantics (msb0) of every positional operation, written from the documentation on
Python str / list only.  Used by the oracles of C03, C06, C07 and - through the mirror - C12.
A function returns the new content / result, or raises RefErr(kind)."""

class RefErr(Exception):
    def __init__(self, kind):
        self.kind = kind

def norm_range(n, start, end):
    s = 0 if start is None else (start + n if start < 0 else start)
    e = n if end is None else (end + n if end < 0 else end)
    if not 0 <= s <= e <= n:
        raise RefErr('ValueError')
    return s, e

# ---------------- searching ----------------
def matches(d, p, s, e, ba):
    m = len(p)
    return [q for q in range(s, e - m + 1) if d[q:q + m] == p and (not ba or q % 8 == 0)]

def find(d, p, start=None, end=None, ba=False):
    if not p: raise RefErr('ValueError')
    s, e = norm_range(len(d), start, end)
    m = matches(d, p, s, e, ba)
    return (m[0],) if m else ()

def rfind(d, p, start=None, end=None, ba=False):
    if not p: raise RefErr('ValueError')
    s, e = norm_range(len(d), start, end)
    m = matches(d, p, s, e, ba)
    return (m[-1],) if m else ()

def findall(d, p, start=None, end=None, count=None, ba=False):
    if count is not None and count < 0: raise RefErr('ValueError')
    if not p: raise RefErr('ValueError')
    s, e = norm_range(len(d), start, end)
    m = matches(d, p, s, e, ba)
    return m if count is None else m[:count]

def contains(d, p):
    return bool(find(d, p))

def startswith(d, p, start=None, end=None):
    s, e = norm_range(len(d), start, end)
    return d[s:e].startswith(p) if e >= s + len(p) else False

def endswith(d, p, start=None, end=None):
    s, e = norm_range(len(d), start, end)
    return d[s:e].endswith(p) if s + len(p) <= e else False

def count(d, v):
    return d.count('1' if v else '0')

def cut(d, bits, start=None, end=None, count=None):
    s, e = norm_range(len(d), start, end)
    if count is not None and count < 0: raise RefErr('ValueError')
    if bits <= 0: raise RefErr('ValueError')
    out = []
    while s < e and (count is None or len(out) < count):
        out.append(d[s:min(s + bits, e)])
        s += bits
    return out

def nonoverlapping(d, p, s, e, ba, count=None):
    """successive non-overlapping matches from the left"""
    out, q = [], s
    while count is None or len(out) < count:
        m = matches(d, p, q, e, ba)
        if not m: break
        out.append(m[0]); q = m[0] + len(p)
    return out

def split(d, p, start=None, end=None, count=None, ba=False):
    if not p: raise RefErr('ValueError')
    s, e = norm_range(len(d), start, end)
    if count is not None and count < 0: raise RefErr('ValueError')
    if count == 0: return []
    pts = nonoverlapping(d, p, s, e, ba)
    bounds = [s] + pts + [e]
    pieces = [d[bounds[i]:bounds[i + 1]] for i in range(len(bounds) - 1)]
    return pieces if count is None else pieces[:count]

def replace(d, old, new, start=None, end=None, count=None, ba=False):
    if not old: raise RefErr('ValueError')          # the property: an empty pattern or an invalid range raises, whatever the count
    s, e = norm_range(len(d), start, end)
    if count == 0: return d, 0
    pts = nonoverlapping(d, old, s, e, ba, count)
    out, last = [], 0
    for q in pts:
        out.append(d[last:q]); out.append(new); last = q + len(old)
    out.append(d[last:])
    return ''.join(out), len(pts)

# ---------------- mutators ----------------
def insert(d, b, pos):
    if pos < 0: pos += len(d)
    if not 0 <= pos <= len(d): raise RefErr('ValueError')
    return d[:pos] + b + d[pos:]

def overwrite(d, b, pos):
    if pos < 0: pos += len(d)
    if not 0 <= pos <= len(d): raise RefErr('ValueError')
    return d[:pos] + b + d[pos + len(b):]

def append(d, b): return d + b
def prepend(d, b): return b + d

def delitem(d, key):
    l = list(d)
    try:
        del l[key]
    except IndexError: raise RefErr('IndexError')
    except ValueError: raise RefErr('ValueError')
    return ''.join(l)

def setitem_bits(d, key, b):
    """item / slice assignment of a bit sequence (Python list semantics; an int key replaces one bit by b)"""
    l = list(d)
    if isinstance(key, int):
        k = key + len(d) if key < 0 else key
        if not 0 <= k < len(d): raise RefErr('IndexError')
        l[k:k + 1] = list(b)
    else:
        try: l[key] = list(b)
        except ValueError: raise RefErr('ValueError')
    return ''.join(l)

def setitem_int(d, key, v):
    """item / slice assignment of an integer"""
    if isinstance(key, int):
        if v not in (0, 1, -1): raise RefErr('ValueError')
        k = key + len(d) if key < 0 else key
        if not 0 <= k < len(d): raise RefErr('IndexError')
        return d[:k] + ('1' if v else '0') + d[k + 1:]
    step = key.step
    if step == 0: raise RefErr('ValueError')
    if step not in (None, 1, -1):
        if v not in (0, 1): raise RefErr('ValueError')
        l = list(d)
        for i in range(*key.indices(len(d))): l[i] = str(v)
        return ''.join(l)
    n = len(d[key.start:key.stop])     # the uint/int takes the length of the slice [start:stop]
    if n == 0: raise RefErr('ValueError')
    if v >= 0:
        if v >= 1 << n: raise RefErr('ValueError')
        b = format(v, f'0{n}b')
    else:
        if v < -(1 << (n - 1)): raise RefErr('ValueError')
        b = format(v + (1 << n), f'0{n}b')
    l = list(d)
    try: l[key] = list(b)
    except ValueError: raise RefErr('ValueError')
    return ''.join(l)

def reverse(d, start=None, end=None):
    s, e = norm_range(len(d), start, end)
    return d[:s] + d[s:e][::-1] + d[e:]

def ror(d, n, start=None, end=None):
    if not d: raise RefErr('BsError')
    if n < 0: raise RefErr('ValueError')
    s, e = norm_range(len(d), start, end)
    w = d[s:e]
    if w:
        k = n % len(w)
        w = w[len(w) - k:] + w[:len(w) - k]
    return d[:s] + w + d[e:]

def rol(d, n, start=None, end=None):
    if not d: raise RefErr('BsError')
    if n < 0: raise RefErr('ValueError')
    s, e = norm_range(len(d), start, end)
    w = d[s:e]
    if w:
        k = n % len(w)
        w = w[k:] + w[:k]
    return d[:s] + w + d[e:]

def set_(d, v, pos):
    """returns (content, error-kind-or-None): positions before a bad one are applied"""
    c = '1' if v else '0'
    if pos is None:
        if not d: raise RefErr('ValueError')
        return c * len(d), None
    if isinstance(pos, int): pos = [pos]
    l = list(d)
    for p in pos:
        if not -len(d) <= p < len(d): return ''.join(l), 'IndexError'
        l[p] = c
    return ''.join(l), None

def invert(d, pos):
    if pos is None:
        return ''.join('1' if x == '0' else '0' for x in d), None
    if isinstance(pos, int): pos = [pos]
    l = list(d)
    for p in pos:
        if not -len(d) <= p < len(d): return ''.join(l), 'IndexError'
        l[p] = '1' if l[p] == '0' else '0'
    return ''.join(l), None

def byteswap(d, sizes, start=None, end=None, repeat=True):
    """sizes: list of byte counts (already expanded from fmt). Returns (content, repeats)."""
    s, e = norm_range(len(d), start, end)
    if any(x < 0 for x in sizes): raise RefErr('ValueError')
    total = 8 * sum(sizes)
    if total == 0: return d, 0
    l = d
    reps = 0
    p = s
    while p + total <= e:
        q = p
        for sz in sizes:
            seg = l[q:q + 8 * sz]
            seg = ''.join(seg[i:i + 8] for i in range(len(seg) - 8, -1, -8))
            l = l[:q] + seg + l[q + 8 * sz:]
            q += 8 * sz
        reps += 1
        p += total
        if not repeat: break
    return l, reps

def lshift(d, n):
    if n < 0 or not d: raise RefErr('ValueError')
    n = min(n, len(d))
    return d[n:] + '0' * n

def rshift(d, n):
    if n < 0 or not d: raise RefErr('ValueError')
    n = min(n, len(d))
    return '0' * n + d[:len(d) - n]

def call(fn, *a, **k):
    try:
        return ('ok', fn(*a, **k))
    except RefErr as e:
        return ('err', e.kind)
