"""C12 — LSB0 mode is a pure index mirror of MSB0 mode."""
from vlib import *
from props.common import *
from props import refmodel as R

ID = 'C12'
COQ_PROPS = ['Props/C12.v']
COQ_IMPORTS = ['Prims', 'CaseLib', 'BitsCore', 'Mutators', 'Search', 'Golomb', 'Stream', 'Pack', 'LsbPack']
RULE = ('every position-taking operation under options.lsb0=True (index, slice with any step, item/slice assignment and deletion, set, invert, find, rfind, findall, startswith, endswith, '
        'cut, replace, insert, overwrite, append, prepend, ranged reverse/byteswap, rol/ror, shifts, read/peek/unpack/pack order) compared with reverse(op_msb0(reverse(operands))) '
        'computed on the str reference; whole-value interpretations, ==, hash, len, bin compared across modes; toggle sequences between calls. '
        'every way of making a bitstring (windows of bytes / BytesIO / bitarray / file / file-handle sources with offset= and length= on and off byte boundaries; every value keyword, auto initialiser, setter, copying and '
        'position-free combining route) executed with lsb0 off and on, read with lsb0 off and on: stored bits, interpretations, ==, hash, len against a slice of the source str; '
        'exhaustive (start,stop,step,len) for len<=5 quick / 7 thorough; data > 8192 bits for the chunked reverse scan; non-trivial = non-palindromic content; distinct by arguments')
ASSUMPTIONS = ['the msb0 reference semantics are those of C01/C03/C07 (tools/props/refmodel.py)']
COQ_PRELUDE = '''Definition pe_eqb (a b : bits * option exn) : bool := bits_eqb (fst a) (fst b) && opt_eqb exn_eqb (snd a) (snd b).
Definition value_eqb (a b : value) : bool :=
  match a, b with
  | ValBits x, ValBits y => bits_eqb x y | ValZ x, ValZ y => Z.eqb x y | ValBool x, ValBool y => Bool.eqb x y | ValNone, ValNone => true | _, _ => false end.
Definition chk {A} (eqb : A -> A -> bool) (r : stream * res A) (b : bits) (p : Z) (exp : res A) : bool :=
  bits_eqb (sbits (fst r)) b && (spos (fst r) =? p) && res_eqb eqb (snd r) exp.
'''

def rv(s): return s[::-1]

def gen_cases(rng, tier):
    L = 5 if tier == 'quick' else 7
    for l in range(0, L + 1):
        bits = rand_bits(rng, l, 'rand')
        vals = [None] + list(range(-l - 2, l + 3))
        for a in vals:
            for b in vals:
                for c in [None, 1, 2, 3, -1, -2, -3]:
                    if tier == 'quick' and rng.random() < 0.55: continue
                    yield {'op': 'slice', 'bits': bits, 'k': [a, b, c], 'cls': rng.choice(CLASSES)}
                    if rng.random() < 0.25:
                        yield {'op': 'delslice', 'bits': bits, 'k': [a, b, c]}
                    if rng.random() < 0.25:
                        yield {'op': 'setslice', 'bits': bits, 'k': [a, b, c], 'v': rand_bits(rng, rng.choice([0, 1, 2, len(bits[a:b:c])]))}
        for i in range(-l - 2, l + 3):
            yield {'op': 'getitem', 'bits': bits, 'i': i, 'cls': rng.choice(CLASSES)}
            yield {'op': 'setbit', 'bits': bits, 'i': i, 'v': rng.choice([0, 1])}
            yield {'op': 'delbit', 'bits': bits, 'i': i}
    # set / invert over every boundary range(start, stop, step) of one short content, and byteswap of every byte group layout on lengths that are and are
    # not whole bytes: the branches of the position arithmetic under lsb0
    for n in ([7] if tier == 'quick' else [1, 6, 7, 10]):
        bv = sorted({-n - 1, -n, -1, 0, 1, 2, n - 2, n - 1, n, n + 1})
        bits = rand_bits(rng, n, 'rand')
        for a in bv:
            for b in bv:
                for st in (1, 2, 3, -1, -2):
                    yield {'op': 'set' if (a + b + st) % 2 else 'invert', 'bits': bits, 'cls': 'BitArray', 'pos': {'range': [a, b, st]}, 'v': (a + b) % 2}
    for n in ([8, 12, 17, 24, 27] if tier == 'quick' else list(range(8, 41))):
        bits = rand_bits(rng, n, 'rand')
        for fmt in (0, 1, 2, [1, 2], [2, 1]):
            for (a, b) in [(None, None), (0, None), (None, n), (0, 8 * (n // 8)), (n % 8, None), (1, None), (None, n - 1), (0, 16), (4, 20)]:
                if tier == 'quick' and rng.random() < 0.4: continue
                yield {'op': 'byteswap', 'bits': bits, 'cls': rng.choice(MUTABLE), 'start': a, 'end': b, 'fmt': fmt, 'repeat': rng.random() < 0.5, 'n': 0}
    N = 500 if tier == 'quick' else 8000
    from props.c07 import plant, rand_window
    from props.c03 import ropt_range, rpos
    # the chunked reverse scan of _findall_lsb0: occurrences planted at lsb0 positions around every multiple of the chunk size
    for j in range(6 if tier == 'quick' else 120):
        n = rng.choice([8200, 8300, 9000] if tier == 'quick' else [8193, 8200, 9000, 16390, 16500, 20000, 30000])
        pl = rng.choice([2, 3, 6, 8, 16])
        pat = '1' + rand_bits(rng, pl - 2, 'rand') + '1'
        l = ['0'] * n
        for b in range(8192, n, 8192):
            for p in rng.sample([b - pl - 1, b - pl, b - pl + 1, b - 1, b, b + 1, b + 2], 2):
                m = n - p - pl                      # msb0 index of the occurrence at lsb0 position p
                if 0 <= m and m + pl <= n: l[m:m + pl] = list(pat)
        bits = ''.join(l)
        a, b_ = (None, None) if j % 2 == 0 else rand_window(rng, n)
        yield {'op': rng.choice(['findall', 'findall', 'find', 'rfind', 'replace']) if tier != 'quick' else ['findall', 'find', 'findall', 'rfind'][j % 4], 'bits': bits, 'cls': 'BitArray', 'pat': pat, 'start': a, 'end': b_,
               'ba': j % 5 == 4, 'count': None, 'new': '0'}
    for i in range(N):
        n = rand_len(rng, tier)
        bits = rand_bits(rng, n)
        op = rng.choice(['slice', 'find', 'rfind', 'findall', 'startswith', 'endswith', 'cut', 'replace', 'insert', 'overwrite', 'append', 'prepend',
                         'reverse', 'rol', 'ror', 'byteswap', 'set', 'invert', 'lshift', 'rshift', 'interp', 'toggle', 'mul', 'iter', 'split', 'readorder', 'packorder'])
        c = {'op': op, 'bits': bits, 'cls': rng.choice(MUTABLE if op in ('replace', 'insert', 'overwrite', 'append', 'prepend', 'reverse', 'rol', 'ror', 'byteswap', 'set', 'invert') else CLASSES)}
        if op == 'slice':
            r = lambda: rng.choice([None, None, rng.randrange(-n - 3, n + 4)])
            c['k'] = [r(), r(), rng.choice([None, 1, -1, 2, -2, 3, -3, 7, -5])]
        if op in ('find', 'rfind', 'findall', 'startswith', 'endswith', 'replace', 'split'):
            pl = rng.choice([1, 2, 3, 4, 8, 8, 16, 5])
            pat = rand_bits(rng, pl)
            if i % 50 == 0 and op in ('find', 'rfind', 'findall'):
                bits = rand_bits(rng, rng.choice([8200, 9000, 16500] if tier == 'quick' else [8193, 16390, 20000, 30000]), rng.choice(['sparse', 'ones', 'rand']))
            bits = plant(rng, bits, pat, rng.randrange(0, 4))
            a, b = rand_window(rng, len(bits))
            c.update(bits=bits, pat=pat, start=a, end=b, ba=rng.choice([False, False, True]), count=rng.choice([None, None, 1, 2, 5]), new=rand_bits(rng, rng.choice([0, 1, pl, 5])))
        if op == 'cut':
            a, b = rand_window(rng, n); c.update(n=rng.choice([1, 3, 8, 13, max(1, n // 3)]), start=a, end=b, count=rng.choice([None, 2]))
        if op in ('insert', 'overwrite'): c.update(bs=rand_bits(rng, rng.choice([1, 2, 8])), pos=rpos(rng, n))
        if op in ('append', 'prepend'): c.update(bs=rand_bits(rng, rng.choice([0, 1, 3, 8])))
        if op in ('reverse', 'rol', 'ror', 'byteswap'):
            a, b = ropt_range(rng, n); c.update(start=a, end=b, n=rng.choice([0, 1, 2, 5, n + 1]), fmt=rng.choice([0, 1, 2, [1, 2]]), repeat=rng.random() < 0.6)
        if op in ('set', 'invert'):
            r = rng.random()
            pos = None if r < 0.1 else (rpos(rng, n) if r < 0.4 else ({'list': [rpos(rng, n) for _ in range(rng.randrange(0, 4))]} if r < 0.7 else
                  {'range': [rng.randrange(-n - 2, n + 3), rng.randrange(-n - 2, n + 3), rng.choice([1, 2, -1, -2])]}))
            c.update(pos=pos, v=rng.choice([0, 1]))
        if op in ('lshift', 'rshift', 'mul'): c.update(n=rng.choice([0, 1, 2, 3, n, n + 2]))
        if op in ('readorder', 'packorder'):
            ws = [rng.randrange(1, 9) for _ in range(rng.randrange(1, 5))]
            c.update(ws=ws, vals=[rng.randrange(1 << w) for w in ws])
        yield c
    # read / peek / readlist / peeklist / unpack with every token kind from any position, and pack of mixed token lists (one format string, or
    # a list of format strings), under lsb0: evaluated on the lsb0 readers and packer of LsbPack.v and judged by the field rule
    # "the token at position p of length l is the stored field d[len-p-l : len-p], interpreted as under msb0"
    from props import c06
    for _ in range(60 if tier == 'quick' else 1500):
        n = rng.choice([0, 1, 7, 8, 9, 16, 24, 33, rng.randrange(0, 70)])
        how = rng.choice(['readlist', 'readlist', 'peeklist', 'unpack', 'read', 'peek'])
        c = {'op': 'lsbread', 'bits': rand_bits(rng, n), 'pos': rng.randrange(0, n + 1), 'how': how, 'cls': 'ConstBitStream'}
        if how in ('read', 'peek'): c['toks'] = [c06.rtok(rng, n)]
        else:
            toks = [c06.rtok(rng, max(1, n // 3), allow_stretch=False) for _ in range(rng.randrange(0, 5))]
            if rng.random() < 0.3: toks.insert(rng.randrange(len(toks) + 1), {'k': rng.choice(['bits', 'bin', 'hex', 'uint', 'int', 'bytes'])})
            c['toks'] = toks
        yield c
    for _ in range(50 if tier == 'quick' else 1200):
        toks, vals = [], []
        for _ in range(rng.randrange(1, 6)):
            k = rng.choice(['uint', 'int', 'bool', 'pad', 'bits', 'bin', 'hex', 'ue', 'uint', 'int'])
            w = rng.choice([1, 2, 3, 4, 5, 8, 12, 16])
            if k == 'bool': toks.append(['bool', 1]); vals.append(rng.random() < 0.5)
            elif k == 'pad': toks.append(['pad', w])
            elif k == 'ue': toks.append(['ue', None]); vals.append(rng.randrange(0, 20))
            elif k == 'uint': toks.append(['uint', w]); vals.append(rng.choice([0, (1 << w) - 1, 1 << w, rng.randrange(1 << w)]))
            elif k == 'int': toks.append(['int', w]); vals.append(rng.choice([-(1 << (w - 1)), (1 << (w - 1)) - 1, -(1 << (w - 1)) - 1, rng.randrange(-(1 << (w - 1)), 1 << (w - 1))]))
            else:
                if k == 'hex': w = 4 * rng.choice([1, 2, 3])
                toks.append([k, w]); vals.append(rand_bits(rng, w if rng.random() < 0.9 else w + 1))
        arity = rng.choice([0, 0, 0, 0, 0, 0, 1, -1])
        if arity == 1: vals.append(1)
        elif arity == -1 and vals: vals.pop()
        yield {'op': 'lsbpack', 'bits': '', 'toks': toks, 'vals': vals, 'split': sorted(rng.sample(range(1, len(toks)), min(len(toks) - 1, rng.choice([0, 0, 1, 2])))) if len(toks) > 1 else [],
               'cls': 'BitArray'}
    yield from gen_construct(rng, tier)

# ---------------------------------------------------------------------------------------------------------------------------------
# "Whole-value interpretations, ==, hash, len and the stored bit order are identical in both modes": every way of MAKING a bitstring
# is executed once with options.lsb0 off and once with it on (in either order), and both objects are then read with the option off
# and with it on.  Two families:
#   windows  - a source of bits (bytes / bytearray / memoryview through bytes=, io.BytesIO, bitarrays of either endianness through
#              bitarray=, a file by name / pathlib.Path, buffered / raw / read-write file handles) with offset= and / or length=, the
#              window starting and ending on and off byte boundaries, empty, whole, and (a few) running off the end;
#   values   - a given content through every keyword, auto initialiser, token string, setter of the mutable classes, copying route and
#              combining operator that takes no position.
# The expected content is a slice of a str of '0' / '1' (the source, most significant bit first); the interpretations come from int(),
# int.to_bytes and struct.
# ---------------------------------------------------------------------------------------------------------------------------------
WINDOW_MEM = ['bytes_kw', 'bytearray_kw', 'memoryview_kw', 'bytesio', 'bytesio_pos', 'bitarray_kw', 'bitarray_kw_le']
WINDOW_FILE = ['filename', 'path', 'fh_buffered', 'fh_raw', 'fh_rw']
WINDOW_SRCS = WINDOW_MEM + WINDOW_FILE
VALUE_SRCS = ['bin_kw', 'bin_kw_len', 'bin_prefixed', 'hex_kw', 'hex_kw_len', 'oct_kw', 'bytes_kw_plain', 'bytes_kw_len', 'uint_kw', 'int_kw', 'uintbe_kw', 'intbe_kw', 'uintle_kw', 'intle_kw', 'uintne_kw',
              'float_kw', 'floatle_kw', 'bool_kw', 'bits_kw', 'bits_kw_str', 'auto_bin', 'auto_hex', 'auto_oct', 'auto_token_uint', 'auto_token_int', 'auto_token_bin', 'auto_tokens', 'auto_bytes', 'auto_bytearray',
              'auto_memoryview', 'auto_bytesio', 'auto_bitarray', 'auto_bitarray_le', 'auto_frozenbitarray', 'auto_array_B', 'auto_array_H', 'auto_list', 'auto_tuple', 'auto_gen', 'auto_Bits', 'auto_BitArray',
              'auto_ConstBitStream', 'auto_BitStream', 'auto_file', 'fromstring', 'zeros_int', 'zeros_len', 'copy', 'copy_method', 'deepcopy', 'pickle', 'slice_all', 'add', 'add_str', 'radd', 'mul', 'rmul', 'join', 'join_sep',
              'invert', 'and', 'or', 'xor', 'dtype_build', 'dtype_build_bin', 'dtype_build_hex', 'dtype_build_bytes', 'pack_single', 'pack_bits', 'pack_uint', 'pack_hex', 'pack_bytes', 'pack_kw', 'setter_bin', 'setter_hex', 'setter_oct', 'setter_uint', 'setter_int', 'setter_bytes', 'setter_uintN', 'setter_bits',
              'setter_float', 'imul', 'ior', 'clear_then_set', 'tobitarray_back', 'tobytes_back']

def _raw(data):
    return int(data, 2).to_bytes(len(data) // 8, 'big') if data else b''

def _with_file(raw, fn):
    import tempfile, os
    fd, path = tempfile.mkstemp(prefix='verif_c12_')
    try:
        with os.fdopen(fd, 'wb') as fh: fh.write(raw)
        return fn(path)
    finally:
        os.unlink(path)

def mk_window(C, c):
    """C(source, offset=, length=) for the source kind c['src'] holding the bits c['data']"""
    import io, bitarray, pathlib
    src, data = c['src'], c['data']
    kw = {}
    if c['offset'] is not None: kw['offset'] = c['offset']
    if c['length'] is not None: kw['length'] = c['length']
    def auto(x):
        if c.get('argstyle') == 'pos': return C(x, c['length'], c['offset'])
        return C(x, **kw)
    if src in ('bitarray_kw', 'bitarray_kw_le'): return C(bitarray=bitarray.bitarray(data, endian='little' if src.endswith('_le') else 'big'), **kw)
    raw = _raw(data)
    if src == 'bytes_kw': return C(bytes=raw, **kw)
    if src == 'bytearray_kw': return C(bytes=bytearray(raw), **kw)
    if src == 'memoryview_kw': return C(bytes=memoryview(raw), **kw)
    if src == 'bytesio': return auto(io.BytesIO(raw))
    if src == 'bytesio_pos':
        b = io.BytesIO(raw); b.read(len(raw) // 2)       # an initialiser that has been read from: still the whole buffer (offset counts from its start)
        return auto(b)
    if src == 'filename': return _with_file(raw, lambda p: C(filename=p, **kw))
    if src == 'path': return _with_file(raw, lambda p: C(filename=pathlib.Path(p), **kw))
    def fh(mode, **okw):
        def g(p):
            with open(p, mode, **okw) as h: return auto(h)
        return _with_file(raw, g)
    if src == 'fh_buffered': return fh('rb')
    if src == 'fh_raw': return fh('rb', buffering=0)
    if src == 'fh_rw': return fh('r+b')
    raise AssertionError(src)

def window_ref(c):
    """the bits the window holds, or None when it runs off the end of the source (then only agreement between the modes is demanded)"""
    d = c['data']; o = c['offset'] or 0; l = c['length']
    if o > len(d) or (l is not None and o + l > len(d)): return None
    return d[o:] if l is None else d[o:o + l]

def value_ok(src, w, cls):
    """can the content w be made through the route src (for class cls)?"""
    n = len(w)
    if (src.startswith('setter_') or src in ('imul', 'ior', 'clear_then_set')) and cls not in MUTABLE: return False
    if src in ('hex_kw', 'hex_kw_len', 'auto_hex', 'setter_hex', 'dtype_build_hex', 'pack_hex'): return n % 4 == 0 and (n > 0 or src == 'hex_kw')
    if src in ('dtype_build_bytes', 'pack_bytes'): return n % 8 == 0 and n > 0
    if src in ('oct_kw', 'auto_oct', 'setter_oct'): return n % 3 == 0 and n > 0
    if src in ('bytes_kw_plain', 'bytes_kw_len', 'auto_bytes', 'auto_bytearray', 'auto_memoryview', 'auto_bytesio', 'auto_array_B', 'setter_bytes', 'tobytes_back'): return n % 8 == 0
    if src in ('auto_file', 'uintbe_kw', 'intbe_kw', 'uintle_kw', 'intle_kw', 'uintne_kw'): return n % 8 == 0 and n > 0
    if src == 'auto_array_H': return n % 16 == 0
    if src in ('uint_kw', 'int_kw', 'auto_token_uint', 'auto_token_int', 'dtype_build', 'setter_uint', 'setter_int', 'setter_uintN', 'auto_token_bin', 'dtype_build_bin', 'pack_single', 'pack_uint', 'pack_kw', 'mul', 'rmul', 'imul'): return n > 0
    if src in ('float_kw', 'floatle_kw', 'setter_float'):
        if n not in (16, 32, 64): return False
        e = {16: 5, 32: 8, 64: 11}[n]
        x = w if src != 'floatle_kw' else ''.join(reversed([w[i:i + 8] for i in range(0, n, 8)]))
        return x[1:1 + e] != '1' * e                      # not a NaN / infinity (a NaN does not keep its payload through a Python float)
    if src == 'bool_kw': return n == 1
    if src in ('zeros_int', 'zeros_len'): return set(w) <= {'0'}
    return True

def mk_value(C, c):
    """an object of class C holding c['data'], made through the route c['src'] (no positions involved anywhere)"""
    import io, bitarray, array, copy, pickle, struct, bitstring
    from bitstring import Bits, BitArray, Dtype, pack
    src, w = c['src'], c['data']; n = len(w)
    u = int(w, 2) if w else 0
    si = u - (1 << n) if w[:1] == '1' else u
    raw = _raw(w) if n % 8 == 0 else None
    flip = lambda s: ''.join('1' if ch == '0' else '0' for ch in s)
    h = n // 2
    if src == 'bin_kw': return C(bin=w)
    if src == 'bin_kw_len': return C(bin=w, length=n)
    if src == 'bin_prefixed': return C(bin='0b' + w)
    if src == 'hex_kw': return C(hex=format(u, f'0{n // 4}x') if n else '')
    if src == 'hex_kw_len': return C(hex='0x' + format(u, f'0{n // 4}x'), length=n)
    if src == 'oct_kw': return C(oct=format(u, f'0{n // 3}o'))
    if src == 'bytes_kw_plain': return C(bytes=raw)
    if src == 'bytes_kw_len': return C(bytes=raw, length=n)
    if src == 'uint_kw': return C(uint=u, length=n)
    if src == 'int_kw': return C(int=si, length=n)
    if src == 'uintbe_kw': return C(uintbe=u, length=n)
    if src == 'intbe_kw': return C(intbe=si, length=n)
    if src == 'uintle_kw': return C(uintle=int.from_bytes(raw, 'little'), length=n)
    if src == 'intle_kw': return C(intle=int.from_bytes(raw, 'little', signed=True), length=n)
    if src == 'uintne_kw':
        import sys
        return C(uintne=int.from_bytes(raw, sys.byteorder), length=n)
    if src in ('float_kw', 'setter_float'):
        v = struct.unpack({16: '>e', 32: '>f', 64: '>d'}[n], _raw(w))[0]
        if src == 'float_kw': return C(float=v, length=n)
        o = C(n); o.float = v; return o
    if src == 'floatle_kw': return C(floatle=struct.unpack({16: '<e', 32: '<f', 64: '<d'}[n], _raw(w))[0], length=n)
    if src == 'bool_kw': return C(bool=w == '1')
    if src == 'bits_kw': return C(bits=Bits(bin=w))
    if src == 'bits_kw_str': return C(bits='0b' + w if w else '')
    if src == 'auto_bin': return C('0b' + w) if w else C('')
    if src == 'auto_hex': return C('0x' + format(u, f'0{n // 4}x'))
    if src == 'auto_oct': return C('0o' + format(u, f'0{n // 3}o'))
    if src == 'auto_token_uint': return C(f'uint:{n}={u}')
    if src == 'auto_token_int': return C(f'int{n}={si}')
    if src == 'auto_token_bin': return C(f'bin:{n}={w}')
    if src == 'auto_tokens':
        # several tokens in one string: the first token is the most significant part in both modes
        a, b = w[:h], w[h:]
        toks = ([f'0b{a}'] if a else []) + ([f'uint:{len(b)}={int(b, 2)}'] if b else [])
        return C(', '.join(toks))
    if src == 'auto_bytes': return C(raw)
    if src == 'auto_bytearray': return C(bytearray(raw))
    if src == 'auto_memoryview': return C(memoryview(raw))
    if src == 'auto_bytesio': return C(io.BytesIO(raw))
    if src == 'auto_bitarray': return C(bitarray.bitarray(w))
    if src == 'auto_bitarray_le': return C(bitarray.bitarray(w, endian='little'))
    if src == 'auto_frozenbitarray': return C(bitarray.frozenbitarray(w))
    if src == 'auto_array_B': return C(array.array('B', raw))
    if src == 'auto_array_H':
        a = array.array('H'); a.frombytes(raw); return C(a)
    if src == 'auto_list': return C([int(ch) for ch in w])
    if src == 'auto_tuple': return C(tuple(ch == '1' for ch in w))
    if src == 'auto_gen': return C(ch == '1' for ch in w)
    if src.startswith('auto_') and src[5:] in CLASSES: return C(cls_of(src[5:])(bin=w))
    if src == 'auto_file':
        def g(p):
            with open(p, 'rb') as fh: return C(fh)
        return _with_file(raw, g)
    if src == 'fromstring': return C.fromstring('0b' + w if w else '')
    if src == 'zeros_int': return C(n)
    if src == 'zeros_len': return C(length=n)
    if src == 'copy': return copy.copy(C(bin=w))
    if src == 'copy_method': return C(bin=w).copy()
    if src == 'deepcopy': return copy.deepcopy(C(bin=w))
    if src == 'pickle': return pickle.loads(pickle.dumps(C(bin=w)))
    if src == 'slice_all': return C(bin=w)[:]
    if src == 'add': return C(bin=w[:h]) + BitArray(bin=w[h:])
    if src == 'add_str': return C(bin=w[:h]) + ('0b' + w[h:] if w[h:] else '')
    if src == 'radd': return ('0b' + w[:h] if w[:h] else '') + C(bin=w[h:])
    if src in ('mul', 'rmul', 'imul'):
        k = next(k for k in (4, 3, 2, 1) if n % k == 0 and w == w[:n // k] * k)
        if src == 'mul': return C(bin=w[:n // k]) * k
        if src == 'rmul': return k * C(bin=w[:n // k])
        o = C(bin=w[:n // k]); o *= k; return o
    if src == 'join': return C().join([Bits(bin=w[:h]), '0b' + w[h:] if w[h:] else ''])
    if src == 'join_sep':
        t = n // 3
        return C(bin=w[t:2 * t]).join([Bits(bin=w[:t]), BitArray(bin=w[2 * t:])])
    if src == 'invert': return ~C(bin=flip(w)) if w else C(bin=w)
    if src == 'and': return (C(bin=w) & Bits(bin='1' * n)) if w else C(bin=w)
    if src == 'or': return (C(bin='0' * n) | Bits(bin=w)) if w else C(bin=w)
    if src == 'xor': return (C(bin=flip(w)) ^ ('0b' + '1' * n)) if w else C(bin=w)
    if src == 'dtype_build': return C(Dtype('uint', n).build(u))
    if src == 'dtype_build_bin': return C(Dtype('bin', n).build(w))
    if src == 'pack_single': return C(pack(f'bin:{n}', w))
    if src == 'pack_bits': return C(pack('bits', Bits(bin=w)))
    if src == 'dtype_build_hex': return C(Dtype('hex', n).build(format(u, f'0{n // 4}x')))
    if src == 'dtype_build_bytes': return C(Dtype('bytes', n // 8).build(raw))
    if src == 'pack_uint': return C(pack(f'uint:{n}', u))
    if src == 'pack_hex': return C(pack(f'hex:{n}', format(u, f'0{n // 4}x')))
    if src == 'pack_bytes': return C(pack(f'bytes:{n // 8}', raw))
    if src == 'pack_kw': return C(pack('int:n=v', n=n, v=si))
    if src == 'setter_bin':
        o = C('0b1'); o.bin = w; return o
    if src == 'setter_hex':
        o = C(); o.hex = format(u, f'0{n // 4}x'); return o
    if src == 'setter_oct':
        o = C(); o.oct = format(u, f'0{n // 3}o'); return o
    if src == 'setter_uint':
        o = C(n); o.uint = u; return o
    if src == 'setter_int':
        o = C(bin='1' * n); o.int = si; return o
    if src == 'setter_bytes':
        o = C(); o.bytes = raw; return o
    if src == 'setter_uintN':
        o = C('0xff'); setattr(o, f'uint{n}', u); return o
    if src == 'setter_bits':
        o = C(3); o.bits = Bits(bin=w); return o
    if src == 'ior':
        o = C(bin='0' * n)
        if n: o |= Bits(bin=w)
        return o
    if src == 'clear_then_set':
        o = C('0b101'); o.clear(); o.bin = w; return o
    if src == 'tobitarray_back': return C(C(bin=w).tobitarray())
    if src == 'tobytes_back': return C(C(bin=w).tobytes())
    raise AssertionError(src)

def ref_interp(w, cls):
    """what an object of class cls holding the bits w shows, from int() / int.to_bytes / struct"""
    import struct
    n = len(w); u = int(w, 2) if w else None
    pad = w + '0' * ((-n) % 8)
    tb = _raw(pad).hex()
    exp = {'bin': w, 'len': n, 'uint': u, 'int': None if u is None else (u - (1 << n) if w[0] == '1' else u), 'hex': (format(u, f'0{n // 4}x') if n else '') if n % 4 == 0 else None,
           'oct': (format(u, f'0{n // 3}o') if n else '') if n % 3 == 0 else None, 'tobytes': tb, 'tobitarray': w, 'tofile': tb, 'bytes': tb if n % 8 == 0 else None,
           'uintle': int.from_bytes(_raw(w), 'little') if n % 8 == 0 and n else None, 'intbe': int.from_bytes(_raw(w), 'big', signed=True) if n % 8 == 0 and n else None,
           'float': struct.unpack({16: '>e', 32: '>f', 64: '>d'}[n], _raw(w))[0].hex() if n in (16, 32, 64) else None, 'bool': n > 0, 'count1': w.count('1'), 'all_any': [set(w) <= {'1'}, '1' in w],
           'eq': [True, True, False, True], 'eq_flipped': [False, True] if n else None, 'pos': 0 if cls in ('ConstBitStream', 'BitStream') else None}
    return exp

def snap_interp(x, w):
    """everything that is not a position, read from x; w is the content x should have (None: unknown, the comparisons are left out)"""
    import io, bitstring
    out = {}
    def rec(k, fn):
        try: out[k] = fn()
        except BaseException as e:
            if isinstance(e, (KeyboardInterrupt, SystemExit, Hang)): raise
            out[k] = 'exc:' + exn_name(e)
    n = None
    try: n = len(x)
    except Exception: pass
    rec('bin', lambda: x.bin); rec('len', lambda: len(x))
    rec('uint', lambda: x.uint if n else None); rec('int', lambda: x.int if n else None)
    rec('hex', lambda: x.hex if n is not None and n % 4 == 0 else None); rec('oct', lambda: x.oct if n is not None and n % 3 == 0 else None)
    rec('tobytes', lambda: x.tobytes().hex()); rec('tobitarray', lambda: x.tobitarray().to01())
    def tofile():
        f = io.BytesIO(); x.tofile(f); return f.getvalue().hex()
    rec('tofile', tofile)
    rec('bytes', lambda: x.bytes.hex() if n is not None and n % 8 == 0 else None)
    rec('uintle', lambda: x.uintle if n and n % 8 == 0 else None); rec('intbe', lambda: x.intbe if n and n % 8 == 0 else None)
    rec('float', lambda: x.float.hex() if n in (16, 32, 64) else None)
    rec('bool', lambda: bool(x)); rec('count1', lambda: x.count(1)); rec('all_any', lambda: [x.all(1), x.any(1)])
    if w is not None:
        f = bitstring.Bits(bin=w)
        rec('eq', lambda: [x == f, f == x, x != f, x == ('0b' + w if w else '')])
        g = bitstring.BitArray(bin=w[:-1] + ('1' if w[-1] == '0' else '0')) if w else None
        rec('eq_flipped', lambda: [x == g, x != g] if w else None)
    rec('pos', lambda: getattr(x, 'pos', None))
    rec('hash', lambda: hash(x) if not isinstance(x, bitstring.BitArray) else 'unhashable')
    return out

def run_construct(c):
    import bitstring
    C = cls_of(c['cls'])
    w = window_ref(c) if c['src'] in WINDOW_SRCS else c['data']
    def f():
        out = {'href': hash(bitstring.Bits(bin=w)) if w is not None else None}
        objs = {}
        try:
            for mode in c['order']:                      # the order in which the two objects are made
                bitstring.options.lsb0 = (mode == 'lsb0')
                try: objs[mode] = mk_window(C, c) if c['src'] in WINDOW_SRCS else mk_value(C, c)
                except Exception as e:
                    objs[mode] = None; out[mode] = ['err', exn_name(e)]
            for mode, x in objs.items():
                if x is None: continue
                views = {}
                for view in c['views']:                  # the order in which they are read
                    bitstring.options.lsb0 = (view == 'lsb0')
                    views[view] = snap_interp(x, w)
                out[mode] = ['ok', views]
            if objs.get('msb0') is not None and objs.get('lsb0') is not None:
                a, b = objs['msb0'], objs['lsb0']
                cross = {}
                for view in ('lsb0', 'msb0'):
                    bitstring.options.lsb0 = (view == 'lsb0')
                    cross[view] = [a == b, b == a, a != b, a.bin == b.bin, a.tobytes() == b.tobytes(), len(a) == len(b)]
                out['cross'] = cross
        finally:
            bitstring.options.lsb0 = False
        return out
    return attempt(f, 30)

def describe_construct(c):
    if c['src'] in WINDOW_SRCS:
        d = c['data']
        return (f"{c['cls']} made from a {c['src']} source of {len(d)} bits ({d[:48]}{'...' if len(d) > 48 else ''}) with offset={c['offset']} length={c['length']}"
                f"{' (given positionally)' if c.get('argstyle') == 'pos' else ''}")
    d = c['data']
    return f"{c['cls']} holding {d[:48]!r}{'...' if len(d) > 48 else ''} ({len(d)} bits) made through the route {c['src']}"

def oracle_construct(c, obs):
    what = describe_construct(c) + f" (made in the order {c['order']}, read in the order {c['views']})"
    if obs[0] != 'ok': return f"{what}: the harness could not run the case: {obs}"
    o = obs[1]
    w = window_ref(c) if c['src'] in WINDOW_SRCS else c['data']
    if w is None:
        # the window runs off the end of the source: whatever happens must happen in both modes
        if o.get('msb0') != o.get('lsb0'):
            return f"{what}: the window runs off the end of the source; with lsb0 off the outcome is {str(o.get('msb0'))[:300]}, with lsb0 on {str(o.get('lsb0'))[:300]}"
        return None
    exp = ref_interp(w, c['cls'])
    hashes = set()
    for mode in ('msb0', 'lsb0'):
        r = o.get(mode)
        if r is None or r[0] != 'ok': return f"{what}: made with lsb0 {'on' if mode == 'lsb0' else 'off'} the construction gives {r}; it must hold the bits {w[:64]!r} ({len(w)} bits)"
        for view, sn in r[1].items():
            bad = {k: (sn.get(k), v) for k, v in exp.items() if sn.get(k) != v}
            if bad:
                return (f"{what}: the object made with lsb0 {'on' if mode == 'lsb0' else 'off'} and read with lsb0 {'on' if view == 'lsb0' else 'off'} must hold {w[:64]!r}{'...' if len(w) > 64 else ''} ({len(w)} bits); "
                        f"stored bits / whole-value interpretations / == differ, (observed, expected): {str(bad)[:600]}")
            hashes.add(str(sn.get('hash')))
    hexp = 'unhashable' if c['cls'] in MUTABLE else str(o['href'])
    if hashes != {hexp}:
        return f"{what}: hash() over the two objects and the two modes gives {sorted(hashes)}, the hash of Bits(bin=<the same bits>) is {hexp}"
    for view, cr in o.get('cross', {}).items():
        if cr != [True, True, False, True, True, True]:
            return f"{what}: the object made with lsb0 off and the one made with lsb0 on, compared with lsb0 {'on' if view == 'lsb0' else 'off'} [a==b, b==a, a!=b, same bin, same bytes, same len]: {cr}"
    return None

def gen_construct(rng, tier):
    thorough = tier != 'quick'
    def rdata(nbits):
        # never a palindrome and never the same at both ends, so that a window taken from the wrong end shows
        while True:
            d = rand_bits(rng, nbits, rng.choice(['rand', 'rand', 'rand', 'periodic', 'sparse']))
            if nbits < 4 or (d != d[::-1] and (nbits < 16 or d[:8] != d[-8:])): return d
    def modes():
        return {'order': rng.choice([['msb0', 'lsb0'], ['lsb0', 'msb0']]), 'views': rng.choice([['msb0', 'lsb0'], ['lsb0', 'msb0']])}
    def window(src, cls, data, off, ln):
        c = {'op': 'construct', 'bits': data, 'cls': cls, 'src': src, 'data': data, 'offset': off, 'length': ln, 'argstyle': 'kw'}
        if src in ('bytesio', 'bytesio_pos', 'fh_buffered', 'fh_raw', 'fh_rw') and rng.random() < 0.25: c['argstyle'] = 'pos'
        c.update(modes()); return c
    # 1. every source kind x windows on and off byte boundaries
    k = 0
    for rep in range(1 if not thorough else 12):
        for src in WINDOW_SRCS:
            is_ba = src.startswith('bitarray')
            nb = rng.choice([1, 2, 3, 3, 4, 5, 8, 9, 17, 33] + ([130, 1100] if thorough else [130]))
            total = 8 * nb if not is_ba else rng.choice([8 * nb, 8 * nb + rng.randrange(1, 8), rng.randrange(1, 8)])
            data = rdata(total)
            offs = [None, 0, 1, rng.randrange(2, 8), 8, rng.choice([9, 12, 15]), 16, rng.randrange(0, total + 1), 8 * rng.randrange(0, total // 8 + 1), total - 1, total]
            pairs = []
            for off in offs:
                if off is not None and not 0 <= off <= total: continue
                rem = total - (off or 0)
                lens = [None, rem, rng.randrange(0, rem + 1), rng.choice([0, 1, 5, 7, 8, 9, 12, 16, 31])]
                if rem: lens += [rem - 1, (rem // 8) * 8, max(0, (rem // 8) * 8 - (off or 0) % 8)]
                for ln in (lens if thorough else rng.sample(lens, 3) + [None]):
                    if ln is not None and ln > rem and rng.random() < 0.7: continue
                    pairs.append((off, ln))
            pairs += [(rng.randrange(0, total + 1), total + rng.choice([1, 8])), (total + rng.choice([1, 7, 8, 9]), rng.choice([None, 0, 1]))]       # off the end
            # one of each shape for every source kind, whatever the sampling above did: start / end of the window on / off a byte boundary, start or end left out
            must = [(None, total - 3), (0, 5), (None, 8), (3, None), (8, None), (8, 7), (5, 11), (5, 3), (5, total - 5), (3, total - 8), (8, 8), (16, 3), (9, 7)]
            must = [(a, b) for a, b in must if (a or 0) <= total and (b is None or 0 <= b <= total - (a or 0))]
            seen = set()
            for off, ln in must + pairs:
                if (off, ln) in seen: continue
                seen.add((off, ln))
                if not thorough and src in WINDOW_FILE and (off, ln) not in must and rng.random() < 0.6: continue
                yield window(src, CLASSES[k % 4], data, off, ln); k += 1
    # 2. one short source, every (offset, length): the whole small space for the in-memory kinds (thorough), a sample otherwise
    for src in WINDOW_SRCS:
        total = 24 if not src.startswith('bitarray') else 19
        data = rdata(total)
        combos = [(o, l) for o in [None] + list(range(total + 1)) for l in [None] + list(range(total + 1 - (o or 0)))]
        if not thorough: combos = rng.sample(combos, 28 if src in WINDOW_MEM else 8)
        elif src in WINDOW_FILE: combos = rng.sample(combos, 120)
        for off, ln in combos:
            yield window(src, CLASSES[k % 4], data, off, ln); k += 1
    # 3. a given content through every route that takes no position
    lens = [0, 1, 2, 3, 7, 8, 9, 12, 15, 16, 17, 24, 31, 32, 33, 48, 63, 64, 65, 100, 128]
    for rep in range(4 if not thorough else 40):
        for src in VALUE_SRCS:
            for _try in range(30):
                cls = CLASSES[k % 4] if _try < 4 else rng.choice(CLASSES)
                n = 1 if src == 'bool_kw' else (rng.choice(lens) if _try else rng.choice([16, 32, 64, 24, 9, 12, 5]))
                if src in ('zeros_int', 'zeros_len'): w = '0' * n
                elif src in ('mul', 'rmul', 'imul') and rng.random() < 0.8:
                    unit = rdata(rng.choice([1, 3, 8, 9])); w = unit * rng.choice([1, 2, 3, 4])
                else: w = rdata(n)
                k += 1
                if value_ok(src, w, cls): break
            else: continue
            c = {'op': 'construct', 'bits': w, 'cls': cls, 'src': src, 'data': w, 'offset': None, 'length': None}
            c.update(modes()); yield c
    # long contents (beyond the 2000-bit threshold of hash() and beyond one search chunk) through the window sources and some value routes
    for src in WINDOW_SRCS:
        for total in ((2008, 8200) if thorough else (rng.choice([2008, 3608]),)):
            data = rdata(total)
            wins = [(None, None), (3, None), (None, total - 5), (5, 2001), (13, total - 13), (8, total - 16)]
            for off, ln in (wins if thorough else rng.sample(wins, 2)):
                yield window(src, CLASSES[k % 4], data, off, ln); k += 1
    for src in ['bin_kw', 'auto_hex', 'auto_bytes', 'uint_kw', 'auto_bitarray', 'auto_list', 'add', 'join_sep', 'invert', 'pickle', 'copy', 'setter_bin', 'auto_file', 'mul']:
        for n in ((2001, 2008, 3600, 8200) if thorough else (rng.choice([2001, 2008, 3600]),)):
            n -= n % 24 if src in ('auto_hex', 'auto_bytes', 'auto_file') else 0
            w = rdata(n) if src != 'mul' else rdata(n // 3) * 3
            cls = rng.choice(MUTABLE if src.startswith('setter_') else CLASSES)
            c = {'op': 'construct', 'bits': w, 'cls': cls, 'src': src, 'data': w, 'offset': None, 'length': None}
            c.update(modes()); yield c

def kind(c): return c['op'] if c['op'] != 'construct' else ('construct:' + ('window' if c['src'] in WINDOW_SRCS else 'value'))

def run_impl(c):
    import bitstring
    from bitstring import Bits, BitArray, pack
    op = c['op']
    if op == 'construct': return run_construct(c)
    B = lambda x: Bits(bin=x)
    if op == 'interp' or op == 'toggle':
        # whole-value interpretations / toggling
        def snap(s):
            out = [s.bin, len(s), s == Bits(bin=c['bits'])]
            for name in ('uint', 'int', 'hex', 'oct', 'bytes', 'uintbe', 'intle', 'float'):
                out.append(str(attempt(lambda: getattr(s, name))))
            out.append(attempt(lambda: hash(s)) if not isinstance(s, BitArray) else None)
            return out
        s = build(c['cls'], c['bits'], 'bin')
        bitstring.options.lsb0 = False; a = snap(s); i0 = attempt(lambda: s[0:3].bin)
        bitstring.options.lsb0 = True; b = snap(s); t = build(c['cls'], c['bits'], 'bin'); b2 = t.bin
        bitstring.options.lsb0 = False; a2 = snap(s); i1 = attempt(lambda: s[0:3].bin)
        return ('ok', [a == b, a == a2, i0 == i1, b2 == c['bits']])
    bitstring.options.lsb0 = True
    c.setdefault('cls', 'BitArray')
    s = build(c['cls'], c['bits'], 'bin')
    kw = {'bytealigned': c['ba']} if 'ba' in c else {}
    def f():
        if op == 'slice': return s[slice(*c['k'])].bin
        if op == 'getitem': return s[c['i']]
        if op == 'iter': return ''.join('1' if x else '0' for x in s)
        if op == 'mul': return (s * c['n']).bin
        if op == 'find': return list(s.find(B(c['pat']), c['start'], c['end'], **kw))
        if op == 'rfind': return list(s.rfind(B(c['pat']), c['start'], c['end'], **kw))
        if op == 'findall': return list(s.findall(B(c['pat']), c['start'], c['end'], c['count'], **kw))
        if op == 'startswith': return s.startswith(B(c['pat']), c['start'], c['end'])
        if op == 'endswith': return s.endswith(B(c['pat']), c['start'], c['end'])
        if op == 'cut': return [x.bin for x in s.cut(c['n'], c['start'], c['end'], c['count'])]
        if op == 'split': return [x.bin for x in s.split(B(c['pat']), c['start'], c['end'], c['count'], **kw)]
        if op == 'lshift': return (s << c['n']).bin
        if op == 'rshift': return (s >> c['n']).bin
        if op == 'readorder':
            t = bitstring.ConstBitStream(bin=c['bits'])
            return [t.read(w).bin for w in c['ws'] if True] if sum(c['ws']) <= len(c['bits']) else 'short'
        if op == 'lsbread':
            from props import c06
            how = c['how']; toks = c['toks']
            if how == 'unpack':
                vals = Bits(bin=c['bits']).unpack([c06.fmt_of(t) for t in toks]); t = None
            else:
                t = bitstring.ConstBitStream(bin=c['bits'], pos=c['pos'])
                try:
                    if how in ('read', 'peek'): return [c06.canon_val(toks[0], getattr(t, how)(c06.fmt_of(toks[0])))[:2], t.pos]
                    vals = getattr(t, how)([c06.fmt_of(x) for x in toks])
                except Exception as e:
                    return ['raised', exn_name(e), t.pos]
            nonpad = [x for x in toks if not (isinstance(x, dict) and x.get('k') == 'pad')]
            return [[c06.canon_val(x, v)[:2] for x, v in zip(nonpad, vals)] + ([['extra']] if len(vals) != len(nonpad) else []), None if t is None else t.pos]
        if op == 'lsbpack':
            def tok(k, n): return k if n is None else f'{k}:{n}'
            def val(k, v): return v if k in ('uint', 'int', 'bool', 'ue') else (Bits(bin=v) if k == 'bits' else ('0b' + v if k == 'bin' else (format(int(v, 2), f'0{(len(v) + 3) // 4}x') if len(v) % 4 == 0 else '0b' + v)))
            vs, i = [], 0
            for k, n in c['toks']:
                if k == 'pad': continue
                if i < len(c['vals']): vs.append(val(k, c['vals'][i]))
                i += 1
            vs += c['vals'][i:]
            parts, cut = [], [0] + c['split'] + [len(c['toks'])]
            for a_, b_ in zip(cut, cut[1:]): parts.append(', '.join(tok(k, n) for k, n in c['toks'][a_:b_]))
            fmt = parts if c['split'] else parts[0]
            return pack(fmt, *vs).bin
        if op == 'packorder':
            p = pack(', '.join(f'uint:{w}' for w in c['ws']), *c['vals'])
            return [p.bin, p.unpack(', '.join(f'uint:{w}' for w in c['ws']))]
        a = BitArray(bin=c['bits']) if c['cls'] == 'BitArray' else bitstring.BitStream(bin=c['bits'])
        r = None
        if op == 'delslice': del a[slice(*c['k'])]
        elif op == 'setslice': a[slice(*c['k'])] = B(c['v'])
        elif op == 'setbit': a[c['i']] = c['v']
        elif op == 'delbit': del a[c['i']]
        elif op == 'replace': r = a.replace(B(c['pat']), B(c['new']), c['start'], c['end'], c['count'], **kw)
        elif op == 'insert': a.insert(B(c['bs']), c['pos'])
        elif op == 'overwrite': a.overwrite(B(c['bs']), c['pos'])
        elif op == 'append': a.append(B(c['bs']))
        elif op == 'prepend': a.prepend(B(c['bs']))
        elif op == 'reverse': a.reverse(c['start'], c['end'])
        elif op == 'rol': a.rol(c['n'], c['start'], c['end'])
        elif op == 'ror': a.ror(c['n'], c['start'], c['end'])
        elif op == 'byteswap': r = a.byteswap(c['fmt'], c['start'], c['end'], c['repeat'])
        elif op in ('set', 'invert'):
            p = c['pos']
            if isinstance(p, dict): p = p['list'] if 'list' in p else range(*p['range'])
            try:
                a.set(c['v'], p) if op == 'set' else a.invert(p)
            except IndexError:
                return [a.bin, 'IndexError']
            return [a.bin, None]
        return [a.bin, r]
    if op in ('delslice', 'setslice', 'setbit', 'delbit'): c['cls'] = 'BitArray'
    return attempt(f, 30)

def mirror_expected(c):
    """reverse(op_msb0(reverse(operands))) with position arguments unchanged"""
    op = c['op']; X = rv(c['bits'])
    P = rv(c.get('pat', '')); ba = c.get('ba', False)
    ok = lambda v: ('ok', v)
    def bits_res(r): return ('ok', rv(r[1])) if r[0] == 'ok' else r
    def cont_res(r, ret=None): return ('ok', [rv(r[1]), ret]) if r[0] == 'ok' else r
    if op == 'slice':
        a, b, st = c['k']
        try: return ok(rv(X[a:b:st]))
        except ValueError: return ('err', 'ValueError')
    if op == 'getitem':
        i = c['i']; return ok(X[i] == '1') if -len(X) <= i < len(X) else ('err', 'IndexError')
    if op == 'iter': return ok(X)            # iteration yields bit 0, 1, ... in lsb0 numbering
    if op == 'mul': return ok(c['bits'] * c['n'])
    if op == 'find': return R.call(lambda: list(R.find(X, P, c['start'], c['end'], ba)))
    if op == 'rfind': return R.call(lambda: list(R.rfind(X, P, c['start'], c['end'], ba)))
    if op == 'findall': return R.call(R.findall, X, P, c['start'], c['end'], c['count'], ba)
    if op == 'startswith': return R.call(R.startswith, X, P, c['start'], c['end'])
    if op == 'endswith': return R.call(R.endswith, X, P, c['start'], c['end'])
    if op == 'cut':
        r = R.call(R.cut, X, c['n'], c['start'], c['end'], c['count'])
        return ('ok', [rv(x) for x in r[1]]) if r[0] == 'ok' else r
    if op == 'split':
        return None    # split is not in the property's list of mirrored operations
    if op == 'lshift': return bits_res(R.call(R.rshift, X, c['n']))   # direction is kept relative to the msb end
    if op == 'rshift': return bits_res(R.call(R.lshift, X, c['n']))
    if op == 'delslice': return cont_res(R.call(R.delitem, X, slice(*c['k'])))
    if op == 'setslice': return cont_res(R.call(R.setitem_bits, X, slice(*c['k']), rv(c['v'])))
    if op == 'setbit': return cont_res(R.call(R.setitem_int, X, c['i'], c['v']))
    if op == 'delbit': return cont_res(R.call(R.delitem, X, c['i']))
    if op == 'replace':
        r = R.call(R.replace, X, P, rv(c['new']), c['start'], c['end'], c['count'], ba)
        return ('ok', [rv(r[1][0]), r[1][1]]) if r[0] == 'ok' else r
    if op == 'insert': return cont_res(R.call(R.insert, X, rv(c['bs']), c['pos']))
    if op == 'overwrite': return cont_res(R.call(R.overwrite, X, rv(c['bs']), c['pos']))
    if op == 'append': return ok([rv(X + rv(c['bs'])), None])
    if op == 'prepend': return ok([rv(rv(c['bs']) + X), None])
    if op == 'reverse': return cont_res(R.call(R.reverse, X, c['start'], c['end']))
    if op == 'rol': return cont_res(R.call(R.ror, X, c['n'], c['start'], c['end']))     # rotation keeps its direction; the range is mirrored
    if op == 'ror': return cont_res(R.call(R.rol, X, c['n'], c['start'], c['end']))
    if op == 'byteswap':
        r0 = R.call(R.norm_range, len(X), c['start'], c['end'])
        if r0[0] == 'err': return r0
        from props.c03 import fmt_sizes
        sizes = fmt_sizes(c['fmt'], r0[1][1] - r0[1][0])
        r = R.call(R.byteswap, X, sizes, c['start'], c['end'], c['repeat'])
        # the pattern is laid out from lsb0 position start upwards: mirror of the msb0 operation with the sizes in the same order
        return ('ok', [rv(r[1][0]), r[1][1]]) if r[0] == 'ok' else r
    if op in ('set', 'invert'):
        p = c['pos']
        if isinstance(p, dict): p = p['list'] if 'list' in p else list(range(*p['range']))
        r = R.call(R.set_, X, c['v'], p) if op == 'set' else R.call(R.invert, X, p)
        if r[0] == 'err': return r
        return ('ok', [rv(r[1][0]), r[1][1]])
    if op == 'readorder':
        if sum(c['ws']) > len(c['bits']): return ok('short')
        out, p = [], 0
        for w in c['ws']:
            out.append(rv(X[p:p + w])); p += w
        return ok(out)
    if op == 'packorder':
        # token i occupies lsb0 positions [sum(w_<i), sum(w_<=i)): the first token is at the least significant end
        return ok([''.join(format(v, f'0{w}b') for w, v in reversed(list(zip(c['ws'], c['vals'])))), c['vals']])
    if op in ('interp', 'toggle'): return ok([True, True, True, True])
    if op == 'lsbread':
        # the field rule, for token lists made of fixed-length tokens only (the rest is judged on the Coq readers)
        d = c['bits']; L = len(d); how = c['how']; p = 0 if how == 'unpack' else c['pos']; out = []; parsed = []
        for t in c['toks']:
            if isinstance(t, int): k, l = 'bits', t
            elif 'n' in t and 'k' in t: k, l = t['k'], t['n'] * (8 if t['k'] == 'bytes' else 1)
            else: return None
            if l < 1 or (k == 'hex' and l % 4) or (k == 'bool' and l != 1): return None      # the whole list is validated before anything is read
            parsed.append((k, l))
        for k, l in parsed:
            if p + l > L:
                if how == 'unpack': return None
                return ok(['raised', 'ReadError', c['pos']])
            f = d[L - p - l: L - p]; p += l
            if k == 'uint': out.append(['z', int(f, 2)])
            elif k == 'int': out.append(['z', int(f, 2) - ((1 << l) if f[0] == '1' else 0)])
            elif k == 'bool': out.append(['bool', f == '1'])
            elif k == 'pad': out.append(['none'])
            else: out.append(['bits', f])
        if how in ('read', 'peek'): return ok([out[0], p if how == 'read' else c['pos']])
        out = [v for v in out if v != ['none']]
        return ok([out, None if how == 'unpack' else (p if how == 'readlist' else c['pos'])])
    if op == 'lsbpack':
        encs, i, bad = [], 0, False
        for k, n in c['toks']:
            if k == 'pad': encs.append('0' * n); continue
            if i >= len(c['vals']): bad = True; break
            v = c['vals'][i]; i += 1
            if k == 'ue': bad = True                                   # exp-Golomb codes are refused under lsb0
            elif k == 'bool': encs.append('1' if v else '0')
            elif k == 'uint':
                if not 0 <= v < (1 << n): bad = True
                else: encs.append(format(v, f'0{n}b'))
            elif k == 'int':
                if not -(1 << (n - 1)) <= v < (1 << (n - 1)): bad = True
                else: encs.append(format(v & ((1 << n) - 1), f'0{n}b'))
            else:
                if len(v) != n: bad = True
                else: encs.append(v)
        if bad or i != len(c['vals']): return ('err', 'ValueError')
        return ok(''.join(reversed(encs)))            # the first token is at the least significant (right-hand) end

def oracle(c, obs):
    if c['op'] == 'construct': return oracle_construct(c, obs)
    exp = mirror_expected(c)
    if exp is None: return None
    if c['op'] in ('set', 'invert') and obs[0] == 'ok' and exp[0] == 'ok':
        pass
    if tuple(obs) != tuple(exp) and list(obs) != list(exp):
        d = c['bits']
        return (f"lsb0 {c['op']} on {c.get('cls')}({d[:64]!r}{'...' if len(d) > 64 else ''}, {len(d)} bits) args="
                f"{ {k: v for k, v in c.items() if k not in ('op', 'bits', 'cls')} }: got {str(obs)[:200]}, mirror of msb0 gives {str(exp)[:200]}")
    return None

def nontrivial(c, obs):
    return c['bits'] != rv(c['bits'])

def classify(c, obs):
    return None

def cob(x): return copt(x, cz)

def coq_check(c, obs):
    if c['op'] == 'construct': return None          # no positions involved: the str / int / struct reference of the oracle decides
    op = c['op']; D = cbits(c['bits'])
    if op == 'lsbread':
        from props import c06
        if obs[0] != 'ok': return None
        o = obs[1]; how = c['how']; toks = c['toks']
        if any(isinstance(t, dict) and t.get('k') == 'bool' and 'n' not in t for t in toks): return None
        S = f"(mkstream {D} {cz(c['pos'])})"
        if o[0] == 'raised':
            if o[1] not in COQ_EXNS: return None
            exp, pos = f"(Err {o[1]})", o[2]
        elif how in ('read', 'peek'): exp, pos = f"(Ok {c06.cval(o[0])})", o[1]
        else:
            if ['extra'] in o[0] or any(v[0] == 'other' for v in o[0]): return 'false'
            exp, pos = f"(Ok {clist(o[0], c06.cval)})", o[1]
        if how == 'unpack': return f"res_eqb (list_eqb value_eqb) (unpack_m true {D} {clist(toks, c06.ctok)}) {exp}"
        if how in ('read', 'peek'): return f"chk value_eqb ({how}_token_m true {S} {c06.ctok(toks[0])}) {D} {cz(pos)} {exp}"
        return f"chk (list_eqb value_eqb) ({how}_m true {S} {clist(toks, c06.ctok)}) {D} {cz(pos)} {exp}"
    if op == 'lsbpack':
        CKK = {'uint': 'KUint', 'int': 'KInt', 'bool': 'KBool', 'pad': 'KPad', 'bits': 'KBits', 'bin': 'KBin', 'hex': 'KHex'}
        toks = [f"(TVar UE, @None value)" if k == 'ue' else f"(TFixed {CKK[k]} {cz(n)}, @None value)" for k, n in c['toks']]
        kinds = [k for k, n in c['toks'] if k != 'pad']
        vals = []
        for i, v in enumerate(c['vals']):
            k = kinds[i] if i < len(kinds) else 'uint'
            vals.append(f"(ValBool {cbool(v)})" if k == 'bool' else (f"(ValZ {cz(v)})" if k in ('uint', 'int', 'ue') else f"(ValBits {cbits(v)})"))
        if obs[0] == 'err' and obs[1] != 'ValueError': return None
        return f"rbits_eqb (pack_m true [{'; '.join(toks)}] [{'; '.join(vals)}]) {cres(obs, cbits)}"
    if len(c['bits']) > 3000 and op not in ('find', 'rfind', 'findall'): return None
    if len(c['bits']) > 10000: return None      # the model evaluation is quadratic; beyond one chunk boundary the oracle decides (and C12_mirror_findall covers every size)
    def cont(o): return ('ok', o[1][0]) if o[0] == 'ok' else o
    if op == 'slice': return f"rbits_eqb (bs_getitem_slice true {D} {cslice(*c['k'])}) {cres(obs, cbits)}"
    if op == 'getitem': return f"rbool_eqb (bs_getitem_int true {D} {cz(c['i'])}) {cres(obs, cbool)}"
    if op == 'iter': return f"rbits_eqb (bs_iter true {D}) {cres(obs, cbits)}"
    if op == 'mul': return f"rbits_eqb (bs_mul true {D} {cz(c['n'])}) {cres(obs, cbits)}" if len(c['bits']) * c['n'] < 20000 else None
    P = cbits(c.get('pat', '')); S = cob(c.get('start')); E = cob(c.get('end')); BA = cbool(c.get('ba', False))
    if op in ('find', 'rfind'):
        o = ('ok', obs[1][0] if obs[1] else None) if obs[0] == 'ok' else obs
        return f"res_eqb (opt_eqb Z.eqb) (bs_{op} true {D} {P} {S} {E} {BA}) {cres(o, cob)}"
    if op == 'findall':
        return f"res_eqb zlist_eqb (bs_findall true {D} {P} {S} {E} {cob(c['count'])} {BA}) {cres(obs, lambda l: clist(l, cz))}"
    if op in ('startswith', 'endswith'): return f"rbool_eqb (bs_{op} true {D} {P} {S} {E}) {cres(obs, cbool)}"
    if op == 'cut': return f"res_eqb (list_eqb bits_eqb) (bs_cut true {D} {cz(c['n'])} {S} {E} {cob(c['count'])}) {cres(obs, lambda l: clist(l, cbits))}"
    if op == 'split': return f"res_eqb (list_eqb bits_eqb) (bs_split true {D} {P} {S} {E} {cob(c['count'])} {BA}) {cres(obs, lambda l: clist(l, cbits))}"
    if op in ('lshift', 'rshift'): return f"rbits_eqb (bs_{op} {D} {cz(c['n'])}) {cres(obs, cbits)}"
    if op == 'delslice': return f"rbits_eqb (ba_delitem_slice true {D} {cslice(*c['k'])}) {cres(cont(obs), cbits)}"
    if op == 'setslice': return f"rbits_eqb (ba_setitem_slice true {D} {cslice(*c['k'])} (VBits {cbits(c['v'])})) {cres(cont(obs), cbits)}"
    if op == 'setbit': return f"rbits_eqb (ba_setitem_int true {D} {cz(c['i'])} (VInt {cz(c['v'])})) {cres(cont(obs), cbits)}"
    if op == 'delbit': return f"rbits_eqb (ba_delitem_int true {D} {cz(c['i'])}) {cres(cont(obs), cbits)}"
    if op == 'replace':
        return (f"res_eqb (pair_eqb bits_eqb Z.eqb) (ba_replace true {D} {P} {cbits(c['new'])} {S} {E} {cob(c['count'])} {BA}) "
                f"{cres(obs, lambda v: cpair(cbits(v[0]), cz(v[1])))}")
    if op == 'insert': return f"rbits_eqb (ba_insert true {D} {cbits(c['bs'])} {cz(c['pos'])}) {cres(cont(obs), cbits)}"
    if op == 'overwrite': return f"rbits_eqb (ba_overwrite true false {D} {cbits(c['bs'])} {cz(c['pos'])}) {cres(cont(obs), cbits)}"
    if op in ('append', 'prepend'): return f"bits_eqb (ba_{op} true {D} {cbits(c['bs'])}) {cbits(obs[1][0])}" if obs[0] == 'ok' else 'false'
    if op == 'reverse': return f"rbits_eqb (ba_reverse true {D} {S} {E}) {cres(cont(obs), cbits)}"
    if op in ('rol', 'ror'): return f"rbits_eqb (ba_{op} true {D} {cz(c['n'])} {S} {E}) {cres(cont(obs), cbits)}"
    if op == 'byteswap':
        r0 = R.call(R.norm_range, len(c['bits']), c['start'], c['end'])
        if r0[0] == 'err': return None
        from props.c03 import fmt_sizes
        sizes = fmt_sizes(c['fmt'], r0[1][1] - r0[1][0])
        return (f"res_eqb (pair_eqb bits_eqb Z.eqb) (ba_byteswap true {D} {clist(sizes, cz)} {S} {E} {cbool(c['repeat'])}) "
                f"{cres(obs, lambda v: cpair(cbits(v[0]), cz(v[1])))}")
    if op in ('set', 'invert'):
        if obs[0] != 'ok': return None
        p = c['pos']; after, err = obs[1]
        pe = f"({cbits(after)}, {'None' if err is None else '(Some IndexError)'})"
        if p is None:
            if op == 'set': return f"rbits_eqb (ba_set_all {D} {cbool(bool(c['v']))}) (Ok {cbits(after)})"
            return f"bits_eqb (ba_invert_all {D}) {cbits(after)}"
        if isinstance(p, dict) and 'range' in p and op == 'set':
            a, b, s_ = p['range']
            return f"pe_eqb (ba_set_range true {D} {cbool(bool(c['v']))} {cz(a)} {cz(b)} {cz(s_)}) {pe}"
        ps = [p] if isinstance(p, int) else (p['list'] if 'list' in p else list(range(*p['range'])))
        if op == 'set': return f"pe_eqb (set_list true {D} {cbool(bool(c['v']))} {clist(ps, cz)}) {pe}"
        return f"pe_eqb (invert_list true {D} {clist(ps, cz)}) {pe}"
    return None

def search(seeds, rng):
    pool = list(seeds) + list(gen_cases(rng, 'thorough'))[:30000]
    for c in pool:
        try: obs = run_impl(c)
        finally: reset_options()
        msg = oracle(c, obs)
        if msg and classify(c, obs) is None: return c, obs, msg
    return None


# arguments on which the translated source of a kernel and the hand model differ under lsb0 -> ordinary cases of this module
def kernel_cases(name, a):
    if name in ('k_offset_slice_indices_lsb0', 'k_indices'):
        import random
        n = a['args']['length']; k = a['args']['key' if name == 'k_offset_slice_indices_lsb0' else 's']
        bits = rand_bits(random.Random(n * 7 + 1), n, 'rand')
        return [{'op': 'slice', 'bits': bits, 'k': k, 'cls': 'Bits'}, {'op': 'delslice', 'bits': bits, 'k': k},
                {'op': 'setslice', 'bits': bits, 'k': k, 'v': rand_bits(random.Random(n), len(bits[slice(*k)]) if k[2] != 0 else 1, 'rand')}]
    if not a['lsb0']: return []
    x = a['args']; out = []
    mk = lambda op, **kw: dict({'op': op, 'bits': a['self'], 'cls': 'BitArray'}, **kw)
    if name in ('k_ba_insert', 'k_insert_') and not x['bs'][1]: out.append(mk('insert', bs=x['bs'][0], pos=x['pos']))
    if name in ('k_ba_overwrite', 'k_overwrite_') and not x['bs'][1]: out.append(mk('overwrite', bs=x['bs'][0], pos=x['pos']))
    if name in ('k_ba_ror', 'k_ror_msb0', 'k_ba_rol', 'k_rol_msb0'):
        for op in ('ror', 'rol'): out.append(mk(op, n=x['bits'], start=x.get('start'), end=x.get('end'), fmt=0, repeat=True))
    if name in ('k_ba_reverse', 'k_validate_slice'): out.append(mk('reverse', start=x.get('start'), end=x.get('end'), n=0, fmt=0, repeat=True))
    if name == 'k_reversebytes':
        out.append(mk('byteswap', start=x['start'], end=x['end'], fmt=0, repeat=False, n=0))
        out.append(mk('byteswap', start=x['start'], end=None, fmt=max(1, (x['end'] - x['start']) // 8), repeat=False, n=0))
    if name == 'k_delete_': out.append({'op': 'delslice', 'bits': a['self'], 'k': [x['pos'], x['pos'] + x['bits'], None]})
    return out
