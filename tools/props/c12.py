"""C12 — LSB0 mode is a pure index mirror of MSB0 mode."""
from vlib import *
from props.common import *
from props import refmodel as R

ID = 'C12'
COQ_PROPS = ['Props/C12.v']
COQ_IMPORTS = ['Prims', 'CaseLib', 'BitsCore', 'Mutators', 'Search', 'Golomb', 'Stream', 'Pack', 'LsbPack']
RULE = ('every position-taking operation under options.lsb0=True (index, slice with any step, item/slice assignment and deletion, set, invert, find, rfind, findall, startswith, endswith, '
        'cut, replace, insert, overwrite, append, prepend, ranged reverse/byteswap, rol/ror, shifts, read/peek/unpack/pack order) compared with reverse(op_msb0(reverse(operands))) '
        'computed on the str reference; whole-value interpretations, ==, hash, len, bin compared across modes; toggle sequences between calls. '
        'exhaustive (start,stop,step,len) for len<=5 quick / 7 thorough; data > 8192 bits for the chunked reverse scan; non-trivial = non-palindromic content; distinct by arguments')
ASSUMPTIONS = ['the msb0 reference semantics are those of C01/C03/C07 (tools/props/refmodel.py)']
COQ_PRELUDE = '''Definition pe_eqb (a b : bits * option exn) : bool := bits_eqb (fst a) (fst b) && opt_eqb exn_eqb (snd a) (snd b).
Definition value_eqb (a b : value) : bool :=
  match a, b with
  | ValBits x, ValBits y => bits_eqb x y | ValZ x, ValZ y => Z.eqb x y | ValBool x, ValBool y => Bool.eqb x y | ValNone, ValNone => true | _, _ => false end.
Definition chk {A} (eqb : A -> A -> bool) (r : stream * res A) (b : bits) (p : Z) (exp : res A) : bool :=
  bits_eqb (sbits (fst r)) b && (spos (fst r) =? p) && res_eqb eqb (snd r) exp.
'''

def rv(s): return s[::-1]

def gen_cases(rng, tier):
    L = 5 if tier == 'quick' else 7
    for l in range(0, L + 1):
        bits = rand_bits(rng, l, 'rand')
        vals = [None] + list(range(-l - 2, l + 3))
        for a in vals:
            for b in vals:
                for c in [None, 1, 2, 3, -1, -2, -3]:
                    if tier == 'quick' and rng.random() < 0.55: continue
                    yield {'op': 'slice', 'bits': bits, 'k': [a, b, c], 'cls': rng.choice(CLASSES)}
                    if rng.random() < 0.25:
                        yield {'op': 'delslice', 'bits': bits, 'k': [a, b, c]}
                    if rng.random() < 0.25:
                        yield {'op': 'setslice', 'bits': bits, 'k': [a, b, c], 'v': rand_bits(rng, rng.choice([0, 1, 2, len(bits[a:b:c])]))}
        for i in range(-l - 2, l + 3):
            yield {'op': 'getitem', 'bits': bits, 'i': i, 'cls': rng.choice(CLASSES)}
            yield {'op': 'setbit', 'bits': bits, 'i': i, 'v': rng.choice([0, 1])}
            yield {'op': 'delbit', 'bits': bits, 'i': i}
    # set / invert over every boundary range(start, stop, step) of one short content, and byteswap of every byte group layout on lengths that are and are
    # not whole bytes: the branches of the position arithmetic under lsb0
    for n in ([7] if tier == 'quick' else [1, 6, 7, 10]):
        bv = sorted({-n - 1, -n, -1, 0, 1, 2, n - 2, n - 1, n, n + 1})
        bits = rand_bits(rng, n, 'rand')
        for a in bv:
            for b in bv:
                for st in (1, 2, 3, -1, -2):
                    yield {'op': 'set' if (a + b + st) % 2 else 'invert', 'bits': bits, 'cls': 'BitArray', 'pos': {'range': [a, b, st]}, 'v': (a + b) % 2}
    for n in ([8, 12, 17, 24, 27] if tier == 'quick' else list(range(8, 41))):
        bits = rand_bits(rng, n, 'rand')
        for fmt in (0, 1, 2, [1, 2], [2, 1]):
            for (a, b) in [(None, None), (0, None), (None, n), (0, 8 * (n // 8)), (n % 8, None), (1, None), (None, n - 1), (0, 16), (4, 20)]:
                if tier == 'quick' and rng.random() < 0.4: continue
                yield {'op': 'byteswap', 'bits': bits, 'cls': rng.choice(MUTABLE), 'start': a, 'end': b, 'fmt': fmt, 'repeat': rng.random() < 0.5, 'n': 0}
    N = 500 if tier == 'quick' else 8000
    from props.c07 import plant, rand_window
    from props.c03 import ropt_range, rpos
    # the chunked reverse scan of _findall_lsb0: occurrences planted at lsb0 positions around every multiple of the chunk size
    for j in range(6 if tier == 'quick' else 120):
        n = rng.choice([8200, 8300, 9000] if tier == 'quick' else [8193, 8200, 9000, 16390, 16500, 20000, 30000])
        pl = rng.choice([2, 3, 6, 8, 16])
        pat = '1' + rand_bits(rng, pl - 2, 'rand') + '1'
        l = ['0'] * n
        for b in range(8192, n, 8192):
            for p in rng.sample([b - pl - 1, b - pl, b - pl + 1, b - 1, b, b + 1, b + 2], 2):
                m = n - p - pl                      # msb0 index of the occurrence at lsb0 position p
                if 0 <= m and m + pl <= n: l[m:m + pl] = list(pat)
        bits = ''.join(l)
        a, b_ = (None, None) if j % 2 == 0 else rand_window(rng, n)
        yield {'op': rng.choice(['findall', 'findall', 'find', 'rfind', 'replace']) if tier != 'quick' else ['findall', 'find', 'findall', 'rfind'][j % 4], 'bits': bits, 'cls': 'BitArray', 'pat': pat, 'start': a, 'end': b_,
               'ba': j % 5 == 4, 'count': None, 'new': '0'}
    for i in range(N):
        n = rand_len(rng, tier)
        bits = rand_bits(rng, n)
        op = rng.choice(['slice', 'find', 'rfind', 'findall', 'startswith', 'endswith', 'cut', 'replace', 'insert', 'overwrite', 'append', 'prepend',
                         'reverse', 'rol', 'ror', 'byteswap', 'set', 'invert', 'lshift', 'rshift', 'interp', 'toggle', 'mul', 'iter', 'split', 'readorder', 'packorder'])
        c = {'op': op, 'bits': bits, 'cls': rng.choice(MUTABLE if op in ('replace', 'insert', 'overwrite', 'append', 'prepend', 'reverse', 'rol', 'ror', 'byteswap', 'set', 'invert') else CLASSES)}
        if op == 'slice':
            r = lambda: rng.choice([None, None, rng.randrange(-n - 3, n + 4)])
            c['k'] = [r(), r(), rng.choice([None, 1, -1, 2, -2, 3, -3, 7, -5])]
        if op in ('find', 'rfind', 'findall', 'startswith', 'endswith', 'replace', 'split'):
            pl = rng.choice([1, 2, 3, 4, 8, 8, 16, 5])
            pat = rand_bits(rng, pl)
            if i % 50 == 0 and op in ('find', 'rfind', 'findall'):
                bits = rand_bits(rng, rng.choice([8200, 9000, 16500] if tier == 'quick' else [8193, 16390, 20000, 30000]), rng.choice(['sparse', 'ones', 'rand']))
            bits = plant(rng, bits, pat, rng.randrange(0, 4))
            a, b = rand_window(rng, len(bits))
            c.update(bits=bits, pat=pat, start=a, end=b, ba=rng.choice([False, False, True]), count=rng.choice([None, None, 1, 2, 5]), new=rand_bits(rng, rng.choice([0, 1, pl, 5])))
        if op == 'cut':
            a, b = rand_window(rng, n); c.update(n=rng.choice([1, 3, 8, 13, max(1, n // 3)]), start=a, end=b, count=rng.choice([None, 2]))
        if op in ('insert', 'overwrite'): c.update(bs=rand_bits(rng, rng.choice([1, 2, 8])), pos=rpos(rng, n))
        if op in ('append', 'prepend'): c.update(bs=rand_bits(rng, rng.choice([0, 1, 3, 8])))
        if op in ('reverse', 'rol', 'ror', 'byteswap'):
            a, b = ropt_range(rng, n); c.update(start=a, end=b, n=rng.choice([0, 1, 2, 5, n + 1]), fmt=rng.choice([0, 1, 2, [1, 2]]), repeat=rng.random() < 0.6)
        if op in ('set', 'invert'):
            r = rng.random()
            pos = None if r < 0.1 else (rpos(rng, n) if r < 0.4 else ({'list': [rpos(rng, n) for _ in range(rng.randrange(0, 4))]} if r < 0.7 else
                  {'range': [rng.randrange(-n - 2, n + 3), rng.randrange(-n - 2, n + 3), rng.choice([1, 2, -1, -2])]}))
            c.update(pos=pos, v=rng.choice([0, 1]))
        if op in ('lshift', 'rshift', 'mul'): c.update(n=rng.choice([0, 1, 2, 3, n, n + 2]))
        if op in ('readorder', 'packorder'):
            ws = [rng.randrange(1, 9) for _ in range(rng.randrange(1, 5))]
            c.update(ws=ws, vals=[rng.randrange(1 << w) for w in ws])
        yield c
    # read / peek / readlist / peeklist / unpack with every token kind from any position, and pack of mixed token lists (one format string, or
    # a list of format strings), under lsb0: evaluated on the lsb0 readers and packer of LsbPack.v and judged by the field rule
    # "the token at position p of length l is the stored field d[len-p-l : len-p], interpreted as under msb0"
    from props import c06
    for _ in range(60 if tier == 'quick' else 1500):
        n = rng.choice([0, 1, 7, 8, 9, 16, 24, 33, rng.randrange(0, 70)])
        how = rng.choice(['readlist', 'readlist', 'peeklist', 'unpack', 'read', 'peek'])
        c = {'op': 'lsbread', 'bits': rand_bits(rng, n), 'pos': rng.randrange(0, n + 1), 'how': how, 'cls': 'ConstBitStream'}
        if how in ('read', 'peek'): c['toks'] = [c06.rtok(rng, n)]
        else:
            toks = [c06.rtok(rng, max(1, n // 3), allow_stretch=False) for _ in range(rng.randrange(0, 5))]
            if rng.random() < 0.3: toks.insert(rng.randrange(len(toks) + 1), {'k': rng.choice(['bits', 'bin', 'hex', 'uint', 'int', 'bytes'])})
            c['toks'] = toks
        yield c
    for _ in range(50 if tier == 'quick' else 1200):
        toks, vals = [], []
        for _ in range(rng.randrange(1, 6)):
            k = rng.choice(['uint', 'int', 'bool', 'pad', 'bits', 'bin', 'hex', 'ue', 'uint', 'int'])
            w = rng.choice([1, 2, 3, 4, 5, 8, 12, 16])
            if k == 'bool': toks.append(['bool', 1]); vals.append(rng.random() < 0.5)
            elif k == 'pad': toks.append(['pad', w])
            elif k == 'ue': toks.append(['ue', None]); vals.append(rng.randrange(0, 20))
            elif k == 'uint': toks.append(['uint', w]); vals.append(rng.choice([0, (1 << w) - 1, 1 << w, rng.randrange(1 << w)]))
            elif k == 'int': toks.append(['int', w]); vals.append(rng.choice([-(1 << (w - 1)), (1 << (w - 1)) - 1, -(1 << (w - 1)) - 1, rng.randrange(-(1 << (w - 1)), 1 << (w - 1))]))
            else:
                if k == 'hex': w = 4 * rng.choice([1, 2, 3])
                toks.append([k, w]); vals.append(rand_bits(rng, w if rng.random() < 0.9 else w + 1))
        arity = rng.choice([0, 0, 0, 0, 0, 0, 1, -1])
        if arity == 1: vals.append(1)
        elif arity == -1 and vals: vals.pop()
        yield {'op': 'lsbpack', 'bits': '', 'toks': toks, 'vals': vals, 'split': sorted(rng.sample(range(1, len(toks)), min(len(toks) - 1, rng.choice([0, 0, 1, 2])))) if len(toks) > 1 else [],
               'cls': 'BitArray'}

def kind(c): return c['op']

def run_impl(c):
    import bitstring
    from bitstring import Bits, BitArray, pack
    op = c['op']
    B = lambda x: Bits(bin=x)
    if op == 'interp' or op == 'toggle':
        # whole-value interpretations / toggling
        def snap(s):
            out = [s.bin, len(s), s == Bits(bin=c['bits'])]
            for name in ('uint', 'int', 'hex', 'oct', 'bytes', 'uintbe', 'intle', 'float'):
                out.append(str(attempt(lambda: getattr(s, name))))
            out.append(attempt(lambda: hash(s)) if not isinstance(s, BitArray) else None)
            return out
        s = build(c['cls'], c['bits'], 'bin')
        bitstring.options.lsb0 = False; a = snap(s); i0 = attempt(lambda: s[0:3].bin)
        bitstring.options.lsb0 = True; b = snap(s); t = build(c['cls'], c['bits'], 'bin'); b2 = t.bin
        bitstring.options.lsb0 = False; a2 = snap(s); i1 = attempt(lambda: s[0:3].bin)
        return ('ok', [a == b, a == a2, i0 == i1, b2 == c['bits']])
    bitstring.options.lsb0 = True
    c.setdefault('cls', 'BitArray')
    s = build(c['cls'], c['bits'], 'bin')
    kw = {'bytealigned': c['ba']} if 'ba' in c else {}
    def f():
        if op == 'slice': return s[slice(*c['k'])].bin
        if op == 'getitem': return s[c['i']]
        if op == 'iter': return ''.join('1' if x else '0' for x in s)
        if op == 'mul': return (s * c['n']).bin
        if op == 'find': return list(s.find(B(c['pat']), c['start'], c['end'], **kw))
        if op == 'rfind': return list(s.rfind(B(c['pat']), c['start'], c['end'], **kw))
        if op == 'findall': return list(s.findall(B(c['pat']), c['start'], c['end'], c['count'], **kw))
        if op == 'startswith': return s.startswith(B(c['pat']), c['start'], c['end'])
        if op == 'endswith': return s.endswith(B(c['pat']), c['start'], c['end'])
        if op == 'cut': return [x.bin for x in s.cut(c['n'], c['start'], c['end'], c['count'])]
        if op == 'split': return [x.bin for x in s.split(B(c['pat']), c['start'], c['end'], c['count'], **kw)]
        if op == 'lshift': return (s << c['n']).bin
        if op == 'rshift': return (s >> c['n']).bin
        if op == 'readorder':
            t = bitstring.ConstBitStream(bin=c['bits'])
            return [t.read(w).bin for w in c['ws'] if True] if sum(c['ws']) <= len(c['bits']) else 'short'
        if op == 'lsbread':
            from props import c06
            how = c['how']; toks = c['toks']
            if how == 'unpack':
                vals = Bits(bin=c['bits']).unpack([c06.fmt_of(t) for t in toks]); t = None
            else:
                t = bitstring.ConstBitStream(bin=c['bits'], pos=c['pos'])
                try:
                    if how in ('read', 'peek'): return [c06.canon_val(toks[0], getattr(t, how)(c06.fmt_of(toks[0])))[:2], t.pos]
                    vals = getattr(t, how)([c06.fmt_of(x) for x in toks])
                except Exception as e:
                    return ['raised', exn_name(e), t.pos]
            nonpad = [x for x in toks if not (isinstance(x, dict) and x.get('k') == 'pad')]
            return [[c06.canon_val(x, v)[:2] for x, v in zip(nonpad, vals)] + ([['extra']] if len(vals) != len(nonpad) else []), None if t is None else t.pos]
        if op == 'lsbpack':
            def tok(k, n): return k if n is None else f'{k}:{n}'
            def val(k, v): return v if k in ('uint', 'int', 'bool', 'ue') else (Bits(bin=v) if k == 'bits' else ('0b' + v if k == 'bin' else (format(int(v, 2), f'0{(len(v) + 3) // 4}x') if len(v) % 4 == 0 else '0b' + v)))
            vs, i = [], 0
            for k, n in c['toks']:
                if k == 'pad': continue
                if i < len(c['vals']): vs.append(val(k, c['vals'][i]))
                i += 1
            vs += c['vals'][i:]
            parts, cut = [], [0] + c['split'] + [len(c['toks'])]
            for a_, b_ in zip(cut, cut[1:]): parts.append(', '.join(tok(k, n) for k, n in c['toks'][a_:b_]))
            fmt = parts if c['split'] else parts[0]
            return pack(fmt, *vs).bin
        if op == 'packorder':
            p = pack(', '.join(f'uint:{w}' for w in c['ws']), *c['vals'])
            return [p.bin, p.unpack(', '.join(f'uint:{w}' for w in c['ws']))]
        a = BitArray(bin=c['bits']) if c['cls'] == 'BitArray' else bitstring.BitStream(bin=c['bits'])
        r = None
        if op == 'delslice': del a[slice(*c['k'])]
        elif op == 'setslice': a[slice(*c['k'])] = B(c['v'])
        elif op == 'setbit': a[c['i']] = c['v']
        elif op == 'delbit': del a[c['i']]
        elif op == 'replace': r = a.replace(B(c['pat']), B(c['new']), c['start'], c['end'], c['count'], **kw)
        elif op == 'insert': a.insert(B(c['bs']), c['pos'])
        elif op == 'overwrite': a.overwrite(B(c['bs']), c['pos'])
        elif op == 'append': a.append(B(c['bs']))
        elif op == 'prepend': a.prepend(B(c['bs']))
        elif op == 'reverse': a.reverse(c['start'], c['end'])
        elif op == 'rol': a.rol(c['n'], c['start'], c['end'])
        elif op == 'ror': a.ror(c['n'], c['start'], c['end'])
        elif op == 'byteswap': r = a.byteswap(c['fmt'], c['start'], c['end'], c['repeat'])
        elif op in ('set', 'invert'):
            p = c['pos']
            if isinstance(p, dict): p = p['list'] if 'list' in p else range(*p['range'])
            try:
                a.set(c['v'], p) if op == 'set' else a.invert(p)
            except IndexError:
                return [a.bin, 'IndexError']
            return [a.bin, None]
        return [a.bin, r]
    if op in ('delslice', 'setslice', 'setbit', 'delbit'): c['cls'] = 'BitArray'
    return attempt(f, 30)

def mirror_expected(c):
    """reverse(op_msb0(reverse(operands))) with position arguments unchanged"""
    op = c['op']; X = rv(c['bits'])
    P = rv(c.get('pat', '')); ba = c.get('ba', False)
    ok = lambda v: ('ok', v)
    def bits_res(r): return ('ok', rv(r[1])) if r[0] == 'ok' else r
    def cont_res(r, ret=None): return ('ok', [rv(r[1]), ret]) if r[0] == 'ok' else r
    if op == 'slice':
        a, b, st = c['k']
        try: return ok(rv(X[a:b:st]))
        except ValueError: return ('err', 'ValueError')
    if op == 'getitem':
        i = c['i']; return ok(X[i] == '1') if -len(X) <= i < len(X) else ('err', 'IndexError')
    if op == 'iter': return ok(X)            # iteration yields bit 0, 1, ... in lsb0 numbering
    if op == 'mul': return ok(c['bits'] * c['n'])
    if op == 'find': return R.call(lambda: list(R.find(X, P, c['start'], c['end'], ba)))
    if op == 'rfind': return R.call(lambda: list(R.rfind(X, P, c['start'], c['end'], ba)))
    if op == 'findall': return R.call(R.findall, X, P, c['start'], c['end'], c['count'], ba)
    if op == 'startswith': return R.call(R.startswith, X, P, c['start'], c['end'])
    if op == 'endswith': return R.call(R.endswith, X, P, c['start'], c['end'])
    if op == 'cut':
        r = R.call(R.cut, X, c['n'], c['start'], c['end'], c['count'])
        return ('ok', [rv(x) for x in r[1]]) if r[0] == 'ok' else r
    if op == 'split':
        return None    # split is not in the property's list of mirrored operations
    if op == 'lshift': return bits_res(R.call(R.rshift, X, c['n']))   # direction is kept relative to the msb end
    if op == 'rshift': return bits_res(R.call(R.lshift, X, c['n']))
    if op == 'delslice': return cont_res(R.call(R.delitem, X, slice(*c['k'])))
    if op == 'setslice': return cont_res(R.call(R.setitem_bits, X, slice(*c['k']), rv(c['v'])))
    if op == 'setbit': return cont_res(R.call(R.setitem_int, X, c['i'], c['v']))
    if op == 'delbit': return cont_res(R.call(R.delitem, X, c['i']))
    if op == 'replace':
        r = R.call(R.replace, X, P, rv(c['new']), c['start'], c['end'], c['count'], ba)
        return ('ok', [rv(r[1][0]), r[1][1]]) if r[0] == 'ok' else r
    if op == 'insert': return cont_res(R.call(R.insert, X, rv(c['bs']), c['pos']))
    if op == 'overwrite': return cont_res(R.call(R.overwrite, X, rv(c['bs']), c['pos']))
    if op == 'append': return ok([rv(X + rv(c['bs'])), None])
    if op == 'prepend': return ok([rv(rv(c['bs']) + X), None])
    if op == 'reverse': return cont_res(R.call(R.reverse, X, c['start'], c['end']))
    if op == 'rol': return cont_res(R.call(R.ror, X, c['n'], c['start'], c['end']))     # rotation keeps its direction; the range is mirrored
    if op == 'ror': return cont_res(R.call(R.rol, X, c['n'], c['start'], c['end']))
    if op == 'byteswap':
        r0 = R.call(R.norm_range, len(X), c['start'], c['end'])
        if r0[0] == 'err': return r0
        from props.c03 import fmt_sizes
        sizes = fmt_sizes(c['fmt'], r0[1][1] - r0[1][0])
        r = R.call(R.byteswap, X, sizes, c['start'], c['end'], c['repeat'])
        # the pattern is laid out from lsb0 position start upwards: mirror of the msb0 operation with the sizes in the same order
        return ('ok', [rv(r[1][0]), r[1][1]]) if r[0] == 'ok' else r
    if op in ('set', 'invert'):
        p = c['pos']
        if isinstance(p, dict): p = p['list'] if 'list' in p else list(range(*p['range']))
        r = R.call(R.set_, X, c['v'], p) if op == 'set' else R.call(R.invert, X, p)
        if r[0] == 'err': return r
        return ('ok', [rv(r[1][0]), r[1][1]])
    if op == 'readorder':
        if sum(c['ws']) > len(c['bits']): return ok('short')
        out, p = [], 0
        for w in c['ws']:
            out.append(rv(X[p:p + w])); p += w
        return ok(out)
    if op == 'packorder':
        # token i occupies lsb0 positions [sum(w_<i), sum(w_<=i)): the first token is at the least significant end
        return ok([''.join(format(v, f'0{w}b') for w, v in reversed(list(zip(c['ws'], c['vals'])))), c['vals']])
    if op in ('interp', 'toggle'): return ok([True, True, True, True])
    if op == 'lsbread':
        # the field rule, for token lists made of fixed-length tokens only (the rest is judged on the Coq readers)
        d = c['bits']; L = len(d); how = c['how']; p = 0 if how == 'unpack' else c['pos']; out = []; parsed = []
        for t in c['toks']:
            if isinstance(t, int): k, l = 'bits', t
            elif 'n' in t and 'k' in t: k, l = t['k'], t['n'] * (8 if t['k'] == 'bytes' else 1)
            else: return None
            if l < 1 or (k == 'hex' and l % 4) or (k == 'bool' and l != 1): return None      # the whole list is validated before anything is read
            parsed.append((k, l))
        for k, l in parsed:
            if p + l > L:
                if how == 'unpack': return None
                return ok(['raised', 'ReadError', c['pos']])
            f = d[L - p - l: L - p]; p += l
            if k == 'uint': out.append(['z', int(f, 2)])
            elif k == 'int': out.append(['z', int(f, 2) - ((1 << l) if f[0] == '1' else 0)])
            elif k == 'bool': out.append(['bool', f == '1'])
            elif k == 'pad': out.append(['none'])
            else: out.append(['bits', f])
        if how in ('read', 'peek'): return ok([out[0], p if how == 'read' else c['pos']])
        out = [v for v in out if v != ['none']]
        return ok([out, None if how == 'unpack' else (p if how == 'readlist' else c['pos'])])
    if op == 'lsbpack':
        encs, i, bad = [], 0, False
        for k, n in c['toks']:
            if k == 'pad': encs.append('0' * n); continue
            if i >= len(c['vals']): bad = True; break
            v = c['vals'][i]; i += 1
            if k == 'ue': bad = True                                   # exp-Golomb codes are refused under lsb0
            elif k == 'bool': encs.append('1' if v else '0')
            elif k == 'uint':
                if not 0 <= v < (1 << n): bad = True
                else: encs.append(format(v, f'0{n}b'))
            elif k == 'int':
                if not -(1 << (n - 1)) <= v < (1 << (n - 1)): bad = True
                else: encs.append(format(v & ((1 << n) - 1), f'0{n}b'))
            else:
                if len(v) != n: bad = True
                else: encs.append(v)
        if bad or i != len(c['vals']): return ('err', 'ValueError')
        return ok(''.join(reversed(encs)))            # the first token is at the least significant (right-hand) end

def oracle(c, obs):
    exp = mirror_expected(c)
    if exp is None: return None
    if c['op'] in ('set', 'invert') and obs[0] == 'ok' and exp[0] == 'ok':
        pass
    if tuple(obs) != tuple(exp) and list(obs) != list(exp):
        d = c['bits']
        return (f"lsb0 {c['op']} on {c.get('cls')}({d[:64]!r}{'...' if len(d) > 64 else ''}, {len(d)} bits) args="
                f"{ {k: v for k, v in c.items() if k not in ('op', 'bits', 'cls')} }: got {str(obs)[:200]}, mirror of msb0 gives {str(exp)[:200]}")
    return None

def nontrivial(c, obs):
    return c['bits'] != rv(c['bits'])

def classify(c, obs):
    return None

def cob(x): return copt(x, cz)

def coq_check(c, obs):
    op = c['op']; D = cbits(c['bits'])
    if op == 'lsbread':
        from props import c06
        if obs[0] != 'ok': return None
        o = obs[1]; how = c['how']; toks = c['toks']
        if any(isinstance(t, dict) and t.get('k') == 'bool' and 'n' not in t for t in toks): return None
        S = f"(mkstream {D} {cz(c['pos'])})"
        if o[0] == 'raised':
            if o[1] not in COQ_EXNS: return None
            exp, pos = f"(Err {o[1]})", o[2]
        elif how in ('read', 'peek'): exp, pos = f"(Ok {c06.cval(o[0])})", o[1]
        else:
            if ['extra'] in o[0] or any(v[0] == 'other' for v in o[0]): return 'false'
            exp, pos = f"(Ok {clist(o[0], c06.cval)})", o[1]
        if how == 'unpack': return f"res_eqb (list_eqb value_eqb) (unpack_m true {D} {clist(toks, c06.ctok)}) {exp}"
        if how in ('read', 'peek'): return f"chk value_eqb ({how}_token_m true {S} {c06.ctok(toks[0])}) {D} {cz(pos)} {exp}"
        return f"chk (list_eqb value_eqb) ({how}_m true {S} {clist(toks, c06.ctok)}) {D} {cz(pos)} {exp}"
    if op == 'lsbpack':
        CKK = {'uint': 'KUint', 'int': 'KInt', 'bool': 'KBool', 'pad': 'KPad', 'bits': 'KBits', 'bin': 'KBin', 'hex': 'KHex'}
        toks = [f"(TVar UE, @None value)" if k == 'ue' else f"(TFixed {CKK[k]} {cz(n)}, @None value)" for k, n in c['toks']]
        kinds = [k for k, n in c['toks'] if k != 'pad']
        vals = []
        for i, v in enumerate(c['vals']):
            k = kinds[i] if i < len(kinds) else 'uint'
            vals.append(f"(ValBool {cbool(v)})" if k == 'bool' else (f"(ValZ {cz(v)})" if k in ('uint', 'int', 'ue') else f"(ValBits {cbits(v)})"))
        if obs[0] == 'err' and obs[1] != 'ValueError': return None
        return f"rbits_eqb (pack_m true [{'; '.join(toks)}] [{'; '.join(vals)}]) {cres(obs, cbits)}"
    if len(c['bits']) > 3000 and op not in ('find', 'rfind', 'findall'): return None
    if len(c['bits']) > 10000: return None      # the model evaluation is quadratic; beyond one chunk boundary the oracle decides (and C12_mirror_findall covers every size)
    def cont(o): return ('ok', o[1][0]) if o[0] == 'ok' else o
    if op == 'slice': return f"rbits_eqb (bs_getitem_slice true {D} {cslice(*c['k'])}) {cres(obs, cbits)}"
    if op == 'getitem': return f"rbool_eqb (bs_getitem_int true {D} {cz(c['i'])}) {cres(obs, cbool)}"
    if op == 'iter': return f"rbits_eqb (bs_iter true {D}) {cres(obs, cbits)}"
    if op == 'mul': return f"rbits_eqb (bs_mul true {D} {cz(c['n'])}) {cres(obs, cbits)}" if len(c['bits']) * c['n'] < 20000 else None
    P = cbits(c.get('pat', '')); S = cob(c.get('start')); E = cob(c.get('end')); BA = cbool(c.get('ba', False))
    if op in ('find', 'rfind'):
        o = ('ok', obs[1][0] if obs[1] else None) if obs[0] == 'ok' else obs
        return f"res_eqb (opt_eqb Z.eqb) (bs_{op} true {D} {P} {S} {E} {BA}) {cres(o, cob)}"
    if op == 'findall':
        return f"res_eqb zlist_eqb (bs_findall true {D} {P} {S} {E} {cob(c['count'])} {BA}) {cres(obs, lambda l: clist(l, cz))}"
    if op in ('startswith', 'endswith'): return f"rbool_eqb (bs_{op} true {D} {P} {S} {E}) {cres(obs, cbool)}"
    if op == 'cut': return f"res_eqb (list_eqb bits_eqb) (bs_cut true {D} {cz(c['n'])} {S} {E} {cob(c['count'])}) {cres(obs, lambda l: clist(l, cbits))}"
    if op == 'split': return f"res_eqb (list_eqb bits_eqb) (bs_split true {D} {P} {S} {E} {cob(c['count'])} {BA}) {cres(obs, lambda l: clist(l, cbits))}"
    if op in ('lshift', 'rshift'): return f"rbits_eqb (bs_{op} {D} {cz(c['n'])}) {cres(obs, cbits)}"
    if op == 'delslice': return f"rbits_eqb (ba_delitem_slice true {D} {cslice(*c['k'])}) {cres(cont(obs), cbits)}"
    if op == 'setslice': return f"rbits_eqb (ba_setitem_slice true {D} {cslice(*c['k'])} (VBits {cbits(c['v'])})) {cres(cont(obs), cbits)}"
    if op == 'setbit': return f"rbits_eqb (ba_setitem_int true {D} {cz(c['i'])} (VInt {cz(c['v'])})) {cres(cont(obs), cbits)}"
    if op == 'delbit': return f"rbits_eqb (ba_delitem_int true {D} {cz(c['i'])}) {cres(cont(obs), cbits)}"
    if op == 'replace':
        return (f"res_eqb (pair_eqb bits_eqb Z.eqb) (ba_replace true {D} {P} {cbits(c['new'])} {S} {E} {cob(c['count'])} {BA}) "
                f"{cres(obs, lambda v: cpair(cbits(v[0]), cz(v[1])))}")
    if op == 'insert': return f"rbits_eqb (ba_insert true {D} {cbits(c['bs'])} {cz(c['pos'])}) {cres(cont(obs), cbits)}"
    if op == 'overwrite': return f"rbits_eqb (ba_overwrite true false {D} {cbits(c['bs'])} {cz(c['pos'])}) {cres(cont(obs), cbits)}"
    if op in ('append', 'prepend'): return f"bits_eqb (ba_{op} true {D} {cbits(c['bs'])}) {cbits(obs[1][0])}" if obs[0] == 'ok' else 'false'
    if op == 'reverse': return f"rbits_eqb (ba_reverse true {D} {S} {E}) {cres(cont(obs), cbits)}"
    if op in ('rol', 'ror'): return f"rbits_eqb (ba_{op} true {D} {cz(c['n'])} {S} {E}) {cres(cont(obs), cbits)}"
    if op == 'byteswap':
        r0 = R.call(R.norm_range, len(c['bits']), c['start'], c['end'])
        if r0[0] == 'err': return None
        from props.c03 import fmt_sizes
        sizes = fmt_sizes(c['fmt'], r0[1][1] - r0[1][0])
        return (f"res_eqb (pair_eqb bits_eqb Z.eqb) (ba_byteswap true {D} {clist(sizes, cz)} {S} {E} {cbool(c['repeat'])}) "
                f"{cres(obs, lambda v: cpair(cbits(v[0]), cz(v[1])))}")
    if op in ('set', 'invert'):
        if obs[0] != 'ok': return None
        p = c['pos']; after, err = obs[1]
        pe = f"({cbits(after)}, {'None' if err is None else '(Some IndexError)'})"
        if p is None:
            if op == 'set': return f"rbits_eqb (ba_set_all {D} {cbool(bool(c['v']))}) (Ok {cbits(after)})"
            return f"bits_eqb (ba_invert_all {D}) {cbits(after)}"
        if isinstance(p, dict) and 'range' in p and op == 'set':
            a, b, s_ = p['range']
            return f"pe_eqb (ba_set_range true {D} {cbool(bool(c['v']))} {cz(a)} {cz(b)} {cz(s_)}) {pe}"
        ps = [p] if isinstance(p, int) else (p['list'] if 'list' in p else list(range(*p['range'])))
        if op == 'set': return f"pe_eqb (set_list true {D} {cbool(bool(c['v']))} {clist(ps, cz)}) {pe}"
        return f"pe_eqb (invert_list true {D} {clist(ps, cz)}) {pe}"
    return None

def search(seeds, rng):
    pool = list(seeds) + list(gen_cases(rng, 'thorough'))[:30000]
    for c in pool:
        try: obs = run_impl(c)
        finally: reset_options()
        msg = oracle(c, obs)
        if msg and classify(c, obs) is None: return c, obs, msg
    return None


# arguments on which the translated source of a kernel and the hand model differ under lsb0 -> ordinary cases of this module
def kernel_cases(name, a):
    if name in ('k_offset_slice_indices_lsb0', 'k_indices'):
        import random
        n = a['args']['length']; k = a['args']['key' if name == 'k_offset_slice_indices_lsb0' else 's']
        bits = rand_bits(random.Random(n * 7 + 1), n, 'rand')
        return [{'op': 'slice', 'bits': bits, 'k': k, 'cls': 'Bits'}, {'op': 'delslice', 'bits': bits, 'k': k},
                {'op': 'setslice', 'bits': bits, 'k': k, 'v': rand_bits(random.Random(n), len(bits[slice(*k)]) if k[2] != 0 else 1, 'rand')}]
    if not a['lsb0']: return []
    x = a['args']; out = []
    mk = lambda op, **kw: dict({'op': op, 'bits': a['self'], 'cls': 'BitArray'}, **kw)
    if name in ('k_ba_insert', 'k_insert_') and not x['bs'][1]: out.append(mk('insert', bs=x['bs'][0], pos=x['pos']))
    if name in ('k_ba_overwrite', 'k_overwrite_') and not x['bs'][1]: out.append(mk('overwrite', bs=x['bs'][0], pos=x['pos']))
    if name in ('k_ba_ror', 'k_ror_msb0', 'k_ba_rol', 'k_rol_msb0'):
        for op in ('ror', 'rol'): out.append(mk(op, n=x['bits'], start=x.get('start'), end=x.get('end'), fmt=0, repeat=True))
    if name in ('k_ba_reverse', 'k_validate_slice'): out.append(mk('reverse', start=x.get('start'), end=x.get('end'), n=0, fmt=0, repeat=True))
    if name == 'k_reversebytes':
        out.append(mk('byteswap', start=x['start'], end=x['end'], fmt=0, repeat=False, n=0))
        out.append(mk('byteswap', start=x['start'], end=None, fmt=max(1, (x['end'] - x['start']) // 8), repeat=False, n=0))
    if name == 'k_delete_': out.append({'op': 'delslice', 'bits': a['self'], 'k': [x['pos'], x['pos'] + x['bits'], None]})
    return out
