"""C17 — byte and file serialisation is lossless and zero-padded."""
from vlib import *
from props.common import *
import io, os, tempfile, hashlib

ID = 'C17'
ESCALATE_SKIP_OPS = ('bigfile',)   # 100 MiB: thorough tier only
COQ_PROPS = ['Props/C17.v']
COQ_IMPORTS = ['Prims', 'CaseLib', 'BitsCore', 'Search', 'Store', 'Serial2']
RULE = ('all lengths 0..7 mod 8 x classes for tobytes/bytes()/.bytes/tofile; all (offset, length) windows incl. None over small byte sources (exhaustive for sources of 0..3 bytes) through '
        'bytes=, BytesIO, file handle, filename=, bitarray=; chunked writing via cut(n)+tobytes for chunk sizes 8..64; Array tobytes/tofile/fromfile; thorough adds one tofile of 100 MiB + 13 bits '
        'into a hashing sink; non-trivial = non-empty window not equal to the whole source; distinct by arguments')
ASSUMPTIONS = ['a file is its bytes (mmap / OS write path not modelled)', 'the tofile chunk constant is read from the source and checked to be a positive multiple of 8']

def gen_cases(rng, tier):
    N = 250 if tier == 'quick' else 3000
    for _ in range(N):
        n = rand_len(rng, tier)
        bits = rand_bits(rng, n)
        yield {'op': 'tobytes', 'cls': rng.choice(CLASSES), 'bits': bits, 'route': rng.choice(ROUTES)}
        yield {'op': 'cutbytes', 'bits': bits, 'chunk': rng.choice([8, 16, 24, 64, 8 * max(1, n // 24)])}
    srcs = [b''] + [bytes([rng.randrange(256) for _ in range(k)]) for k in (1, 2, 3)]
    for src in srcs:
        T = len(src) * 8
        vals = [None] + list(range(-1, T + 3))
        for off in vals:
            for ln in vals:
                if tier == 'quick' and rng.random() < 0.75: continue
                yield {'op': 'window', 'src': list(src), 'offset': off, 'length': ln, 'via': rng.choice(['bytes', 'bytesio', 'filename', 'handle', 'bitarray', 'bytearray']), 'cls': rng.choice(CLASSES), 'lsb0': rng.random() < 0.3}
    for _ in range(150 if tier == 'quick' else 3000):
        k = rng.choice([0, 1, 2, 5, 9, 40])
        src = [rng.randrange(256) for _ in range(k)]
        T = 8 * k
        off = rng.choice([None, 0, rng.randrange(0, T + 1), 8 * rng.randrange(0, k + 1), T + 1, -3])
        ln = rng.choice([None, 0, rng.randrange(0, T + 2), T, -1])
        yield {'op': 'window', 'src': src, 'offset': off, 'length': ln, 'via': rng.choice(['bytes', 'bytesio', 'filename', 'handle', 'bitarray', 'bytearray']), 'cls': rng.choice(CLASSES), 'lsb0': rng.random() < 0.3}
    for _ in range(40 if tier == 'quick' else 400):
        w = rng.choice([8, 16, 3, 12, 32])
        k = rng.randrange(0, 9)
        yield {'op': 'array', 'w': w, 'items': [rng.randrange(1 << w) for _ in range(k)], 'trail': rand_bits(rng, rng.choice([0, 0, 1, 5]))}
    # a BytesIO that has been used before (read from, positioned at its end as after writing, or already given to a constructor): its whole content counts
    for _ in range(30 if tier == 'quick' else 400):
        nb = rng.choice([1, 2, 3, 5]); src = [rng.randrange(256) for _ in range(nb)]; T = 8 * nb
        yield {'op': 'window', 'src': src, 'offset': rng.choice([None, None, 0, 3, 8]), 'length': rng.choice([None, None, 4, T - 8]), 'via': 'bytesio', 'cls': rng.choice(CLASSES),
               'pre': rng.choice(['read1', 'end', 'twice', 'seek1'])}
    # files whose size is a multiple of the memory-mapping granularity (or one byte off), windows at and around the very end (the empty window included)
    import mmap as _mmap, random as _rnd
    G = _mmap.ALLOCATIONGRANULARITY
    for size in ([G, 2 * G] if tier == 'quick' else [G - 1, G, G + 1, 2 * G, 3 * G]):
        src = list(_rnd.Random(size).randbytes(size))
        for off in (8 * size, 8 * size - 8, 8 * size - 3, 8 * G, 8 * G + 5, 8 * size + 1):
            for ln in (None, 0, 3):
                if tier == 'quick' and rng.random() < 0.4: continue
                yield {'op': 'window', 'src': src, 'offset': off, 'length': ln, 'via': rng.choice(['filename', 'handle']), 'cls': rng.choice(CLASSES)}
    yield {'op': 'chunkconst'}
    # tofile itself, run with its chunk constant replaced by a small one (the code object is re-instantiated with the constant swapped):
    # lengths below, at, and above exact multiples of the chunk size
    for k in (8, 16, 64):
        for n in [0, 1, k - 3, k - 1, k, k + 1, k + 5, 2 * k - 1, 2 * k, 2 * k + 1, 3 * k, 3 * k + 7, 5 * k] + [rng.randrange(0, 6 * k) for _ in range(4 if tier == 'quick' else 60)]:
            if n >= 0: yield {'op': 'tofile_chunk', 'chunk': k, 'bits': rand_bits(rng, n), 'cls': rng.choice(CLASSES), 'route': rng.choice(ROUTES), 'lsb0': rng.random() < 0.4}
    if tier == 'thorough':
        yield {'op': 'bigfile', 'extra': 13}

def kind(c): return c['op'] + ':' + c.get('via', '')

class HashSink:
    def __init__(self): self.h = hashlib.sha256(); self.n = 0
    def write(self, b): self.h.update(b); self.n += len(b)

def run_impl(c):
    import bitstring, bitarray
    from bitstring import Bits, Array
    op = c['op']
    if op == 'tobytes':
        s = build(c['cls'], c['bits'], c['route'])
        def f():
            bio = io.BytesIO(); s.tofile(bio)
            fd, path = tempfile.mkstemp(prefix='verif_c17_')
            try:
                with os.fdopen(fd, 'wb') as fh: s.tofile(fh)
                disk = open(path, 'rb').read()
            finally: os.unlink(path)
            prop = attempt(lambda: list(s.bytes))
            return [list(s.tobytes()), list(bytes(s)), list(bio.getvalue()), list(disk), list(prop)]
        return attempt(f)
    if op == 'cutbytes':
        s = Bits(bin=c['bits'])
        return attempt(lambda: list(b''.join(x.tobytes() for x in s.cut(c['chunk']))))
    if op == 'window':
        src = bytes(c['src']); kw = {}
        if not src and c['via'] in ('filename', 'handle'): c['via'] = 'bytesio'   # an empty file cannot be memory-mapped (OS limit, outside the model)
        if c['offset'] is not None: kw['offset'] = c['offset']
        if c['length'] is not None: kw['length'] = c['length']
        C = cls_of(c['cls']); via = c['via']
        def f():
            bitstring.options.lsb0 = bool(c.get('lsb0'))      # the selected window of the source is the same stored bits in both numberings (reset by the driver)
            if via == 'bytes': return C(bytes=src, **kw).bin
            if via == 'bytearray': return C(bytes=bytearray(src), **kw).bin
            if via == 'bytesio':
                bio = io.BytesIO(src)
                pre = c.get('pre')
                if pre == 'read1': bio.read(1)
                elif pre == 'seek1': bio.seek(1)
                elif pre == 'end': bio.seek(0, 2)
                elif pre == 'twice': C(bio, **kw)
                return C(bio, **kw).bin
            if via == 'bitarray':
                ba = bitarray.bitarray(); ba.frombytes(src); return C(bitarray=ba, **kw).bin
            fd, path = tempfile.mkstemp(prefix='verif_c17_')
            try:
                with os.fdopen(fd, 'wb') as fh: fh.write(src)
                if via == 'filename': return C(filename=path, **kw).bin
                with open(path, 'rb') as fh:
                    return C(fh, **kw).bin
            finally: os.unlink(path)
        return attempt(f)
    if op == 'array':
        def f():
            a = Array(f"uint{c['w']}", c['items'], trailing_bits=Bits(bin=c['trail']) if c['trail'] else None)
            bio = io.BytesIO(); a.tofile(bio)
            out = [a.data.bin, list(a.tobytes()), list(bio.getvalue())]
            if c['items'] and (c['w'] * len(c['items'])) % 8 == 0 and not c['trail']:
                fd, path = tempfile.mkstemp(prefix='verif_c17_')
                try:
                    with os.fdopen(fd, 'wb') as fh: a.tofile(fh)
                    b = Array(f"uint{c['w']}")
                    with open(path, 'rb') as fh: b.fromfile(fh)
                    out.append(b.tolist())
                    # fromfile(f, n): exactly the first n items, n = 0 .. len (an Array that already holds items keeps them)
                    part = []
                    for n in sorted({0, 1, len(c['items']) // 2, len(c['items'])}):
                        d = Array(f"uint{c['w']}", c['items'][:1])
                        with open(path, 'rb') as fh: d.fromfile(fh, n)
                        part.append([n, d.tolist()])
                    out.append(part)
                finally: os.unlink(path)
            return out
        return attempt(f)
    if op == 'tofile_chunk':
        import types
        fn0 = bitstring.bits.Bits.tofile
        code = fn0.__code__
        big = [x for x in code.co_consts if isinstance(x, int) and not isinstance(x, bool) and x >= 8 * 1024 * 1024]
        if len(big) != 1: return ('err', 'KeyError')          # the chunk constant is no longer a literal of tofile: the instantiation is impossible
        fn = types.FunctionType(code.replace(co_consts=tuple(c['chunk'] if x is big[0] or x == big[0] and isinstance(x, int) and not isinstance(x, bool) else x for x in code.co_consts)),
                                fn0.__globals__, 'tofile', fn0.__defaults__, fn0.__closure__)
        def f():
            s = build(c['cls'], c['bits'], c['route'])
            bitstring.options.lsb0 = bool(c.get('lsb0'))        # the file is tobytes() whatever the bit numbering
            try:
                sink = io.BytesIO(); fn(s, sink)
                return [list(sink.getvalue()), list(s.tobytes()), s.bin == c['bits']]
            finally:
                bitstring.options.lsb0 = False
        return attempt(f)
    if op == 'chunkconst':
        import ast, inspect
        src = inspect.getsource(bitstring.bits.Bits.tofile)
        tree = ast.parse('class X:\n' + src)
        for node in ast.walk(tree):
            if isinstance(node, ast.Assign) and getattr(node.targets[0], 'id', '') == 'chunk_size':
                return ('ok', eval(compile(ast.Expression(node.value), '<c>', 'eval')))
        return ('err', 'KeyError')
    if op == 'bigfile':
        n = 8 * 100 * 1024 * 1024 + c['extra']
        def f():
            s = bitstring.BitArray(n)
            s.set(1, [0, 7, n // 2, 8 * 100 * 1024 * 1024 - 1, 8 * 100 * 1024 * 1024, n - 1])
            sink = HashSink(); s.tofile(sink)
            ref = hashlib.sha256(s.tobytes()).hexdigest()
            return [sink.n, sink.h.hexdigest() == ref, (n + 7) // 8]
        return attempt(f, 600)

def pad_bytes(bits):
    p = bits + '0' * ((-len(bits)) % 8)
    return [int(p[i:i + 8], 2) for i in range(0, len(p), 8)]

def ref_window(c):
    src = c['src']; T = 8 * len(src)
    allbits = ''.join(format(x, '08b') for x in src)
    off, ln = c['offset'], c['length']
    if (off is not None and off < 0) or (ln is not None and ln < 0): return ('err', 'ValueError')
    o = off or 0
    if ln is None:
        if o > T: return ('err', 'ValueError')
        return ('ok', allbits[o:])
    if o + ln > T: return ('err', 'ValueError')
    return ('ok', allbits[o:o + ln])

def oracle(c, obs):
    op = c['op']
    if op == 'tobytes':
        exp = pad_bytes(c['bits'])
        if obs[0] != 'ok': return f"tobytes/tofile raised {obs}"
        t, b, bio, disk, prop = obs[1]
        if not (t == b == bio == disk == exp): return f"{c['cls']}({c['bits']!r}): tobytes={t[:8]} bytes()={b[:8]} tofile={bio[:8]} disk={disk[:8]} expected {exp[:8]} (lengths {len(t)},{len(b)},{len(bio)},{len(disk)},{len(exp)})"
        if len(c['bits']) % 8 == 0:
            if prop != ['ok', exp]: return f".bytes of whole-byte {c['cls']} gave {prop}"
        elif prop[0] != 'err' or prop[1] != 'ValueError': return f".bytes of {len(c['bits'])} bits should raise InterpretError, got {prop}"
        return None
    if op == 'cutbytes':
        return None if obs == ('ok', pad_bytes(c['bits'])) else f"writing {len(c['bits'])} bits in chunks of {c['chunk']} gives {str(obs)[:120]}, tobytes is {pad_bytes(c['bits'])[:10]}"
    if op == 'window':
        exp = ref_window(c)
        return None if tuple(obs) == exp else f"{c['cls']} from {c['via']} src={c['src'][:6]}({len(c['src'])} bytes) offset={c['offset']} length={c['length']}: got {str(obs)[:100]}, expected {str(exp)[:100]}"
    if op == 'array':
        if obs[0] != 'ok': return f"Array {c} raised {obs}"
        data = ''.join(format(x, f"0{c['w']}b") for x in c['items']) + c['trail']
        if obs[1][0] != data: return f"Array data {obs[1][0]!r} != concatenation {data!r}"
        if obs[1][1] != pad_bytes(data) or obs[1][2] != pad_bytes(data): return f"Array.tobytes/tofile differ from padded data"
        if len(obs[1]) > 3 and obs[1][3] != c['items']: return f"Array.fromfile read back {obs[1][3]} != {c['items']}"
        if len(obs[1]) > 4:
            for n, got in obs[1][4]:
                if got != c['items'][:1] + c['items'][:n]: return f"Array('uint{c['w']}', {c['items'][:1]}).fromfile(f, {n}) gave {got}, the file holds {c['items']}"
        return None
    if op == 'tofile_chunk':
        if obs == ('err', 'KeyError'): return "tofile no longer holds its chunk size as a single literal: it cannot be run with a small chunk size (tie broken)"
        b = c['bits']; exp = list(int(b + '0' * (-len(b) % 8), 2).to_bytes((len(b) + 7) // 8, 'big')) if b else []
        if obs[0] != 'ok': return f"tofile (chunk size {c['chunk']}) of {len(b)} bits raised {obs}"
        return None if obs[1][0] == exp and obs[1][1] == exp else f"tofile with chunk size {c['chunk']} wrote {len(obs[1][0])} bytes {obs[1][0][:12]}.. for {len(b)} bits; tobytes() is {len(exp)} bytes {exp[:12]}.."
    if op == 'chunkconst':
        return None if obs[0] == 'ok' and obs[1] > 0 and obs[1] % 8 == 0 else f"tofile chunk size {obs} is not a positive multiple of 8: chunks would be padded in the middle of the file"
    if op == 'bigfile':
        return None if obs[0] == 'ok' and obs[1][1] and obs[1][0] == obs[1][2] else f"tofile across the chunk boundary: {obs}"

def nontrivial(c, obs):
    if c['op'] == 'window': return obs[0] == 'ok' and 0 < len(obs[1]) < 8 * len(c['src'])
    return len(c.get('bits', 'x')) % 8 != 0 or c['op'] in ('array',)

def classify(c, obs): return None
def cob(x): return copt(x, cz)

def coq_check(c, obs):
    op = c['op']
    if op == 'tobytes' and obs[0] == 'ok':
        return f"zlist_eqb (tobytes {cbits(c['bits'])}) {clist(obs[1][0], cz)} && res_eqb zlist_eqb (bs_getbytes {cbits(c['bits'])}) {cres(tuple(obs[1][4]), lambda l: clist(l, cz))}"
    if op == 'cutbytes':
        return f"res_eqb zlist_eqb (tofile2 {cbits(c['bits'])} {cz(c['chunk'])}) {cres(obs, lambda l: clist(l, cz))}"
    if op == 'window':
        if len(c['src']) > 256: return None          # page-sized sources: implementation against the window oracle only
        L, O = cob(c['length']), cob(c['offset'])
        bits = ''.join(format(x, '08b') for x in c['src'])
        if c['via'] in ('bytes', 'bytearray'): return f"rbits_eqb (setbytes_with_truncation {cbits(bits)} {L} {O}) {cres(obs, cbits)}"
        if c['via'] == 'bytesio': return f"rbits_eqb (setbytesio {clist(c['src'], cz)} {L} {O}) {cres(obs, cbits)}"
        if c['via'] == 'bitarray': return f"rbits_eqb (setbitarray {cbits(bits)} {L} {O}) {cres(obs, cbits)}"
        return f"res_eqb bits_eqb (do s <- setfile {cbits(bits)} {L} {O}; Ok (bits_of s)) {cres(obs, cbits)}"
    if op == 'tofile_chunk' and obs[0] == 'ok':
        return f"res_eqb zlist_eqb (tofile2 {cbits(c['bits'])} {cz(c['chunk'])}) (Ok {clist(obs[1][0], cz)})"
    if op == 'chunkconst' and obs[0] == 'ok':
        return f"(TOFILE_CHUNK =? {obs[1]})"
    return None

def search(seeds, rng):
    for c in list(seeds) + list(gen_cases(rng, 'quick')):
        try: obs = run_impl(c)
        finally: reset_options()
        msg = oracle(c, obs)
        if msg: return c, obs, msg
    return None
