"""C17 — byte and file serialisation is lossless and zero-padded."""
from vlib import *
from props.common import *
import io, os, tempfile, hashlib, struct, array

ID = 'C17'
ESCALATE_SKIP_OPS = ('bigfile',)   # 100 MiB: thorough tier only
COQ_PROPS = ['Props/C17.v']
COQ_IMPORTS = ['Prims', 'CaseLib', 'BitsCore', 'Search', 'Store', 'Serial2']
RULE = ('all lengths 0..7 mod 8 x classes for tobytes/bytes()/.bytes/tofile; all (offset, length) windows incl. None over small byte sources (exhaustive for sources of 0..3 bytes) through '
        'bytes=, BytesIO, file handle, filename=, bitarray=; chunked writing via cut(n)+tobytes for chunk sizes 8..64; Array tobytes/tofile/fromfile; thorough adds one tofile of 100 MiB + 13 bits '
        'into a hashing sink; srcser: sources of every shape (bytes-like objects whose len() is not their byte count: memoryviews cast to wider items / several dimensions / strided / over array.array, '
        'array.array itself; bitarray and frozenbitarray of either endianness made from a string, from bytes or around a buffer; BytesIO, handles of three kinds, file names as str / Path) given by keyword or '
        'positionally with windows at the values where items, bytes and bits could be confused, then serialised by every method (tobytes, bytes(), .bytes, tofile to BytesIO / disk / with a small chunk, read back) '
        'together with objects derived from them (slices, bit-wise results, copies, other classes, Arrays, in-place edits); non-trivial = non-empty window not equal to the whole source; distinct by arguments')
ASSUMPTIONS = ['a file is its bytes (mmap / OS write path not modelled)', 'the tofile chunk constant is read from the source and checked to be a positive multiple of 8']

def gen_cases(rng, tier):
    N = 250 if tier == 'quick' else 3000
    for _ in range(N):
        n = rand_len(rng, tier)
        bits = rand_bits(rng, n)
        yield {'op': 'tobytes', 'cls': rng.choice(CLASSES), 'bits': bits, 'route': rng.choice(ROUTES)}
        yield {'op': 'cutbytes', 'bits': bits, 'chunk': rng.choice([8, 16, 24, 64, 8 * max(1, n // 24)])}
    srcs = [b''] + [bytes([rng.randrange(256) for _ in range(k)]) for k in (1, 2, 3)]
    for src in srcs:
        T = len(src) * 8
        vals = [None] + list(range(-1, T + 3))
        for off in vals:
            for ln in vals:
                if tier == 'quick' and rng.random() < 0.75: continue
                yield {'op': 'window', 'src': list(src), 'offset': off, 'length': ln, 'via': rng.choice(['bytes', 'bytesio', 'filename', 'handle', 'bitarray', 'bytearray']), 'cls': rng.choice(CLASSES), 'lsb0': rng.random() < 0.3}
    for _ in range(150 if tier == 'quick' else 3000):
        k = rng.choice([0, 1, 2, 5, 9, 40])
        src = [rng.randrange(256) for _ in range(k)]
        T = 8 * k
        off = rng.choice([None, 0, rng.randrange(0, T + 1), 8 * rng.randrange(0, k + 1), T + 1, -3])
        ln = rng.choice([None, 0, rng.randrange(0, T + 2), T, -1])
        yield {'op': 'window', 'src': src, 'offset': off, 'length': ln, 'via': rng.choice(['bytes', 'bytesio', 'filename', 'handle', 'bitarray', 'bytearray']), 'cls': rng.choice(CLASSES), 'lsb0': rng.random() < 0.3}
    for _ in range(40 if tier == 'quick' else 400):
        w = rng.choice([8, 16, 3, 12, 32])
        k = rng.randrange(0, 9)
        yield {'op': 'array', 'w': w, 'items': [rng.randrange(1 << w) for _ in range(k)], 'trail': rand_bits(rng, rng.choice([0, 0, 1, 5]))}
    # a BytesIO that has been used before (read from, positioned at its end as after writing, or already given to a constructor): its whole content counts
    for _ in range(30 if tier == 'quick' else 400):
        nb = rng.choice([1, 2, 3, 5]); src = [rng.randrange(256) for _ in range(nb)]; T = 8 * nb
        yield {'op': 'window', 'src': src, 'offset': rng.choice([None, None, 0, 3, 8]), 'length': rng.choice([None, None, 4, T - 8]), 'via': 'bytesio', 'cls': rng.choice(CLASSES),
               'pre': rng.choice(['read1', 'end', 'twice', 'seek1'])}
    # files whose size is a multiple of the memory-mapping granularity (or one byte off), windows at and around the very end (the empty window included)
    import mmap as _mmap, random as _rnd
    G = _mmap.ALLOCATIONGRANULARITY
    for size in ([G, 2 * G] if tier == 'quick' else [G - 1, G, G + 1, 2 * G, 3 * G]):
        src = list(_rnd.Random(size).randbytes(size))
        for off in (8 * size, 8 * size - 8, 8 * size - 3, 8 * G, 8 * G + 5, 8 * size + 1):
            for ln in (None, 0, 3):
                if tier == 'quick' and rng.random() < 0.4: continue
                yield {'op': 'window', 'src': src, 'offset': off, 'length': ln, 'via': rng.choice(['filename', 'handle']), 'cls': rng.choice(CLASSES)}
    yield from gen_sources(rng, tier)
    yield from gen_arrfile(rng, tier)
    yield {'op': 'chunkconst'}
    # tofile itself, run with its chunk constant replaced by a small one (the code object is re-instantiated with the constant swapped):
    # lengths below, at, and above exact multiples of the chunk size
    for k in (8, 16, 64):
        for n in [0, 1, k - 3, k - 1, k, k + 1, k + 5, 2 * k - 1, 2 * k, 2 * k + 1, 3 * k, 3 * k + 7, 5 * k] + [rng.randrange(0, 6 * k) for _ in range(4 if tier == 'quick' else 60)]:
            if n >= 0: yield {'op': 'tofile_chunk', 'chunk': k, 'bits': rand_bits(rng, n), 'cls': rng.choice(CLASSES), 'route': rng.choice(ROUTES), 'lsb0': rng.random() < 0.4}
    if tier == 'thorough':
        yield {'op': 'bigfile', 'extra': 13}

# ---------------------------------------------------------------------------------------------------------------------------------------
# "srcser": a SOURCE of any shape -> an object of any class through every route that accepts the source (keyword or positional, with a window)
# -> every way of serialising it (tobytes, bytes(), .bytes, tofile to a BytesIO / a real file / with a small chunk size, reading the bytes
# back), and the same for objects derived from it (slices, bit-wise results, copies, other classes, Arrays holding it, in-place edits).
# Sources: bytes-like objects whose len() is NOT their byte count (memoryviews cast to wider items, of several dimensions, strided or reversed,
# over array.array / bytearray; array.array itself), plain bytes / bytearray / memoryview, bitarray objects of either endianness (mutable,
# frozen, made from a string, from bytes or wrapping a buffer, any bit length), BytesIO, file handles and file names.
# The reference is a str of '0' and '1' made from the plain list of byte values in the case (source_bits), a str slice (ref_source_window) and
# int(...).to_bytes-style packing (pad_bytes).
MV_FORMATS = 'BbcHhIiLlQqfd'            # memoryview.cast formats (native item sizes: struct.calcsize)
ARRAY_CODES = 'BbHhIiLlQqfd'
ARRAY_INIT_KINDS = ('bytes', 'bytearray', 'mv', 'mv_ro', 'mv_rw', 'mv_cast', 'mv_nd', 'mv_slice', 'mv_array')
DERIVED = ['slice', 'step2', 'rev', 'and', 'or', 'xor', 'not', 'copy', 'fullslice', 'add', 'radd', 'cut', 'recls', 'viabitarray', 'array', 'array_data', 'append', 'prepend', 'setslice', 'invert', 'reverse', 'ror', 'delete']

def _special_lengths(rng, T, nitems, nbytes, item):
    return [None, None, 0, 1, 7, 8, 9, 8 * nitems, 8 * nitems, 8 * nitems - 1, 8 * nitems + 1, T, T - 1, T - 8, T + 1, nitems, nbytes, 8 * item, T // 2, rng.randrange(0, T + 2), -1]

def _special_offsets(rng, T, nitems, item):
    return [None, None, 0, 0, 1, 7, 8, 9, 8 * item, 8 * nitems, T, T + 1, rng.randrange(0, T + 1), -2]

def gen_sources(rng, tier):
    quick = tier == 'quick'
    def finish(c):
        c.setdefault('how', 'kw')
        c['cls'] = rng.choice(CLASSES); c['lsb0'] = rng.random() < 0.25
        c['chunk'] = rng.choice([8, 16, 24, 64]); c['disk'] = rng.random() < 0.08
        c['derived'] = [rng.choice(DERIVED) for _ in range(rng.choice([0, 2, 3]))]
        c['p'] = rng.randrange(0, 101); c['q'] = rng.randrange(0, 101); c['cls2'] = rng.choice(CLASSES)
        return c
    def buffer_wrap(nb_items=None):
        """a bytes-like source: (wrap, raw bytes, number of source bits, len(source), item width)"""
        kind = rng.choice(['mv_cast', 'mv_cast', 'mv_cast', 'mv_nd', 'mv_slice', 'mv_array', 'array', 'bytes', 'bytearray', 'mv', 'mv_ro', 'mv_rw'])
        if kind in ('bytes', 'bytearray', 'mv', 'mv_ro', 'mv_rw'):
            nb = rng.choice([0, 1, 2, 3, 5, 8, 16, 33]); raw = [rng.randrange(256) for _ in range(nb)]
            return {'kind': kind}, raw, 8 * nb, nb, 1
        fmt = rng.choice(ARRAY_CODES if kind in ('array', 'mv_array') else MV_FORMATS)
        item = struct.calcsize(fmt)
        n = nb_items if nb_items is not None else rng.choice([0, 1, 2, 3, 4, 6, 8, 12])
        if kind == 'mv_nd':
            shape = rng.choice([[2, 2], [1, 4], [4, 1], [3, 2], [2, 3, 2], [2, 8], [8, 2], [4, 4]])
            n = 1
            for d in shape: n *= d
            raw = [rng.randrange(256) for _ in range(n * item)]
            return {'kind': 'mv_nd', 'fmt': fmt, 'item': item, 'shape': shape}, raw, 8 * n * item, shape[0], item
        raw = [rng.randrange(256) for _ in range(n * item)]
        if kind == 'mv_slice':
            a, b, st = rng.choice([(None, None, 2), (None, None, -1), (1, None, None), (None, -1, None), (1, None, 2), (None, None, 3), (None, None, -2)])
            k = len(range(n)[a:b:st])
            return {'kind': 'mv_slice', 'fmt': fmt, 'item': item, 'start': a, 'stop': b, 'step': st}, raw, 8 * k * item, k, item
        w = {'kind': kind, 'fmt': fmt, 'item': item}
        if kind == 'mv_cast': w['base'] = rng.choice(['bytes', 'bytearray'])
        return w, raw, 8 * n * item, n, item
    # 1. bytes-like sources: random windows, lengths and offsets drawn from the values where "items", "bytes" and "bits" could be confused
    for _ in range(350 if quick else 6000):
        w, raw, T, nitems, item = buffer_wrap()
        ln = rng.choice(_special_lengths(rng, T, nitems, len(raw), item)); off = rng.choice(_special_offsets(rng, T, nitems, item))
        if ln is not None and off and rng.random() < 0.5: ln = max(0, T - off - rng.choice([0, 0, 1, 8]))     # windows ending at / near the end
        c = {'op': 'srcser', 'src': raw, 'wrap': w, 'offset': off, 'length': ln}
        if rng.random() < 0.25:
            c['how'] = 'pos'                         # C(source): the whole source; a window is refused
            if rng.random() < 0.7: c['offset'] = c['length'] = None
        yield finish(c)
    # 2. the same, systematically: every item width x the lengths 8*len(source), 8*bytes, ... x no / zero / whole-byte offset
    for fmt in ('B', 'H', 'I', 'Q', 'd', 'h', 'f'):
        item = struct.calcsize(fmt)
        for n in (2, 4, 8):
            for wk in ('mv_cast', 'mv_array', 'array', 'mv_nd2'):
                for off in (None, 0, 8):
                    for ln in (8 * n, 8 * n * item, 8 * n - 8, n, 8 * n * item - 8 * n, 8 * (n // 2), 8 * 2):
                        if rng.random() < (0.93 if quick else 0.5): continue
                        raw = [rng.randrange(256) for _ in range(n * item)]
                        w = {'kind': wk, 'fmt': fmt, 'item': item, 'base': 'bytes'}
                        if wk == 'mv_nd2': w = {'kind': 'mv_nd', 'fmt': fmt, 'item': item, 'shape': [2, n // 2]}
                        yield finish({'op': 'srcser', 'src': raw, 'wrap': w, 'offset': off, 'length': ln})
    # 3. bitarray sources: both endiannesses, frozen or not, made from a 01-string / from bytes (then cut to any bit length) / around a buffer;
    #    keyword with every window, positional
    for _ in range(300 if quick else 5000):
        make = rng.choice(['str', 'str', 'frombytes', 'buffer', 'buffer_rw'])
        nbits = rng.choice([0, 1, 2, 3, 7, 8, 9, 15, 16, 17, 31, 32, 33, 64, 71, rng.randrange(0, 200)])
        if make.startswith('buffer'): nbits = 8 * ((nbits + 7) // 8)
        raw = [rng.randrange(256) for _ in range((nbits + 7) // 8)]
        w = {'kind': 'bitarray', 'endian': rng.choice(['little', 'little', 'big']), 'frozen': rng.random() < 0.3, 'make': make, 'nbits': nbits}
        T = nbits
        off = rng.choice([None, None, 0, 1, 3, 5, 8, T, T + 1, rng.randrange(0, T + 1), -1])
        ln = rng.choice([None, None, 0, 1, 3, 8, 16, T, T + 1, rng.randrange(0, T + 1), -1])
        if ln is not None and off and off <= T and rng.random() < 0.6: ln = rng.randrange(0, T - off + 1)
        c = {'op': 'srcser', 'src': raw, 'wrap': w, 'offset': off, 'length': ln}
        if rng.random() < 0.3: c.update({'how': 'pos', 'offset': rng.choice([None, None, None, 0, 3]), 'length': rng.choice([None, None, None, 4])})
        yield finish(c)
    # 4. BytesIO / file handle / file name windows, serialised (a file-backed object is written out through its recorded length)
    for _ in range(60 if quick else 1500):
        nb = rng.choice([1, 2, 3, 5, 9, 40]); raw = [rng.randrange(256) for _ in range(nb)]; T = 8 * nb
        off = rng.choice([None, None, 0, 3, 8, 11, T - 1, T])
        ln = rng.choice([None, None, 0, 1, 8, T, T - 3, rng.randrange(0, T + 1)])
        if ln is not None and off and off <= T: ln = rng.randrange(0, T - off + 1)
        kind = rng.choice(['bytesio', 'handle', 'filename'])
        w = {'kind': kind}
        if kind == 'filename': w['aspath'] = rng.random() < 0.4                         # str or pathlib.Path
        if kind == 'handle': w['mode'] = rng.choice(['rb', 'r+b', 'raw'])              # BufferedReader / BufferedRandom / FileIO
        if kind != 'filename': w['pre'] = rng.choice([None, None, 'read1', 'end', 'used'])    # an object that was read from / positioned / given to a constructor before: its whole content counts
        yield finish({'op': 'srcser', 'src': raw, 'wrap': w, 'offset': off, 'length': ln, 'how': 'kw' if kind == 'filename' else 'pos'})

# ---------------------------------------------------------------------------------------------------------------------------------------
# "arrfile": an Array filled from an OPEN FILE OBJECT - Array(dtype, f), Array(dtype, f, trailing_bits=..), a.fromfile(f), a.fromfile(f, n) -
# holds the whole items of the FILE (the first n for fromfile(f, n)), whatever the handle is (BufferedReader / BufferedRandom / FileIO, opened for
# reading, updating or appending, with any buffer size, the raw handle under a buffered one, a subclass, a handle opened from a pathlib.Path;
# a BytesIO for fromfile) and whatever has been done with it before (read from, positioned, read to its end, given to Bits / another Array /
# fromfile, written to and flushed). The same handle gives the same answer a second time, agrees with Bits(f) of the same handle and with a handle
# opened afresh; tobytes / tofile of that Array are the file's bytes (whole items), also after the handle is closed and the file removed.
# Reference: the list of byte values in the case (+ the bytes the history appends) as a str of '0' and '1', cut with str slices; items by int(.., 2).
AF_DTYPES = {'uint8': ('u', 'be', 8), 'u8': ('u', 'be', 8), 'int8': ('i', 'be', 8), '>H': ('u', 'be', 16), '<H': ('u', 'le', 16), 'uintbe16': ('u', 'be', 16), 'uintle32': ('u', 'le', 32),
             'int16': ('i', 'be', 16), 'intle16': ('i', 'le', 16), 'uint12': ('u', 'be', 12), 'uint5': ('u', 'be', 5), 'int7': ('i', 'be', 7), 'uint24': ('u', 'be', 24), 'uint32': ('u', 'be', 32),
             'uint64': ('u', 'be', 64), '>q': ('i', 'be', 64), '<i': ('i', 'le', 32), 'uint1': ('u', 'be', 1), 'uint3': ('u', 'be', 3), 'uint40': ('u', 'be', 40),
             'float32': (None, None, 32), 'floatle64': (None, None, 64), 'bfloat': (None, None, 16), 'hex8': (None, None, 8), 'bytes3': (None, None, 24), 'bin4': (None, None, 4),
             'bool': (None, None, 1), 'e4m3mxfp': (None, None, 8), 'oct9': (None, None, 9)}
AF_MODES = ['rb', 'r+b', 'raw', 'raw+', 'a+b', 'a+raw', 'rb16', 'rb.raw', 'sub', 'path']      # see af_open
AF_WRITABLE = ('r+b', 'raw+', 'a+b', 'a+raw')

def gen_arrfile(rng, tier):
    import mmap as _mmap
    quick = tier == 'quick'
    G = _mmap.ALLOCATIONGRANULARITY
    def pre_op(size, holder, mode):
        k = rng.choice([0, 1, 2, 3, 4, 7, 8, size // 2, max(0, size - 1), size, size + 3])
        ops = [['read', k], ['read', k], ['seek', k], ['seek', k], ['end'], ['readall'], ['readline'], ['readinto', k], ['tell'], ['seek0'],
               ['Bits', rng.choice(CLASSES)], ['BitsWin', rng.choice(CLASSES), rng.choice([0, 3, 8, 11]), rng.choice([None, 1, 8, 13])],
               ['fromfile', rng.choice(list(AF_DTYPES)), rng.choice([None, None, 0, 1, 2])]]
        if holder == 'file': ops += [['peek'], ['Array', rng.choice(list(AF_DTYPES))], ['Array', rng.choice(list(AF_DTYPES))], ['read1', k]]
        if holder == 'bytesio' or mode in AF_WRITABLE: ops += [['append', [rng.randrange(256) for _ in range(rng.choice([1, 2, 3, 8]))]]]
        return rng.choice(ops)
    def one(size=None, dtype=None, mode=None, pre=None, route=None, holder=None):
        if size is None: size = rng.choice([1, 2, 3, 4, 5, 7, 8, 9, 15, 16, 17, 24, 33, 45, 64, 100, rng.randrange(1, 300)])
        d = dtype or rng.choice(list(AF_DTYPES))
        holder = holder or ('bytesio' if rng.random() < 0.12 else 'file')
        mode = mode or rng.choice(AF_MODES)
        if pre is None: pre = [pre_op(size, holder, mode) for _ in range(rng.choice([0, 1, 1, 1, 2, 2, 3]))]
        route = route or rng.choice(['init', 'init', 'init', 'init_trail', 'fromfile', 'fromfile', 'fromfile_n', 'fromfile_n', 'fromfile_trailing'])
        if holder == 'bytesio' and route.startswith('init'): route = 'fromfile'          # (a BytesIO is documented as an initialiser of bitstrings only)
        w = AF_DTYPES[d][2]; items = 8 * size // w
        c = {'op': 'arrfile', 'src': [rng.randrange(256) for _ in range(size)] if size < 2000 else list(__import__('random').Random(size).randbytes(size)), 'dtype': d, 'holder': holder, 'mode': mode, 'pre': pre, 'route': route,
             'n': rng.choice([0, 1, 2, items // 2, max(0, items - 1), items, items, items + 1, items + 5, rng.randrange(0, items + 2)]) if route == 'fromfile_n' else None,
             'prefix': rand_bits(rng, w * rng.choice([0, 0, 1, 2, 3])) if route.startswith('fromfile') else '',
             'trail': rand_bits(rng, rng.randrange(1, w)) if route in ('init_trail', 'fromfile_trailing') and w > 1 else '', 'lsb0': False}
        if route in ('init_trail', 'fromfile_trailing') and w == 1: c['route'] = 'init' if route == 'init_trail' else 'fromfile'
        # under lsb0 only where the bit numbering cannot matter: an empty Array, whole items, no trailing bits
        if c['route'] in ('init', 'fromfile') and not c['prefix'] and (8 * size) % w == 0 and not any(p[0] == 'append' for p in pre) and rng.random() < 0.2: c['lsb0'] = True
        return c
    # a grid, so that no run misses a stratum: every kind of handle x every kind of history x the constructor / fromfile
    grid_pre = [[], [['read', 4]], [['seek', 10]], [['end']], [['readall']], [['Array', 'uint8']], [['Bits', 'Bits']], [['fromfile', 'uint8', None]], [['fromfile', '>H', 2]], [['read', 1], ['seek0']],
                [['readline']], [['peek']], [['readinto', 5]], [['BitsWin', 'BitStream', 8, 16]], [['Array', '>H'], ['Array', 'uint12']]]
    for mode in AF_MODES:
        for pre in grid_pre:
            for route in ('init', 'fromfile', 'fromfile_n'):
                if quick and rng.random() < (0.45 if route == 'init' else 0.8): continue
                yield one(mode=mode, pre=pre, route=route, holder='file', dtype=rng.choice(['uint8', '>H', 'uint12', '<H', 'int16', 'uint24', 'float32', 'hex8']))
    for mode in AF_WRITABLE:
        for route in ('init', 'fromfile', 'fromfile_n'):
            yield one(mode=mode, pre=[['append', [rng.randrange(256) for _ in range(rng.choice([1, 2, 3]))]]] + ([['seek', 1]] if rng.random() < 0.5 else []), route=route, holder='file')
    for pre in grid_pre + [[['append', [1, 2, 3]]]]:
        if any(p[0] in ('Array', 'peek') for p in pre): continue
        for route in ('fromfile', 'fromfile_n'):
            if quick and rng.random() < 0.5: continue
            yield one(pre=pre, route=route, holder='bytesio')
    for _ in range(120 if quick else 4000): yield one()
    # files of (about) a whole number of pages, and long ones
    for size in ([G, G + 1] if quick else [G - 1, G, G + 1, 2 * G, 3 * G + 5, 70000, 300001]):
        for _ in range(1 if quick else 4):
            yield one(size=size, dtype=rng.choice(['uint8', '>H', 'uint12', 'uint64', 'uint24']), holder='file', pre=[rng.choice([['read', 4], ['seek', G], ['end'], ['readall'], ['Array', 'uint8'], ['read', G]])], route=rng.choice(['init', 'init', 'fromfile', 'fromfile_n']))

def af_open(path, mode):
    """the handle of the given kind + the objects to close afterwards"""
    if mode in ('rb', 'r+b', 'a+b'): f = open(path, mode); return f, [f]
    if mode == 'raw': f = open(path, 'rb', buffering=0); return f, [f]
    if mode == 'raw+': f = open(path, 'r+b', buffering=0); return f, [f]
    if mode == 'a+raw': f = open(path, 'a+b', buffering=0); return f, [f]
    if mode == 'rb16': f = open(path, 'rb', buffering=16); return f, [f]
    if mode == 'rb.raw':
        b = open(path, 'rb'); b.read(1); return b.raw, [b]          # the FileIO under a buffered reader that has filled its buffer: its position is far ahead
    if mode == 'sub':
        class Reader(io.BufferedReader): pass
        f = Reader(io.FileIO(path, 'r')); return f, [f]
    if mode == 'path':
        import pathlib
        f = open(pathlib.Path(path), 'rb'); return f, [f]
    raise AssertionError(mode)

def af_content(c):
    """the bytes the file holds when the Array is made: the case's bytes + what the history appended"""
    src = list(c['src'])
    for p in c['pre']:
        if p[0] == 'append': src += p[1]
    return src

def af_expected(c):
    """(outcome, data bits of the Array afterwards) from the case alone"""
    w = AF_DTYPES[c['dtype']][2]
    bits = ''.join(format(x, '08b') for x in af_content(c)); avail = len(bits) // w
    if c['route'] in ('init', 'init_trail'): return 'ok', bits[:avail * w] + c['trail']
    if c['route'] == 'fromfile_trailing': return 'ValueError', c['prefix'] + c['trail']          # an Array with trailing bits cannot be extended (documented design): refused, unchanged
    if c['route'] == 'fromfile': return 'ok', c['prefix'] + bits[:avail * w]
    n = c['n']
    return ('ok' if n <= avail else 'Other:EOFError'), c['prefix'] + bits[:min(n, avail) * w]     # like array.array.fromfile: the items that are there are appended, then EOFError

def af_items(c, data):
    """the items of `data` for the integer dtypes (None for the others: the data decides)"""
    k, order, w = AF_DTYPES[c['dtype']]
    if k is None: return None
    out = []
    for i in range(0, len(data) - w + 1, w):
        slot = data[i:i + w]
        if order == 'le': slot = ''.join(slot[j:j + 8] for j in range(w - 8, -1, -8))
        v = int(slot, 2)
        out.append(v - (1 << w) if k == 'i' and slot[0] == '1' else v)
    return out

def run_arrfile(c):
    import bitstring
    from bitstring import Bits, BitArray, Array
    d = c['dtype']; w = AF_DTYPES[d][2]
    def look(a):
        bio = io.BytesIO(); a.tofile(bio)
        return {'bin': a.data.bin, 'len': len(a), 'tobytes': list(a.tobytes()), 'tofile': list(bio.getvalue()), 'trail': a.trailing_bits.bin,
                'items': a.tolist() if AF_DTYPES[d][0] else None}
    def make(f):
        """the route of the case on handle f: [outcome, what the Array looks like afterwards]"""
        r = c['route']; box = []
        def go():
            if r == 'init': box.append(Array(d, f)); return
            if r == 'init_trail': box.append(Array(d, f, trailing_bits=Bits(bin=c['trail']))); return
            a = Array(d, BitArray(bin=c['prefix'] + c['trail'])); box.append(a)
            if r == 'fromfile_n': a.fromfile(f, c['n'])
            else: a.fromfile(f)
        res = attempt(go)
        return [res[0] if res[0] == 'ok' else res[1], look(box[0]) if box else None]
    def history(f):
        for p in c['pre']:
            try:
                if p[0] == 'read': f.read(p[1])
                elif p[0] == 'read1': f.read1(p[1])
                elif p[0] == 'seek': f.seek(p[1])
                elif p[0] == 'end': f.seek(0, 2)
                elif p[0] == 'readall': f.read()
                elif p[0] == 'readline': f.readline()
                elif p[0] == 'peek': f.peek(4)
                elif p[0] == 'readinto': f.readinto(bytearray(p[1]))
                elif p[0] == 'tell': f.tell()
                elif p[0] == 'seek0': f.seek(0)
                elif p[0] == 'Bits': cls_of(p[1])(f)
                elif p[0] == 'BitsWin': cls_of(p[1])(f, offset=p[2], length=p[3])
                elif p[0] == 'Array': Array(p[1], f)
                elif p[0] == 'fromfile':
                    x = Array(p[1])
                    x.fromfile(f) if p[2] is None else x.fromfile(f, p[2])
                elif p[0] == 'append':
                    f.seek(0, 2); f.write(bytes(p[1])); f.flush()
            except Exception: pass          # (a step of the history that this kind of handle refuses is no step)
    def f_():
        bitstring.options.lsb0 = bool(c.get('lsb0'))
        out = {}
        if c['holder'] == 'bytesio':
            f = io.BytesIO(bytes(c['src'])); history(f)
            out['main'] = make(f); out['second'] = make(f)
            out['bits'] = list(Bits(f).tobytes())
            f2 = io.BytesIO(f.getvalue()); out['fresh'] = make(f2)
            return out
        fd, path = tempfile.mkstemp(prefix='verif_c17_')
        closers = []; removed = False
        try:
            with os.fdopen(fd, 'wb') as fh: fh.write(bytes(c['src']))
            f, closers = af_open(path, c['mode']); history(f)
            out['main'] = make(f); out['second'] = make(f)
            out['bits'] = list(attempt(lambda: list(Bits(f).tobytes())))
            with open(path, 'rb') as f2: out['fresh'] = make(f2)
            # the Array keeps its items when the handle is closed and the file is gone
            keep = Array(d, f) if c['route'].startswith('init') else None
            for x in closers: x.close()
            os.unlink(path); removed = True
            if keep is not None: out['kept'] = [keep.data.bin, list(keep.tobytes())]
            return out
        finally:
            bitstring.options.lsb0 = False
            for x in closers:
                try: x.close()
                except Exception: pass
            if not removed:
                try: os.unlink(path)
                except OSError: pass
    return attempt(f_, 20)

def oracle_arrfile(c, obs):
    d = c['dtype']; w = AF_DTYPES[d][2]; content = af_content(c)
    handle = ('a BytesIO' if c['holder'] == 'bytesio' else f"a {c['mode']!r} handle") + f" of {len(content)} bytes {bytes(content[:8]).hex()}.." + (f" after {c['pre']}" if c['pre'] else '')
    call = {'init': f"Array({d!r}, f)", 'init_trail': f"Array({d!r}, f, trailing_bits={c['trail']!r})", 'fromfile': f"Array({d!r}, {c['prefix']!r}).fromfile(f)",
            'fromfile_n': f"Array({d!r}, {c['prefix']!r}).fromfile(f, {c['n']})", 'fromfile_trailing': f"Array({d!r}, {c['prefix'] + c['trail']!r}).fromfile(f)"}[c['route']]
    what = f"{call} with f = {handle}{' under lsb0' if c.get('lsb0') else ''}"
    if obs[0] != 'ok': return f"{what}: raised {obs[1]}"
    o = obs[1]
    outcome, data = af_expected(c)
    whole = ''.join(format(x, '08b') for x in content)
    for name in ('main', 'second', 'fresh'):
        tag = {'main': '', 'second': ' (the same handle, a second time)', 'fresh': ' (a handle opened afresh)'}[name]
        got, a = o[name]
        if got != outcome: return f"{what}{tag}: outcome {got}, expected {outcome} (the file holds {len(whole) // w} whole items of {w} bits)"
        if a is None: return f"{what}{tag}: no Array"
        if a['bin'] != data:
            return (f"{what}{tag}: the Array holds {len(a['bin'])} bits {a['bin'][:72]!r}.., i.e. {a['len']} items; the file's items give {len(data)} bits {data[:72]!r}.. "
                    f"({len(data) // w} items: the whole file counts, not what lies beyond the handle's position)")
        if a['len'] != len(data) // w or a['trail'] != data[len(data) - len(data) % w:]: return f"{what}{tag}: len {a['len']} / trailing bits {a['trail']!r} for {len(data)} bits of data at {w} bits per item"
        exp = pad_bytes(data)
        if a['tobytes'] != exp or a['tofile'] != exp: return f"{what}{tag}: tobytes {bytes(a['tobytes'][:12]).hex()} / tofile {bytes(a['tofile'][:12]).hex()} of the Array; its data zero-padded is {bytes(exp[:12]).hex()}"
        items = af_items(c, data) if not c.get('lsb0') else None          # (under lsb0 the items are enumerated from the other end of the data: the data decides)
        if items is not None and a['items'] != items: return f"{what}{tag}: items {str(a['items'])[:100]}, the file's items are {str(items)[:100]}"
    bits = o['bits'] if c['holder'] == 'bytesio' else (o['bits'][1] if o['bits'][0] == 'ok' else o['bits'])
    if bits != content: return f"{what}: Bits(f) of the same handle afterwards gives {str(bits)[:80]}, the file holds {str(content)[:80]}"
    if 'kept' in o:
        kd = whole[:len(whole) // w * w]
        if o['kept'] != [kd, pad_bytes(kd)]: return f"Array({d!r}, f) with f = {handle}, read after f was closed and the file removed: {len(o['kept'][0])} bits, tobytes {bytes(o['kept'][1][:12]).hex()}; the file held {bytes(content[:12]).hex()}"
    return None

def make_source(c, cleanup):
    """the source object described by the case (runner side)"""
    import bitarray
    raw = bytes(c['src']); w = c['wrap']; k = w['kind']
    if k == 'bytes': return raw
    if k == 'bytearray': return bytearray(raw)
    if k == 'mv': return memoryview(raw)
    if k == 'mv_ro': return memoryview(bytearray(raw)).toreadonly()
    if k == 'mv_rw': return memoryview(bytearray(raw))
    if k == 'mv_cast': return memoryview(raw if w.get('base') != 'bytearray' else bytearray(raw)).cast(w['fmt'])
    if k == 'mv_nd': return memoryview(raw).cast(w['fmt'], tuple(w['shape']))
    if k == 'mv_slice': return memoryview(raw).cast(w['fmt'])[w['start']:w['stop']:w['step']]
    if k == 'array': return array.array(w['fmt'], raw)
    if k == 'mv_array': return memoryview(array.array(w['fmt'], raw))
    if k == 'bitarray':
        e = w['endian']
        if w['make'] == 'str': ba = bitarray.bitarray(source_bits(c), endian=e)
        elif w['make'] == 'frombytes':
            ba = bitarray.bitarray(endian=e); ba.frombytes(raw); del ba[w['nbits']:]
        else:
            ba = bitarray.bitarray(buffer=bytearray(raw) if w['make'] == 'buffer_rw' else raw, endian=e)
        return bitarray.frozenbitarray(ba) if w['frozen'] else ba
    def used(f):
        import bitstring
        if w.get('pre') == 'read1': f.read(1)
        elif w.get('pre') == 'end': f.seek(0, 2)
        elif w.get('pre') == 'used': bitstring.Bits(f)
        return f
    if k == 'bytesio': return used(io.BytesIO(raw))
    fd, path = tempfile.mkstemp(prefix='verif_c17_')
    with os.fdopen(fd, 'wb') as fh: fh.write(raw)
    cleanup.append(lambda: os.unlink(path))
    if k == 'filename':
        import pathlib
        return pathlib.Path(path) if w.get('aspath') else path
    fh = open(path, 'rb', buffering=0) if w.get('mode') == 'raw' else open(path, w.get('mode') or 'rb'); cleanup.insert(0, fh.close)
    return used(fh)

def source_bits(c):
    """the bits of the source in order, as a str, from the list of byte values in the case"""
    raw = c['src']; w = c['wrap']; k = w['kind']
    if k == 'bitarray':
        per = [format(x, '08b') for x in raw]
        if w['make'] != 'str' and w['endian'] == 'little': per = [p[::-1] for p in per]        # a little-endian bitarray numbers the bits of each byte from the least significant one
        return ''.join(per)[:w['nbits']]
    if k == 'mv_slice':
        it = w['item']
        items = [raw[i * it:(i + 1) * it] for i in range(len(raw) // it)][w['start']:w['stop']:w['step']]
        raw = [x for item in items for x in item]
    return ''.join(format(x, '08b') for x in raw)

def ref_source_window(c):
    allbits = source_bits(c); T = len(allbits); off, ln = c['offset'], c['length']
    if (off is not None and off < 0) or (ln is not None and ln < 0): return ('err', 'ValueError')
    if c['how'] == 'pos' and c['wrap']['kind'] not in ('bytesio', 'handle') and (off is not None or ln is not None):
        return ('err', 'ValueError')          # documented: only BytesIO objects and files take an offset / length when given positionally
    o = off or 0
    if ln is None: return ('err', 'ValueError') if o > T else ('ok', allbits[o:])
    return ('err', 'ValueError') if o + ln > T else ('ok', allbits[o:o + ln])

def small_chunk_tofile(chunk):
    """Bits.tofile with its chunk-size literal replaced by `chunk` (None when the literal cannot be identified)"""
    import types, bitstring
    fn0 = bitstring.bits.Bits.tofile
    code = fn0.__code__
    big = [x for x in code.co_consts if isinstance(x, int) and not isinstance(x, bool) and x >= 8 * 1024 * 1024]
    if len(big) != 1: return None
    return types.FunctionType(code.replace(co_consts=tuple(chunk if isinstance(x, int) and not isinstance(x, bool) and x == big[0] else x for x in code.co_consts)),
                              fn0.__globals__, 'tofile', fn0.__defaults__, fn0.__closure__)

def serialise(s, chunk=None, disk=False):
    """everything C17 says about the bytes of one object"""
    from bitstring import Bits
    bio = io.BytesIO(); s.tofile(bio)
    tb = s.tobytes()
    o = {'bin': s.bin, 'len': len(s), 'tobytes': list(tb), 'bytes': list(bytes(s)), 'prop': list(attempt(lambda: list(s.bytes))), 'tofile': list(bio.getvalue()),
         'back': Bits(bytes=tb, length=len(s)).bin if len(s) <= 8 * len(tb) else None}
    if chunk:
        fn = small_chunk_tofile(chunk)
        if fn is not None:
            sink = io.BytesIO(); fn(s, sink); o['tofile_chunked'] = list(sink.getvalue())
    if disk:
        fd, path = tempfile.mkstemp(prefix='verif_c17_')
        try:
            with os.fdopen(fd, 'wb') as fh: s.tofile(fh)
            o['disk'] = list(open(path, 'rb').read())
        finally: os.unlink(path)
    return o

def judge_serialised(what, o, bits):
    exp = pad_bytes(bits)
    if o['bin'] != bits or o['len'] != len(bits): return f"{what}: holds {o['len']} bits {o['bin'][:80]!r}, expected {len(bits)} bits {bits[:80]!r}"
    for k in ('tobytes', 'bytes', 'tofile', 'tofile_chunked', 'disk'):
        if k in o and o[k] != exp:
            return f"{what} holds {len(bits)} bits {bits[:64]!r}: {k} gave {len(o[k])} bytes {bytes(o[k][:12]).hex()}, the bits zero-padded to a byte boundary are {len(exp)} bytes {bytes(exp[:12]).hex()}"
    if len(bits) % 8 == 0:
        if o['prop'] != ['ok', exp]: return f"{what}: .bytes of {len(bits)} bits gave {str(o['prop'])[:80]}, expected {bytes(exp[:12]).hex()}"
    elif o['prop'] != ['err', 'ValueError']: return f"{what}: .bytes of {len(bits)} bits should raise InterpretError, got {str(o['prop'])[:80]}"
    if o['back'] != bits: return f"{what}: Bits(bytes=tobytes(), length={len(bits)}) reads back {str(o['back'])[:80]!r}, the bits are {bits[:80]!r}"
    return None

def derive(s, name, c):
    """an object derived from s (None when the derivation does not apply)"""
    import bitstring, copy
    n = len(s); a, b = sorted((n * c['p'] // 100, n * c['q'] // 100))
    C2 = cls_of(c['cls2'])
    if name == 'slice': return s[a:b]
    if name == 'step2': return s[a::2]
    if name == 'rev': return s[::-1]
    if name in ('and', 'or', 'xor', 'not'):
        if n == 0: return None
        return s & s if name == 'and' else s | s if name == 'or' else s ^ s if name == 'xor' else ~s
    if name == 'copy': return copy.copy(s)
    if name == 'fullslice': return s[:]
    if name == 'add': return s + '0b1'
    if name == 'radd': return '0b101' + s
    if name == 'cut':
        parts = list(s.cut(8 if c['p'] % 2 else 3))
        return parts[c['q'] * len(parts) // 101] if parts else None
    if name == 'recls': return C2(s)
    if name == 'viabitarray': return C2(s.tobitarray())
    if name in ('array', 'array_data'):
        if name == 'array': arr = bitstring.Array('uint5', s)
        else:
            arr = bitstring.Array('uint5'); arr.data = bitstring.BitArray(s)
        return arr
    m = bitstring.BitArray(s) if c['cls2'] in ('Bits', 'BitArray', 'ConstBitStream') else bitstring.BitStream(s)
    if name == 'append': m.append('0b1')
    elif name == 'prepend': m.prepend('0b101')
    elif name == 'setslice': m[a:b] = '0b11'
    elif name == 'delete': del m[a:b]
    elif name in ('invert', 'reverse', 'ror'):
        if n == 0: return None
        m.invert() if name == 'invert' else m.reverse() if name == 'reverse' else m.ror(3)
    return m

def derived_bits(bits, name, c):
    n = len(bits); a, b = sorted((n * c['p'] // 100, n * c['q'] // 100))
    flip = lambda x: ''.join('1' if ch == '0' else '0' for ch in x)
    if name == 'slice': return bits[a:b]
    if name == 'step2': return bits[a::2]
    if name in ('rev', 'reverse'): return bits[::-1] if n or name == 'rev' else None
    if name in ('and', 'or'): return bits if n else None
    if name == 'xor': return '0' * n if n else None
    if name in ('not', 'invert'): return flip(bits) if n else None
    if name in ('copy', 'fullslice', 'recls', 'viabitarray', 'array', 'array_data'): return bits
    if name in ('add', 'append'): return bits + '1'
    if name in ('radd', 'prepend'): return '101' + bits
    if name == 'cut':
        k = 8 if c['p'] % 2 else 3
        parts = [bits[i:i + k] for i in range(0, n, k)]
        return parts[c['q'] * len(parts) // 101] if parts else None
    if name == 'setslice': return bits[:a] + '11' + bits[b:]
    if name == 'delete': return bits[:a] + bits[b:]
    if name == 'ror': return (bits[-(3 % n):] + bits[:-(3 % n)] if 3 % n else bits) if n else None
    raise AssertionError(name)

def kind(c): return c['op'] + ':' + (c.get('via') or c.get('wrap', {}).get('kind', '') or (c.get('holder', '') + '/' + c['route'] if c['op'] == 'arrfile' else ''))

class HashSink:
    def __init__(self): self.h = hashlib.sha256(); self.n = 0
    def write(self, b): self.h.update(b); self.n += len(b)

def run_impl(c):
    import bitstring, bitarray
    from bitstring import Bits, Array
    op = c['op']
    if op == 'tobytes':
        s = build(c['cls'], c['bits'], c['route'])
        def f():
            bio = io.BytesIO(); s.tofile(bio)
            fd, path = tempfile.mkstemp(prefix='verif_c17_')
            try:
                with os.fdopen(fd, 'wb') as fh: s.tofile(fh)
                disk = open(path, 'rb').read()
            finally: os.unlink(path)
            prop = attempt(lambda: list(s.bytes))
            return [list(s.tobytes()), list(bytes(s)), list(bio.getvalue()), list(disk), list(prop)]
        return attempt(f)
    if op == 'cutbytes':
        s = Bits(bin=c['bits'])
        return attempt(lambda: list(b''.join(x.tobytes() for x in s.cut(c['chunk']))))
    if op == 'window':
        src = bytes(c['src']); kw = {}
        if not src and c['via'] in ('filename', 'handle'): c['via'] = 'bytesio'   # an empty file cannot be memory-mapped (OS limit, outside the model)
        if c['offset'] is not None: kw['offset'] = c['offset']
        if c['length'] is not None: kw['length'] = c['length']
        C = cls_of(c['cls']); via = c['via']
        def f():
            bitstring.options.lsb0 = bool(c.get('lsb0'))      # the selected window of the source is the same stored bits in both numberings (reset by the driver)
            if via == 'bytes': return C(bytes=src, **kw).bin
            if via == 'bytearray': return C(bytes=bytearray(src), **kw).bin
            if via == 'bytesio':
                bio = io.BytesIO(src)
                pre = c.get('pre')
                if pre == 'read1': bio.read(1)
                elif pre == 'seek1': bio.seek(1)
                elif pre == 'end': bio.seek(0, 2)
                elif pre == 'twice': C(bio, **kw)
                return C(bio, **kw).bin
            if via == 'bitarray':
                ba = bitarray.bitarray(); ba.frombytes(src); return C(bitarray=ba, **kw).bin
            fd, path = tempfile.mkstemp(prefix='verif_c17_')
            try:
                with os.fdopen(fd, 'wb') as fh: fh.write(src)
                if via == 'filename': return C(filename=path, **kw).bin
                with open(path, 'rb') as fh:
                    return C(fh, **kw).bin
            finally: os.unlink(path)
        return attempt(f)
    if op == 'srcser':
        if not c['src'] and c['wrap']['kind'] in ('filename', 'handle'): c['wrap'] = {'kind': 'bytesio'}; c['how'] = 'pos'   # an empty file cannot be memory-mapped (OS limit, outside the model)
        C = cls_of(c['cls']); kw = {}
        if c['offset'] is not None: kw['offset'] = c['offset']
        if c['length'] is not None: kw['length'] = c['length']
        def f():
            cleanup = []
            try:
                src = make_source(c, cleanup)
                bitstring.options.lsb0 = bool(c.get('lsb0'))        # neither the window of the source nor the bytes of the object depend on the bit numbering
                if c['how'] == 'pos': s = C(src, **kw)
                else: s = C(**{'bitarray' if c['wrap']['kind'] == 'bitarray' else 'filename' if c['wrap']['kind'] == 'filename' else 'bytes': src}, **kw)
                out = {'main': serialise(s, c['chunk'], c['disk'])}
                bitstring.options.lsb0 = False
                der = []
                for name in c['derived']:
                    d = derive(s, name, c)
                    if d is None: der.append([name, None]); continue
                    if isinstance(d, Array):
                        bio = io.BytesIO(); d.tofile(bio)
                        der.append([name, {'bin': d.data.bin, 'len': len(d.data), 'tobytes': list(d.tobytes()), 'bytes': list(d.tobytes()), 'tofile': list(bio.getvalue()),
                                           'prop': list(attempt(lambda: list(d.data.bytes))), 'back': Bits(bytes=d.tobytes(), length=len(d.data)).bin}])
                    else: der.append([name, serialise(d, c['chunk'])])
                out['derived'] = der
                if c['wrap']['kind'] in ARRAY_INIT_KINDS:
                    # Array(dtype, <bytes-like>) holds all the bytes of the source, whatever the shape of the buffer; tobytes / tofile give them back
                    for dt in ('uint8', 'uint12'):
                        arr = Array(dt, make_source(c, cleanup)); bio = io.BytesIO(); arr.tofile(bio)
                        out.setdefault('array_src', []).append([dt, arr.data.bin, list(arr.tobytes()), list(bio.getvalue())])
                out['again'] = list(s.tobytes())      # the source object is unchanged by all of this
                return out
            finally:
                bitstring.options.lsb0 = False
                for fn in cleanup:
                    try: fn()
                    except Exception: pass
        return attempt(f)
    if op == 'arrfile': return run_arrfile(c)
    if op == 'array':
        def f():
            a = Array(f"uint{c['w']}", c['items'], trailing_bits=Bits(bin=c['trail']) if c['trail'] else None)
            bio = io.BytesIO(); a.tofile(bio)
            out = [a.data.bin, list(a.tobytes()), list(bio.getvalue())]
            if c['items'] and (c['w'] * len(c['items'])) % 8 == 0 and not c['trail']:
                fd, path = tempfile.mkstemp(prefix='verif_c17_')
                try:
                    with os.fdopen(fd, 'wb') as fh: a.tofile(fh)
                    b = Array(f"uint{c['w']}")
                    with open(path, 'rb') as fh: b.fromfile(fh)
                    out.append(b.tolist())
                    # fromfile(f, n): exactly the first n items, n = 0 .. len (an Array that already holds items keeps them)
                    part = []
                    for n in sorted({0, 1, len(c['items']) // 2, len(c['items'])}):
                        d = Array(f"uint{c['w']}", c['items'][:1])
                        with open(path, 'rb') as fh: d.fromfile(fh, n)
                        part.append([n, d.tolist()])
                    out.append(part)
                finally: os.unlink(path)
            return out
        return attempt(f)
    if op == 'tofile_chunk':
        import types
        fn0 = bitstring.bits.Bits.tofile
        code = fn0.__code__
        big = [x for x in code.co_consts if isinstance(x, int) and not isinstance(x, bool) and x >= 8 * 1024 * 1024]
        if len(big) != 1: return ('err', 'KeyError')          # the chunk constant is no longer a literal of tofile: the instantiation is impossible
        fn = types.FunctionType(code.replace(co_consts=tuple(c['chunk'] if x is big[0] or x == big[0] and isinstance(x, int) and not isinstance(x, bool) else x for x in code.co_consts)),
                                fn0.__globals__, 'tofile', fn0.__defaults__, fn0.__closure__)
        def f():
            s = build(c['cls'], c['bits'], c['route'])
            bitstring.options.lsb0 = bool(c.get('lsb0'))        # the file is tobytes() whatever the bit numbering
            try:
                sink = io.BytesIO(); fn(s, sink)
                return [list(sink.getvalue()), list(s.tobytes()), s.bin == c['bits']]
            finally:
                bitstring.options.lsb0 = False
        return attempt(f)
    if op == 'chunkconst':
        import ast, inspect
        src = inspect.getsource(bitstring.bits.Bits.tofile)
        tree = ast.parse('class X:\n' + src)
        for node in ast.walk(tree):
            if isinstance(node, ast.Assign) and getattr(node.targets[0], 'id', '') == 'chunk_size':
                return ('ok', eval(compile(ast.Expression(node.value), '<c>', 'eval')))
        return ('err', 'KeyError')
    if op == 'bigfile':
        n = 8 * 100 * 1024 * 1024 + c['extra']
        def f():
            s = bitstring.BitArray(n)
            s.set(1, [0, 7, n // 2, 8 * 100 * 1024 * 1024 - 1, 8 * 100 * 1024 * 1024, n - 1])
            sink = HashSink(); s.tofile(sink)
            ref = hashlib.sha256(s.tobytes()).hexdigest()
            return [sink.n, sink.h.hexdigest() == ref, (n + 7) // 8]
        return attempt(f, 600)

def pad_bytes(bits):
    p = bits + '0' * ((-len(bits)) % 8)
    return [int(p[i:i + 8], 2) for i in range(0, len(p), 8)]

def ref_window(c):
    src = c['src']; T = 8 * len(src)
    allbits = ''.join(format(x, '08b') for x in src)
    off, ln = c['offset'], c['length']
    if (off is not None and off < 0) or (ln is not None and ln < 0): return ('err', 'ValueError')
    o = off or 0
    if ln is None:
        if o > T: return ('err', 'ValueError')
        return ('ok', allbits[o:])
    if o + ln > T: return ('err', 'ValueError')
    return ('ok', allbits[o:o + ln])

def oracle(c, obs):
    op = c['op']
    if op == 'tobytes':
        exp = pad_bytes(c['bits'])
        if obs[0] != 'ok': return f"tobytes/tofile raised {obs}"
        t, b, bio, disk, prop = obs[1]
        if not (t == b == bio == disk == exp): return f"{c['cls']}({c['bits']!r}): tobytes={t[:8]} bytes()={b[:8]} tofile={bio[:8]} disk={disk[:8]} expected {exp[:8]} (lengths {len(t)},{len(b)},{len(bio)},{len(disk)},{len(exp)})"
        if len(c['bits']) % 8 == 0:
            if prop != ['ok', exp]: return f".bytes of whole-byte {c['cls']} gave {prop}"
        elif prop[0] != 'err' or prop[1] != 'ValueError': return f".bytes of {len(c['bits'])} bits should raise InterpretError, got {prop}"
        return None
    if op == 'cutbytes':
        return None if obs == ('ok', pad_bytes(c['bits'])) else f"writing {len(c['bits'])} bits in chunks of {c['chunk']} gives {str(obs)[:120]}, tobytes is {pad_bytes(c['bits'])[:10]}"
    if op == 'window':
        exp = ref_window(c)
        return None if tuple(obs) == exp else f"{c['cls']} from {c['via']} src={c['src'][:6]}({len(c['src'])} bytes) offset={c['offset']} length={c['length']}: got {str(obs)[:100]}, expected {str(exp)[:100]}"
    if op == 'srcser':
        exp = ref_source_window(c); w = c['wrap']
        desc = {k: v for k, v in w.items() if k != 'item'}
        what = f"{c['cls']}({'' if c['how'] == 'pos' else ('bitarray=' if w['kind'] == 'bitarray' else 'filename=' if w['kind'] == 'filename' else 'bytes=')}<{desc} over {len(c['src'])} bytes {bytes(c['src'][:8]).hex()}>, offset={c['offset']}, length={c['length']}){' under lsb0' if c.get('lsb0') else ''}"
        if exp[0] == 'err':
            return None if tuple(obs) == exp else f"{what}: got {str(obs)[:120]}, expected {exp}"
        if obs[0] != 'ok': return f"{what}: got {obs}, expected the {len(exp[1])}-bit window {exp[1][:64]!r}"
        o = obs[1]
        msg = judge_serialised(what, o['main'], exp[1])
        if msg: return msg
        for name, d in o['derived']:
            eb = derived_bits(exp[1], name, c)
            if (d is None) != (eb is None): return f"{what}: derived object {name!r} " + ('was not made' if d is None else 'was made although it does not apply')
            if d is None: continue
            msg = judge_serialised(f"{name!r} (p={c['p']}, q={c['q']}, cls2={c['cls2']}) derived from {what}", d, eb)
            if msg: return msg
        for dt, data, tb, tf in o.get('array_src', []):
            sb = source_bits(c)
            if data != sb or tb != pad_bytes(sb) or tf != pad_bytes(sb):
                return f"Array({dt!r}, <{desc} over {len(c['src'])} bytes {bytes(c['src'][:8]).hex()}>): data {len(data)} bits, tobytes {bytes(tb[:12]).hex()}, tofile {bytes(tf[:12]).hex()}; the source holds {len(sb)} bits {bytes(pad_bytes(sb)[:12]).hex()}"
        if o['again'] != pad_bytes(exp[1]): return f"{what}: tobytes() after deriving {c['derived']} from it gave {bytes(o['again'][:12]).hex()}.."
        return None
    if op == 'arrfile': return oracle_arrfile(c, obs)
    if op == 'array':
        if obs[0] != 'ok': return f"Array {c} raised {obs}"
        data = ''.join(format(x, f"0{c['w']}b") for x in c['items']) + c['trail']
        if obs[1][0] != data: return f"Array data {obs[1][0]!r} != concatenation {data!r}"
        if obs[1][1] != pad_bytes(data) or obs[1][2] != pad_bytes(data): return f"Array.tobytes/tofile differ from padded data"
        if len(obs[1]) > 3 and obs[1][3] != c['items']: return f"Array.fromfile read back {obs[1][3]} != {c['items']}"
        if len(obs[1]) > 4:
            for n, got in obs[1][4]:
                if got != c['items'][:1] + c['items'][:n]: return f"Array('uint{c['w']}', {c['items'][:1]}).fromfile(f, {n}) gave {got}, the file holds {c['items']}"
        return None
    if op == 'tofile_chunk':
        if obs == ('err', 'KeyError'): return "tofile no longer holds its chunk size as a single literal: it cannot be run with a small chunk size (tie broken)"
        b = c['bits']; exp = list(int(b + '0' * (-len(b) % 8), 2).to_bytes((len(b) + 7) // 8, 'big')) if b else []
        if obs[0] != 'ok': return f"tofile (chunk size {c['chunk']}) of {len(b)} bits raised {obs}"
        return None if obs[1][0] == exp and obs[1][1] == exp else f"tofile with chunk size {c['chunk']} wrote {len(obs[1][0])} bytes {obs[1][0][:12]}.. for {len(b)} bits; tobytes() is {len(exp)} bytes {exp[:12]}.."
    if op == 'chunkconst':
        return None if obs[0] == 'ok' and obs[1] > 0 and obs[1] % 8 == 0 else f"tofile chunk size {obs} is not a positive multiple of 8: chunks would be padded in the middle of the file"
    if op == 'bigfile':
        return None if obs[0] == 'ok' and obs[1][1] and obs[1][0] == obs[1][2] else f"tofile across the chunk boundary: {obs}"

def nontrivial(c, obs):
    if c['op'] == 'window': return obs[0] == 'ok' and 0 < len(obs[1]) < 8 * len(c['src'])
    if c['op'] == 'srcser': return obs[0] == 'ok' and 0 < obs[1]['main']['len'] < 8 * len(c['src'])
    if c['op'] == 'arrfile': return bool(c['pre'])
    return len(c.get('bits', 'x')) % 8 != 0 or c['op'] in ('array',)

def classify(c, obs): return None
def cob(x): return copt(x, cz)

def coq_check(c, obs):
    op = c['op']
    if op == 'tobytes' and obs[0] == 'ok':
        return f"zlist_eqb (tobytes {cbits(c['bits'])}) {clist(obs[1][0], cz)} && res_eqb zlist_eqb (bs_getbytes {cbits(c['bits'])}) {cres(tuple(obs[1][4]), lambda l: clist(l, cz))}"
    if op == 'cutbytes':
        return f"res_eqb zlist_eqb (tofile2 {cbits(c['bits'])} {cz(c['chunk'])}) {cres(obs, lambda l: clist(l, cz))}"
    if op == 'window':
        if len(c['src']) > 256: return None          # page-sized sources: implementation against the window oracle only
        L, O = cob(c['length']), cob(c['offset'])
        bits = ''.join(format(x, '08b') for x in c['src'])
        if c['via'] in ('bytes', 'bytearray'): return f"rbits_eqb (setbytes_with_truncation {cbits(bits)} {L} {O}) {cres(obs, cbits)}"
        if c['via'] == 'bytesio': return f"rbits_eqb (setbytesio {clist(c['src'], cz)} {L} {O}) {cres(obs, cbits)}"
        if c['via'] == 'bitarray': return f"rbits_eqb (setbitarray {cbits(bits)} {L} {O}) {cres(obs, cbits)}"
        return f"res_eqb bits_eqb (do s <- setfile {cbits(bits)} {L} {O}; Ok (bits_of s)) {cres(obs, cbits)}"
    if op == 'srcser':
        # the window through the model of the setter that the route reaches, the bytes through the model of tobytes / tofile; other shapes: oracle only
        w = c['wrap']; k = w['kind']
        if c['how'] != 'kw' or len(c['src']) > 64: return None
        L, O = cob(c['length']), cob(c['offset'])
        win = ('ok', obs[1]['main']['bin']) if obs[0] == 'ok' else obs
        if k == 'bitarray': t = f"rbits_eqb (setbitarray {cbits(source_bits(c))} {L} {O}) {cres(win, cbits)}"
        elif k in ('bytes', 'bytearray', 'mv', 'mv_ro', 'mv_rw', 'mv_cast', 'mv_nd', 'mv_slice', 'mv_array', 'array'):
            t = f"rbits_eqb (setbytes_with_truncation {cbits(source_bits(c))} {L} {O}) {cres(win, cbits)}"
        else: return None
        if obs[0] == 'ok':
            m = obs[1]['main']
            t += f" && zlist_eqb (tobytes {cbits(m['bin'])}) {clist(m['tobytes'], cz)} && res_eqb zlist_eqb (bs_getbytes {cbits(m['bin'])}) {cres(tuple(m['prop']), lambda l: clist(l, cz))}"
            if 'tofile_chunked' in m: t += f" && res_eqb zlist_eqb (tofile2 {cbits(m['bin'])} {cz(c['chunk'])}) (Ok {clist(m['tofile_chunked'], cz)})"
        return t
    if op == 'tofile_chunk' and obs[0] == 'ok':
        return f"res_eqb zlist_eqb (tofile2 {cbits(c['bits'])} {cz(c['chunk'])}) (Ok {clist(obs[1][0], cz)})"
    if op == 'chunkconst' and obs[0] == 'ok':
        return f"(TOFILE_CHUNK =? {obs[1]})"
    return None

def search(seeds, rng):
    for c in list(seeds) + list(gen_cases(rng, 'quick')):
        try: obs = run_impl(c)
        finally: reset_options()
        msg = oracle(c, obs)
        if msg: return c, obs, msg
    return None
