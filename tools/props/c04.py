"""C04 — value isolation: immutable objects never change, mutable ones never share state."""
from vlib import *
from props.common import *
import io, os, tempfile, copy as _copy

ID = 'C04'
COQ_PROPS = ['Props/C04.v']
COQ_IMPORTS = ['Prims', 'CaseLib', 'BitsCore', 'Heap']
RULE = ('histories of 4..18 steps over a growing pool of objects: create by every constructor form (bin/hex/bytes/bytearray/memoryview/array/iterable/bitarray/bitarray=/dtype keyword/filename/'
        'token string with cache hit or miss/fromstring), derive by cls(other), bits=, .bits=, copy.copy, .copy(), slicing, operators incl. same-object & and |, join, pack, read, cut, split, unpack, '
        '.bits, tobitarray, Array build/slice/copy; then mutate one side (any mutator, or the external bytearray/bitarray/array) and re-read bin/len/hash of every other object. The sharing graph '
        '(which objects hold the same BitStore) is compared with the heap model after every step. Structured histories per class x duplication route of the copy / pickle modules (copy.deepcopy of the object, '
        'of containers and user objects holding it, with a memo, pickle protocols 0-5, copyreg reconstruction): duplicate, derive from both sides, edit both sides, duplicate again (oracle only). '
        'refuse: an object reached by one of 30 constructions and a chain of 0-3 of 69 derivations (slices, operators, cut / split pieces, read / peek / readlist / readto / unpack results, .bits, Dtype build / parse, copies, join, conversions; '
        'contents computed on str) - then every way of writing is attempted on it (all 42 interpretation properties and aliases with fitting / other / falsy values, names carrying a length, len / pos names, delattr, '
        '33 mutating methods and dunders by name, in-place operators, __init__ again, stream methods, 22 mutable derivatives edited in place): an immutable object shows the same class, bits, length, bytes, hash afterwards, '
        'all earlier stages and re-parsed literals keep their bits (oracle only). non-trivial = a history with at least one mutation after a derivation; distinct by history')
ASSUMPTIONS = ['object identity is observed through id(o._bitstore) in the harness process only to compare sharing graphs; the verdict is behavioural',
               'Array.data is the live buffer by documented design and is not a violation']
COQ_PRELUDE = '''
Definition rep_of (h : heap) (o : nat) : nat :=
  let sid := osid (get_obj h o) in
  match find (fun i => Nat.eqb (osid (get_obj h i)) sid) (seq 0 (List.length (objects h))) with Some i => i | None => o end.
Definition reps (h : heap) : list nat := map (rep_of h) (seq 0 (List.length (objects h))).
Definition natlist_eqb := list_eqb Nat.eqb.
Definition values (h : heap) : list bits := map (value h) (seq 0 (List.length (objects h))).
'''

CREATE = ['bin', 'hex', 'bytes', 'bytearray', 'memoryview', 'memoryview_ro', 'memoryview_slice_ro', 'bytes_kw_bytearray', 'bytes_kw_memoryview_ro', 'array', 'iter',
          'bitarray', 'bitarray_kw', 'bitarray_little', 'uint', 'file', 'str', 'fromstring',
          'kw_int', 'kw_uintle', 'kw_intne', 'kw_float', 'kw_ue', 'kw_sie', 'kw_oct', 'kw_bool',
          'set_uint', 'set_intle', 'set_uie', 'set_se', 'set_hex', 'set_float', 'set_bytes', 'pack_uintle', 'pack_ue', 'build_uint', 'build_uie']
EXTERNAL = {'bytearray', 'memoryview', 'memoryview_ro', 'memoryview_slice_ro', 'bytes_kw_bytearray', 'bytes_kw_memoryview_ro', 'array', 'bitarray', 'bitarray_kw', 'bitarray_little'}
DERIVE = ['construct', 'bits_kw', 'copycopy', 'dotcopy', 'slice', 'add', 'invert', 'mul', 'and', 'andself', 'orself', 'xor', 'lshift', 'join', 'pack', 'readbits',
          'cut', 'split', 'unpack', 'dotbits', 'underscore_copy', 'radd_str', 'lshift_all', 'rshift_all', 'radd_lit_empty', 'add_empty', 'radd_empty', 'radd_lit_short', 'radd_lit_short', 'radd_lit_long', 'add_lit']
MUTATE = ['append', 'prepend', 'invert_all', 'set0', 'clear', 'reverse', 'overwrite', 'insert', 'imul', 'setitem', 'ilshift', 'del', 'replace', 'byteswap', 'bits_assign',
          'clear', 'append_obj', 'prepend_obj', 'iadd_obj', 'insert_obj', 'overwrite_obj', 'clear_then_prepend_obj', 'clear_then_append_obj']
MUT_FN = {  # the same mutation on the str model / as a Coq function on bits
    'append': (lambda d: d + '1', 'fun b => b ++ [true]'),
    'prepend': (lambda d: '0' + d, 'fun b => false :: b'),
    'invert_all': (lambda d: ''.join('1' if c == '0' else '0' for c in d), 'map negb'),
    'clear': (lambda d: '', 'fun _ => []'),
    'reverse': (lambda d: d[::-1], '@rev bool'),
}

# duplicates made by the copy and pickle modules - of the object itself, of built-in containers and user objects (with and without __slots__) holding it, with an
# explicit memo, twice in one container, next to another object, a duplicate of a duplicate, every pickle protocol. "however one was derived from the other (copy)":
# the duplicate of a mutable object (and a mutable object later built from the duplicate of an immutable one) owns its bits.
DEEP_DERIVE = ['deepcopy', 'deepcopy_memo', 'deepcopy_list', 'deepcopy_tuple', 'deepcopy_dict', 'deepcopy_dictkey', 'deepcopy_set', 'deepcopy_nested', 'deepcopy_pair', 'deepcopy_with_other',
               'deepcopy_namespace', 'deepcopy_holder', 'deepcopy_slots_holder', 'deepcopy_shallow_holder', 'deepcopy_twice', 'deepcopy_of_copy', 'deepcopy_method',
               'pickle_0', 'pickle_1', 'pickle_2', 'pickle_3', 'pickle_4', 'pickle_5', 'pickle_default', 'pickle_list', 'pickle_dict', 'pickle_holder', 'pickle_with_other', 'pickle_twice',
               'pickle_then_deepcopy', 'reduce_ex']

class _Holder:
    def __init__(self, payload): self.payload = payload

class _SlotHolder:
    __slots__ = ('payload', 'more')
    def __init__(self, payload): self.payload = payload; self.more = {'again': payload}

def deep_derive(how, s, other):
    """the duplicate of s by route `how` (other: another object of the pool, for the containers that hold two)"""
    import pickle
    dc = _copy.deepcopy
    def pk(x, proto=None):
        try: return pickle.loads(pickle.dumps(x, proto))
        except (TypeError, pickle.PicklingError):
            if proto in (0, 1): return pickle.loads(pickle.dumps(x, 2))       # protocols 0 and 1 refuse every class with __slots__ and no __getstate__ (Python's rule): not a route
            raise
    if how == 'deepcopy': return dc(s)
    if how == 'deepcopy_memo': return dc(s, {})
    if how == 'deepcopy_list': return dc([s])[0]
    if how == 'deepcopy_tuple': return dc((1, s))[1]
    if how == 'deepcopy_dict': return dc({'k': s})['k']
    if how == 'deepcopy_dictkey':
        try: return list(dc({s: 1}))[0]
        except TypeError: return dc({'k': [s]})['k'][0]                          # mutable bitstrings are not hashable
    if how == 'deepcopy_set':
        try: return list(dc(frozenset([s])))[0]
        except TypeError: return dc([(s,)])[0][0]
    if how == 'deepcopy_nested': return dc([[s], {'a': (s, [other])}])[1]['a'][0]
    if how == 'deepcopy_pair': return dc([s, s])[1]
    if how == 'deepcopy_with_other': return dc([other, s, other])[1]
    if how == 'deepcopy_namespace':
        import types
        return dc(types.SimpleNamespace(p=s, q=other)).p
    if how == 'deepcopy_holder': return dc(_Holder(s)).payload
    if how == 'deepcopy_slots_holder': return dc(_SlotHolder(s)).more['again']
    if how == 'deepcopy_shallow_holder': return dc(_copy.copy(_Holder(s))).payload
    if how == 'deepcopy_twice': return dc(dc(s))
    if how == 'deepcopy_of_copy': return dc(_copy.copy(s))
    if how == 'deepcopy_method':
        f = getattr(s, '__deepcopy__', None)
        return f({}) if f is not None else dc(s)
    if how.startswith('pickle_') and how[7:].isdigit(): return pk(s, int(how[7:]))
    if how == 'pickle_default': return pk(s)
    if how == 'pickle_list': return pk([s, s])[1]
    if how == 'pickle_dict': return pk({'k': (s,)})['k'][0]
    if how == 'pickle_holder': return pk(_Holder(s)).payload
    if how == 'pickle_with_other': return pk([other, {'s': s}])[1]['s']
    if how == 'pickle_twice': return pk(pk(s, 2), 5)
    if how == 'pickle_then_deepcopy': return dc(pk(s))
    if how == 'reduce_ex':
        # what copy.copy falls back to for a class without __copy__, applied by hand to a deep copy of the state: copyreg's reconstruction protocol
        rec = getattr(_copy, '_reconstruct', None)
        return rec(s, {}, *s.__reduce_ex__(4)) if rec is not None else dc(s)
    raise AssertionError(how)

def deep_histories(rng, tier):
    """one history per class x duplication route: create, (edit / derive), duplicate, derive from the duplicate and from the original, edit every side, duplicate again, edit again"""
    plain = ['construct', 'bits_kw', 'copycopy', 'dotcopy', 'slice', 'dotbits', 'add_empty', 'underscore_copy']
    for rep in range(1 if tier == 'quick' else 12):
        for cls in CLASSES:
            for how in DEEP_DERIVE:
                steps = []
                n = rng.choice([8, 16, 24, 32])
                chow = rng.choice(CREATE)
                if rng.random() < 0.08: n, chow = 0, 'bin'
                steps.append({'op': 'create', 'how': chow, 'cls': cls, 'bits': rand_bits(rng, n), 'reuse': False})
                nobj = 1
                if rng.random() < 0.3: steps.append({'op': 'mutate', 'how': rng.choice(MUTATE), 'target': 0, 'other': 0})
                if rng.random() < 0.3:
                    steps.append({'op': 'derive', 'how': rng.choice(plain), 'cls': rng.choice(CLASSES), 'src': 0}); nobj += 1
                steps.append({'op': 'derive', 'how': how, 'cls': cls, 'src': 0, 'other': rng.randrange(nobj)}); dup = nobj; nobj += 1
                # a mutable and an immutable object built from the duplicate, one from the original
                steps.append({'op': 'derive', 'how': rng.choice(plain), 'cls': rng.choice(MUTABLE), 'src': dup}); nobj += 1
                steps.append({'op': 'derive', 'how': rng.choice(plain), 'cls': rng.choice(['Bits', 'ConstBitStream']), 'src': dup}); nobj += 1
                steps.append({'op': 'derive', 'how': rng.choice(plain), 'cls': rng.choice(CLASSES), 'src': 0}); nobj += 1
                order = [dup, 0] if rng.random() < 0.5 else [0, dup]
                for t_ in order + [rng.randrange(nobj) for _ in range(rng.randrange(1, 4))]:
                    steps.append({'op': 'mutate', 'how': rng.choice(MUTATE), 'target': t_, 'other': rng.randrange(nobj)})
                src2 = rng.choice([0, dup, rng.randrange(nobj)])
                steps.append({'op': 'derive', 'how': rng.choice(DEEP_DERIVE), 'cls': cls, 'src': src2, 'other': rng.randrange(nobj)}); dup2 = nobj; nobj += 1
                for t_ in [dup2, src2] + [rng.randrange(nobj) for _ in range(rng.randrange(0, 3))]:
                    steps.append({'op': 'mutate', 'how': rng.choice(MUTATE), 'target': t_, 'other': rng.randrange(nobj)})
                if rng.random() < 0.3: steps.append({'op': 'mutate_external', 'target': rng.randrange(nobj)})
                yield {'op': 'history', 'steps': steps, 'lsb0': rng.random() < 0.2}

# ---------------------------------------------------------------------------------------------------------------------------------------------
# "Immutable classes expose no operation that alters their own content" / "the value of a Bits or ConstBitStream object never changes after
# creation": op 'refuse'. An object is obtained by a base construction followed by a chain of 0-3 derivations (every operator, slice form, cut / split
# piece, read / peek / readlist / readto / unpack result, .bits, Dtype build / parse, every kind of copy, join, class conversion, pack ...); the content
# of every stage is computed by the generator on plain str. Then EVERY way of writing to an object is attempted on the last stage: assignment to each
# interpretation property and alias (values that fit the current length, values of another length, falsy values), to names that carry a length, to
# len / length / pos / bitpos / bytepos, deletion of attributes, each mutating method and in-place operator of the mutable classes called by name,
# __init__ called again, the position-moving stream methods, a bitarray / mutable bitstring obtained from it and edited. Whatever an attempt does
# (raise or return), an object of an immutable class shows the same class, bits, length, bytes and hash afterwards; for every class the earlier stages,
# the objects it was derived from and a bitstring parsed again from the literal used keep their bits.
# ---------------------------------------------------------------------------------------------------------------------------------------------
REG_NAMES = ['uint', 'uintle', 'uintbe', 'int', 'intle', 'intbe', 'hex', 'bin', 'oct', 'float', 'floatle', 'bfloat', 'bfloatle', 'bits', 'bool', 'bytes', 'se', 'ue', 'sie', 'uie',
             'pad', 'p3binary', 'p4binary', 'e4m3mxfp', 'e5m2mxfp', 'e3m2mxfp', 'e2m3mxfp', 'e2m1mxfp', 'e8m0mxfp', 'mxint', 'floatbe', 'bfloatbe', 'i', 'u', 'h', 'o', 'b', 'f',
             'uintne', 'intne', 'floatne', 'bfloatne']
OTHER_NAMES = ['len', 'length', 'pos', 'bitpos', 'bytepos']
SIZED_BASES = ['uint', 'u', 'int', 'i', 'hex', 'h', 'bin', 'b', 'oct', 'o', 'bits', 'bytes', 'float', 'f', 'floatle', 'floatne', 'bfloat', 'bool', 'uintle', 'uintbe', 'uintne', 'intle', 'intbe', 'intne',
               'pad', 'e4m3mxfp', 'e2m1mxfp', 'p3binary', 'mxint']
_UINTS = ('uint', 'u', 'uintbe', 'uintle', 'uintne'); _INTS = ('int', 'i', 'intbe', 'intle', 'intne')
_FLOATS = ('float', 'f', 'floatbe', 'floatle', 'floatne', 'bfloat', 'bfloatbe', 'bfloatle', 'bfloatne', 'p3binary', 'p4binary', 'e4m3mxfp', 'e5m2mxfp', 'e3m2mxfp', 'e2m3mxfp', 'e2m1mxfp', 'e8m0mxfp', 'mxint')

def _flipbits(d): return ''.join('1' if ch == '0' else '0' for ch in d)

def setter_values(rng, base, e):
    """JSON-able values for an assignment to the property `base` of an object holding the bits e: first one that the setter of a mutable object of this length
    would take and that gives other bits (the complement of e) where the dtype has such a value, then values of other lengths / falsy values"""
    n = len(e); t = _flipbits(e) if n else '1011'
    u = int(t, 2)
    if base in _UINTS: return [u, 0, rng.randrange(1 << max(n, 1))]
    if base in _INTS: return [u - (1 << len(t)) if t[0] == '1' else u, 0, -1]
    if base in ('hex', 'h'): return [format(u, f'0{(len(t) + 3) // 4}x'), '', '0xa5']
    if base in ('bin', 'b'): return [t, '', '0b' + t + '1']
    if base in ('oct', 'o'): return [format(u, f'0{(len(t) + 2) // 3}o'), '', '7']
    if base in _FLOATS: return [rng.choice([1.5, -2.0, 0.25]), 0.0, -0.0, rng.choice([1.0, 3.0, -0.5])]
    if base == 'bytes': return [['bytes', format(u, f'0{2 * ((len(t) + 7) // 8)}x')], ['bytes', ''], ['bytes', 'a55a']]
    if base == 'bits': return [['bits', rng.choice(CLASSES), t], '0b' + t, '', ['bits', rng.choice(CLASSES), '']]
    if base == 'bool': return [e != '1', False, True, 0]
    if base in ('ue', 'uie'): return [rng.choice([0, 1, 2, 5, 30]), 0]
    if base in ('se', 'sie'): return [rng.choice([-3, -1, 1, 4]), 0]
    if base == 'pad': return [None, 0]
    if base in ('len', 'length'): return [n + 1, 0, max(n - 1, 0)]
    if base in ('pos', 'bitpos'): return [0, n, n // 2, n + 1, -1]
    if base == 'bytepos': return [0, n // 8, n // 8 + 1]
    raise AssertionError(base)

MUTATING_CALLS = [  # (method of the mutable classes or a dunder, argument lists); 'X' stands for a bitstring literal of other bits, 'ONES' for as many one bits as the object has
    ('append', [['X']]), ('prepend', [['X']]), ('insert', [['X', 0], ['X']]), ('overwrite', [['X', 0], ['X']]), ('invert', [[], [0]]), ('set', [[1], [0, 0], [1, [0, -1]]]),
    ('clear', [[]]), ('reverse', [[]]), ('rol', [[1]]), ('ror', [[1]]), ('replace', [['0b1', '0b00'], ['0b0', 'X']]), ('byteswap', [[], [1]]),
    ('__setitem__', [[0, 1], [-1, 0], [['slice', 0, 2], 'X'], [['slice', None, None], 'X']]), ('__delitem__', [[0], [['slice', 0, 1]], [['slice', None, None]]]),
    ('__iadd__', [['X']]), ('__imul__', [[2], [0]]), ('__ilshift__', [[1]]), ('__irshift__', [[1]]), ('__iand__', [['ZEROS']]), ('__ior__', [['ONES']]), ('__ixor__', [['ONES']]),
    ('__setattr__', [['hex', 'a5'], ['bin', '1'], ['uint', 1], ['_pos', 0]]), ('__delattr__', [['hex'], ['bin']]),
    ('__init__', [['X'], [], [3]]), ('__init_kw__', [['bin'], ['hex'], ['bytes'], ['uint']]), ('fromstring', [['X']]),
    # stream methods: the position may move, the bits may not
    ('read', [[1], ['bits:1'], ['bin']]), ('peek', [[1]]), ('readlist', [['bits:1, bin']]), ('peeklist', [['bits:1']]), ('bytealign', [[]]), ('readto', [['0b1']]), ('find', [['0b1'], ['0b0']]), ('rfind', [['0b1']]),
]
INPLACE_OPERATORS = ['iadd', 'imul', 'ilshift', 'irshift', 'iand', 'ior', 'ixor', 'iconcat', 'irepeat']
VIA_MUTABLE = ['tobitarray', 'BitArray(o)', 'BitStream(o)', 'BitArray(bits=o)', 'BitArray()+o', 'o+BitArray()', 'BitStream().append(o)', 'BitArray()+=o', 'BitArray().prepend(o)', 'm.bits=o', 'pack', 'join', 'BitArray(o.copy())',
               'copy.copy->BitStream', 'deepcopy->BitArray', 'Array(bits)', 'BitArray.insert(o)', 'BitArray.overwrite(o)', 'BitArray[:]=o', 'o[:]->BitArray', 'o*1->BitArray', 'BitArray|=o']

def refuse_attempts(rng, e, full):
    """the list of attempts for an object of bits e; full: every name, else a sample"""
    n = len(e)
    A = []
    for name in REG_NAMES + OTHER_NAMES:
        vals = setter_values(rng, name, e)
        picks = [vals[0]] + ([rng.choice(vals[1:])] if len(vals) > 1 and (full or rng.random() < 0.4) else [])
        for v in picks: A.append(['setattr', name, v])
    for base in SIZED_BASES:
        if not full and rng.random() < 0.5: continue
        k = n // 8 if base == 'bytes' else n
        if rng.random() < 0.25: k = rng.choice([1, 4, 8, 16, 32])
        nm = base + (rng.choice(['', ':']) if rng.random() < 0.2 else '') + str(k)
        A.append(['setattr', nm, setter_values(rng, base, e)[0]])
    for name in rng.sample(REG_NAMES, 4) + ['hex8', 'pos', 'len', 'nosuchattribute']:
        A.append(['delattr', name, None])
    A.append(['setattr', 'nosuchattribute', 1])
    for meth, arglists in MUTATING_CALLS:
        for args in (arglists if full else [rng.choice(arglists)]):
            A.append(['call', meth, args])
    for opn in INPLACE_OPERATORS:
        A.append(['iop', opn, rng.choice([2, 1, 0]) if opn in ('imul', 'ilshift', 'irshift', 'irepeat') else ('X' if opn in ('iadd', 'iconcat') else 'ONES')])
    for how in (VIA_MUTABLE if full else rng.sample(VIA_MUTABLE, 8)):
        A.append(['via_mutable', how, None])
    rng.shuffle(A)
    return A

BASES = ROUTES + ['hex', 'fromstring', 'uint_kw', 'from_cls', 'bits_kw', 'zeros', 'noarg', 'bytes_kw', 'bytearray', 'memoryview', 'array', 'multi_token', 'cachehit', 'packed', 'literal_hex', 'int_kw']
STREAM_DERIVS = ['read_int', 'read_str', 'read_dtype', 'read_rest', 'peek_int', 'peek_str', 'readlist', 'readlist_ints', 'peeklist', 'readto']
DERIVS = ['slice', 'slice_full', 'slice_step', 'slice_neg', 'add_self', 'add_lit', 'add_long_lit', 'radd_lit', 'radd_bytes', 'radd_list', 'add_empty', 'add_emptystr', 'empty_add', 'radd_emptystr',
          'add_cls', 'cls_add', 'cls_empty_add', 'invert', 'and_ones', 'or_zeros', 'xor_zeros', 'and_self', 'or_self', 'xor_ones', 'rand_lit', 'ror_lit', 'rxor_lit', 'lshift', 'rshift', 'mul', 'rmul',
          'cut', 'split', 'unpack', 'unpack_all', 'unpack_ints', 'dotbits', 'dotbits_sized', 'build', 'build_sized', 'parse', 'copy', 'copycopy', 'deepcopy', 'pickle', 'underscore_copy',
          'join_single', 'join_sep', 'join_two', 'cls_join', 'to_cls', 'bits_kw', 'from_tobitarray', 'via_bytes', 'pack_bits', 'pack_sized', 'array_item', 'iadd_result', 'imul_result'] + STREAM_DERIVS
CLASS_KEEPING = [d for d in DERIVS if d not in ('cls_add', 'cls_empty_add', 'cls_join', 'to_cls', 'bits_kw', 'from_tobitarray', 'via_bytes', 'pack_bits', 'pack_sized', 'array_item', 'build', 'build_sized', 'parse')]

def _split_ref(e, d):
    pos = []; i = e.find(d)
    while i != -1: pos.append(i); i = e.find(d, i + 1)
    if not pos: return [e]
    return [e[:pos[0]]] + [e[a:b] for a, b in zip(pos, pos[1:] + [len(e)])]

def deriv_args(rng, name, e):
    """arguments (a JSON-able dict) of derivation `name` for an object holding e together with the bits of the result, or None when the derivation does not apply to e.
    The result is computed here, on str, from what the documentation says the operation gives"""
    n = len(e)
    y = rand_bits(rng, rng.randrange(1, 10), 'rand')
    O = rng.choice(CLASSES)
    if name == 'slice':
        a, b = sorted([rng.randrange(n + 1), rng.randrange(n + 1)])
        if rng.random() < 0.5 and n: a, b = rng.choice([(0, n), (0, n - 1), (1, n), (n // 2, n), (0, n // 2 + 1)])
        return {'a': a, 'b': b}, e[a:b]
    if name == 'slice_full': return {}, e
    if name == 'slice_step':
        st = rng.choice([2, 3, -1, -2, 1]); return {'step': st}, e[::st]
    if name == 'slice_neg':
        if not n: return None
        k = rng.randrange(1, n + 1); return {'k': k}, e[-k:]
    if name == 'add_self': return {}, e + e
    if name == 'add_lit': return {'y': y}, e + y
    if name == 'add_long_lit':
        y = rand_bits(rng, n + rng.randrange(1, 10), 'rand'); return {'y': y}, e + y
    if name == 'radd_lit': return {'y': y}, y + e
    if name == 'radd_bytes':
        v = rng.randrange(256); return {'v': v}, format(v, '08b') + e
    if name == 'radd_list': return {'y': y}, y + e
    if name in ('add_empty', 'add_emptystr', 'empty_add', 'radd_emptystr'): return {}, e
    if name == 'add_cls': return {'O': O, 'y': rng.choice([y, '', rand_bits(rng, n + 3, 'rand')])}, None
    if name == 'cls_add': return {'O': O, 'y': rng.choice([y, rand_bits(rng, n + 3, 'rand')])}, None
    if name == 'cls_empty_add': return {'O': O}, e
    if name in ('invert', 'xor_ones', 'rxor_lit'): return ({}, _flipbits(e)) if n else None
    if name in ('and_ones', 'or_zeros', 'xor_zeros', 'and_self', 'or_self', 'rand_lit', 'ror_lit'): return ({}, e) if n else None
    if name in ('lshift', 'rshift'):
        if not n: return None
        k = rng.choice([0, 1, n - 1, n, n + 2, rng.randrange(n + 1)]); kk = min(k, n)
        return {'k': k}, (e[kk:] + '0' * kk if name == 'lshift' else '0' * kk + e[:n - kk])
    if name in ('mul', 'rmul', 'imul_result'):
        k = rng.choice([0, 1, 2, 3]); return {'k': k}, e * k
    if name == 'iadd_result': return {'y': y}, e + y
    if name == 'cut':
        if not n: return None
        k = rng.choice([1, 3, 8, n, n + 1, max(1, n // 2)]); pieces = [e[i:i + k] for i in range(0, n, k)]
        j = rng.randrange(len(pieces)); return {'k': k, 'j': j}, pieces[j]
    if name == 'split':
        d = rng.choice(['1', '0', '10', '01']); pieces = _split_ref(e, d)
        j = rng.randrange(len(pieces)); return {'d': d, 'j': j}, pieces[j]
    if name in ('unpack', 'unpack_ints'):
        k = rng.randrange(n + 1); j = rng.randrange(2); return {'k': k, 'j': j}, (e[:k], e[k:])[j]
    if name in ('unpack_all', 'dotbits', 'build', 'copy', 'copycopy', 'deepcopy', 'pickle', 'underscore_copy', 'join_single', 'from_tobitarray', 'via_bytes', 'pack_bits'): return {'O': O}, e
    if name in ('dotbits_sized', 'build_sized', 'parse', 'pack_sized', 'array_item'): return ({'O': O}, e) if n else None
    if name == 'join_sep':
        y2 = rand_bits(rng, rng.randrange(0, 5), 'rand'); return {'y': y, 'y2': y2}, y + e + y2
    if name == 'join_two': return {}, e + e
    if name == 'cls_join': return {'O': O, 'y': y}, e + y
    if name in ('to_cls', 'bits_kw'): return {'O': O}, e
    if name in STREAM_DERIVS:
        p = rng.choice([0, 0, rng.randrange(n + 1)]); k = rng.randrange(n - p + 1)
        if name in ('read_int', 'read_str', 'read_dtype', 'peek_int', 'peek_str'): return {'p': p, 'k': k}, e[p:p + k]
        if name == 'read_rest': return {'p': p}, e[p:]
        if name in ('readlist', 'peeklist'):
            j = rng.randrange(2); return {'p': p, 'k': k, 'j': j}, (e[p:p + k], e[p + k:])[j]
        if name == 'readlist_ints':
            k2 = rng.randrange(n - p - k + 1); j = rng.randrange(2); return {'p': p, 'k': k, 'k2': k2, 'j': j}, (e[p:p + k], e[p + k:p + k + k2])[j]
        if name == 'readto':
            d = rng.choice(['1', '0', '10', '11'])
            i = e.find(d, p)
            if i < 0: return None
            return {'p': p, 'd': d}, e[p:i + len(d)]
    raise AssertionError(name)

def _fix_expected(name, a, e):
    if name == 'add_cls': return e + a['y']
    if name == 'cls_add': return a['y'] + e
    return None

def apply_deriv(name, x, a, rel):
    """derivation `name` carried out on the implementation; rel collects the other objects involved"""
    import bitstring, pickle
    from bitstring import Bits, BitArray, ConstBitStream, BitStream, Dtype, pack
    n = len(x); T = type(x); O = cls_of(a['O']) if 'O' in a else None
    lit = lambda y: '0b' + y if y else ''
    if name == 'slice': return x[a['a']:a['b']]
    if name == 'slice_full': return x[:]
    if name == 'slice_step': return x[::a['step']]
    if name == 'slice_neg': return x[-a['k']:]
    if name == 'add_self': return x + x
    if name in ('add_lit', 'add_long_lit'): return x + lit(a['y'])
    if name == 'radd_lit': return lit(a['y']) + x
    if name == 'radd_bytes': return bytes([a['v']]) + x
    if name == 'radd_list': return [int(ch) for ch in a['y']] + x
    if name == 'add_empty': return x + T()
    if name == 'add_emptystr': return x + ''
    if name == 'empty_add': return T() + x
    if name == 'radd_emptystr': return '' + x
    if name == 'add_cls':
        o = O(bin=a['y']); rel.append([o, a['y']]); return x + o
    if name == 'cls_add':
        o = O(bin=a['y']); rel.append([o, a['y']]); return o + x
    if name == 'cls_empty_add': return O() + x
    if name == 'invert': return ~x
    if name == 'and_ones': return x & Bits(bin='1' * n)
    if name == 'or_zeros': return x | Bits(n)
    if name == 'xor_zeros': return x ^ ('0b' + '0' * n)
    if name == 'xor_ones': return x ^ BitArray(bin='1' * n)
    if name == 'and_self': return x & x
    if name == 'or_self': return x | x
    if name == 'rand_lit': return ('0b' + '1' * n) & x
    if name == 'ror_lit': return ('0b' + '0' * n) | x
    if name == 'rxor_lit': return ('0b' + '1' * n) ^ x
    if name == 'lshift': return x << a['k']
    if name == 'rshift': return x >> a['k']
    if name == 'mul': return x * a['k']
    if name == 'rmul': return a['k'] * x
    if name == 'imul_result':
        z = x[:] if isinstance(x, BitArray) else x
        z *= a['k']; return z
    if name == 'iadd_result':
        z = x[:] if isinstance(x, BitArray) else x
        z += lit(a['y']); return z
    if name == 'cut': return list(x.cut(a['k']))[a['j']]
    if name == 'split': return list(x.split('0b' + a['d']))[a['j']]
    if name == 'unpack': return x.unpack(f"bits:{a['k']}, bits")[a['j']]
    if name == 'unpack_ints': return x.unpack([a['k'], 'bits'])[a['j']]
    if name == 'unpack_all': return x.unpack('bits')[0]
    if name == 'dotbits': return x.bits
    if name == 'dotbits_sized': return getattr(x, f'bits{n}')
    if name == 'build': return Dtype('bits').build(x)
    if name == 'build_sized': return Dtype('bits', n).build(x)
    if name == 'parse': return Dtype('bits', n).parse(x)
    if name == 'copy': return x.copy()
    if name == 'copycopy': return _copy.copy(x)
    if name == 'deepcopy': return _copy.deepcopy(x)
    if name == 'pickle': return pickle.loads(pickle.dumps(x, 2 + n % 4))
    if name == 'underscore_copy': return x._copy()
    if name == 'join_single': return T().join([x])
    if name == 'join_sep': return x.join([lit(a['y']), lit(a['y2'])])
    if name == 'join_two': return T().join([x, x])
    if name == 'cls_join': return O().join([x, lit(a['y'])])
    if name == 'to_cls': return O(x)
    if name == 'bits_kw': return O(bits=x)
    if name == 'from_tobitarray': return O(x.tobitarray())
    if name == 'via_bytes': return O(bytes=x.tobytes(), length=n)
    if name == 'pack_bits': return pack('bits', x)
    if name == 'pack_sized': return pack(f'bits:{n}', x)
    if name == 'array_item': return bitstring.Array(f'bits{n}', [x])[0]
    if name in STREAM_DERIVS:
        st = x if isinstance(x, ConstBitStream) else (BitStream(x) if isinstance(x, BitArray) else ConstBitStream(x))
        if st is not x: rel.append([st, None])
        st.pos = a['p']; k = a.get('k')
        if name == 'read_int': return st.read(k)
        if name == 'read_str': return st.read(f'bits:{k}')
        if name == 'read_dtype': return st.read(Dtype('bits', k))
        if name == 'read_rest': return st.read('bits')
        if name == 'peek_int': return st.peek(k)
        if name == 'peek_str': return st.peek(f'bits{k}')
        if name == 'readlist': return st.readlist(f'bits:{k}, bits')[a['j']]
        if name == 'readlist_ints': return st.readlist([k, a['k2']])[a['j']]
        if name == 'peeklist': return st.peeklist([f'bits:{k}', 'bits'])[a['j']]
        if name == 'readto': return st.readto('0b' + a['d'])
    raise AssertionError(name)

def base_object(C, how, e, a, rel, tmp, lits):
    import bitstring, array
    n = len(e)
    if how in ROUTES: return build(C.__name__, e, how)
    raw = int(e, 2).to_bytes(n // 8, 'big') if n and n % 8 == 0 else b''
    if how == 'hex': return C(hex=format(int(e, 2), f'0{n // 4}x'))
    if how == 'literal_hex':
        s = '0x' + format(int(e, 2), f'0{n // 4}x'); lits.append([s, e]); return C(s)
    if how in ('fromstring', 'cachehit'):
        s = '0b' + e if n else ''
        lits.append([s, e])
        if how == 'cachehit': bitstring.Bits(s)
        return C.fromstring(s) if how == 'fromstring' else C(s)
    if how == 'multi_token':
        s = f"0b{e[:n // 2]}, 0b{e[n // 2:]}"; lits.append([s, e]); return C(s)
    if how == 'uint_kw': return C(uint=int(e, 2), length=n)
    if how == 'int_kw': return C(int=int(e, 2) - ((1 << n) if e[0] == '1' else 0), length=n)
    if how in ('from_cls', 'bits_kw'):
        o = cls_of(a['O'])(bin=e); rel.append([o, e])
        return C(o) if how == 'from_cls' else C(bits=o)
    if how == 'zeros': return C(n)
    if how == 'noarg': return C()
    if how == 'bytes_kw': return C(bytes=raw)
    if how == 'bytearray': return C(bytearray(raw))
    if how == 'memoryview': return C(memoryview(raw))
    if how == 'array': return C(array.array('B', raw))
    if how == 'packed': return C(bitstring.pack('bin', e))
    raise AssertionError(how)

def base_applies(how, n):
    if how in ('hex', 'literal_hex'): return n > 0 and n % 4 == 0
    if how in ('uint_kw', 'int_kw', 'packed'): return n > 0
    if how in ('bytes_kw', 'bytearray', 'memoryview', 'array'): return n % 8 == 0
    if how == 'multi_token': return n >= 2
    if how == 'noarg': return n == 0
    return True

def refuse_case(rng, C, base, chain_names, n, lsb0, full, fresh=False):
    e = rand_bits(rng, n)
    if base == 'zeros': e = '0' * n
    if base == 'noarg': e = ''
    if not base_applies(base, len(e)): base = 'bin'
    stages = [{'d': 'base:' + base, 'a': {'O': rng.choice(CLASSES)}, 'exp': e}]
    for name in chain_names:
        r = None
        for _ in range(4):
            r = deriv_args(rng, name, e)
            if r is not None: break
        if r is None: continue
        a, e2 = r
        if e2 is None: e2 = _fix_expected(name, a, e)
        stages.append({'d': name, 'a': a, 'exp': e2}); e = e2
    A = refuse_attempts(rng, e, full)
    if fresh: A = A[:14]
    return {'op': 'refuse', 'cls': C, 'stages': stages, 'attempts': A, 'lsb0': lsb0, 'fresh': fresh, 'xbits': rand_bits(rng, rng.choice([1, 3, 8]), 'rand')}

def refuse_cases(rng, tier):
    lens = [1, 2, 7, 8, 9, 12, 16, 17, 24, 31, 32, 33, 40, 64, 65]
    def mode(): return rng.choice([0, 0, 0, 1, 2])
    imm = ['Bits', 'ConstBitStream']
    reps = 1 if tier == 'quick' else 10
    for rep in range(reps):
        # every derivation as the last step, for both immutable classes, after a class-keeping prefix of 0-2 derivations
        for d in DERIVS:
            for C in imm:
                pre = [rng.choice(CLASS_KEEPING) for _ in range(rng.choice([0, 0, 1, 2]))]
                yield refuse_case(rng, C, rng.choice(BASES), pre + [d], rng.choice(lens), mode(), full=(tier == 'thorough' or rng.random() < 0.3), fresh=rng.random() < 0.15)
        # every base construction, no derivation
        for b in BASES:
            for C in imm:
                yield refuse_case(rng, C, b, [], rng.choice(lens + [0, 128]), mode(), full=rng.random() < 0.5, fresh=rng.random() < 0.15)
        # free chains from any class (the classes change along the chain: conversions, operands of other classes, reads from a stream over a mutable object)
        for _ in range(40 if tier == 'quick' else 150):
            yield refuse_case(rng, rng.choice(CLASSES), rng.choice(BASES), [rng.choice(DERIVS) for _ in range(rng.randrange(1, 4))], rng.choice(lens + [0, 128, 129]), mode(), full=rng.random() < 0.3,
                              fresh=rng.random() < 0.15)

def _snap(o, deep=True):
    import bitstring
    r = [type(o).__name__, o.bin, len(o)]
    if deep:
        r.append(o.tobytes().hex())
        r.append(''.join('1' if bit else '0' for bit in o) if not bitstring.options.lsb0 else None)     # bit by bit (index order is the order of bin under msb0 only)
        r.append(hash(o) if not isinstance(o, bitstring.BitArray) else None)
    return r

def _decode(v, e, xbits):
    import bitstring
    if v == 'X': return '0b' + xbits
    if v == 'ONES': return '0b' + '1' * len(e) if e else ''
    if v == 'ZEROS': return '0b' + '0' * len(e) if e else ''
    if isinstance(v, list) and v and v[0] == 'bytes': return bytes.fromhex(v[1])
    if isinstance(v, list) and v and v[0] == 'bits': return cls_of(v[1])(bin=v[2])
    if isinstance(v, list) and v and v[0] == 'slice': return slice(v[1], v[2])
    if isinstance(v, list): return [_decode(x, e, xbits) for x in v]
    return v

def _via_mutable(how, o):
    """a mutable object (or a bitarray) obtained from o, then edited in place"""
    import bitstring
    from bitstring import BitArray, BitStream, pack
    if how == 'tobitarray':
        ba = o.tobitarray(); ba.invert(); ba.append(1); ba[:1] = 0; return
    if how == 'BitArray(o)': m = BitArray(o)
    elif how == 'BitStream(o)': m = BitStream(o)
    elif how == 'BitArray(bits=o)': m = BitArray(bits=o)
    elif how == 'BitArray()+o': m = BitArray() + o
    elif how == 'o+BitArray()':
        m = o + BitArray()
        if not isinstance(m, BitArray): return
    elif how == 'BitStream().append(o)':
        m = BitStream(); m.append(o)
    elif how == 'BitArray()+=o':
        m = BitArray(); m += o
    elif how == 'BitArray().prepend(o)':
        m = BitArray(); m.prepend(o)
    elif how == 'm.bits=o':
        m = BitArray('0b1'); m.bits = o
    elif how == 'pack': m = pack('bits', o)
    elif how == 'join': m = BitArray().join([o])
    elif how == 'BitArray(o.copy())': m = BitArray(o.copy())
    elif how == 'copy.copy->BitStream': m = BitStream(_copy.copy(o))
    elif how == 'deepcopy->BitArray': m = BitArray(_copy.deepcopy(o))
    elif how == 'Array(bits)':
        if not len(o): return
        arr = bitstring.Array(f'bits{len(o)}', [o]); arr.data.invert(); arr.data.append('0b1'); m = arr[0] if len(arr.data) % len(o) == 0 else BitArray(o)
    elif how == 'BitArray.insert(o)':
        m = BitArray(); m.insert(o, 0)
    elif how == 'BitArray.overwrite(o)':
        m = BitArray(len(o)); m.overwrite(o, 0)
    elif how == 'BitArray[:]=o':
        m = BitArray('0b10'); m[:] = o
    elif how == 'o[:]->BitArray': m = BitArray(o[:])
    elif how == 'o*1->BitArray': m = BitArray(o * 1)
    elif how == 'BitArray|=o':
        m = BitArray(len(o))
        if len(o): m |= o
    else: raise AssertionError(how)
    if len(m): m.invert(); m.set(1, 0); m.reverse()
    m.append('0b1'); m.prepend('0b0')
    if len(m) > 2: del m[1]

def run_refuse(c):
    import bitstring, operator
    clear_caches()
    tmp = []
    def construct():
        rel, lits = [], []
        bitstring.options.lsb0 = c['lsb0'] == 2
        st0 = c['stages'][0]
        x = base_object(cls_of(c['cls']), st0['d'][5:], st0['exp'], st0['a'], rel, tmp, lits)
        objs = [x]
        for st in c['stages'][1:]:
            x = apply_deriv(st['d'], x, st['a'], rel); objs.append(x)
        bitstring.options.lsb0 = bool(c['lsb0'])
        return objs, rel, lits
    def one(o, att, e):
        kind_, name, v = att
        x = c['xbits']
        if kind_ == 'setattr': setattr(o, name, _decode(v, e, x)); return
        if kind_ == 'delattr': delattr(o, name); return
        if kind_ == 'call':
            if name == '__init_kw__':
                kw = {'bin': {'bin': x}, 'hex': {'hex': 'a5'}, 'bytes': {'bytes': b'\x5a'}, 'uint': {'uint': 5, 'length': 8}}[v[0]]
                o.__init__(**kw); return
            getattr(o, name)(*_decode(v, e, x)); return
        if kind_ == 'iop':
            getattr(operator, name)(o, _decode(v, e, x)); return
        if kind_ == 'via_mutable': _via_mutable(name, o); return
        raise AssertionError(kind_)
    def f():
        objs, rel, lits = construct()
        target = objs[-1]
        if not isinstance(target, bitstring.Bits): return {'built': [type(target).__name__]}
        e = target.bin
        stages = [[type(o).__name__, o.bin] if isinstance(o, bitstring.Bits) else [type(o).__name__, None] for o in objs]
        snap0 = _snap(target)
        others = [o for o in objs[:-1] if o is not target] + [o for o, _ in rel if o is not target]
        others0 = [_snap(o, False) for o in others]
        res = []
        for att in c['attempts']:
            if c['fresh']:
                # the object written to is newly built and has not been looked at (not even hashed) before; what it should show comes from a twin built the same way
                s0 = _snap(construct()[0][-1])
                tgt = construct()[0][-1]
            else:
                tgt, s0 = target, snap0
            r = attempt(lambda: one(tgt, att, e), 3)
            s1 = _snap(tgt)
            res.append([r[0] if r[0] == 'ok' else r[1], None if s1 == s0 else [s0, s1]])
        mutable = isinstance(target, bitstring.BitArray)
        if mutable:
            # a mutable last stage: the assignments above were edits; some more in place, then everything else is looked at
            attempt(lambda: (target.append('0b1'), target.invert(), target.reverse(), target.set(1, 0)), 3)
        others1 = [_snap(o, False) for o in others]
        rel_exp = [ex for o, ex in rel if o is not target]
        re_parsed = [[s, ex, cls_of('Bits')(s).bin] for s, ex in lits]
        return {'built': 'ok', 'stages': stages, 'snap0': snap0, 'attempts': res, 'others0': others0, 'others1': others1, 'rel_exp': rel_exp, 'reparsed': re_parsed, 'mutable': mutable,
                'n_prev': len([o for o in objs[:-1] if o is not target])}
    try:
        return attempt(f, 60)
    finally:
        for p in tmp:
            try: os.unlink(p)
            except OSError: pass

def _describe_refuse(c):
    return f"{c['cls']} by " + ' -> '.join(st['d'] + (str(st['a']) if st['a'] and not st['d'].startswith('base:') else '') for st in c['stages']) + f" (lsb0 mode {c['lsb0']})"

def oracle_refuse(c, obs):
    what = _describe_refuse(c)
    if obs[0] != 'ok':
        return None if c['lsb0'] == 2 else f"{what}: could not be built / probed: {obs}"
    r = obs[1]
    if r['built'] != 'ok': return f"{what}: the last stage is a {r['built']}, not a bitstring"
    if c['lsb0'] != 2:
        for st, (cl, b) in zip(c['stages'], r['stages']):
            if b is not None and b != st['exp']:
                return f"{what}: stage {st['d']} holds {b!r}, the operation on the bits gives {st['exp']!r}"
    s0 = r['snap0']
    if not r['mutable']:
        for att, (status, diff) in zip(c['attempts'], r['attempts']):
            if diff is not None:
                return (f"an object of the immutable class {s0[0]} obtained as {what} changed: {att[0]} {att[1]!r} {att[2] if att[2] is not None else ''} "
                        f"({'returned normally' if status == 'ok' else 'raised ' + str(status)}) left it as [class, bin, len, bytes, bits, hash] = {diff[1]} , before: {diff[0]}"
                        f"{' (every attempt on a newly built object)' if c['fresh'] else ''}")
    for i, (b, a) in enumerate(zip(r['others0'], r['others1'])):
        if a != b:
            return f"{what}: writing to the last stage ({s0[0]}) changed another object of the history (#{i}, {b[0]}): {b[1]!r} -> {a[1]!r}"
    if c['lsb0'] != 2:
        for (b, ex) in zip(r['others0'][r['n_prev']:], r['rel_exp']):
            if ex is not None and b[1] != ex: return f"{what}: an operand object built with bin={ex!r} reads {b[1]!r}"
    for s, ex, got in r['reparsed']:
        if got != ex: return f"{what}: after the attempts Bits({s!r}) reads {got!r}"
    return None

def gen_cases(rng, tier):
    yield from history_cases(rng, tier)
    yield from refuse_cases(rng, tier)

def history_cases(rng, tier):
    yield from deep_histories(rng, tier)
    N = 220 if tier == 'quick' else 4000
    for _ in range(N):
        steps = []
        nobj = 0
        for i in range(rng.randrange(4, 19)):
            r = rng.random()
            if nobj == 0 or r < 0.3:
                n = rng.choice([8, 16, 24, 32])
                how = rng.choice(CREATE)
                if rng.random() < 0.1: n, how = 0, 'bin'          # an empty object (the empty-operand fast paths)
                prev = [x['bits'] for x in steps if x['op'] == 'create' and x['bits']]
                bits_ = rng.choice(prev) if prev and n and rng.random() < 0.4 else rand_bits(rng, n)
                steps.append({'op': 'create', 'how': how, 'cls': rng.choice(CLASSES), 'bits': bits_, 'reuse': rng.random() < 0.5})
                nobj += 1
            elif r < 0.65:
                steps.append({'op': 'derive', 'how': rng.choice(DERIVE), 'cls': rng.choice(CLASSES), 'src': rng.randrange(nobj)})
                nobj += 1
            elif r < 0.9:
                steps.append({'op': 'mutate', 'how': rng.choice(MUTATE), 'target': rng.randrange(nobj), 'other': rng.randrange(nobj)})
            else:
                ext = [j for j, s_ in enumerate(x for x in steps if x['op'] in ('create', 'derive')) if s_.get('how') in EXTERNAL]
                steps.append({'op': 'mutate_external', 'target': rng.choice(ext) if ext and rng.random() < 0.8 else rng.randrange(nobj)})
        yield {'op': 'history', 'steps': steps, 'lsb0': rng.random() < 0.2}

def kind(c): return c['op']

def run_impl(c):
    if c['op'] == 'refuse': return run_refuse(c)
    import bitstring, bitarray, array
    from bitstring import Bits, BitArray, pack
    clear_caches()
    objs, externals, tmp = [], {}, []
    lits = {}              # object index -> the literal it was parsed from
    bitstring.options.lsb0 = bool(c.get('lsb0'))
    cache_strings = []     # newest first, mirrors the model's cache list
    trace = []
    def snapshot():
        return [[type(o).__name__, o.bin, len(o)] for o in objs]
    def partition():
        first = {}
        out = []
        for i, o in enumerate(objs):
            k = id(o._bitstore)
            first.setdefault(k, i); out.append(first[k])
        return out
    try:
        for st in c['steps']:
            before = snapshot()
            info = {}
            def f():
                op = st['op']
                if op == 'create':
                    C = cls_of(st['cls']); b = st['bits']; how = st['how']; n = len(b)
                    raw = int(b, 2).to_bytes(n // 8, 'big') if n else b''
                    if how == 'bin': o = C(bin=b)
                    elif how == 'hex': o = C(hex=format(int(b, 2), f'0{n // 4}x'))
                    elif how == 'bytes': o = C(bytes=raw)
                    elif how == 'bytearray':
                        e = bytearray(raw); o = C(e); externals[len(objs)] = e
                    elif how == 'memoryview':
                        e = bytearray(raw); o = C(memoryview(e)); externals[len(objs)] = e
                    elif how == 'memoryview_ro':        # a read-only view of a buffer its owner can still change
                        e = bytearray(raw); o = C(memoryview(e).toreadonly()); externals[len(objs)] = e
                    elif how == 'memoryview_slice_ro':
                        e = bytearray(b'\x5a' + raw + b'\xa5'); o = C(memoryview(e)[1:1 + len(raw)].toreadonly()); externals[len(objs)] = e
                    elif how == 'bytes_kw_bytearray':
                        e = bytearray(raw); o = C(bytes=e); externals[len(objs)] = e
                    elif how == 'bytes_kw_memoryview_ro':
                        e = bytearray(raw); o = C(bytes=memoryview(e).toreadonly()); externals[len(objs)] = e
                    elif how == 'bitarray_little':
                        e = bitarray.bitarray(b, endian='little'); o = C(e); externals[len(objs)] = e
                    elif how == 'array':
                        e = array.array('B', raw); o = C(e); externals[len(objs)] = e
                    elif how == 'iter': o = C([int(x) for x in b])
                    elif how == 'bitarray':
                        e = bitarray.bitarray(b); o = C(e); externals[len(objs)] = e
                    elif how == 'bitarray_kw':
                        e = bitarray.bitarray(b); o = C(bitarray=e); externals[len(objs)] = e
                    elif how == 'uint': o = C(uint=int(b, 2), length=n)
                    elif how.split('_')[0] in ('kw', 'set', 'pack', 'build') and how not in ('bytes_kw_bytearray', 'bytes_kw_memoryview_ro', 'bitarray_kw'):
                        # a value of some dtype (derived from the bits) through the keyword, the property setter, pack or Dtype.build:
                        # encoders must hand out a store of their own every time (also when the same value was encoded before)
                        route, name = how.split('_')
                        if c.get('lsb0') and name in ('ue', 'se', 'uie', 'sie'): name = 'uint'      # the exp-Golomb codes are refused under lsb0
                        u = int(b, 2) if n else 0
                        w = max(n, 8)
                        val, length = {'int': (u - (1 << (w - 1)), w), 'uint': (u, w), 'uintle': (u, w), 'intle': (u - (1 << (w - 1)), w), 'intne': (u - (1 << (w - 1)), w),
                                       'float': ((u % 2048) / 8.0, 32), 'ue': (u % 500, None), 'uie': (u % 500, None), 'se': (u % 500 - 250, None), 'sie': (u % 500 - 250, None),
                                       'oct': (format(u, 'o'), None), 'hex': (format(u, 'x'), None), 'bool': (bool(u & 1), None), 'bytes': (raw or b'a', None)}[name]
                        if route == 'kw': o = C(**{name: val}) if length is None else C(**{name: val, 'length': length})
                        elif route == 'set':
                            m = (bitstring.BitStream if st['cls'] in ('ConstBitStream', 'BitStream') else bitstring.BitArray)()
                            setattr(m, name if length is None else f'{name}{length}', val)
                            o = m if st['cls'] in ('BitArray', 'BitStream') else C(m)
                        elif route == 'pack': o = C(pack(name if length is None else f'{name}:{length}', val))
                        else: o = C(bitstring.Dtype(name, length).build(val) if length is not None else bitstring.Dtype(name).build(val))
                    elif how == 'file':
                        fd, path = tempfile.mkstemp(prefix='verif_c04_'); tmp.append(path)
                        with os.fdopen(fd, 'wb') as fh: fh.write(raw)
                        o = C(filename=path)
                    elif how in ('str', 'fromstring'):
                        s = '0b' + b
                        if st['reuse'] and cache_strings: s = cache_strings[0]
                        info['hit'] = cache_strings.index(s) if s in cache_strings else None
                        if s not in cache_strings: cache_strings.insert(0, s)
                        info['sbits'] = s[2:]
                        lits[len(objs)] = s
                        o = C(s) if how == 'str' else C.fromstring(s)
                    objs.append(o); return None
                if op == 'derive':
                    s = objs[st['src']]; C = cls_of(st['cls']); how = st['how']
                    if len(s) == 0 and how in ('invert', 'lshift', 'cut', 'split', 'mul', 'and', 'xor', 'lshift_all', 'rshift_all'): how = 'slice'   # these refuse or skip empty operands
                    if how == 'construct': o = C(s)
                    elif how == 'bits_kw': o = C(bits=s)
                    elif how == 'copycopy': o = _copy.copy(s)
                    elif how == 'dotcopy': o = s.copy()
                    elif how == 'slice': o = s[1:]
                    elif how == 'add': o = s + s
                    elif how == 'invert': o = ~s
                    elif how == 'mul': o = s * 2
                    elif how == 'and': o = s & Bits(len(s))
                    elif how == 'andself': o = s & s
                    elif how == 'orself': o = s | s
                    elif how == 'xor': o = s ^ Bits(len(s))
                    elif how == 'lshift': o = s << 1
                    elif how == 'join': o = C().join([s, s])
                    elif how == 'pack': o = pack('bits', s)
                    elif how == 'readbits': o = bitstring.ConstBitStream(s).read(len(s))
                    elif how == 'cut': o = next(s.cut(len(s)))
                    elif how == 'split': o = list(s.split('0b1', count=1))[0] if '1' in s.bin else s[:]
                    elif how == 'unpack': o = s.unpack('bits')[0]
                    elif how == 'dotbits': o = s.bits
                    elif how == 'underscore_copy': o = s._copy()
                    elif how == 'radd_str': o = '0b1' + s
                    elif how == 'lshift_all': o = s << len(s)                       # shifts everything out
                    elif how == 'rshift_all': o = s >> (len(s) + 3)
                    elif how == 'add_empty': o = s + C()                           # an empty operand on either side
                    elif how == 'radd_empty': o = C() + s
                    elif how == 'radd_lit_empty':
                        lit = lits.get(st['src'])
                        o = (lit + C()) if lit is not None else s[1:]             # a cached literal + an empty mutable/immutable object
                    elif how in ('radd_lit_short', 'radd_lit_long', 'add_lit'):
                        # the literal an object was made from (a string-cache entry) as one operand of +, the other operand shorter / longer than it
                        lit = lits.get(st['src'])
                        if lit is None: o = s[1:]
                        elif how == 'radd_lit_short': o = lit + C(bin='1')
                        elif how == 'radd_lit_long': o = lit + C(bin='10' * (len(s) + 1))
                        else: o = C(bin='1') + lit
                    elif how in DEEP_DERIVE:
                        o = deep_derive(how, s, objs[st.get('other', st['src'])])
                    info['same_object'] = o is s
                    objs.append(o); return None
                if op == 'mutate':
                    t = objs[st['target']]; how = st['how']
                    if not isinstance(t, BitArray): return 'immutable-target'
                    if how == 'append': t.append('0b1')
                    elif how == 'prepend': t.prepend('0b0')
                    elif how == 'invert_all': t.invert()
                    elif how == 'set0': t.set(0, 0)
                    elif how == 'clear': t.clear()
                    elif how == 'reverse': t.reverse()
                    elif how == 'overwrite': t.overwrite('0b1', 0)
                    elif how == 'insert': t.insert('0b11', 0)
                    elif how == 'imul': t *= 2
                    elif how == 'setitem': t[0] = 1
                    elif how == 'ilshift': t <<= 1
                    elif how == 'del': del t[0]
                    elif how == 'replace': t.replace('0b1', '0b00')
                    elif how == 'byteswap': t.byteswap()
                    elif how == 'bits_assign': t.bits = objs[st['other']]
                    elif how == 'append_obj': t.append(objs[st['other']])
                    elif how == 'prepend_obj': t.prepend(objs[st['other']])
                    elif how == 'iadd_obj': t += objs[st['other']]
                    elif how == 'insert_obj': t.insert(objs[st['other']], 0)
                    elif how == 'overwrite_obj': t.overwrite(objs[st['other']], 0)
                    elif how == 'clear_then_prepend_obj': t.clear(); t.prepend(objs[st['other']])
                    elif how == 'clear_then_append_obj': t.clear(); t.append(objs[st['other']])
                    return None
                if op == 'mutate_external':
                    i = st['target']; t = objs[i]
                    if i in externals:
                        e = externals[i]
                        if isinstance(e, bitarray.bitarray): e.invert()
                        else:
                            for k in range(len(e)): e[k] ^= 0xff
                        return 'source'
                    ba = t.tobitarray(); ba.invert(); ba.append(1)
                    return 'tobitarray'
            r = attempt(f)
            trace.append([before, list(r), snapshot(), partition(), info])
        hashes_ok = True
        return ('ok', trace)
    finally:
        for p in tmp:
            try: os.unlink(p)
            except OSError: pass

def oracle(c, obs):
    if c['op'] == 'refuse': return oracle_refuse(c, obs)
    for st, (before, r, after, part, info) in zip(c['steps'], obs[1]):
        op = st['op']
        if r[0] != 'ok':
            if op == 'mutate' and st['how'] in ('set0', 'overwrite', 'setitem', 'ilshift', 'del', 'byteswap', 'imul', 'reverse', 'invert_all') and r[1] in ('IndexError', 'ValueError', 'BsError'):
                if after != before: return f"{st} raised {r[1]} and changed objects"
                continue
            return f"{st} raised {r[1]}"
        target = st.get('target') if op == 'mutate' and r[1] != 'immutable-target' else None
        for i, (b, a) in enumerate(zip(before, after)):
            if i == target: continue
            if a != b:
                return (f"step {st} changed object #{i} ({b[0]}): {b[1]!r} -> {a[1]!r}; history so far: "
                        f"{[s for s in c['steps'][:c['steps'].index(st) + 1]]}")
        if op == 'derive' and st['how'] in DEEP_DERIVE and len(after) == len(before) + 1:
            # a duplicate by the copy / pickle modules: an object of the same class and bits; a new object when the original is mutable
            src = before[st['src']]
            if after[-1] != src:
                return f"{st}: the duplicate of object #{st['src']} {src} is {after[-1]}"
            if info.get('same_object') and src[0] in MUTABLE:
                return f"{st}: the duplicate of the mutable object #{st['src']} ({src[0]}) is that very object"
        dtype_route = st.get('how', '').split('_')[0] in ('kw', 'set', 'pack', 'build') and st.get('how') not in ('bytes_kw_bytearray', 'bytes_kw_memoryview_ro', 'bitarray_kw')
        if op == 'create' and len(after) == len(before) + 1 and after[-1][1] != st['bits'] and st['how'] not in ('str', 'fromstring') and not dtype_route:
            return f"create {st} gave {after[-1]}"
        # mutable objects never share a store with anything
        for i, rep in enumerate(part):
            if rep != i:
                ci, cj = after[i][0], after[rep][0]
                if ci in MUTABLE or cj in MUTABLE:
                    if not (op == 'derive' and info.get('same_object') and i == len(after) - 1):
                        return f"after {st}: objects #{rep} ({cj}) and #{i} ({ci}) hold the same store although one is mutable"
    return None

def nontrivial(c, obs):
    if c['op'] == 'refuse': return obs[0] == 'ok' and len(c['stages']) > 1
    seen_derive = False
    for st in c['steps']:
        if st['op'] == 'derive': seen_derive = True
        if st['op'].startswith('mutate') and seen_derive: return True
    return False

def classify(c, obs): return None

def coq_check(c, obs):
    """replay the history on the heap model: sharing graph and values after the last step"""
    ops = []
    nobj = 0
    if c['op'] == 'refuse': return None      # refused writes: no operation of the heap model (the oracle decides)
    if any(st['op'] == 'derive' and st['how'] in DEEP_DERIVE for st in c['steps']):
        return None      # the store flow of copy.deepcopy / pickle (a new store carrying the flag of the old one) is not an operation of the heap model: these histories are judged by the oracle
    for st, (before, r, after, part, info) in zip(c['steps'], obs[1]):
        if r[0] != 'ok': return None
        op = st['op']
        if op == 'create':
            cl = COQ_CLS[st['cls']]
            if st['how'] in ('str', 'fromstring'):
                hit = 'None' if info['hit'] is None else f"(Some {info['hit']}%nat)"
                ops.append(f"HFromCache {cl} {cbits(info['sbits'])} {hit}")
            else:
                ops.append(f"HNew {COQ_CLS[after[len(before)][0]]} {cbits(after[len(before)][1])}")     # class and content as observed (dtype routes encode a value derived from the bits)
            nobj += 1
        elif op == 'derive':
            how = st['how']; src = f"{st['src']}%nat"
            srccls = before[st['src']][0]
            if info.get('same_object'):
                return None    # x.copy() / copy.copy(x) / x & x of a Bits returns x itself: no new object; histories with aliases are oracle-only
            if how == 'construct': ops.append(f"HConstruct {COQ_CLS[st['cls']]} {src}")
            elif how == 'bits_kw': ops.append(f"HBitsKw {COQ_CLS[st['cls']]} {src}")
            elif how in ('copycopy', 'dotcopy', 'andself', 'orself'): ops.append(f"HCopyCopy {src}")   # s & s / s | s take the `bs is self` shortcut: self.copy()
            elif how == 'join' or (how in ('rshift_all', 'lshift_all') and before[st['src']][2] > 0):
                # join (and >>, which starts from self.__class__(length=n), and << by the whole length, whose empty _absolute_slice is self.__class__()) builds on a store of its own that went through __init__ (flagged for the immutable classes),
                # then extended in place - the store flow of HNew, not of the object.__new__ derivations
                ops.append(f"HNew {COQ_CLS[after[-1][0]]} {cbits(after[-1][1])}")
            else:
                rescls = COQ_CLS[after[-1][0]]
                ops.append(f"HDerive {rescls} {src} (fun _ => {cbits(after[-1][1])})")
            nobj += 1
        elif op == 'mutate':
            if r[1] == 'immutable-target': continue
            t = st['target']
            ops.append(f"HMutate {t}%nat (fun _ => {cbits(after[t][1])})")
        elif op == 'mutate_external':
            continue
    final = obs[1][-1]
    part, after = final[3], final[2]
    return (f"let h := hrun empty_heap {clist(ops, lambda x: '(' + x + ')')} in "
            f"natlist_eqb (reps h) {clist(part, lambda x: str(x) + '%nat')} && list_eqb bits_eqb (values h) {clist([a[1] for a in after], cbits)}")

def search(seeds, rng):
    for c in list(seeds) + list(gen_cases(rng, 'thorough'))[:3000]:
        try: obs = run_impl(c)
        finally: reset_options()
        msg = oracle(c, obs)
        if msg: return c, obs, msg
    return None
