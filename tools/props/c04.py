"""C04 — value isolation: immutable objects never change, mutable ones never share state."""
from vlib import *
from props.common import *
import io, os, tempfile, copy as _copy

ID = 'C04'
COQ_PROPS = ['Props/C04.v']
COQ_IMPORTS = ['Prims', 'CaseLib', 'BitsCore', 'Heap']
RULE = ('histories of 4..18 steps over a growing pool of objects: create by every constructor form (bin/hex/bytes/bytearray/memoryview/array/iterable/bitarray/bitarray=/dtype keyword/filename/'
        'token string with cache hit or miss/fromstring), derive by cls(other), bits=, .bits=, copy.copy, .copy(), slicing, operators incl. same-object & and |, join, pack, read, cut, split, unpack, '
        '.bits, tobitarray, Array build/slice/copy; then mutate one side (any mutator, or the external bytearray/bitarray/array) and re-read bin/len/hash of every other object. The sharing graph '
        '(which objects hold the same BitStore) is compared with the heap model after every step. Structured histories per class x duplication route of the copy / pickle modules (copy.deepcopy of the object, '
        'of containers and user objects holding it, with a memo, pickle protocols 0-5, copyreg reconstruction): duplicate, derive from both sides, edit both sides, duplicate again (oracle only). non-trivial = a history with at least one mutation after a derivation; distinct by history')
ASSUMPTIONS = ['object identity is observed through id(o._bitstore) in the harness process only to compare sharing graphs; the verdict is behavioural',
               'Array.data is the live buffer by documented design and is not a violation']
COQ_PRELUDE = '''
Definition rep_of (h : heap) (o : nat) : nat :=
  let sid := osid (get_obj h o) in
  match find (fun i => Nat.eqb (osid (get_obj h i)) sid) (seq 0 (List.length (objects h))) with Some i => i | None => o end.
Definition reps (h : heap) : list nat := map (rep_of h) (seq 0 (List.length (objects h))).
Definition natlist_eqb := list_eqb Nat.eqb.
Definition values (h : heap) : list bits := map (value h) (seq 0 (List.length (objects h))).
'''

CREATE = ['bin', 'hex', 'bytes', 'bytearray', 'memoryview', 'memoryview_ro', 'memoryview_slice_ro', 'bytes_kw_bytearray', 'bytes_kw_memoryview_ro', 'array', 'iter',
          'bitarray', 'bitarray_kw', 'bitarray_little', 'uint', 'file', 'str', 'fromstring',
          'kw_int', 'kw_uintle', 'kw_intne', 'kw_float', 'kw_ue', 'kw_sie', 'kw_oct', 'kw_bool',
          'set_uint', 'set_intle', 'set_uie', 'set_se', 'set_hex', 'set_float', 'set_bytes', 'pack_uintle', 'pack_ue', 'build_uint', 'build_uie']
EXTERNAL = {'bytearray', 'memoryview', 'memoryview_ro', 'memoryview_slice_ro', 'bytes_kw_bytearray', 'bytes_kw_memoryview_ro', 'array', 'bitarray', 'bitarray_kw', 'bitarray_little'}
DERIVE = ['construct', 'bits_kw', 'copycopy', 'dotcopy', 'slice', 'add', 'invert', 'mul', 'and', 'andself', 'orself', 'xor', 'lshift', 'join', 'pack', 'readbits',
          'cut', 'split', 'unpack', 'dotbits', 'underscore_copy', 'radd_str', 'lshift_all', 'rshift_all', 'radd_lit_empty', 'add_empty', 'radd_empty', 'radd_lit_short', 'radd_lit_short', 'radd_lit_long', 'add_lit']
MUTATE = ['append', 'prepend', 'invert_all', 'set0', 'clear', 'reverse', 'overwrite', 'insert', 'imul', 'setitem', 'ilshift', 'del', 'replace', 'byteswap', 'bits_assign',
          'clear', 'append_obj', 'prepend_obj', 'iadd_obj', 'insert_obj', 'overwrite_obj', 'clear_then_prepend_obj', 'clear_then_append_obj']
MUT_FN = {  # the same mutation on the str model / as a Coq function on bits
    'append': (lambda d: d + '1', 'fun b => b ++ [true]'),
    'prepend': (lambda d: '0' + d, 'fun b => false :: b'),
    'invert_all': (lambda d: ''.join('1' if c == '0' else '0' for c in d), 'map negb'),
    'clear': (lambda d: '', 'fun _ => []'),
    'reverse': (lambda d: d[::-1], '@rev bool'),
}

# duplicates made by the copy and pickle modules - of the object itself, of built-in containers and user objects (with and without __slots__) holding it, with an
# explicit memo, twice in one container, next to another object, a duplicate of a duplicate, every pickle protocol. "however one was derived from the other (copy)":
# the duplicate of a mutable object (and a mutable object later built from the duplicate of an immutable one) owns its bits.
DEEP_DERIVE = ['deepcopy', 'deepcopy_memo', 'deepcopy_list', 'deepcopy_tuple', 'deepcopy_dict', 'deepcopy_dictkey', 'deepcopy_set', 'deepcopy_nested', 'deepcopy_pair', 'deepcopy_with_other',
               'deepcopy_namespace', 'deepcopy_holder', 'deepcopy_slots_holder', 'deepcopy_shallow_holder', 'deepcopy_twice', 'deepcopy_of_copy', 'deepcopy_method',
               'pickle_0', 'pickle_1', 'pickle_2', 'pickle_3', 'pickle_4', 'pickle_5', 'pickle_default', 'pickle_list', 'pickle_dict', 'pickle_holder', 'pickle_with_other', 'pickle_twice',
               'pickle_then_deepcopy', 'reduce_ex']

class _Holder:
    def __init__(self, payload): self.payload = payload

class _SlotHolder:
    __slots__ = ('payload', 'more')
    def __init__(self, payload): self.payload = payload; self.more = {'again': payload}

def deep_derive(how, s, other):
    """the duplicate of s by route `how` (other: another object of the pool, for the containers that hold two)"""
    import pickle
    dc = _copy.deepcopy
    def pk(x, proto=None):
        try: return pickle.loads(pickle.dumps(x, proto))
        except (TypeError, pickle.PicklingError):
            if proto in (0, 1): return pickle.loads(pickle.dumps(x, 2))       # protocols 0 and 1 refuse every class with __slots__ and no __getstate__ (Python's rule): not a route
            raise
    if how == 'deepcopy': return dc(s)
    if how == 'deepcopy_memo': return dc(s, {})
    if how == 'deepcopy_list': return dc([s])[0]
    if how == 'deepcopy_tuple': return dc((1, s))[1]
    if how == 'deepcopy_dict': return dc({'k': s})['k']
    if how == 'deepcopy_dictkey':
        try: return list(dc({s: 1}))[0]
        except TypeError: return dc({'k': [s]})['k'][0]                          # mutable bitstrings are not hashable
    if how == 'deepcopy_set':
        try: return list(dc(frozenset([s])))[0]
        except TypeError: return dc([(s,)])[0][0]
    if how == 'deepcopy_nested': return dc([[s], {'a': (s, [other])}])[1]['a'][0]
    if how == 'deepcopy_pair': return dc([s, s])[1]
    if how == 'deepcopy_with_other': return dc([other, s, other])[1]
    if how == 'deepcopy_namespace':
        import types
        return dc(types.SimpleNamespace(p=s, q=other)).p
    if how == 'deepcopy_holder': return dc(_Holder(s)).payload
    if how == 'deepcopy_slots_holder': return dc(_SlotHolder(s)).more['again']
    if how == 'deepcopy_shallow_holder': return dc(_copy.copy(_Holder(s))).payload
    if how == 'deepcopy_twice': return dc(dc(s))
    if how == 'deepcopy_of_copy': return dc(_copy.copy(s))
    if how == 'deepcopy_method':
        f = getattr(s, '__deepcopy__', None)
        return f({}) if f is not None else dc(s)
    if how.startswith('pickle_') and how[7:].isdigit(): return pk(s, int(how[7:]))
    if how == 'pickle_default': return pk(s)
    if how == 'pickle_list': return pk([s, s])[1]
    if how == 'pickle_dict': return pk({'k': (s,)})['k'][0]
    if how == 'pickle_holder': return pk(_Holder(s)).payload
    if how == 'pickle_with_other': return pk([other, {'s': s}])[1]['s']
    if how == 'pickle_twice': return pk(pk(s, 2), 5)
    if how == 'pickle_then_deepcopy': return dc(pk(s))
    if how == 'reduce_ex':
        # what copy.copy falls back to for a class without __copy__, applied by hand to a deep copy of the state: copyreg's reconstruction protocol
        rec = getattr(_copy, '_reconstruct', None)
        return rec(s, {}, *s.__reduce_ex__(4)) if rec is not None else dc(s)
    raise AssertionError(how)

def deep_histories(rng, tier):
    """one history per class x duplication route: create, (edit / derive), duplicate, derive from the duplicate and from the original, edit every side, duplicate again, edit again"""
    plain = ['construct', 'bits_kw', 'copycopy', 'dotcopy', 'slice', 'dotbits', 'add_empty', 'underscore_copy']
    for rep in range(1 if tier == 'quick' else 12):
        for cls in CLASSES:
            for how in DEEP_DERIVE:
                steps = []
                n = rng.choice([8, 16, 24, 32])
                chow = rng.choice(CREATE)
                if rng.random() < 0.08: n, chow = 0, 'bin'
                steps.append({'op': 'create', 'how': chow, 'cls': cls, 'bits': rand_bits(rng, n), 'reuse': False})
                nobj = 1
                if rng.random() < 0.3: steps.append({'op': 'mutate', 'how': rng.choice(MUTATE), 'target': 0, 'other': 0})
                if rng.random() < 0.3:
                    steps.append({'op': 'derive', 'how': rng.choice(plain), 'cls': rng.choice(CLASSES), 'src': 0}); nobj += 1
                steps.append({'op': 'derive', 'how': how, 'cls': cls, 'src': 0, 'other': rng.randrange(nobj)}); dup = nobj; nobj += 1
                # a mutable and an immutable object built from the duplicate, one from the original
                steps.append({'op': 'derive', 'how': rng.choice(plain), 'cls': rng.choice(MUTABLE), 'src': dup}); nobj += 1
                steps.append({'op': 'derive', 'how': rng.choice(plain), 'cls': rng.choice(['Bits', 'ConstBitStream']), 'src': dup}); nobj += 1
                steps.append({'op': 'derive', 'how': rng.choice(plain), 'cls': rng.choice(CLASSES), 'src': 0}); nobj += 1
                order = [dup, 0] if rng.random() < 0.5 else [0, dup]
                for t_ in order + [rng.randrange(nobj) for _ in range(rng.randrange(1, 4))]:
                    steps.append({'op': 'mutate', 'how': rng.choice(MUTATE), 'target': t_, 'other': rng.randrange(nobj)})
                src2 = rng.choice([0, dup, rng.randrange(nobj)])
                steps.append({'op': 'derive', 'how': rng.choice(DEEP_DERIVE), 'cls': cls, 'src': src2, 'other': rng.randrange(nobj)}); dup2 = nobj; nobj += 1
                for t_ in [dup2, src2] + [rng.randrange(nobj) for _ in range(rng.randrange(0, 3))]:
                    steps.append({'op': 'mutate', 'how': rng.choice(MUTATE), 'target': t_, 'other': rng.randrange(nobj)})
                if rng.random() < 0.3: steps.append({'op': 'mutate_external', 'target': rng.randrange(nobj)})
                yield {'op': 'history', 'steps': steps, 'lsb0': rng.random() < 0.2}

def gen_cases(rng, tier):
    yield from deep_histories(rng, tier)
    N = 220 if tier == 'quick' else 4000
    for _ in range(N):
        steps = []
        nobj = 0
        for i in range(rng.randrange(4, 19)):
            r = rng.random()
            if nobj == 0 or r < 0.3:
                n = rng.choice([8, 16, 24, 32])
                how = rng.choice(CREATE)
                if rng.random() < 0.1: n, how = 0, 'bin'          # an empty object (the empty-operand fast paths)
                prev = [x['bits'] for x in steps if x['op'] == 'create' and x['bits']]
                bits_ = rng.choice(prev) if prev and n and rng.random() < 0.4 else rand_bits(rng, n)
                steps.append({'op': 'create', 'how': how, 'cls': rng.choice(CLASSES), 'bits': bits_, 'reuse': rng.random() < 0.5})
                nobj += 1
            elif r < 0.65:
                steps.append({'op': 'derive', 'how': rng.choice(DERIVE), 'cls': rng.choice(CLASSES), 'src': rng.randrange(nobj)})
                nobj += 1
            elif r < 0.9:
                steps.append({'op': 'mutate', 'how': rng.choice(MUTATE), 'target': rng.randrange(nobj), 'other': rng.randrange(nobj)})
            else:
                ext = [j for j, s_ in enumerate(x for x in steps if x['op'] in ('create', 'derive')) if s_.get('how') in EXTERNAL]
                steps.append({'op': 'mutate_external', 'target': rng.choice(ext) if ext and rng.random() < 0.8 else rng.randrange(nobj)})
        yield {'op': 'history', 'steps': steps, 'lsb0': rng.random() < 0.2}

def kind(c): return 'history'

def run_impl(c):
    import bitstring, bitarray, array
    from bitstring import Bits, BitArray, pack
    clear_caches()
    objs, externals, tmp = [], {}, []
    lits = {}              # object index -> the literal it was parsed from
    bitstring.options.lsb0 = bool(c.get('lsb0'))
    cache_strings = []     # newest first, mirrors the model's cache list
    trace = []
    def snapshot():
        return [[type(o).__name__, o.bin, len(o)] for o in objs]
    def partition():
        first = {}
        out = []
        for i, o in enumerate(objs):
            k = id(o._bitstore)
            first.setdefault(k, i); out.append(first[k])
        return out
    try:
        for st in c['steps']:
            before = snapshot()
            info = {}
            def f():
                op = st['op']
                if op == 'create':
                    C = cls_of(st['cls']); b = st['bits']; how = st['how']; n = len(b)
                    raw = int(b, 2).to_bytes(n // 8, 'big') if n else b''
                    if how == 'bin': o = C(bin=b)
                    elif how == 'hex': o = C(hex=format(int(b, 2), f'0{n // 4}x'))
                    elif how == 'bytes': o = C(bytes=raw)
                    elif how == 'bytearray':
                        e = bytearray(raw); o = C(e); externals[len(objs)] = e
                    elif how == 'memoryview':
                        e = bytearray(raw); o = C(memoryview(e)); externals[len(objs)] = e
                    elif how == 'memoryview_ro':        # a read-only view of a buffer its owner can still change
                        e = bytearray(raw); o = C(memoryview(e).toreadonly()); externals[len(objs)] = e
                    elif how == 'memoryview_slice_ro':
                        e = bytearray(b'\x5a' + raw + b'\xa5'); o = C(memoryview(e)[1:1 + len(raw)].toreadonly()); externals[len(objs)] = e
                    elif how == 'bytes_kw_bytearray':
                        e = bytearray(raw); o = C(bytes=e); externals[len(objs)] = e
                    elif how == 'bytes_kw_memoryview_ro':
                        e = bytearray(raw); o = C(bytes=memoryview(e).toreadonly()); externals[len(objs)] = e
                    elif how == 'bitarray_little':
                        e = bitarray.bitarray(b, endian='little'); o = C(e); externals[len(objs)] = e
                    elif how == 'array':
                        e = array.array('B', raw); o = C(e); externals[len(objs)] = e
                    elif how == 'iter': o = C([int(x) for x in b])
                    elif how == 'bitarray':
                        e = bitarray.bitarray(b); o = C(e); externals[len(objs)] = e
                    elif how == 'bitarray_kw':
                        e = bitarray.bitarray(b); o = C(bitarray=e); externals[len(objs)] = e
                    elif how == 'uint': o = C(uint=int(b, 2), length=n)
                    elif how.split('_')[0] in ('kw', 'set', 'pack', 'build') and how not in ('bytes_kw_bytearray', 'bytes_kw_memoryview_ro', 'bitarray_kw'):
                        # a value of some dtype (derived from the bits) through the keyword, the property setter, pack or Dtype.build:
                        # encoders must hand out a store of their own every time (also when the same value was encoded before)
                        route, name = how.split('_')
                        if c.get('lsb0') and name in ('ue', 'se', 'uie', 'sie'): name = 'uint'      # the exp-Golomb codes are refused under lsb0
                        u = int(b, 2) if n else 0
                        w = max(n, 8)
                        val, length = {'int': (u - (1 << (w - 1)), w), 'uint': (u, w), 'uintle': (u, w), 'intle': (u - (1 << (w - 1)), w), 'intne': (u - (1 << (w - 1)), w),
                                       'float': ((u % 2048) / 8.0, 32), 'ue': (u % 500, None), 'uie': (u % 500, None), 'se': (u % 500 - 250, None), 'sie': (u % 500 - 250, None),
                                       'oct': (format(u, 'o'), None), 'hex': (format(u, 'x'), None), 'bool': (bool(u & 1), None), 'bytes': (raw or b'a', None)}[name]
                        if route == 'kw': o = C(**{name: val}) if length is None else C(**{name: val, 'length': length})
                        elif route == 'set':
                            m = (bitstring.BitStream if st['cls'] in ('ConstBitStream', 'BitStream') else bitstring.BitArray)()
                            setattr(m, name if length is None else f'{name}{length}', val)
                            o = m if st['cls'] in ('BitArray', 'BitStream') else C(m)
                        elif route == 'pack': o = C(pack(name if length is None else f'{name}:{length}', val))
                        else: o = C(bitstring.Dtype(name, length).build(val) if length is not None else bitstring.Dtype(name).build(val))
                    elif how == 'file':
                        fd, path = tempfile.mkstemp(prefix='verif_c04_'); tmp.append(path)
                        with os.fdopen(fd, 'wb') as fh: fh.write(raw)
                        o = C(filename=path)
                    elif how in ('str', 'fromstring'):
                        s = '0b' + b
                        if st['reuse'] and cache_strings: s = cache_strings[0]
                        info['hit'] = cache_strings.index(s) if s in cache_strings else None
                        if s not in cache_strings: cache_strings.insert(0, s)
                        info['sbits'] = s[2:]
                        lits[len(objs)] = s
                        o = C(s) if how == 'str' else C.fromstring(s)
                    objs.append(o); return None
                if op == 'derive':
                    s = objs[st['src']]; C = cls_of(st['cls']); how = st['how']
                    if len(s) == 0 and how in ('invert', 'lshift', 'cut', 'split', 'mul', 'and', 'xor', 'lshift_all', 'rshift_all'): how = 'slice'   # these refuse or skip empty operands
                    if how == 'construct': o = C(s)
                    elif how == 'bits_kw': o = C(bits=s)
                    elif how == 'copycopy': o = _copy.copy(s)
                    elif how == 'dotcopy': o = s.copy()
                    elif how == 'slice': o = s[1:]
                    elif how == 'add': o = s + s
                    elif how == 'invert': o = ~s
                    elif how == 'mul': o = s * 2
                    elif how == 'and': o = s & Bits(len(s))
                    elif how == 'andself': o = s & s
                    elif how == 'orself': o = s | s
                    elif how == 'xor': o = s ^ Bits(len(s))
                    elif how == 'lshift': o = s << 1
                    elif how == 'join': o = C().join([s, s])
                    elif how == 'pack': o = pack('bits', s)
                    elif how == 'readbits': o = bitstring.ConstBitStream(s).read(len(s))
                    elif how == 'cut': o = next(s.cut(len(s)))
                    elif how == 'split': o = list(s.split('0b1', count=1))[0] if '1' in s.bin else s[:]
                    elif how == 'unpack': o = s.unpack('bits')[0]
                    elif how == 'dotbits': o = s.bits
                    elif how == 'underscore_copy': o = s._copy()
                    elif how == 'radd_str': o = '0b1' + s
                    elif how == 'lshift_all': o = s << len(s)                       # shifts everything out
                    elif how == 'rshift_all': o = s >> (len(s) + 3)
                    elif how == 'add_empty': o = s + C()                           # an empty operand on either side
                    elif how == 'radd_empty': o = C() + s
                    elif how == 'radd_lit_empty':
                        lit = lits.get(st['src'])
                        o = (lit + C()) if lit is not None else s[1:]             # a cached literal + an empty mutable/immutable object
                    elif how in ('radd_lit_short', 'radd_lit_long', 'add_lit'):
                        # the literal an object was made from (a string-cache entry) as one operand of +, the other operand shorter / longer than it
                        lit = lits.get(st['src'])
                        if lit is None: o = s[1:]
                        elif how == 'radd_lit_short': o = lit + C(bin='1')
                        elif how == 'radd_lit_long': o = lit + C(bin='10' * (len(s) + 1))
                        else: o = C(bin='1') + lit
                    elif how in DEEP_DERIVE:
                        o = deep_derive(how, s, objs[st.get('other', st['src'])])
                    info['same_object'] = o is s
                    objs.append(o); return None
                if op == 'mutate':
                    t = objs[st['target']]; how = st['how']
                    if not isinstance(t, BitArray): return 'immutable-target'
                    if how == 'append': t.append('0b1')
                    elif how == 'prepend': t.prepend('0b0')
                    elif how == 'invert_all': t.invert()
                    elif how == 'set0': t.set(0, 0)
                    elif how == 'clear': t.clear()
                    elif how == 'reverse': t.reverse()
                    elif how == 'overwrite': t.overwrite('0b1', 0)
                    elif how == 'insert': t.insert('0b11', 0)
                    elif how == 'imul': t *= 2
                    elif how == 'setitem': t[0] = 1
                    elif how == 'ilshift': t <<= 1
                    elif how == 'del': del t[0]
                    elif how == 'replace': t.replace('0b1', '0b00')
                    elif how == 'byteswap': t.byteswap()
                    elif how == 'bits_assign': t.bits = objs[st['other']]
                    elif how == 'append_obj': t.append(objs[st['other']])
                    elif how == 'prepend_obj': t.prepend(objs[st['other']])
                    elif how == 'iadd_obj': t += objs[st['other']]
                    elif how == 'insert_obj': t.insert(objs[st['other']], 0)
                    elif how == 'overwrite_obj': t.overwrite(objs[st['other']], 0)
                    elif how == 'clear_then_prepend_obj': t.clear(); t.prepend(objs[st['other']])
                    elif how == 'clear_then_append_obj': t.clear(); t.append(objs[st['other']])
                    return None
                if op == 'mutate_external':
                    i = st['target']; t = objs[i]
                    if i in externals:
                        e = externals[i]
                        if isinstance(e, bitarray.bitarray): e.invert()
                        else:
                            for k in range(len(e)): e[k] ^= 0xff
                        return 'source'
                    ba = t.tobitarray(); ba.invert(); ba.append(1)
                    return 'tobitarray'
            r = attempt(f)
            trace.append([before, list(r), snapshot(), partition(), info])
        hashes_ok = True
        return ('ok', trace)
    finally:
        for p in tmp:
            try: os.unlink(p)
            except OSError: pass

def oracle(c, obs):
    for st, (before, r, after, part, info) in zip(c['steps'], obs[1]):
        op = st['op']
        if r[0] != 'ok':
            if op == 'mutate' and st['how'] in ('set0', 'overwrite', 'setitem', 'ilshift', 'del', 'byteswap', 'imul', 'reverse', 'invert_all') and r[1] in ('IndexError', 'ValueError', 'BsError'):
                if after != before: return f"{st} raised {r[1]} and changed objects"
                continue
            return f"{st} raised {r[1]}"
        target = st.get('target') if op == 'mutate' and r[1] != 'immutable-target' else None
        for i, (b, a) in enumerate(zip(before, after)):
            if i == target: continue
            if a != b:
                return (f"step {st} changed object #{i} ({b[0]}): {b[1]!r} -> {a[1]!r}; history so far: "
                        f"{[s for s in c['steps'][:c['steps'].index(st) + 1]]}")
        if op == 'derive' and st['how'] in DEEP_DERIVE and len(after) == len(before) + 1:
            # a duplicate by the copy / pickle modules: an object of the same class and bits; a new object when the original is mutable
            src = before[st['src']]
            if after[-1] != src:
                return f"{st}: the duplicate of object #{st['src']} {src} is {after[-1]}"
            if info.get('same_object') and src[0] in MUTABLE:
                return f"{st}: the duplicate of the mutable object #{st['src']} ({src[0]}) is that very object"
        dtype_route = st.get('how', '').split('_')[0] in ('kw', 'set', 'pack', 'build') and st.get('how') not in ('bytes_kw_bytearray', 'bytes_kw_memoryview_ro', 'bitarray_kw')
        if op == 'create' and len(after) == len(before) + 1 and after[-1][1] != st['bits'] and st['how'] not in ('str', 'fromstring') and not dtype_route:
            return f"create {st} gave {after[-1]}"
        # mutable objects never share a store with anything
        for i, rep in enumerate(part):
            if rep != i:
                ci, cj = after[i][0], after[rep][0]
                if ci in MUTABLE or cj in MUTABLE:
                    if not (op == 'derive' and info.get('same_object') and i == len(after) - 1):
                        return f"after {st}: objects #{rep} ({cj}) and #{i} ({ci}) hold the same store although one is mutable"
    return None

def nontrivial(c, obs):
    seen_derive = False
    for st in c['steps']:
        if st['op'] == 'derive': seen_derive = True
        if st['op'].startswith('mutate') and seen_derive: return True
    return False

def classify(c, obs): return None

def coq_check(c, obs):
    """replay the history on the heap model: sharing graph and values after the last step"""
    ops = []
    nobj = 0
    if any(st['op'] == 'derive' and st['how'] in DEEP_DERIVE for st in c['steps']):
        return None      # the store flow of copy.deepcopy / pickle (a new store carrying the flag of the old one) is not an operation of the heap model: these histories are judged by the oracle
    for st, (before, r, after, part, info) in zip(c['steps'], obs[1]):
        if r[0] != 'ok': return None
        op = st['op']
        if op == 'create':
            cl = COQ_CLS[st['cls']]
            if st['how'] in ('str', 'fromstring'):
                hit = 'None' if info['hit'] is None else f"(Some {info['hit']}%nat)"
                ops.append(f"HFromCache {cl} {cbits(info['sbits'])} {hit}")
            else:
                ops.append(f"HNew {COQ_CLS[after[len(before)][0]]} {cbits(after[len(before)][1])}")     # class and content as observed (dtype routes encode a value derived from the bits)
            nobj += 1
        elif op == 'derive':
            how = st['how']; src = f"{st['src']}%nat"
            srccls = before[st['src']][0]
            if info.get('same_object'):
                return None    # x.copy() / copy.copy(x) / x & x of a Bits returns x itself: no new object; histories with aliases are oracle-only
            if how == 'construct': ops.append(f"HConstruct {COQ_CLS[st['cls']]} {src}")
            elif how == 'bits_kw': ops.append(f"HBitsKw {COQ_CLS[st['cls']]} {src}")
            elif how in ('copycopy', 'dotcopy', 'andself', 'orself'): ops.append(f"HCopyCopy {src}")   # s & s / s | s take the `bs is self` shortcut: self.copy()
            elif how == 'join' or (how in ('rshift_all', 'lshift_all') and before[st['src']][2] > 0):
                # join (and >>, which starts from self.__class__(length=n), and << by the whole length, whose empty _absolute_slice is self.__class__()) builds on a store of its own that went through __init__ (flagged for the immutable classes),
                # then extended in place - the store flow of HNew, not of the object.__new__ derivations
                ops.append(f"HNew {COQ_CLS[after[-1][0]]} {cbits(after[-1][1])}")
            else:
                rescls = COQ_CLS[after[-1][0]]
                ops.append(f"HDerive {rescls} {src} (fun _ => {cbits(after[-1][1])})")
            nobj += 1
        elif op == 'mutate':
            if r[1] == 'immutable-target': continue
            t = st['target']
            ops.append(f"HMutate {t}%nat (fun _ => {cbits(after[t][1])})")
        elif op == 'mutate_external':
            continue
    final = obs[1][-1]
    part, after = final[3], final[2]
    return (f"let h := hrun empty_heap {clist(ops, lambda x: '(' + x + ')')} in "
            f"natlist_eqb (reps h) {clist(part, lambda x: str(x) + '%nat')} && list_eqb bits_eqb (values h) {clist([a[1] for a in after], cbits)}")

def search(seeds, rng):
    for c in list(seeds) + list(gen_cases(rng, 'thorough'))[:3000]:
        try: obs = run_impl(c)
        finally: reset_options()
        msg = oracle(c, obs)
        if msg: return c, obs, msg
    return None
