"""C16 — bit-wise operators and shifts are per-bit boolean functions with fixed length."""
from vlib import *
from props.common import *

ID = 'C16'
COQ_PROPS = ['Props/C16.v']
COQ_IMPORTS = ['Prims', 'CaseLib', 'BitsCore', 'SeqProofs', 'BitwiseProofs']
RULE = ('pairs of contents of equal and unequal length (0, 1, 63..65, 127..129, random), self-operand cases (same object), four classes, promotable right operands, '
        'pure and in-place forms, shift counts from -3 to beyond len and 2^70; operands that went through a derivation first (pickle protocols 2-5, deepcopy, copy, '
        'containers, slices, re-wrapping through every class, conversions, reads, edit-and-restore histories, refused calls); shift counts as bool / IntEnum / IntFlag / int subclass / numpy integers; '
        'law batteries (involution, idempotence, De Morgan, absorption, shift round trips, results used as operands again, in-place step sequences) judged by a str model; '
        'non-trivial = both operands non-empty and not all-equal bits; distinct by arguments')
ASSUMPTIONS = ['bitarray & | ^ ~ are element-wise with ValueError on length mismatch (modelled as map2; L0 by these cases)']
OPS = ['and', 'or', 'xor']
PYOP = {'and': lambda a, b: a & b, 'or': lambda a, b: a | b, 'xor': lambda a, b: a ^ b}


# ---------------------------------------------------------------------------------------------------------------------------------
# Operands with a history.  A bitstring that was pickled and restored, deep-copied, copied, sliced out whole, re-wrapped through
# another class, converted and converted back, read from a stream, edited and restored, or that was the subject of a refused call
# holds the same bits as before, so every clause of the property applies to it unchanged.  `derive` turns the freshly built
# operand x into such an object of the same class (key 'derive' / 'oderive' of a case: a chain of one or two names).
# ---------------------------------------------------------------------------------------------------------------------------------
D_PICKLE = ['pickle2', 'pickle3', 'pickle4', 'pickle5', 'deepcopy', 'pickle_in_list', 'deepcopy_in_tuple', 'deepcopy_in_dict', 'pickle_twice', 'pickle_dump_lsb0', 'pickle_load_lsb0', 'deepcopy_of_copy']
# (pickle protocols 0 and 1 refuse every class with __slots__ and no __getstate__: Python's own TypeError, not bitstring's behaviour)
D_COPY = ['copy', 'copy_method', 'slice_all', 'slice_bounds', 'rewrap', 'via_Bits', 'via_BitArray', 'via_ConstBitStream', 'via_BitStream', 'add_empty', 'radd_empty',
          'mul1', 'join1', 'tobitarray', 'tobytes', 'bin', 'unpack', 'cut', 'read_all', 'invert_twice_pure', 'shift0', 'and_self', 'or_self', 'xor_zeros']
D_REFUSED = ['refused_binop', 'refused_shift', 'refused_rshift', 'refused_type', 'refused_inplace', 'refused_ishift']
D_STREAM = ['pos_end', 'read_some']                                      # ConstBitStream / BitStream only
D_MUT = ['append_del', 'prepend_del', 'invert_twice', 'reverse_twice', 'rol_ror', 'flip_restore', 'overwrite_same', 'clear_refill', 'iops_neutral', 'imul1', 'ishift_restore', 'setslice_same']   # BitArray / BitStream only
DERIVATIONS = D_PICKLE + D_COPY + D_REFUSED + D_STREAM + D_MUT

def _msb0(f):
    """edit-and-restore histories are written for msb0 positions: run them with lsb0 off, whatever the case's mode"""
    import bitstring
    old = bitstring.options.lsb0
    bitstring.options.lsb0 = False
    try: return f()
    finally: bitstring.options.lsb0 = old

def _refuse(f):
    try: f()
    except Exception as e:
        if isinstance(e, Hang): raise

def derive1(x, d):
    import bitstring, pickle, copy
    C = type(x); n = len(x)
    if d in ('pickle2', 'pickle3', 'pickle4', 'pickle5'): return pickle.loads(pickle.dumps(x, int(d[6:])))
    if d == 'pickle_twice': return pickle.loads(pickle.dumps(pickle.loads(pickle.dumps(x))))
    if d in ('pickle_dump_lsb0', 'pickle_load_lsb0'):
        # written under one bit numbering, restored under the other: the bits (positions counted from the start of the data) are the same
        old = bitstring.options.lsb0
        try:
            bitstring.options.lsb0 = d == 'pickle_dump_lsb0'
            blob = pickle.dumps(x)
            bitstring.options.lsb0 = d == 'pickle_load_lsb0'
            return pickle.loads(blob)
        finally: bitstring.options.lsb0 = old
    if d == 'deepcopy_of_copy': return copy.deepcopy(copy.copy(x))
    if d == 'pickle_in_list': return pickle.loads(pickle.dumps([x, 'k', x]))[2]
    if d == 'deepcopy': return copy.deepcopy(x)
    if d == 'deepcopy_in_tuple': return copy.deepcopy((x, 1, x))[0]
    if d == 'deepcopy_in_dict': return copy.deepcopy({'k': [x]})['k'][0]
    if d == 'copy': return copy.copy(x)
    if d == 'copy_method': return x.copy()
    if d == 'slice_all': return x[:]
    if d == 'slice_bounds': return x[0:n]
    if d == 'rewrap': return C(x)
    if d.startswith('via_'): return C(getattr(bitstring, d[4:])(x))
    if d == 'add_empty': return x + C()
    if d == 'radd_empty': return C() + x
    if d == 'mul1': return x * 1
    if d == 'join1': return C().join([x])
    if d == 'tobitarray': return C(x.tobitarray())
    if d == 'tobytes': return C(bytes=x.tobytes(), length=n)
    if d == 'bin': return C(bin=x.bin)
    if d == 'unpack': return x.unpack('bits')[0]
    if d == 'cut': return next(iter(x.cut(n))) if n else x
    if d == 'read_all':
        if not hasattr(x, 'read'): return x[:]
        p = x.pos; x.pos = 0
        try: return x.read(n)
        finally: x.pos = p
    # results of the operators themselves, used as operands again
    if d == 'invert_twice_pure': return ~~x if n else x
    if d == 'shift0': return (x << 0) if n else x
    if d == 'and_self': return x & x
    if d == 'or_self': return x | x
    if d == 'xor_zeros': return x ^ C(n)
    # a refused call on the object first
    if d == 'refused_binop': _refuse(lambda: x & (x + '0b1')); _refuse(lambda: ('0b1' + x) | x); _refuse(lambda: x ^ C()) if n else None; return x
    if d == 'refused_shift': _refuse(lambda: x << -1); return x
    if d == 'refused_rshift': _refuse(lambda: x >> -2); return x
    if d == 'refused_type': _refuse(lambda: x & 2.5); _refuse(lambda: x << 'a'); _refuse(lambda: x >> None); return x
    if d == 'refused_inplace':
        def g():
            t = x
            t &= (x + '0b1')
        def h():
            t = x
            t ^= '0b1' + x.bin
        _refuse(g); _refuse(h); return x
    if d == 'refused_ishift':
        def g():
            t = x
            t <<= -1
        def h():
            t = x
            t >>= -1
        _refuse(g); _refuse(h); return x
    if d == 'pos_end': x.pos = n; return x
    if d == 'read_some':
        if n: x.pos = 0; x.read(min(3, n))
        return x
    # edit-and-restore histories on the object itself (mutable classes)
    assert C.__name__ in MUTABLE, (d, C.__name__)
    def hist():
        if d == 'append_del': x.append('0b101'); del x[n:]
        elif d == 'prepend_del': x.prepend('0b11'); del x[:2]
        elif d == 'invert_twice': x.invert(); x.invert()
        elif d == 'reverse_twice': x.reverse(); x.reverse()
        elif d == 'rol_ror':
            if n: x.rol(3); x.ror(3)
        elif d == 'flip_restore':
            if n: x.invert(0); x.invert(n - 1); x.invert(n - 1); x.invert(0)
        elif d == 'overwrite_same':
            if n: x.overwrite(bitstring.Bits(bin=x.bin), 0)
        elif d == 'clear_refill':
            b = x.bin; x.clear()
            if b: x.append('0b' + b)
        elif d == 'iops_neutral':
            t = x
            t &= bitstring.Bits(bin='1' * n); t |= bitstring.Bits(n); t ^= [0] * n
        elif d == 'imul1':
            t = x
            t *= 1
        elif d == 'ishift_restore':
            # shift everything out, put the bits back by item assignment
            b = x.bin
            if n:
                t = x
                t <<= n
                x[:] = '0b' + b
        elif d == 'setslice_same':
            if n: x[0:n] = '0b' + x.bin
        else: raise AssertionError(d)
    _msb0(hist)
    return x

def derive(x, ds, trail=None):
    """apply the chain ds; every object on the way (x included) is appended to trail"""
    if trail is not None: trail.append(x)
    for d in ds or []:
        x = derive1(x, d)
        if trail is not None: trail.append(x)
    return x

def rand_derive(rng, cls, heavy=False):
    """a chain of one (sometimes two) derivations applicable to class cls; the pickle / deepcopy family is drawn most often"""
    def one():
        r = rng.random()
        if r < 0.45: return rng.choice(D_PICKLE)
        if r < 0.75: return rng.choice(D_COPY)
        if r < 0.87: return rng.choice(D_REFUSED)
        if cls in MUTABLE and (r < 0.97 or 'Stream' not in cls): return rng.choice(D_MUT)
        if 'Stream' in cls: return rng.choice(D_STREAM)
        return rng.choice(D_PICKLE)
    ds = [one()]
    if rng.random() < (0.4 if heavy else 0.2): ds.append(one())
    return ds

# ---------------------------------------------------------------------------------------------------------------------------------
# Integer arguments that are not plain ints.  A shift count is an integer: bool (True is 1, False is 0), an IntEnum / IntFlag
# member, an instance of a subclass of int and the numpy integer scalars (registered numbers.Integral) all denote the number
# they are equal to.  Key 'ntype' of a case says how the count c['n'] (always a plain int in the case) is presented.
# ---------------------------------------------------------------------------------------------------------------------------------
class IntSub(int):
    """a plain subclass of int"""
    __slots__ = ()

class IntSubRepr(int):
    """a subclass of int with its own repr/str (what a logging or units wrapper does); the number is unchanged"""
    def __repr__(self): return f'<count {int(self)}>'
    __str__ = __repr__

NP_TYPES = {'np.int8': (-128, 127), 'np.int16': (-2 ** 15, 2 ** 15 - 1), 'np.int32': (-2 ** 31, 2 ** 31 - 1), 'np.int64': (-2 ** 63, 2 ** 63 - 1),
            'np.uint8': (0, 255), 'np.uint16': (0, 2 ** 16 - 1), 'np.uint32': (0, 2 ** 32 - 1), 'np.uint64': (0, 2 ** 64 - 1)}
NTYPES = ['bool', 'intsub', 'intsub_repr', 'intenum', 'intflag'] + list(NP_TYPES)

# KNOWN_OPEN: combinations that are not generated because the unchanged library is known to get them wrong. Empty: the in-place right shift used to do
# its slice arithmetic with the caller's count object (BitArray('0b10110') >>= numpy.uint8(2) gave 7 bits, -uint8(2) being 254; small signed types
# overflowed) - repaired in /repo as D64, so every numpy integer type is generated for every shift form.
KNOWN_OPEN = set()

def have_numpy():
    try:
        import numpy  # noqa
        return True
    except Exception:
        return False

def ntype_ok(op, form, n, t):
    if t is None: return True
    if (op, form, t) in KNOWN_OPEN: return False
    if t == 'bool': return n in (0, 1)
    if t == 'intflag': return n >= 0
    if t in NP_TYPES: return have_numpy() and NP_TYPES[t][0] <= n <= NP_TYPES[t][1]
    return True

def rand_ntype(rng, op, form, n):
    ok = [t for t in NTYPES if ntype_ok(op, form, n, t)]
    return rng.choice(ok)

def as_count(n, t):
    """the count n presented as an object of the kind t"""
    import enum
    if t is None: return n
    if t == 'bool':
        assert n in (0, 1)
        return bool(n)
    if t == 'intsub': return IntSub(n)
    if t == 'intsub_repr': return IntSubRepr(n)
    if t == 'intenum': return enum.IntEnum('Count', {'N': n}).N
    if t == 'intflag': return enum.IntFlag('Flag', {'N': n}).N
    if t in NP_TYPES:
        import numpy
        return getattr(numpy, t[3:])(n)
    raise AssertionError(t)

# ---------------------------------------------------------------------------------------------------------------------------------
# Law batteries (op 'laws').  One pair of operands (y derived as above, o of any class / a string / y itself), one shift count;
# every expression below is evaluated on the implementation and, independently, on a model of '0'/'1' strings; results of
# operators are operands of further operators.  Then a sequence of augmented assignments on a second object built the same way.
# ---------------------------------------------------------------------------------------------------------------------------------
class MErr(Exception):
    pass

def m_not(v):
    if not v[0]: raise MErr('BsError')
    return (''.join('1' if x == '0' else '0' for x in v[0]), v[1])

def m_bin(op, u, v):
    if len(u[0]) != len(v[0]): raise MErr('ValueError')
    f = {'and': lambda x, y: x == '1' and y == '1', 'or': lambda x, y: x == '1' or y == '1', 'xor': lambda x, y: x != y}[op]
    return (''.join('1' if f(x, y) else '0' for x, y in zip(u[0], v[0])), u[1] or v[1])       # class of the left operand when it is a bitstring

def m_shift(op, v, k):
    if k < 0 or not v[0]: raise MErr('ValueError')
    a = v[0]; m = min(k, len(a))
    return ((a[m:] + '0' * m) if op == 'lshift' else ('0' * m + a[:len(a) - m]), v[1])

def m_lit(v): return (v[0], None)         # the same bits as a plain string operand: no class of its own

def _lit(o): return ('0b' + o.bin) if len(o) else ''

LAWS = [
    ('y',             lambda y, o, k: y,                        lambda Y, O, k: Y),
    ('~y',            lambda y, o, k: ~y,                       lambda Y, O, k: m_not(Y)),
    ('~~y',           lambda y, o, k: ~~y,                      lambda Y, O, k: m_not(m_not(Y))),
    ('y&o',           lambda y, o, k: y & o,                    lambda Y, O, k: m_bin('and', Y, O)),
    ('y|o',           lambda y, o, k: y | o,                    lambda Y, O, k: m_bin('or', Y, O)),
    ('y^o',           lambda y, o, k: y ^ o,                    lambda Y, O, k: m_bin('xor', Y, O)),
    ('o&y',           lambda y, o, k: o & y,                    lambda Y, O, k: m_bin('and', O, Y)),
    ('o|y',           lambda y, o, k: o | y,                    lambda Y, O, k: m_bin('or', O, Y)),
    ('o^y',           lambda y, o, k: o ^ y,                    lambda Y, O, k: m_bin('xor', O, Y)),
    ('y^y',           lambda y, o, k: y ^ y,                    lambda Y, O, k: m_bin('xor', Y, Y)),
    ('y&y',           lambda y, o, k: y & y,                    lambda Y, O, k: m_bin('and', Y, Y)),
    ('y|y',           lambda y, o, k: y | y,                    lambda Y, O, k: m_bin('or', Y, Y)),
    ('y&lit(y)',      lambda y, o, k: y & _lit(y),              lambda Y, O, k: m_bin('and', Y, m_lit(Y))),
    ('lit(y)^y',      lambda y, o, k: _lit(y) ^ y,              lambda Y, O, k: m_bin('xor', m_lit(Y), Y)),
    ('~y|~o',         lambda y, o, k: ~y | ~o,                  lambda Y, O, k: m_bin('or', m_not(Y), m_not(O))),
    ('~(y&o)',        lambda y, o, k: ~(y & o),                 lambda Y, O, k: m_not(m_bin('and', Y, O))),
    ('~y&~o',         lambda y, o, k: ~y & ~o,                  lambda Y, O, k: m_bin('and', m_not(Y), m_not(O))),
    ('~(y|o)',        lambda y, o, k: ~(y | o),                 lambda Y, O, k: m_not(m_bin('or', Y, O))),
    ('(y^o)^o',       lambda y, o, k: (y ^ o) ^ o,              lambda Y, O, k: m_bin('xor', m_bin('xor', Y, O), O)),
    ('(y&o)|(y&~o)',  lambda y, o, k: (y & o) | (y & ~o),       lambda Y, O, k: m_bin('or', m_bin('and', Y, O), m_bin('and', Y, m_not(O)))),
    ('y|(y&o)',       lambda y, o, k: y | (y & o),              lambda Y, O, k: m_bin('or', Y, m_bin('and', Y, O))),
    ('~y^y',          lambda y, o, k: ~y ^ y,                   lambda Y, O, k: m_bin('xor', m_not(Y), Y)),
    ('~y&y',          lambda y, o, k: ~y & y,                   lambda Y, O, k: m_bin('and', m_not(Y), Y)),
    ('y<<k',          lambda y, o, k: y << k,                   lambda Y, O, k: m_shift('lshift', Y, k)),
    ('y>>k',          lambda y, o, k: y >> k,                   lambda Y, O, k: m_shift('rshift', Y, k)),
    ('(y<<k)>>k',     lambda y, o, k: (y << k) >> k,            lambda Y, O, k: m_shift('rshift', m_shift('lshift', Y, k), k)),
    ('(y>>k)<<k',     lambda y, o, k: (y >> k) << k,            lambda Y, O, k: m_shift('lshift', m_shift('rshift', Y, k), k)),
    ('~(y<<k)',       lambda y, o, k: ~(y << k),                lambda Y, O, k: m_not(m_shift('lshift', Y, k))),
    ('(~y)>>k',       lambda y, o, k: (~y) >> k,                lambda Y, O, k: m_shift('rshift', m_not(Y), k)),
    ('(y<<k)|(y>>k)', lambda y, o, k: (y << k) | (y >> k),      lambda Y, O, k: m_bin('or', m_shift('lshift', Y, k), m_shift('rshift', Y, k))),
    ('(y&o)<<k',      lambda y, o, k: (y & o) << k,             lambda Y, O, k: m_shift('lshift', m_bin('and', Y, O), k)),
    ('(y<<k)&(o<<k)', lambda y, o, k: (y << k) & (o << k),      lambda Y, O, k: m_bin('and', m_shift('lshift', Y, k), m_shift('lshift', O, k))),
    ('(y>>k)^o',      lambda y, o, k: (y >> k) ^ o,             lambda Y, O, k: m_bin('xor', m_shift('rshift', Y, k), O)),
]
LAWS_STR_OK = {n for n, _, _ in LAWS if '~o' not in n and 'o<<' not in n}      # expressions that make sense when o is a plain string
ISTEPS = ['iand_o', 'ior_o', 'ixor_o', 'iand_self', 'ior_self', 'ixor_self', 'ilshift', 'irshift', 'iand_lit', 'ixor_lit']

def _view(r):
    """what is observed of a result: bits, len(), class, unsigned value (non-empty results)"""
    b = r.bin
    return [b, len(r), type(r).__name__, (r.uint if len(r) else None)]

def _probe(f):
    try:
        return ['ok'] + _view(f())
    except Exception as e:
        if isinstance(e, Hang): raise
        return ['err', exn_name(e)]

def run_laws(c):
    import bitstring
    mode = c.get('lsb0', False)
    def make():
        x = build(c['cls'], c['a'], c.get('route', 'bin'), c.get('pos'))
        trail = []
        bitstring.options.lsb0 = c.get('dlsb0', False)          # the derivation itself under either numbering
        try: y = derive(x, c.get('derive'), trail)
        finally: bitstring.options.lsb0 = False
        return trail, y
    def f():
        tr, y = make()
        if c['other'] == 'self': o = y
        elif c['other'] in CLASSES: o = derive(build(c['other'], c['b'], 'bin'), c.get('oderive'))
        else: o = promotable(c['b'], c['other'])
        p0 = getattr(y, 'pos', None)
        bitstring.options.lsb0 = mode
        res = []
        for name, impl, _ in LAWS:
            if isinstance(o, str) and name not in LAWS_STR_OK: continue
            k = as_count(c['k'], c.get('ntype'))                # a fresh count object every time
            res.append([name] + _probe(lambda: impl(y, o, k)))
        bitstring.options.lsb0 = False
        after = [y.bin, len(y), type(y).__name__, getattr(y, 'pos', None) == p0, (o.bin if hasattr(o, 'bin') else None), [z.bin for z in tr]]
        # augmented assignments, one after the other, on a second object built and derived in the same way
        tr2, t = make()
        t0 = t
        bitstring.options.lsb0 = mode
        steps = []
        for st in c.get('isteps', []):
            k = as_count(c['k'], c.get('ntype'))
            try:
                if st == 'iand_o': t &= o
                elif st == 'ior_o': t |= o
                elif st == 'ixor_o': t ^= o
                elif st == 'iand_self': t &= t
                elif st == 'ior_self': t |= t
                elif st == 'ixor_self': t ^= t
                elif st == 'iand_lit': t &= _lit(t)
                elif st == 'ixor_lit': t ^= ('0b' + '1' * len(t)) if len(t) else ''
                elif st == 'ilshift': t <<= k
                elif st == 'irshift': t >>= k
                else: raise AssertionError(st)
                steps.append([st, 'ok'] + _view(t))
            except Exception as e:
                if isinstance(e, Hang): raise
                steps.append([st, 'err', exn_name(e)] + _view(t))
        bitstring.options.lsb0 = False
        return {'res': res, 'after': after, 'steps': steps, 'end': [t0.bin, len(t0), [z.bin for z in tr2 if z is not t0], (o.bin if hasattr(o, 'bin') else None)]}
    return attempt(f, 10)

def oracle_laws(c, obs):
    a, b, cls, k = c['a'], c['b'], c['cls'], c['k']
    who = f"{cls}({a!r}) [route {c.get('route', 'bin')}, derived by {c.get('derive')}{', lsb0' if c.get('lsb0') else ''}] with {c['other']}({b!r}){' derived by ' + str(c['oderive']) if c.get('oderive') else ''}, k = {k}{' as ' + c['ntype'] if c.get('ntype') else ''}"
    if obs[0] != 'ok': return f"{who}: building / deriving the operands or the battery itself raised {obs}"
    r = obs[1]
    Y = (a, cls)
    O = Y if c['other'] == 'self' else (b, c['other'] if c['other'] in CLASSES else None)
    models = {n: m for n, _, m in LAWS}
    for name, *got in r['res']:
        try: exp = models[name](Y, O, k)
        except MErr as e: exp = e.args[0]
        if isinstance(exp, str):
            if got != ['err', exp]: return f"{who}: {name} must raise {exp}, got {str(got)[:200]}"
            continue
        eb, ec = exp
        if got[0] != 'ok': return f"{who}: {name} raised {got[1]}; the per-bit model gives {eb!r}"
        if got[1] != eb: return f"{who}: {name} = {got[1]!r}, the per-bit model gives {eb!r}"
        if got[2] != len(eb): return f"{who}: len({name}) = {got[2]}, expected {len(eb)} (.bin has {len(got[1])} bits)"
        if got[3] != ec: return f"{who}: {name} is a {got[3]}, expected {ec}"
        if eb and got[4] != int(eb, 2): return f"{who}: ({name}).uint = {got[4]}, the integer model gives {int(eb, 2)}"
    af = r['after']
    if af[0] != a or af[1] != len(a) or af[2] != cls: return f"{who}: the operand was modified by the non-in-place operators: now {af[:3]}"
    if not af[3]: return f"{who}: the operators moved the operand's pos"
    if af[4] is not None and af[4] != (a if c['other'] == 'self' else b): return f"{who}: the other operand was modified: now {af[4]!r}"
    if any(z != a for z in af[5]): return f"{who}: an object the operand was derived from was modified by the non-in-place operators: now {af[5]}"
    # the augmented assignments
    T = Y
    done = []
    for st, status, *rest in r['steps']:
        try:
            if st in ('ilshift', 'irshift'): E = m_shift(st[1:], T, k)
            else:
                opn, what = st[1:].split('_')
                other = {'o': O, 'self': T, 'lit': m_lit(T) if opn == 'and' else ('1' * len(T[0]), None)}[what]
                E = m_bin(opn, T, other)
        except MErr as e:
            E = e.args[0]
        if isinstance(E, str):
            if status != 'err' or rest[0] != E: return f"{who}: after the steps {done} the step {st} on {T[0]!r} must raise {E}, got {status} {str(rest)[:160]}"
            if rest[1] != T[0]: return f"{who}: the refused step {st} changed the bitstring to {rest[1]!r} (was {T[0]!r})"
            done.append(st)
            continue
        if status != 'ok': return f"{who}: after the steps {done} the in-place step {st} on {T[0]!r} raised {rest[0]}; the per-bit model gives {E[0]!r}"
        if rest[0] != E[0] or rest[1] != len(E[0]) or rest[2] != cls or (E[0] and rest[3] != int(E[0], 2)):
            return f"{who}: after the steps {done} the in-place step {st} on {T[0]!r} gave {str(rest)[:200]}; the per-bit model gives {E[0]!r} ({cls}, {len(E[0])} bits)"
        T = (E[0], cls)
        done.append(st)
    en = r['end']
    if cls in MUTABLE:
        if en[0] != T[0]: return f"{who}: after the in-place steps {c.get('isteps')} the object holds {en[0]!r}, the model {T[0]!r} (the name was rebound to another object?)"
    elif en[0] != a: return f"{who}: augmented assignment on an immutable {cls} changed the object itself: {en[0]!r}"
    if any(z != a for z in en[2]): return f"{who}: the in-place steps {c.get('isteps')} on the derived object changed an object it was derived from: {en[2]}"
    if en[3] is not None and c['other'] != 'self' and en[3] != b: return f"{who}: the in-place steps changed their right operand: {en[3]!r}"
    return None

LAW_LENGTHS = [1, 2, 3, 4, 5, 6, 7, 9, 10, 11, 12, 13, 14, 15, 17, 18, 23, 25, 31, 33, 47, 63, 65, 127, 129, 8, 16, 24, 32, 64, 128, 0]

def gen_laws(rng, tier, n):
    for _ in range(n):
        r = rng.random()
        l = rng.choice(LAW_LENGTHS) if r < 0.75 else (rng.randrange(1, 260) if r < 0.96 or tier == 'quick' else rng.choice([999, 1001, 2001, 4099]))
        a = rand_bits(rng, l)
        cls = rng.choice(CLASSES)
        other = rng.choice(CLASSES + CLASSES + ['str', 'self'])
        b = a if other == 'self' else rand_bits(rng, l if rng.random() < 0.93 else max(0, l + rng.choice([-1, 1, 8])))
        k = rng.choice([0, 1, 1, 0, 2, 3, 7, 8, 9, max(l - 1, 0), l, l + 1, rng.randrange(0, l + 2), -1, 1 << 70])
        c = {'op': 'laws', 'cls': cls, 'a': a, 'b': b, 'other': other, 'k': k, 'derive': rand_derive(rng, cls, heavy=True) if rng.random() < 0.9 else [],
             'route': rng.choice(ROUTES) if rng.random() < 0.3 else 'bin', 'pos': rng.choice([None, None, 0, l // 2, l]), 'lsb0': rng.random() < 0.3, 'dlsb0': rng.random() < 0.15,
             'isteps': [rng.choice(ISTEPS) for _ in range(rng.randrange(0, 5))]}
        if other in CLASSES and rng.random() < 0.5: c['oderive'] = rand_derive(rng, other)
        if rng.random() < 0.5:
            # the count as a non-plain integer; it is used by pure and in-place shifts of the battery alike, so it must be allowed for all of them
            ok = [t for t in NTYPES if all(ntype_ok(op, form, k, t) for op in ('lshift', 'rshift') for form in ('pure', 'inplace'))]
            c['ntype'] = rng.choice(ok)
        yield c

def gen_cases(rng, tier):
    N = 500 if tier == 'quick' else 8000
    def with_history(c, other=None):
        """about a third of the cases apply the operator to operands that went through a derivation first"""
        if rng.random() < 0.35:
            c['derive'] = rand_derive(rng, c['cls'])
            if rng.random() < 0.2: c['dlsb0'] = True
        if other in CLASSES and rng.random() < 0.25: c['oderive'] = rand_derive(rng, other)
        return c
    for _ in range(N):
        l = rand_len(rng, tier)
        a = rand_bits(rng, l)
        same_len = rng.random() < 0.8
        l2 = l if same_len else rand_len(rng, tier)
        b = rand_bits(rng, l2)
        other = rng.choice(CLASSES + ['str', 'list', 'bitarray', 'self', 'self', 'gen_truthy', 'iter'])
        form = rng.choice(['pure', 'pure', 'inplace', 'reflected'])
        if other == 'bitarray' and form == 'reflected': form = 'pure'   # bitarray.__and__(Bits) raises TypeError itself: not bitstring's behaviour
        yield with_history({'op': rng.choice(OPS), 'cls': rng.choice(CLASSES), 'a': a, 'b': a if other == 'self' else b, 'other': other,
               'form': form, 'pos': rng.choice([None, 0, l // 2, l]), 'lsb0': rng.random() < 0.3, 'route': rng.choice(ROUTES) if rng.random() < 0.5 else 'bin'}, other)
        yield with_history({'op': 'invert', 'cls': rng.choice(CLASSES), 'a': a, 'lsb0': rng.random() < 0.3, 'route': rng.choice(ROUTES) if rng.random() < 0.5 else 'bin'})
        n = rng.choice([-3, -1, 0, 1, 2, 7, 8, l - 1, l, l + 1, 2 * l + 3, rng.randrange(0, l + 2), 1 << 70, 0, 1])
        c = with_history({'op': rng.choice(['lshift', 'rshift']), 'cls': rng.choice(CLASSES), 'a': a, 'n': n, 'form': rng.choice(['pure', 'inplace']), 'route': rng.choice(ROUTES) if rng.random() < 0.4 else 'bin',
               'pos': rng.choice([None, 0, l // 2, l]), 'lsb0': rng.random() < 0.4})
        if rng.random() < 0.4: c['ntype'] = rand_ntype(rng, c['op'], c['form'], n)       # the count as bool / IntEnum / IntFlag / int subclass / numpy integer
        yield c
    for l in range(0, 4):
        for v in range(1 << l):
            a = format(v, f'0{l}b') if l else ''
            for n in range(-1, l + 3):
                for op in ('lshift', 'rshift'):
                    yield {'op': op, 'cls': 'BitArray', 'a': a, 'n': n, 'form': 'pure'}
                    yield {'op': op, 'cls': 'BitArray', 'a': a, 'n': n, 'form': 'inplace', 'lsb0': True}
    # every kind of count object with every small value, on every class, pure and in place, both directions (True / False included; empty and 1-bit contents too)
    conts = ['', '1', '0', '10', '011', '10110', '110100101', '1' * 8, '1' + '0' * 15 + '1'] + ([] if tier == 'quick' else ['1' * 63, '1' + '0' * 63 + '1', rand_bits(rng, 129, 'rand')])
    for t in NTYPES:
        for n in (0, 1, 2, -1) if tier == 'quick' else (0, 1, 2, 3, 8, 9, 64, -1, -2):
            for op in ('lshift', 'rshift'):
                for form in ('pure', 'inplace'):
                    if not ntype_ok(op, form, n, t): continue
                    classes = CLASSES if form == 'pure' else MUTABLE
                    for cls in (classes if t == 'bool' or tier != 'quick' else [rng.choice(classes)]):
                        for a in (conts if t == 'bool' else [rng.choice(conts[1:])] if tier == 'quick' else [rng.choice(conts) for _ in range(4)]):
                            yield {'op': op, 'cls': cls, 'a': a, 'n': n, 'ntype': t, 'form': form, 'lsb0': rng.random() < 0.3, 'pos': rng.choice([None, len(a)])}
    # every derivation on every class with a length that is not a whole number of bytes (and one that is), all operators
    for d in DERIVATIONS:
        for cls in CLASSES:
            if d in D_MUT and cls not in MUTABLE or d in D_STREAM and 'Stream' not in cls: continue
            for l in ([rng.choice([3, 5, 13, 18, 65]), rng.choice([8, 16, 64])] if tier == 'quick' else [1, 3, 7, 8, 13, 18, 31, 64, 65, 130]):
                a = rand_bits(rng, l, 'rand'); b = rand_bits(rng, l, 'rand')
                lsb0 = rng.random() < 0.25
                sel = rng.randrange(4)
                if tier != 'quick' or sel == 0: yield {'op': 'invert', 'cls': cls, 'a': a, 'derive': [d], 'lsb0': lsb0}
                if tier != 'quick' or sel == 1:
                    yield {'op': rng.choice(OPS), 'cls': cls, 'a': a, 'b': b, 'other': rng.choice(CLASSES), 'form': rng.choice(['pure', 'reflected', 'inplace'] if cls in MUTABLE else ['pure', 'reflected']),
                           'pos': None, 'derive': [d], 'lsb0': lsb0}
                if tier != 'quick' or sel == 2:
                    yield {'op': rng.choice(OPS), 'cls': rng.choice(CLASSES), 'a': b, 'b': a, 'other': cls, 'form': rng.choice(['pure', 'reflected']), 'pos': None, 'oderive': [d], 'lsb0': lsb0}
                if tier != 'quick' or sel == 3:
                    yield {'op': rng.choice(['lshift', 'rshift']), 'cls': cls, 'a': a, 'n': rng.choice([0, 1, 2, l - 1, l]), 'form': rng.choice(['pure', 'inplace']), 'derive': [d], 'lsb0': lsb0, 'pos': None}
    yield from gen_laws(rng, tier, 260 if tier == 'quick' else 5000)

def kind(c):
    return c['op'] + ':' + c.get('form', '') + ('+derived' if c.get('derive') or c.get('oderive') else '') + ('+count:' + c['ntype'] if c.get('ntype') else '')

def under_mode(c, f):
    """run f with options.lsb0 as the case says (operands are built under msb0): the operators and shifts do not depend on the mode"""
    def g():
        import bitstring
        bitstring.options.lsb0 = c.get('lsb0', False)
        try: return f()
        finally: bitstring.options.lsb0 = False
    return g

def run_impl(c):
    op = c['op']
    if op == 'laws': return run_laws(c)
    s = build(c['cls'], c['a'], c.get('route', 'bin'), c.get('pos'))        # the left operand through any construction route (files included)
    orig = s
    if c.get('derive'):
        import bitstring
        bitstring.options.lsb0 = c.get('dlsb0', False)                      # ... and then through a derivation that keeps bits and class (under either numbering)
        try: s = derive(s, c['derive'])
        finally: bitstring.options.lsb0 = False
    p0 = getattr(s, 'pos', None)
    if op in OPS:
        other = s if c['other'] == 'self' else (derive(build(c['other'], c['b'], 'bin'), c.get('oderive')) if c['other'] in CLASSES else promotable(c['b'], c['other']))
        def f():
            if c['form'] == 'inplace':
                if c['cls'] not in MUTABLE: return ['skip']
                t = s
                if op == 'and': t &= other
                elif op == 'or': t |= other
                else: t ^= other
                return [t.bin, type(t).__name__, None, None, t is s, None, None, None, len(t), None, (orig.bin if orig is not s else None)]
            r = PYOP[op](s, other) if c['form'] == 'pure' else PYOP[op](other, s)
            ob = other.bin if hasattr(other, 'bin') else None
            return [r.bin, type(r).__name__, s.bin, ob, r is s, getattr(s, 'pos', None), getattr(r, 'pos', None), p0, len(r), len(s)]
        return attempt(under_mode(c, f))
    if op == 'invert':
        def f():
            r = ~s
            return [r.bin, type(r).__name__, s.bin, len(r), len(s)]
        return attempt(under_mode(c, f))
    if op in ('lshift', 'rshift'):
        def f():
            n = as_count(c['n'], c.get('ntype'))
            if c['form'] == 'inplace':
                if c['cls'] not in MUTABLE: return ['skip']
                t = s
                if op == 'lshift': t <<= n
                else: t >>= n
                return [t.bin, type(t).__name__, None, len(t), t is s, (orig.bin if orig is not s else None)]
            r = (s << n) if op == 'lshift' else (s >> n)
            return [r.bin, type(r).__name__, s.bin, len(r), len(s)]
        return attempt(under_mode(c, f))

def intop(op, a, b):
    x, y = int(a, 2), int(b, 2)
    v = {'and': x & y, 'or': x | y, 'xor': x ^ y}[op]
    return format(v, f'0{len(a)}b')

def hist(c):
    """how the operands of the case came about, for the messages"""
    t = ''
    if c.get('route', 'bin') != 'bin': t += f" built by route {c['route']}"
    if c.get('derive'): t += f" then derived by {'+'.join(c['derive'])}" + (' (under lsb0)' if c.get('dlsb0') else '')
    if c.get('oderive'): t += f"; other operand derived by {'+'.join(c['oderive'])}"
    if c.get('lsb0'): t += '; lsb0'
    return t

def oracle(c, obs):
    op, a = c['op'], c['a']
    if obs == ('ok', ['skip']): return None
    if op == 'laws': return oracle_laws(c, obs)
    if op in OPS:
        b = c['b']
        if len(a) != len(b):
            return None if obs == ('err', 'ValueError') else f"{c['cls']}({len(a)} bits) {op} {c['other']}({len(b)} bits){hist(c)} must raise ValueError, got {str(obs)[:200]}"
        exp = intop(op, a, b) if a else ''
        if obs[0] != 'ok': return f"{c['cls']}({a!r}) {op}[{c['form']}] {c['other']}({b!r}){hist(c)}: equal lengths, raised {obs}"
        r = obs[1]
        rc = c['cls'] if (c['form'] != 'reflected' or c['other'] not in CLASSES) else c['other']
        if c['form'] == 'reflected' and c['other'] in CLASSES + ['self']: rc = c['cls'] if c['other'] == 'self' else c['other']
        if r[0] != exp: return f"{c['cls']}({a!r}) {op}[{c['form']}] {c['other']}({b!r}){hist(c)} = {r[0]!r}, integer model gives {exp!r}"
        if r[1] != rc: return f"{op}[{c['form']}] {c['cls']} with {c['other']}{hist(c)} returned class {r[1]}, expected {rc}"
        if len(r) > 8 and r[8] != len(a): return f"{c['cls']}({a!r}) {op}[{c['form']}] {c['other']}({b!r}){hist(c)}: len() of the result is {r[8]}, expected {len(a)}"
        if len(r) > 10 and r[10] not in (None, a): return f"{c['cls']}({a!r}) {op}[inplace] {c['other']}({b!r}){hist(c)}: the in-place operator on the derived object changed the object it was derived from: {r[10]!r}"
        if c['form'] != 'inplace':
            if r[2] != a or (r[3] is not None and r[3] != b) or (len(r) > 9 and r[9] != len(a)): return f"{op}{hist(c)} modified an operand: {r}"
            p0 = r[7] if len(r) > 7 else c.get('pos')           # the operand's pos just before the operator
            if p0 is not None and r[5] is not None and r[5] != p0:
                return f"{c['cls']}(pos={p0}) {op} {c['other']}{hist(c)}: the operator moved the operand's pos to {r[5]}"
            if len(r) > 6 and r[6] not in (None, 0): return f"{op}{hist(c)} result stream starts at pos {r[6]}, expected 0"
        return None
    if op == 'invert':
        if not a: return None if obs == ('err', 'BsError') else f"~ of empty {c['cls']}{hist(c)} must raise Error, got {obs}"
        exp = ''.join('1' if x == '0' else '0' for x in a)
        if obs[0] != 'ok': return f"~{c['cls']}({a!r}){hist(c)} raised {obs}; the per-bit model gives {exp!r}"
        r = obs[1]
        if r[0] != exp or r[3] != len(a): return f"~{c['cls']}({a!r}){hist(c)} = {r[0]!r} (len() says {r[3]} bits); the per-bit model gives {exp!r} ({len(a)} bits)"
        if r[1] != c['cls']: return f"~{c['cls']}{hist(c)} returned class {r[1]}"
        if r[2] != a or r[4] != len(a): return f"~{c['cls']}({a!r}){hist(c)} modified its operand: now {r[2]!r} ({r[4]} bits)"
        return None
    n = c['n']
    cnt = f"{n}" + (f" given as {c['ntype']}" if c.get('ntype') else '')
    if n < 0 or not a:
        return None if obs == ('err', 'ValueError') else f"{c['cls']}({a!r}) {op}[{c['form']}] {cnt}{hist(c)} must raise ValueError, got {str(obs)[:200]}"
    L = len(a); x = int(a, 2)
    m = min(n, L + 1)
    v = ((x << m) & ((1 << L) - 1)) if op == 'lshift' else (x >> m)
    exp = format(v, f'0{L}b')
    if obs[0] != 'ok' or obs[1][0] != exp or obs[1][1] != c['cls'] or (obs[1][2] is not None and obs[1][2] != a) or obs[1][3] != L:
        return f"{c['cls']}({a!r}) {op}[{c['form']}] {cnt}{hist(c)} gave {str(obs)[:200]}, integer model gives {exp!r} ({L} bits)"
    if c['form'] == 'inplace' and len(obs[1]) > 5 and obs[1][5] not in (None, a):
        return f"{c['cls']}({a!r}) {op}[inplace] {cnt}{hist(c)}: the in-place shift of the derived object changed the object it was derived from: {obs[1][5]!r}"
    if c['form'] == 'inplace' and obs[1][4] is not True: return f"{c['cls']}({a!r}) {op}[inplace] {cnt}{hist(c)} returned another object, not the shifted one"
    if c['form'] != 'inplace' and obs[1][4] != L: return f"{c['cls']}({a!r}) {op} {cnt}{hist(c)} changed the length of its operand to {obs[1][4]}"

def nontrivial(c, obs):
    return len(c['a']) > 1 and '0' in c['a'] and '1' in c['a']

def classify(c, obs):
    if c['op'] in ('and', 'or') and c.get('other') == 'self' and c['cls'] == 'ConstBitStream' and c.get('form') != 'inplace':
        return 'constbitstream-self-operand-and-or'
    return None

def coq_check(c, obs):
    op, a = c['op'], c['a']
    if obs == ('ok', ['skip']): return None
    if op == 'laws': return None          # compound expressions and step sequences: the str model of oracle_laws decides
    # (derivations keep the bits and a count object denotes the plain integer c['n'], so the model terms below are the same with or without them)
    o = ('ok', obs[1][0]) if obs[0] == 'ok' else obs
    if op in OPS:
        same = cbool(c['other'] == 'self' and c['form'] != 'inplace')
        A, B = cbits(a), cbits(c['b'])
        if c['form'] == 'inplace':
            f = {'and': 'bs_iand', 'or': 'bs_ior', 'xor': 'bs_ixor'}[op]
            return f"rbits_eqb ({f} {A} {B}) {cres(o, cbits)}"
        if c['form'] == 'reflected' and c['other'] != 'self': A, B = B, A
        if op == 'xor': return f"rbits_eqb (bs_xor {A} {B}) {cres(o, cbits)}"
        return f"rbits_eqb (bs_{op} {same} {A} {B}) {cres(o, cbits)}"
    if op == 'invert':
        return f"rbits_eqb (bs_invert {cbits(a)}) {cres(o, cbits)}"
    f = ('bs_i' if c['form'] == 'inplace' else 'bs_') + op
    return f"rbits_eqb ({f} {cbits(a)} {cz(c['n'])}) {cres(o, cbits)}"

def search(seeds, rng):
    pool = list(seeds) + list(gen_cases(rng, 'thorough'))[:30000]
    for c in pool:
        try: obs = run_impl(c)
        finally: reset_options()
        msg = oracle(c, obs)
        if msg and classify(c, obs) is None: return c, obs, msg
    return None
