"""C16 — bit-wise operators and shifts are per-bit boolean functions with fixed length."""
from vlib import *
from props.common import *

ID = 'C16'
COQ_PROPS = ['Props/C16.v']
COQ_IMPORTS = ['Prims', 'CaseLib', 'BitsCore', 'SeqProofs', 'BitwiseProofs']
RULE = ('pairs of contents of equal and unequal length (0, 1, 63..65, 127..129, random), self-operand cases (same object), four classes, promotable right operands, '
        'pure and in-place forms, shift counts from -3 to beyond len and 2^70; non-trivial = both operands non-empty and not all-equal bits; distinct by arguments')
ASSUMPTIONS = ['bitarray & | ^ ~ are element-wise with ValueError on length mismatch (modelled as map2; L0 by these cases)']
OPS = ['and', 'or', 'xor']
PYOP = {'and': lambda a, b: a & b, 'or': lambda a, b: a | b, 'xor': lambda a, b: a ^ b}

def gen_cases(rng, tier):
    N = 500 if tier == 'quick' else 8000
    for _ in range(N):
        l = rand_len(rng, tier)
        a = rand_bits(rng, l)
        same_len = rng.random() < 0.8
        l2 = l if same_len else rand_len(rng, tier)
        b = rand_bits(rng, l2)
        other = rng.choice(CLASSES + ['str', 'list', 'bitarray', 'self', 'self', 'gen_truthy', 'iter'])
        form = rng.choice(['pure', 'pure', 'inplace', 'reflected'])
        if other == 'bitarray' and form == 'reflected': form = 'pure'   # bitarray.__and__(Bits) raises TypeError itself: not bitstring's behaviour
        yield {'op': rng.choice(OPS), 'cls': rng.choice(CLASSES), 'a': a, 'b': a if other == 'self' else b, 'other': other,
               'form': form, 'pos': rng.choice([None, 0, l // 2, l]), 'lsb0': rng.random() < 0.3, 'route': rng.choice(ROUTES) if rng.random() < 0.5 else 'bin'}
        yield {'op': 'invert', 'cls': rng.choice(CLASSES), 'a': a, 'lsb0': rng.random() < 0.3, 'route': rng.choice(ROUTES) if rng.random() < 0.5 else 'bin'}
        n = rng.choice([-3, -1, 0, 1, 2, 7, 8, l - 1, l, l + 1, 2 * l + 3, rng.randrange(0, l + 2), 1 << 70])
        yield {'op': rng.choice(['lshift', 'rshift']), 'cls': rng.choice(CLASSES), 'a': a, 'n': n, 'form': rng.choice(['pure', 'inplace']), 'route': rng.choice(ROUTES) if rng.random() < 0.4 else 'bin',
               'pos': rng.choice([None, 0, l // 2, l]), 'lsb0': rng.random() < 0.4}
    for l in range(0, 4):
        for v in range(1 << l):
            a = format(v, f'0{l}b') if l else ''
            for n in range(-1, l + 3):
                for op in ('lshift', 'rshift'):
                    yield {'op': op, 'cls': 'BitArray', 'a': a, 'n': n, 'form': 'pure'}
                    yield {'op': op, 'cls': 'BitArray', 'a': a, 'n': n, 'form': 'inplace', 'lsb0': True}

def kind(c):
    return c['op'] + ':' + c.get('form', '')

def under_mode(c, f):
    """run f with options.lsb0 as the case says (operands are built under msb0): the operators and shifts do not depend on the mode"""
    def g():
        import bitstring
        bitstring.options.lsb0 = c.get('lsb0', False)
        try: return f()
        finally: bitstring.options.lsb0 = False
    return g

def run_impl(c):
    op = c['op']
    s = build(c['cls'], c['a'], c.get('route', 'bin'), c.get('pos'))        # the left operand through any construction route (files included)
    if op in OPS:
        other = s if c['other'] == 'self' else (build(c['other'], c['b'], 'bin') if c['other'] in CLASSES else promotable(c['b'], c['other']))
        def f():
            if c['form'] == 'inplace':
                if c['cls'] not in MUTABLE: return ['skip']
                t = s
                if op == 'and': t &= other
                elif op == 'or': t |= other
                else: t ^= other
                return [t.bin, type(t).__name__, None, None, t is s]
            r = PYOP[op](s, other) if c['form'] == 'pure' else PYOP[op](other, s)
            ob = other.bin if hasattr(other, 'bin') else None
            return [r.bin, type(r).__name__, s.bin, ob, r is s, getattr(s, 'pos', None), getattr(r, 'pos', None)]
        return attempt(under_mode(c, f))
    if op == 'invert':
        def f():
            r = ~s
            return [r.bin, type(r).__name__, s.bin]
        return attempt(under_mode(c, f))
    if op in ('lshift', 'rshift'):
        def f():
            if c['form'] == 'inplace':
                if c['cls'] not in MUTABLE: return ['skip']
                t = s
                if op == 'lshift': t <<= c['n']
                else: t >>= c['n']
                return [t.bin, type(t).__name__, None]
            r = (s << c['n']) if op == 'lshift' else (s >> c['n'])
            return [r.bin, type(r).__name__, s.bin]
        return attempt(under_mode(c, f))

def intop(op, a, b):
    x, y = int(a, 2), int(b, 2)
    v = {'and': x & y, 'or': x | y, 'xor': x ^ y}[op]
    return format(v, f'0{len(a)}b')

def oracle(c, obs):
    op, a = c['op'], c['a']
    if obs == ('ok', ['skip']): return None
    if op in OPS:
        b = c['b']
        if len(a) != len(b):
            return None if obs == ('err', 'ValueError') else f"{c['cls']}({len(a)} bits) {op} {c['other']}({len(b)} bits) must raise ValueError, got {str(obs)[:200]}"
        exp = intop(op, a, b) if a else ''
        if obs[0] != 'ok': return f"{op} on equal lengths raised {obs}"
        r = obs[1]
        rc = c['cls'] if (c['form'] != 'reflected' or c['other'] not in CLASSES) else c['other']
        if c['form'] == 'reflected' and c['other'] in CLASSES + ['self']: rc = c['cls'] if c['other'] == 'self' else c['other']
        if r[0] != exp: return f"{c['cls']}({a!r}) {op}[{c['form']}] {c['other']}({b!r}) = {r[0]!r}, integer model gives {exp!r}"
        if r[1] != rc: return f"{op}[{c['form']}] {c['cls']} with {c['other']} returned class {r[1]}, expected {rc}"
        if c['form'] != 'inplace':
            if r[2] != a or (r[3] is not None and r[3] != b): return f"{op} modified an operand: {r}"
            if c.get('pos') is not None and len(r) > 5 and r[5] is not None and r[5] != c['pos']:
                return f"{c['cls']}(pos={c['pos']}) {op} {c['other']}: the operator moved the operand's pos to {r[5]}"
            if len(r) > 6 and r[6] not in (None, 0): return f"{op} result stream starts at pos {r[6]}, expected 0"
        return None
    if op == 'invert':
        if not a: return None if obs == ('err', 'BsError') else f"~ of empty {c['cls']} must raise Error, got {obs}"
        exp = ''.join('1' if x == '0' else '0' for x in a)
        return None if obs == ('ok', [exp, c['cls'], a]) else f"~{c['cls']}({a!r}) gave {str(obs)[:200]}"
    n = c['n']
    if n < 0 or not a:
        return None if obs == ('err', 'ValueError') else f"{c['cls']}({a!r}) {op} {n} must raise ValueError, got {str(obs)[:200]}"
    L = len(a); x = int(a, 2)
    m = min(n, L + 1)
    v = ((x << m) & ((1 << L) - 1)) if op == 'lshift' else (x >> m)
    exp = format(v, f'0{L}b')
    if obs[0] != 'ok' or obs[1][0] != exp or obs[1][1] != c['cls'] or (obs[1][2] is not None and obs[1][2] != a):
        return f"{c['cls']}({a!r}) {op}[{c['form']}] {n} gave {str(obs)[:200]}, integer model gives {exp!r}"

def nontrivial(c, obs):
    return len(c['a']) > 1 and '0' in c['a'] and '1' in c['a']

def classify(c, obs):
    if c['op'] in ('and', 'or') and c.get('other') == 'self' and c['cls'] == 'ConstBitStream' and c.get('form') != 'inplace':
        return 'constbitstream-self-operand-and-or'
    return None

def coq_check(c, obs):
    op, a = c['op'], c['a']
    if obs == ('ok', ['skip']): return None
    o = ('ok', obs[1][0]) if obs[0] == 'ok' else obs
    if op in OPS:
        same = cbool(c['other'] == 'self' and c['form'] != 'inplace')
        A, B = cbits(a), cbits(c['b'])
        if c['form'] == 'inplace':
            f = {'and': 'bs_iand', 'or': 'bs_ior', 'xor': 'bs_ixor'}[op]
            return f"rbits_eqb ({f} {A} {B}) {cres(o, cbits)}"
        if c['form'] == 'reflected' and c['other'] != 'self': A, B = B, A
        if op == 'xor': return f"rbits_eqb (bs_xor {A} {B}) {cres(o, cbits)}"
        return f"rbits_eqb (bs_{op} {same} {A} {B}) {cres(o, cbits)}"
    if op == 'invert':
        return f"rbits_eqb (bs_invert {cbits(a)}) {cres(o, cbits)}"
    f = ('bs_i' if c['form'] == 'inplace' else 'bs_') + op
    return f"rbits_eqb ({f} {cbits(a)} {cz(c['n'])}) {cres(o, cbits)}"

def search(seeds, rng):
    pool = list(seeds) + list(gen_cases(rng, 'thorough'))[:30000]
    for c in pool:
        try: obs = run_impl(c)
        finally: reset_options()
        msg = oracle(c, obs)
        if msg and classify(c, obs) is None: return c, obs, msg
    return None
