"""Shared generators: bit contents, classes, construction routes."""
import io, os, tempfile, array

CLASSES = ['Bits', 'BitArray', 'ConstBitStream', 'BitStream']
COQ_CLS = {'Bits': 'CBits', 'BitArray': 'CBitArray', 'ConstBitStream': 'CConstBitStream', 'BitStream': 'CBitStream'}
MUTABLE = ['BitArray', 'BitStream']
BOUNDARY_LENGTHS = [0, 1, 2, 7, 8, 9, 15, 16, 17, 31, 32, 33, 63, 64, 65, 127, 128, 129]
LONG_LENGTHS = [999, 1000, 1001, 1999, 2000, 2001, 3599, 3601, 8191, 8192, 8193]

def cls_of(name):
    import bitstring
    return getattr(bitstring, name)

def rand_bits(rng, n, style=None):
    style = style or rng.choice(['rand', 'rand', 'rand', 'zeros', 'ones', 'periodic', 'sparse'])
    if n == 0: return ''
    if style == 'zeros': return '0' * n
    if style == 'ones': return '1' * n
    if style == 'periodic':
        p = ''.join(rng.choice('01') for _ in range(rng.randrange(1, 9)))
        return (p * (n // len(p) + 1))[:n]
    if style == 'sparse':
        return ''.join('1' if rng.random() < 0.1 else '0' for _ in range(n))
    return ''.join(rng.choice('01') for _ in range(n))

def rand_len(rng, tier, small=False):
    r = rng.random()
    if small or r < 0.45: return rng.randrange(0, 20)
    if r < 0.8: return rng.choice(BOUNDARY_LENGTHS)
    if r < 0.93 or tier == 'quick' and r < 0.985: return rng.randrange(20, 300)
    return rng.choice(LONG_LENGTHS)

ROUTES = ['bin', 'auto', 'bytes', 'iter', 'bitarray', 'slice', 'copy', 'bytesio', 'join', 'file', 'file_exact', 'bitarray_le', 'filehandle_raw', 'filehandle_rw']

def build(clsname, bits, route='bin', pos=None):
    """Construct an object of class clsname holding `bits` through the given route."""
    import bitstring, bitarray
    C = cls_of(clsname)
    n = len(bits)
    kw = {}
    if route == 'bin' or n == 0 and route in ('bytes', 'bytesio'):
        o = C(bin=bits)
    elif route == 'auto':
        o = C('0b' + bits) if n else C()
    elif route == 'bytes':
        off = 3
        padded = '0' * off + bits + '0' * ((-(off + n)) % 8)
        o = C(bytes=int(padded, 2).to_bytes(len(padded) // 8, 'big'), offset=off, length=n)
    elif route == 'bytesio':
        off = 5
        padded = '1' * off + bits + '1' * ((-(off + n)) % 8)
        o = C(io.BytesIO(int(padded, 2).to_bytes(len(padded) // 8, 'big')), offset=off, length=n)
    elif route == 'iter':
        o = C([int(c) for c in bits])
    elif route == 'bitarray':
        o = C(bitarray=bitarray.bitarray('1' + bits + '0'), offset=1, length=n) if n % 2 else C(bitarray.bitarray(bits))
    elif route == 'slice':
        big = C(bin='101' + bits + '0110')
        o = big[3:3 + n]
    elif route == 'copy':
        import copy
        o = copy.copy(C(bin=bits))
    elif route == 'join':
        h = n // 2
        o = C().join([bitstring.Bits(bin=bits[:h]), bitstring.BitArray(bin=bits[h:])])
    elif route == 'bitarray_le':
        o = C(bitarray.bitarray(bits, endian='little'))
    elif route in ('file', 'file_exact'):
        # memory-mapped file: 'file' is an unaligned window of a longer file, 'file_exact' the whole (zero padded) file with an explicit length
        import tempfile, os
        if n == 0: o = C(bin=bits)
        else:
            allb = ('10110' + bits + '011') if route == 'file' else bits
            allb += '0' * ((-len(allb)) % 8)
            fd, path = tempfile.mkstemp(prefix='verif_route_')
            try:
                with os.fdopen(fd, 'wb') as fh: fh.write(int(allb, 2).to_bytes(len(allb) // 8, 'big'))
                o = C(filename=path, offset=5, length=n) if route == 'file' else C(filename=path, length=n)
            finally:
                os.unlink(path)          # the mapping stays valid
    elif route == 'filehandle_rw':
        # a handle opened for reading and writing (io.BufferedRandom), offset window
        import tempfile, os
        if n == 0: o = C(bin=bits)
        else:
            allb = '110' + bits; allb += '0' * ((-len(allb)) % 8)
            fd, path = tempfile.mkstemp(prefix='verif_route_')
            try:
                with os.fdopen(fd, 'wb') as fh: fh.write(int(allb, 2).to_bytes(len(allb) // 8, 'big'))
                with open(path, 'r+b') as fh: o = C(fh, offset=3, length=n)
            finally:
                os.unlink(path)
    elif route == 'filehandle_raw':
        # an unbuffered binary handle (io.FileIO) on a zero padded file, explicit length
        import tempfile, os
        if n == 0: o = C(bin=bits)
        else:
            allb = bits + '0' * ((-n) % 8)
            fd, path = tempfile.mkstemp(prefix='verif_route_')
            try:
                with os.fdopen(fd, 'wb') as fh: fh.write(int(allb, 2).to_bytes(len(allb) // 8, 'big'))
                with open(path, 'rb', buffering=0) as fh: o = C(fh, length=n)
            finally:
                os.unlink(path)
    else:
        raise AssertionError(route)
    if pos is not None and hasattr(o, 'pos'):
        o.pos = pos
    return o

ITERATOR_KINDS = ['gen', 'iter', 'map', 'list_truthy', 'gen_truthy', 'iter_truthy']

def promotable(bits, kind):
    """A non-bitstring operand holding `bits`."""
    import bitarray
    if kind == 'str': return '0b' + bits if bits else ''
    if kind == 'list': return [int(c) for c in bits]
    if kind == 'tuple': return tuple(c == '1' for c in bits)
    if kind == 'bitarray': return bitarray.bitarray(bits)
    if kind == 'bytes':
        assert len(bits) % 8 == 0
        return int(bits, 2).to_bytes(len(bits) // 8, 'big') if bits else b''
    if kind == 'bytearray':
        return bytearray(promotable(bits, 'bytes'))
    # one-shot iterators; the "truthy" ones hold items that are true/false without being 0, 1, True or False (documented: any iterable, item -> bool(item))
    TRUE = [1, True, 5, -1, 'x', 2.5, (0,), 1, True, 7]
    FALSE = [0, False, None, '', 0.0, (), 0, False, 0, []]
    if kind == 'gen': return (int(c) for c in bits)
    if kind == 'iter': return iter([c == '1' for c in bits])
    if kind == 'map': return map(int, bits)
    if kind == 'list_truthy': return [(TRUE if c == '1' else FALSE)[(i * 7 + 3) % 10] for i, c in enumerate(bits)]
    if kind == 'gen_truthy': return ((TRUE if c == '1' else FALSE)[(i * 7 + 3) % 10] for i, c in enumerate(bits))
    if kind == 'iter_truthy': return iter(promotable(bits, 'list_truthy'))
    raise AssertionError(kind)
