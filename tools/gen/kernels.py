"""Kernel translator: Python source of small index/position kernels of bitstring  ->  Gallina (GenKernels.v).

For every kernel in KERNELS the function is located in /repo's working tree, its body is translated statement by statement into
a Gallina term over the modelled primitives (Prims.v) and over the *other modelled functions it calls* (the call table below),
and a bridge obligation  `forall args, k_<name> args = <hand model> args`  is emitted (BridgeKernels.v).  The bridge is proved
by the tactic `bridge` (case analysis on every scrutinee, then reflexivity / lia / congruence), so a harmless rewrite of the
Python (reordered comparisons, renamed locals, an extra early exit with the same meaning) re-proves, and a change of behaviour
does not.  When a bridge fails, `search_text()` gives a Coq file that evaluates both sides on an exhaustive small domain and
prints the arguments on which they differ; the property module replays those on the implementation.

Fail-closed: any statement, expression or call that is not in the recognised subset raises Untranslatable (the bridge of that
kernel then counts as broken).  The subset: assignments (also tuple targets from a modelled call, augmented), if/elif/else,
return, raise of a known exception class, assert, expression statements that are calls of modelled mutating methods, slice
assignment / deletion on self._bitstore; expressions over ints, bools, None-able ints, bit contents and slices: arithmetic
(+ - * // % **), comparisons (chained), and/or/not, conditional expressions, `x is None`, len(), min(), max(), slice(...),
attribute reads listed in ATTRS, calls listed in CALLS.  Loops are not translated (kernels with loops stay tied by the
correspondence only).
"""
import ast, os, re

class Untranslatable(Exception):
    pass

class NeedsUnwrap(Exception):
    """a None-able int is used where an int is required: the enclosing statement is wrapped in a match whose None branch is Python's TypeError"""
    def __init__(self, name): self.name = name

EXN = {'ValueError': 'ValueError', 'IndexError': 'IndexError', 'TypeError': 'TypeError', 'CreationError': 'ValueError',
       'bitstring.CreationError': 'ValueError', 'InterpretError': 'ValueError', 'bitstring.InterpretError': 'ValueError',
       'ReadError': 'ReadError', 'bitstring.ReadError': 'ReadError', 'Error': 'BsError', 'bitstring.Error': 'BsError',
       'ByteAlignError': 'ByteAlignError', 'bitstring.ByteAlignError': 'ByteAlignError', 'AssertionError': 'AssertionError',
       'NotImplementedError': 'NotImplementedError', 'OverflowError': 'OverflowError', 'ZeroDivisionError': 'ZeroDivisionError'}

def V(name):
    return 'v_' + name


class Env(dict):
    """python local name -> type ('Z' 'bool' 'optZ' 'none' 'bits' 'slice' 'pairZZ' 'tripleZoZ' 'listZ')"""
    def copy(self):
        return Env(self)


class K:
    """translation of one function"""
    def __init__(self, spec, fn):
        self.spec, self.fn = spec, fn
        self.mode = spec.get('mode', 'pure')          # 'pure' | 'bits' | 'stream'
        self.ret = spec['ret']                        # type of the returned value ('unit' for None, 'self' = the new content)
        self.fresh = 0

    # ---------------------------------------------------------------- results
    def state(self, env):
        if self.mode == 'stream': return f'({V("self")}, {V("_pos")})'
        return V('self')

    def ok(self, env, val):
        """val: Coq text of the returned value or None"""
        if self.mode == 'pure':
            return f'Ok {val}' if val is not None else 'Ok tt'
        if self.mode == 'bits':
            if self.ret == 'self': return f'Ok {V("self")}'
            if self.ret == 'self+val': return f'Ok ({V("self")}, {val})'
            return f'Ok {val}' if val is not None else 'Ok tt'
        if self.mode == 'stream':
            return f'({self.state(env)}, Ok {val if val is not None else "tt"})'
        raise Untranslatable('mode')

    def err(self, env, e):
        if self.mode == 'stream':
            return f'({self.state(env)}, Err {e})'
        return f'Err {e}'

    def bind(self, env, m, pat, rest):
        """monadic sequencing of the model call m (a `res`), binding pattern pat"""
        if self.mode == 'stream':
            return f'match {m} with Ok {pat} => {rest} | Err e_ => ({self.state(env)}, Err e_) end'
        return f'match {m} with Ok {pat} => {rest} | Err e_ => Err e_ end'

    # ---------------------------------------------------------------- expressions
    def coerce(self, text, t, want):
        if t == want or want is None: return text
        if want == 'optZ' and t == 'Z': return f'(Some {text})'
        if want == 'optZ' and t == 'none': return 'None'
        if want == 'bool' and t == 'Z': return f'(negb ({text} =? 0))'
        if want == 'Z' and t == 'optZ' and re.fullmatch(r'v_\w+', text): raise NeedsUnwrap(text[2:])
        raise Untranslatable(f'cannot use a {t} where a {want} is expected: {text}')

    def expr(self, e, env, want=None):
        text, t = self._expr(e, env)
        return self.coerce(text, t, want), (want or t)

    def truth(self, e, env):
        """Python truthiness of an expression as a Coq bool"""
        text, t = self._expr(e, env)
        if t == 'bool': return text
        if t == 'Z': return f'(negb ({text} =? 0))'
        if t == 'bits': return f'(negb (zlen {text} =? 0))'
        raise Untranslatable(f'truthiness of a {t}: {ast.unparse(e)}')

    def _expr(self, e, env):
        if isinstance(e, ast.Constant):
            if e.value is None: return 'None', 'none'
            if isinstance(e.value, bool): return ('true' if e.value else 'false'), 'bool'
            if isinstance(e.value, int): return (f'({e.value})' if e.value < 0 else str(e.value)), 'Z'
            raise Untranslatable(f'constant {e.value!r}')
        if isinstance(e, ast.Name):
            if e.id == 'self': return V('self'), 'bits'
            if e.id in env:
                if env[e.id] == 'none': return 'None', 'none'
                return V(e.id), env[e.id]
            raise Untranslatable(f'unknown name {e.id}')
        if isinstance(e, ast.UnaryOp):
            if isinstance(e.op, ast.USub):
                a, _ = self.expr(e.operand, env, 'Z'); return f'(- {a})', 'Z'
            if isinstance(e.op, ast.Not):
                return f'(negb {self.truth(e.operand, env)})', 'bool'
        if isinstance(e, ast.BinOp):
            ops = {ast.Add: '+', ast.Sub: '-', ast.Mult: '*', ast.FloorDiv: '/', ast.Mod: 'mod', ast.Pow: '^'}
            if type(e.op) in ops:
                a, _ = self.expr(e.left, env, 'Z'); b, _ = self.expr(e.right, env, 'Z')
                return f'({a} {ops[type(e.op)]} {b})', 'Z'
        if isinstance(e, ast.BoolOp) and len(e.values) >= 2 and self.none_test(e.values[0], env):
            name, is_none = self.none_test(e.values[0], env)
            rest = e.values[1] if len(e.values) == 2 else ast.BoolOp(op=e.op, values=e.values[1:])
            env_s = env.copy(); env_s[name] = 'Z'
            env_n = env.copy(); env_n[name] = 'none'
            var = V(name.replace('.', '__'))
            if isinstance(e.op, ast.Or) and is_none:        # x is None or c(x)
                return f'(match {self.scrutinee(name)} with None => true | Some {var} => {self.truth(rest, env_s)} end)', 'bool'
            if isinstance(e.op, ast.And) and not is_none:   # x is not None and c(x)
                return f'(match {self.scrutinee(name)} with None => false | Some {var} => {self.truth(rest, env_s)} end)', 'bool'
        if isinstance(e, ast.BoolOp):
            parts = [self.truth(v, env) for v in e.values]
            return '(' + (' && ' if isinstance(e.op, ast.And) else ' || ').join(parts) + ')', 'bool'
        if isinstance(e, ast.Compare):
            parts, left = [], e.left
            for op, right in zip(e.ops, e.comparators):
                parts.append(self.compare(left, op, right, env)); left = right
            return ('(' + ' && '.join(parts) + ')' if len(parts) > 1 else parts[0]), 'bool'
        if isinstance(e, ast.IfExp):
            return self.ifexp(e, env)
        if isinstance(e, ast.Call):
            r = self.call(e, env)
            if r[2] != 'pure': raise Untranslatable(f'a call that can fail or mutate inside an expression: {ast.unparse(e)}')
            return r[0], r[1]
        if isinstance(e, ast.Attribute):
            base = ast.unparse(e.value)
            if base == 'self' and e.attr == '_pos' and self.mode == 'stream': return V('_pos'), 'Z'
            if isinstance(e.value, ast.Name) and env.get(e.value.id) == 'slice' and e.attr in ('start', 'stop', 'step'):
                key = f'{e.value.id}.{e.attr}'
                if env.get(key) in ('Z', 'none'):          # inside a branch of `x.attr is None`
                    return (V(key.replace('.', '__')), 'Z') if env[key] == 'Z' else ('None', 'none')
                return f'(s_{e.attr} {V(e.value.id)})', 'optZ'
            if base == 'bitstring.options' and e.attr == 'lsb0' or base == 'options' and e.attr == 'lsb0': return 'lsb0', 'bool'
        if isinstance(e, ast.Subscript):
            base = ast.unparse(e.value)
            if base == 'self' and isinstance(e.slice, ast.Slice):
                raise Untranslatable('self[slice] in an expression can fail: bind it first')
        raise Untranslatable(f'expression {ast.unparse(e)}')

    def compare(self, left, op, right, env):
        if isinstance(op, (ast.Is, ast.IsNot)):
            if isinstance(right, ast.Constant) and right.value is None and isinstance(left, ast.Name) and left.id in env:
                t = env[left.id]
                isn = {'optZ': f'(match {V(left.id)} with None => true | Some _ => false end)', 'none': 'true', 'Z': 'false'}.get(t)
                if isn is None: raise Untranslatable('is None on ' + t)
                return isn if isinstance(op, ast.Is) else f'(negb {isn})'
            if isinstance(right, ast.Name) and right.id == 'self' and isinstance(left, ast.Name) and left.id in self.spec.get('identity', {}):
                s = self.ident.get(left.id, 'false')
                return s if isinstance(op, ast.Is) else f'(negb {s})'
            raise Untranslatable('is: ' + ast.unparse(left) + ' / ' + ast.unparse(right))
        a, ta = self._expr(left, env); b, tb = self._expr(right, env)
        for x, tx in ((a, ta), (b, tb)):
            if tx == 'optZ' and re.fullmatch(r'v_\w+', x) and {ta, tb} == {'optZ', 'Z'}: raise NeedsUnwrap(x[2:])
        if ta == 'Z' and tb == 'Z':
            o = {ast.Lt: '<?', ast.LtE: '<=?', ast.Gt: '>?', ast.GtE: '>=?', ast.Eq: '=?'}.get(type(op))
            if o: return f'({a} {o} {b})'
            if isinstance(op, ast.NotEq): return f'(negb ({a} =? {b}))'
        if ta == 'bool' and tb == 'bool' and isinstance(op, ast.Eq): return f'(Bool.eqb {a} {b})'
        raise Untranslatable(f'comparison {ast.unparse(left)} {type(op).__name__} {ast.unparse(right)} on {ta}/{tb}')

    def none_test(self, test, env):
        """recognise `x is None` / `x is not None` on a None-able variable: (name, True if the test is 'is None')"""
        if isinstance(test, ast.Compare) and len(test.ops) == 1 and isinstance(test.ops[0], (ast.Is, ast.IsNot)) \
                and isinstance(test.comparators[0], ast.Constant) and test.comparators[0].value is None:
            if isinstance(test.left, ast.Name) and env.get(test.left.id) == 'optZ':
                return test.left.id, isinstance(test.ops[0], ast.Is)
            l = test.left
            if isinstance(l, ast.Attribute) and isinstance(l.value, ast.Name) and env.get(l.value.id) == 'slice' and l.attr in ('start', 'stop', 'step') \
                    and env.get(f'{l.value.id}.{l.attr}') is None:
                return f'{l.value.id}.{l.attr}', isinstance(test.ops[0], ast.Is)
        return None

    def scrutinee(self, name):
        """Coq term matched on for the None-able `name` (a variable, or slice.attr)"""
        if '.' in name:
            v, a = name.split('.'); return f'(s_{a} {V(v)})'
        return V(name)

    def ifexp(self, e, env):
        nt = self.none_test(e.test, env)
        if nt:
            name, is_none = nt
            e_none, e_some = (e.body, e.orelse) if is_none else (e.orelse, e.body)
            env_n = env.copy(); env_n[name] = 'none'
            env_s = env.copy(); env_s[name] = 'Z'
            a, ta = self._expr(e_none, env_n); b, tb = self._expr(e_some, env_s)
            t = self.join(ta, tb)
            return f'(match {self.scrutinee(name)} with None => {self.coerce(a, ta, t)} | Some {V(name.replace(".", "__"))} => {self.coerce(b, tb, t)} end)', t
        c = self.truth(e.test, env)
        a, ta = self._expr(e.body, env); b, tb = self._expr(e.orelse, env)
        t = self.join(ta, tb)
        return f'(if {c} then {self.coerce(a, ta, t)} else {self.coerce(b, tb, t)})', t

    @staticmethod
    def join(a, b):
        if a == b: return a
        if {a, b} <= {'Z', 'none', 'optZ'}: return 'optZ'
        raise Untranslatable(f'branches of different types {a}/{b}')

    # ---------------------------------------------------------------- calls
    def args(self, call, env, types):
        if call.keywords: raise Untranslatable('keyword arguments: ' + ast.unparse(call))
        if len(call.args) != len(types): raise Untranslatable(f'arity of {ast.unparse(call)}')
        return [self.expr(a, env, t)[0] for a, t in zip(call.args, types)]

    def call(self, call, env):
        """-> (coq text, result type, kind) with kind in 'pure' | 'res' (a `res` value) | ('mut', var) / ('mutres', var)"""
        f = ast.unparse(call.func)
        if f == 'len' and len(call.args) == 1 and isinstance(call.args[0], ast.Call) and ast.unparse(call.args[0].func) == 'range' and len(call.args[0].args) == 3:
            a, b, c = self.args(call.args[0], env, ['Z', 'Z', 'Z']); return f'(range_len {a} {b} {c})', 'Z', 'pure'
        if f == 'len' and len(call.args) == 1:
            a, t = self._expr(call.args[0], env)
            if t == 'bits': return f'(zlen {a})', 'Z', 'pure'
        if f in ('min', 'max') and len(call.args) == 2:
            a, b = self.args(call, env, ['Z', 'Z']); return f'(Z.{f} {a} {b})', 'Z', 'pure'
        if f in ('int', 'operator.index') and len(call.args) == 1 and not call.keywords:
            a, t = self._expr(call.args[0], env)             # int() / operator.index() of an int (or bool, an int subclass): the same integer
            if t == 'Z': return a, 'Z', 'pure'
        if f == 'slice' and len(call.args) == 3:
            a, b, c = self.args(call, env, ['optZ', 'optZ', 'optZ']); return f'(mkslice {a} {b} {c})', 'slice', 'pure'
        if f in ('self.__class__', 'Bits', 'BitStore') and not call.args and not call.keywords:
            return '(@nil bool)', 'bits', 'pure'
        if f == 'BitStore.frombytes' and len(call.args) == 1:
            # BitStore.frombytes(X._bitstore.getslice(a, b).tobytes()[::-1]): the bytes of a slice in the opposite order
            a0 = call.args[0]
            if isinstance(a0, ast.Subscript) and ast.unparse(a0.slice) == '::-1' and isinstance(a0.value, ast.Call) \
                    and isinstance(a0.value.func, ast.Attribute) and a0.value.func.attr == 'tobytes' and not a0.value.args \
                    and isinstance(a0.value.func.value, ast.Call):
                text, t, kind = self.call(a0.value.func.value, env)
                if t == 'bits' and kind == 'res':
                    return f'(match {text} with Ok sl_ => Ok (frombytes (rev (tobytes sl_))) | Err e_ => Err e_ end)', 'bits', 'res'
        if f == 'Bits' and len(call.args) == 1:
            (n,) = self.args(call, env, ['Z']); return f'(repeat false (Z.to_nat {n}))', 'bits', 'pure'
        if f == 'self.__class__' and not call.args and len(call.keywords) == 1 and call.keywords[0].arg == 'length':
            n, _ = self.expr(call.keywords[0].value, env, 'Z'); return f'(repeat false (Z.to_nat {n}))', 'bits', 'pure'
        if f in ('self._create_from_bitstype', 'Bits._create_from_bitstype', 'self.__class__._create_from_bitstype') and len(call.args) == 1:
            a, t = self._expr(call.args[0], env)
            if t == 'bits': return a, 'bits', 'pure'
        if f == 'len' and len(call.args) == 1 and ast.unparse(call.args[0]).startswith('range('):
            r = call.args[0]
            a, b, c = self.args(r, env, ['Z', 'Z', 'Z']); return f'(range_len {a} {b} {c})', 'Z', 'pure'
        # stream methods that move the position (modelled on the whole stream state)
        if self.mode == 'stream' and f in STREAM_CALLS:
            ent = STREAM_CALLS[f]
            a = self.args(call, env, ent['args'])
            return ent['coq'].format(*a, st=f'(mkstream {V("self")} {V("_pos")})'), 'unit', 'st'
        if f == 'Bits._clear' and len(call.args) == 1 and ast.unparse(call.args[0]) == 'self':
            return '(@nil bool)', 'unit', ('mut', 'self')
        if f in ('super().prepend', 'super().append') and len(call.args) == 1:
            (a,) = self.args(call, env, ['bits'])
            return f'(ba_{f.split(".")[1]} lsb0 {V("self")} {a})', 'unit', ('mut', 'self')
        if f in ('self._bitstore.__delitem__',) and len(call.args) == 1:
            a, t = self._expr(call.args[0], env)
            if t == 'slice': return f'(delslice lsb0 {V("self")} {a})', 'unit', ('mutres', 'self')
            if t == 'Z': return f'(delbit lsb0 {V("self")} {a})', 'unit', ('mutres', 'self')
        # method calls on a bit-content variable
        if isinstance(call.func, ast.Attribute):
            recv = call.func.value; m = call.func.attr
            rname = None
            if isinstance(recv, ast.Name) and (recv.id == 'self' or env.get(recv.id) == 'bits'): rname = recv.id
            if rname is not None and m in METHODS:
                ent = METHODS[m]
                a = self.args(call, env, ent['args'])
                r = V(rname) if rname != 'self' else V('self')
                text = ent['coq'].format(*a, self=r, same=self.ident_of(call, env))
                kind = ent['kind']
                if kind in ('mut', 'mutres'): return text, ent.get('ret', 'unit'), (kind, rname)
                return text, ent['ret'], kind
            # self._bitstore.getslice(a, b) etc.
            full = ast.unparse(recv)
            if full.endswith('._bitstore') and isinstance(recv.value, ast.Name):
                rname = recv.value.id
                if (rname == 'self' or env.get(rname) == 'bits') and m in STORE_METHODS:
                    ent = STORE_METHODS[m]
                    a = self.args(call, env, ent['args'])
                    return ent['coq'].format(*a, self=V(rname)), ent.get('ret', 'unit'), ent['kind'] if ent['kind'] not in ('mut', 'mutres') else (ent['kind'], rname)
            if isinstance(recv, ast.Name) and env.get(recv.id) == 'slice' and m == 'indices':
                (n,) = self.args(call, env, ['Z']); return f'(slice_indices {V(recv.id)} {n})', 'tripleZZZ', 'res'
        if f in FUNCS:
            ent = FUNCS[f]
            a = self.args(call, env, ent['args'])
            return ent['coq'].format(*a), ent['ret'], ent['kind']
        raise Untranslatable(f'call {ast.unparse(call)}')

    def is_res_call(self, call, env):
        try: return self.call(call, env)[2] == 'res'
        except (Untranslatable, NeedsUnwrap): return False

    def ident_of(self, call, env):
        """the identity flag of the first bits argument (for _overwrite's `bs is self`)"""
        for a in call.args:
            if isinstance(a, ast.Name) and a.id in self.ident: return self.ident[a.id]
        return 'false'

    # ---------------------------------------------------------------- statements
    def block(self, stmts, env, k):
        """Coq term for executing stmts then k(env) (k: what follows when the block falls through)"""
        if not stmts: return k(env)
        s, rest = stmts[0], stmts[1:]
        cont = lambda env2: self.block(rest, env2, k)
        try:
            return self.stmt(s, rest, env, k, cont)
        except NeedsUnwrap as u:
            if env.get(u.name) != 'optZ': raise Untranslatable('cannot unwrap ' + u.name)
            env_s = env.copy(); env_s[u.name] = 'Z'
            return f'(match {V(u.name)} with None => {self.err(env, "TypeError")} | Some {V(u.name)} => {self.block(stmts, env_s, k)} end)'

    def stmt(self, s, rest, env, k, cont):
        if isinstance(s, ast.Expr) and isinstance(s.value, ast.Constant): return cont(env)      # docstring
        if isinstance(s, ast.Pass): return cont(env)
        if isinstance(s, ast.Return):
            return self.do_return(s.value, env)
        if isinstance(s, ast.Raise):
            name = ast.unparse(s.exc.func if isinstance(s.exc, ast.Call) else s.exc)
            if name not in EXN: raise Untranslatable('raise ' + name)
            return self.err(env, EXN[name])
        if isinstance(s, ast.Assert):
            return f'(if {self.truth(s.test, env)} then {cont(env)} else {self.err(env, "AssertionError")})'
        if isinstance(s, ast.If):
            nt = self.none_test(s.test, env)
            if nt:
                name, is_none = nt
                b_none, b_some = (s.body, s.orelse) if is_none else (s.orelse, s.body)
                env_n = env.copy(); env_n[name] = 'none'
                env_s = env.copy(); env_s[name] = 'Z'
                return f'(match {self.scrutinee(name)} with None => {self.block(b_none, env_n, cont)} | Some {V(name.replace(".", "__"))} => {self.block(b_some, env_s, cont)} end)'
            c = self.truth(s.test, env)
            return f'(if {c} then {self.block(s.body, env.copy(), cont)} else {self.block(s.orelse, env.copy(), cont)})'
        if isinstance(s, ast.AugAssign):
            tgt = s.target
            if isinstance(tgt, ast.Attribute) and ast.unparse(tgt) == 'self.pos' and self.mode == 'stream' and isinstance(s.op, ast.Add):
                # the pos property setter: _setbitpos
                v, _ = self.expr(s.value, env, 'Z')
                newp = f'({V("_pos")} + {v})'
                return (f'(if {newp} <? 0 then {self.err(env, "ValueError")} else if {newp} >? zlen {V("self")} then {self.err(env, "ValueError")} '
                        f'else let {V("_pos")} := {newp} in {cont(env)})')
            s2 = ast.Assign(targets=[tgt], value=ast.BinOp(left=ast.copy_location(ast.Name(id=tgt.id, ctx=ast.Load()), tgt) if isinstance(tgt, ast.Name) else tgt, op=s.op, right=s.value))
            return self.block([s2] + rest, env, k)
        if isinstance(s, ast.Assign) and len(s.targets) == 1:
            return self.assign(s.targets[0], s.value, env, cont)
        if isinstance(s, ast.Assign) and all(isinstance(t, ast.Name) for t in s.targets):
            first = s.targets[0]
            more = [ast.Assign(targets=[t], value=ast.Name(id=first.id, ctx=ast.Load())) for t in s.targets[1:]]
            return self.block([ast.Assign(targets=[first], value=s.value)] + more + rest, env, k)
        if isinstance(s, ast.Expr) and isinstance(s.value, ast.Call) and any(isinstance(a, ast.Call) and self.is_res_call(a, env) for a in s.value.args):
            pre, newargs = [], []
            for i, a in enumerate(s.value.args):
                if isinstance(a, ast.Call) and self.is_res_call(a, env):
                    nm = f'tmp{i}_'; pre.append(ast.Assign(targets=[ast.Name(id=nm, ctx=ast.Store())], value=a)); newargs.append(ast.Name(id=nm, ctx=ast.Load()))
                else: newargs.append(a)
            s2 = ast.Expr(value=ast.Call(func=s.value.func, args=newargs, keywords=s.value.keywords))
            return self.block(pre + [s2] + rest, env, k)
        if isinstance(s, ast.Expr) and isinstance(s.value, ast.Call):
            text, t, kind = self.call(s.value, env)
            if isinstance(kind, tuple):
                how, rname = kind
                var = V(rname)
                if how == 'mut': return f'(let {var} := {text} in {cont(env)})'
                return self.bind(env, text, var, cont(env))
            if kind == 'res':
                return self.bind(env, text, '_', cont(env))
            if kind == 'st':
                return (f"(match {text} with (s_, Ok _) => (let {V('self')} := sbits s_ in let {V('_pos')} := spos s_ in {cont(env)}) "
                        f"| (s_, Err e_) => ((sbits s_, spos s_), Err e_) end)")
            raise Untranslatable('expression statement without effect: ' + ast.unparse(s))
        if isinstance(s, ast.Delete) and len(s.targets) == 1:
            t = s.targets[0]
            if isinstance(t, ast.Subscript) and ast.unparse(t.value) == 'self._bitstore' and isinstance(t.slice, ast.Slice):
                sl = self.slice_of(t.slice, env)
                return self.bind(env, f'delslice lsb0 {V("self")} {sl}', V('self'), cont(env))
        raise Untranslatable('statement ' + ast.unparse(s).split('\n')[0])

    def slice_of(self, sl, env):
        part = lambda x: 'None' if x is None else self.expr(x, env, 'optZ')[0]
        return f'(mkslice {part(sl.lower)} {part(sl.upper)} {part(sl.step)})'

    def do_return(self, value, env):
        if self.spec.get('drop_returns'):
            return self.ok(env, None)
        if value is None or (isinstance(value, ast.Constant) and value.value is None):
            return self.ok(env, None)
        if isinstance(value, ast.Name) and value.id == 'self' and self.ret in ('self', 'unit'):
            return self.ok(env, None)
        if isinstance(value, ast.Tuple):
            want = {'pairZZ': ['Z', 'Z'], 'tripleZoZ': ['Z', 'optZ', 'Z'], 'tripleZZZ': ['Z', 'Z', 'Z']}.get(self.ret)
            if want and len(value.elts) == len(want):
                return self.ok(env, '(' + ', '.join(self.expr(x, env, w)[0] for x, w in zip(value.elts, want)) + ')')
        if isinstance(value, ast.Call):
            text, t, kind = self.call(value, env)
            if kind == 'res':
                if self.ret == 'tripleZoZ' and t == 'tripleZZZ':
                    return self.bind(env, text, "(a_, b_, c_)", self.ok(env, '(a_, Some b_, c_)').replace("'", ''))
                if t != self.ret and not (self.ret == 'self' and t == 'bits'): raise Untranslatable(f'returns a {t}, expected {self.ret}')
                if self.mode == 'bits' and self.ret == 'self': return text
                if self.mode == 'pure' or (self.mode == 'bits' and self.ret not in ('self', 'self+val')): return text
                return self.bind(env, text, 'r_', self.ok(env, 'r_'))
            if isinstance(kind, tuple):
                how, rname = kind
                if rname == 'self' and self.ret in ('self', 'unit'):
                    if how == 'mut': return f'(let {V("self")} := {text} in {self.ok(env, None)})'
                    return self.bind(env, text, V('self'), self.ok(env, None))
                raise Untranslatable('return of a mutating call: ' + ast.unparse(value))
            return self.ok(env, self.coerce(text, t, self.ret_type()))
        text, t = self._expr(value, env)
        return self.ok(env, self.coerce(text, t, self.ret_type()))

    def ret_type(self):
        return {'self+val': 'Z'}.get(self.ret, self.ret if self.ret in ('Z', 'bool', 'optZ', 'bits', 'slice') else None)

    def assign(self, tgt, value, env, cont):
        # self._bitstore[a:b] = X._bitstore
        if isinstance(tgt, ast.Subscript) and ast.unparse(tgt.value) == 'self._bitstore' and isinstance(tgt.slice, ast.Slice):
            sl = self.slice_of(tgt.slice, env)
            if isinstance(value, ast.Call):
                text, t, kind = self.call(value, env)
                if t == 'bits' and kind == 'res':
                    return self.bind(env, text, 't_', self.bind(env, f'setslice lsb0 {V("self")} {sl} t_', V('self'), cont(env)))
            v = self.store_value(value, env)
            return self.bind(env, f'setslice lsb0 {V("self")} {sl} {v}', V('self'), cont(env))
        if isinstance(tgt, ast.Subscript) and ast.unparse(tgt.value) == 'self' and isinstance(tgt.slice, ast.Slice):
            sl = self.slice_of(tgt.slice, env)
            v, t = self._expr(value, env)
            if t != 'bits': raise Untranslatable('self[slice] = non-bits')
            return self.bind(env, f'setslice lsb0 {V("self")} {sl} {v}', V('self'), cont(env))
        if isinstance(tgt, ast.Attribute) and ast.unparse(tgt) == 'self._pos' and self.mode == 'stream':
            v, _ = self.expr(value, env, 'Z')
            return f'(let {V("_pos")} := {v} in {cont(env)})'
        if isinstance(tgt, ast.Attribute) and tgt.attr == '_bitstore' and isinstance(tgt.value, ast.Name) \
                and (tgt.value.id == 'self' or env.get(tgt.value.id) == 'bits'):
            # X._bitstore = <store expression>
            var = V(tgt.value.id)
            if isinstance(value, ast.Call):
                text, t, kind = self.call(value, env)
                if t == 'bits' and kind == 'res': return self.bind(env, text, var, cont(env))
                if t == 'bits' and kind == 'pure': return f'(let {var} := {text} in {cont(env)})'
            raise Untranslatable(ast.unparse(tgt) + ' = ' + ast.unparse(value))
        if isinstance(tgt, ast.Tuple) and all(isinstance(x, ast.Name) for x in tgt.elts) and isinstance(value, ast.Call):
            text, t, kind = self.call(value, env)
            names = [x.id for x in tgt.elts]
            shapes = {'pairZZ': ['Z', 'Z'], 'tripleZZZ': ['Z', 'Z', 'Z'], 'tripleZoZ': ['Z', 'optZ', 'Z']}
            if t in shapes and len(shapes[t]) == len(names) and kind in ('res', 'pure'):
                env2 = env.copy()
                for n, ty in zip(names, shapes[t]): env2[n] = ty
                pat = '(' + ', '.join(V(n) for n in names) + ')'
                if kind == 'res': return self.bind(env, text, pat, cont(env2))
                return f"(let '{pat} := {text} in {cont(env2)})"
            raise Untranslatable('tuple assignment from ' + ast.unparse(value))
        if isinstance(tgt, ast.Name):
            if isinstance(value, ast.Call):
                text, t, kind = self.call(value, env)
                env2 = env.copy(); env2[tgt.id] = t
                if tgt.id in self.ident and text != V(tgt.id): self.ident = dict(self.ident); self.ident[tgt.id] = 'false'
                if kind == 'pure': return f'(let {V(tgt.id)} := {text} in {cont(env2)})'
                if kind == 'res': return self.bind(env, text, V(tgt.id), cont(env2))
                raise Untranslatable('assignment from a mutating call')
            text, t = self._expr(value, env)
            env2 = env.copy(); env2[tgt.id] = t
            if t == 'none': return cont(env2)
            return f'(let {V(tgt.id)} := {text} in {cont(env2)})'
        raise Untranslatable('assignment to ' + ast.unparse(tgt))

    def store_value(self, value, env):
        s = ast.unparse(value)
        m = re.fullmatch(r'(\w+)\._bitstore', s)
        if m and (m.group(1) == 'self' or env.get(m.group(1)) == 'bits'): return V(m.group(1))
        if isinstance(value, ast.Call):
            text, t, kind = self.call(value, env)
            if t == 'bits' and kind == 'pure': return text
        raise Untranslatable('store value ' + s)

    # ---------------------------------------------------------------- whole function
    def translate(self):
        spec = self.spec
        env = Env()
        params = []
        self.ident = {}
        pynames = [a.arg for a in self.fn.args.posonlyargs + self.fn.args.args]
        want = [p[0] for p in spec['params']]
        have = [n for n in pynames if n not in ('self', 'cls')]
        if have != want: raise Untranslatable(f'parameters are {have}, the kernel table says {want}')
        if self.mode in ('bits', 'stream'): params.append(f'({V("self")} : bits)')
        if self.mode == 'stream': params.append(f'({V("_pos")} : Z)')
        ctype = {'Z': 'Z', 'bool': 'bool', 'optZ': 'option Z', 'bits': 'bits', 'slice': 'pyslice'}
        for name, t in spec['params']:
            env[name] = t
            params.append(f'({V(name)} : {ctype[t]})')
            if name in spec.get('identity', {}):
                flag = 'same_' + name
                self.ident[name] = flag
                params.append(f'({flag} : bool)')
        body = self.block(self.fn.body, env, lambda env2: self.ok(env2, None))
        return f'Definition {spec["name"]} (lsb0 : bool) {" ".join(params)} :=\n  {body}.\n'


# ------------------------------------------------------------------------------------------------
# call tables: Python callee -> modelled function.  {0} {1}.. are the translated arguments, {self} the receiver's content
# ------------------------------------------------------------------------------------------------
METHODS = {
    '_validate_slice': dict(args=['optZ', 'optZ'], coq='(validate_slice {self} {0} {1})', ret='pairZZ', kind='res'),
    '_slice': dict(args=['Z', 'Z'], coq='(slice_ lsb0 {self} {0} {1})', ret='bits', kind='res'),
    '_absolute_slice': dict(args=['Z', 'Z'], coq='(absolute_slice {self} {0} {1})', ret='bits', kind='res'),
    '_copy': dict(args=[], coq='{self}', ret='bits', kind='pure'),
    '_delete': dict(args=['Z', 'Z'], coq='(delete_ lsb0 {self} {0} {1})', kind='mutres'),
    '_insert': dict(args=['bits', 'Z'], coq='(insert_ lsb0 {self} {0} {1})', kind='mutres'),
    '_overwrite': dict(args=['bits', 'Z'], coq='(overwrite_ lsb0 {same} {self} {0} {1})', kind='mutres'),
    '_addright': dict(args=['bits'], coq='(addright {self} {0})', kind='mut'),
    '_addleft': dict(args=['bits'], coq='(addleft {self} {0})', kind='mut'),
    '_truncateleft': dict(args=['Z'], coq='(truncateleft {self} {0})', kind='mutres'),
    '_truncateright': dict(args=['Z'], coq='(truncateright {self} {0})', kind='mutres'),
    '_clear': dict(args=[], coq='[]', kind='mut'),
    '_ilshift': dict(args=['Z'], coq='(ilshift_ {self} {0})', kind='mutres'),
    '_irshift': dict(args=['Z'], coq='(irshift_ {self} {0})', kind='mutres'),
    '_imul': dict(args=['Z'], coq='(imul lsb0 {self} {0})', kind='mutres'),
    '_ror': dict(args=['Z', 'optZ', 'optZ'], coq='((if lsb0 then rol_msb0 else ror_msb0) lsb0 {self} {0} {1} {2})', kind='mutres'),
    '_rol': dict(args=['Z', 'optZ', 'optZ'], coq='((if lsb0 then ror_msb0 else rol_msb0) lsb0 {self} {0} {1} {2})', kind='mutres'),
    '_reversebytes': dict(args=['Z', 'Z'], coq='(reversebytes lsb0 {self} {0} {1})', kind='mutres'),
}
STORE_METHODS = {
    'getslice': dict(args=['optZ', 'optZ'], coq='(getslice lsb0 {self} {0} {1})', ret='bits', kind='res'),
    'getslice_msb0': dict(args=['optZ', 'optZ'], coq='(getslice_msb0 {self} {0} {1})', ret='bits', kind='res'),
    'reverse': dict(args=[], coq='(rev {self})', kind='mut'),
    '_copy': dict(args=[], coq='{self}', ret='bits', kind='pure'),
}
STREAM_CALLS = {
    'self._setbitpos': dict(args=['Z'], coq='(set_pos {st} {0})'),
    'self._setbytepos': dict(args=['Z'], coq='(set_bytepos {st} {0})'),
}
METHODS.update({
    '_append': dict(args=['bits'], coq='(ba_append lsb0 {self} {0})', kind='mut'),
    '_prepend': dict(args=['bits'], coq='(ba_prepend lsb0 {self} {0})', kind='mut'),
})
FUNCS = {
    'indices': dict(args=['slice', 'Z'], coq='(indices {0} {1})', ret='tripleZoZ', kind='res'),
    'offset_slice_indices_lsb0': dict(args=['slice', 'Z'], coq='(offset_slice_indices_lsb0 {0} {1})', ret='slice', kind='res'),
}

# ------------------------------------------------------------------------------------------------
# the kernels.  model: the hand-model term the generated definition must equal (same argument names, v_ prefixed)
# ------------------------------------------------------------------------------------------------
ST = '(mkstream v_self v__pos)'
KERNELS = [
    dict(py='bits.py:Bits.__lshift__', name='k_lshift', mode='bits', ret='bits', props=['C16'], params=[('n', 'Z')], model='bs_lshift v_self v_n'),
    dict(py='bits.py:Bits.__rshift__', name='k_rshift', mode='bits', ret='bits', props=['C16'], params=[('n', 'Z')], model='bs_rshift v_self v_n'),
    dict(py='bits.py:Bits.__add__', name='k_add', mode='bits', ret='bits', props=['C01'], params=[('bs', 'bits')], model='Ok (bs_add v_self v_bs)'),
    dict(py='bitstream.py:ConstBitStream._setbitpos', name='k_st_setbitpos', mode='stream', ret='unit', props=['C06'], lsb0='false',
         params=[('pos', 'Z')], model=f'unst (set_pos {ST} v_pos)'),
    dict(py='bitstream.py:ConstBitStream._setbytepos', name='k_st_setbytepos', mode='stream', ret='unit', props=['C06'], lsb0='false',
         params=[('bytepos', 'Z')], model=f'unst (set_bytepos {ST} v_bytepos)'),
    dict(py='bitstream.py:ConstBitStream._getbytepos', name='k_st_getbytepos', mode='stream', ret='Z', props=['C06'], lsb0='false',
         params=[], model=f'((v_self, v__pos), get_bytepos {ST})'),
    dict(py='bitstream.py:ConstBitStream.bytealign', name='k_st_bytealign', mode='stream', ret='Z', props=['C06'], lsb0='false',
         params=[], model=f'unst (bytealign {ST})'),
    dict(py='bitstream.py:ConstBitStream._clear', name='k_st_clear', mode='stream', ret='unit', props=['C06'], lsb0='false',
         params=[], model=f'unst (st_clear {ST})'),
    dict(py='bitstream.py:BitStream.append', name='k_st_append', mode='stream', ret='unit', props=['C06'], lsb0='false',
         params=[('bs', 'bits')], model=f'unst (st_append {ST} v_bs)'),
    dict(py='bitstream.py:BitStream.__iadd__', name='k_st_iadd', mode='stream', ret='unit', props=['C06'], lsb0='false',
         params=[('bs', 'bits')], model=f'unst (st_append {ST} v_bs)'),
    dict(py='bitstream.py:BitStream.prepend', name='k_st_prepend', mode='stream', ret='unit', props=['C06'], lsb0='false',
         params=[('bs', 'bits')], model=f'unst (st_prepend {ST} v_bs)'),
    dict(py='bitstream.py:BitStream.insert', name='k_st_insert', mode='stream', ret='unit', props=['C06'], lsb0='false', identity={'bs': 1},
         params=[('bs', 'bits'), ('pos', 'optZ')], model=f'unst (st_insert {ST} v_bs v_pos)', hyps=['same_bs = true -> v_bs = v_self']),
    dict(py='bitstream.py:BitStream.overwrite', name='k_st_overwrite', mode='stream', ret='unit', props=['C06'], lsb0='false', identity={'bs': 1},
         params=[('bs', 'bits'), ('pos', 'optZ')], model=f'unst (st_overwrite {ST} same_bs v_bs v_pos)', hyps=['same_bs = true -> v_bs = v_self']),
    dict(py='bitstream.py:BitStream.__delitem__', name='k_st_delitem_slice', mode='stream', ret='unit', props=['C06'], lsb0='false',
         params=[('key', 'slice')], model=f'unst (st_delitem_slice {ST} v_key)'),
    dict(py='bitstream.py:BitStream.__delitem__', name='k_st_delitem_int', mode='stream', ret='unit', props=['C06'], lsb0='false',
         params=[('key', 'Z')], model=f'unst (st_delitem_int {ST} v_key)'),
    dict(py='bitstore.py:indices', name='k_indices', mode='pure', ret='tripleZoZ', props=['C01', 'C12', 'C08'],
         params=[('s', 'slice'), ('length', 'Z')], model='indices v_s v_length'),
    dict(py='bitstore.py:offset_slice_indices_lsb0', name='k_offset_slice_indices_lsb0', mode='pure', ret='slice', props=['C01', 'C12'],
         params=[('key', 'slice'), ('length', 'Z')], model='offset_slice_indices_lsb0 v_key v_length'),
    dict(py='bits.py:Bits._validate_slice', name='k_validate_slice', mode='bits', ret='pairZZ', props=['C03', 'C07', 'C06', 'C12'],
         params=[('start', 'optZ'), ('end', 'optZ')], model='validate_slice v_self v_start v_end'),
    dict(py='bits.py:Bits._absolute_slice', name='k_absolute_slice', mode='bits', ret='bits', props=['C16', 'C19'],
         params=[('start', 'Z'), ('end', 'Z')], model='absolute_slice v_self v_start v_end', returns_new=True),
    dict(py='bits.py:Bits._insert', name='k_insert_', mode='bits', ret='self', props=['C03', 'C06', 'C12'],
         params=[('bs', 'bits'), ('pos', 'Z')], model='insert_ lsb0 v_self v_bs v_pos'),
    dict(py='bits.py:Bits._overwrite', name='k_overwrite_', mode='bits', ret='self', props=['C03', 'C06', 'C12'], identity={'bs': 1},
         params=[('bs', 'bits'), ('pos', 'Z')], model='overwrite_ lsb0 same_bs v_self v_bs v_pos', hyps=['same_bs = true -> v_bs = v_self']),
    dict(py='bits.py:Bits._delete', name='k_delete_', mode='bits', ret='self', props=['C03', 'C12'],
         params=[('bits', 'Z'), ('pos', 'Z')], model='delete_ lsb0 v_self v_bits v_pos'),
    dict(py='bits.py:Bits._truncateleft', name='k_truncateleft', mode='bits', ret='self', props=['C16'], drop_returns=True,
         params=[('bits', 'Z')], model='truncateleft v_self v_bits'),
    dict(py='bits.py:Bits._truncateright', name='k_truncateright', mode='bits', ret='self', props=['C16'], drop_returns=True,
         params=[('bits', 'Z')], model='truncateright v_self v_bits'),
    dict(py='bitarray_.py:BitArray.insert', name='k_ba_insert', mode='bits', ret='self', props=['C03', 'C12'], identity={'bs': 1},
         params=[('bs', 'bits'), ('pos', 'Z')], model='ba_insert lsb0 v_self v_bs v_pos', hyps=['same_bs = true -> v_bs = v_self']),
    dict(py='bitarray_.py:BitArray.overwrite', name='k_ba_overwrite', mode='bits', ret='self', props=['C03', 'C12'], identity={'bs': 1},
         params=[('bs', 'bits'), ('pos', 'Z')], model='ba_overwrite lsb0 same_bs v_self v_bs v_pos', hyps=['same_bs = true -> v_bs = v_self']),
    dict(py='bitarray_.py:BitArray._ror_msb0', name='k_ror_msb0', mode='bits', ret='self', props=['C03', 'C12', 'C20'],
         params=[('bits', 'Z'), ('start', 'optZ'), ('end', 'optZ')], model='ror_msb0 lsb0 v_self v_bits v_start v_end'),
    dict(py='bitarray_.py:BitArray._rol_msb0', name='k_rol_msb0', mode='bits', ret='self', props=['C03', 'C12', 'C20'],
         params=[('bits', 'Z'), ('start', 'optZ'), ('end', 'optZ')], model='rol_msb0 lsb0 v_self v_bits v_start v_end'),
    dict(py='bitarray_.py:BitArray.ror', name='k_ba_ror', mode='bits', ret='self', props=['C03', 'C12', 'C20'],
         params=[('bits', 'Z'), ('start', 'optZ'), ('end', 'optZ')], model='ba_ror lsb0 v_self v_bits v_start v_end'),
    dict(py='bitarray_.py:BitArray.rol', name='k_ba_rol', mode='bits', ret='self', props=['C03', 'C12', 'C20'],
         params=[('bits', 'Z'), ('start', 'optZ'), ('end', 'optZ')], model='ba_rol lsb0 v_self v_bits v_start v_end'),
    dict(py='bitarray_.py:BitArray.reverse', name='k_ba_reverse', mode='bits', ret='self', props=['C03', 'C12'],
         params=[('start', 'optZ'), ('end', 'optZ')], model='ba_reverse lsb0 v_self v_start v_end'),
    dict(py='bitarray_.py:BitArray.__ilshift__', name='k_ba_ilshift', mode='bits', ret='self', props=['C03', 'C16'],
         params=[('n', 'Z')], model='bs_ilshift v_self v_n'),
    dict(py='bitarray_.py:BitArray.__irshift__', name='k_ba_irshift', mode='bits', ret='self', props=['C03', 'C16'],
         params=[('n', 'Z')], model='bs_irshift v_self v_n'),
    dict(py='bitarray_.py:BitArray.__imul__', name='k_ba_imul', mode='bits', ret='self', props=['C03', 'C01'],
         params=[('n', 'Z')], model='ba_imul lsb0 v_self v_n'),
    dict(py='bits.py:Bits._ilshift', name='k_ilshift_', mode='bits', ret='self', props=['C16'],
         params=[('n', 'Z')], model='ilshift_ v_self v_n'),
    dict(py='bits.py:Bits._irshift', name='k_irshift_', mode='bits', ret='self', props=['C16'],
         params=[('n', 'Z')], model='irshift_ v_self v_n'),
    dict(py='bits.py:Bits._reversebytes', name='k_reversebytes', mode='bits', ret='self', props=['C03', 'C18', 'C12'],
         params=[('start', 'Z'), ('end', 'Z')], model='reversebytes lsb0 v_self v_start v_end'),
]


def find_function(repo, py):
    f, q = py.split(':')
    tree = ast.parse(open(os.path.join(repo, 'bitstring', f)).read())
    parts = q.split('.')
    body = tree.body
    node = None
    for p in parts:
        node = None
        for n in body:
            if isinstance(n, (ast.FunctionDef, ast.ClassDef)) and n.name == p:
                if isinstance(n, ast.FunctionDef) and any('overload' in ast.unparse(d) for d in n.decorator_list): continue
                node = n
        if node is None: raise Untranslatable(f'{py}: not found')
        body = node.body
    if not isinstance(node, ast.FunctionDef): raise Untranslatable(f'{py}: not a function')
    return node


HEADER = """(* generated by tools/gen/kernels.py from /repo's working tree: one definition per translated function *)
From BS Require Import Prims BitsCore Mutators Search Stream KernelLib.
Open Scope Z_scope.
"""

BRIDGE_HEADER = """(* bridge obligations: the translated source equals the hand model, for all arguments *)
From BS Require Import Prims BitsCore Mutators Search Stream KernelLib.
From Gen Require Import GenKernels.
Open Scope Z_scope.
"""


def emit(repo, pid=None):
    """-> (GenKernels text, [(bridge name, bridge text)], info).  Kernels whose translation fails are reported in info['failed']
    (each is a broken obligation for the properties that list it)."""
    defs, bridges, failed, done = [], [], [], []
    for spec in KERNELS:
        if pid is not None and pid not in spec['props']: continue
        try:
            fn = find_function(repo, spec['py'])
            text = K(spec, fn).translate()
        except Untranslatable as e:
            failed.append((spec['name'], f'{spec["py"]}: {e}'))
            continue
        defs.append(f'(* {spec["py"]} *)\n{text}')
        bridges.append((spec['name'], bridge_text(spec)))
        done.append(spec['py'])
    return HEADER + '\n'.join(defs), bridges, {'failed': failed, 'translated': done}


def coq_params(spec):
    ctype = {'Z': 'Z', 'bool': 'bool', 'optZ': 'option Z', 'bits': 'bits', 'slice': 'pyslice'}
    ps, names = [], []
    if spec.get('mode', 'pure') in ('bits', 'stream'): ps.append('(v_self : bits)'); names.append('v_self')
    if spec.get('mode') == 'stream': ps.append('(v__pos : Z)'); names.append('v__pos')
    for n, t in spec['params']:
        ps.append(f'({V(n)} : {ctype[t]})'); names.append(V(n))
        if n in spec.get('identity', {}): ps.append(f'(same_{n} : bool)'); names.append(f'same_{n}')
    return ps, names


def bridge_text(spec):
    ps, names = coq_params(spec)
    hyps = ''.join(f'({h}) -> ' for h in spec.get('hyps', []))
    if spec.get('lsb0') is not None:      # a model that exists for one bit numbering only (the stream machine is msb0)
        return (BRIDGE_HEADER +
                f'Lemma bridge_{spec["name"]} : forall {" ".join(ps)}, {hyps}{spec["name"]} {spec["lsb0"]} {" ".join(names)} = {spec["model"]}.\n'
                f'Proof. bridge {spec["name"]}. Qed.\nPrint Assumptions bridge_{spec["name"]}.\n')
    return (BRIDGE_HEADER +
            f'Lemma bridge_{spec["name"]} : forall (lsb0 : bool) {" ".join(ps)}, {hyps}{spec["name"]} lsb0 {" ".join(names)} = {spec["model"]}.\n'
            f'Proof. bridge {spec["name"]}. Qed.\nPrint Assumptions bridge_{spec["name"]}.\n')


if __name__ == '__main__':
    import sys
    text, bridges, info = emit(sys.argv[1] if len(sys.argv) > 1 else '/repo')
    print(text)
    for n, b in bridges: print(b)
    print(info)


# ------------------------------------------------------------------------------------------------
# search: evaluate the translated function and the hand model on an exhaustive small domain, list the arguments where they differ
# ------------------------------------------------------------------------------------------------
DOM_BITS = ['', '1', '10', '110', '01101', '10110010', '110100101', '1000001101100111', '011011100000000110100101']
RET_EQB = {'self': 'rbits_eqb', 'bits': 'rbits_eqb', 'pairZZ': 'rzz_eqb', 'slice': 'rslice_eqb', 'tripleZoZ': 'rzoz_eqb'}
ST_EQB = {'unit': 'st_unit_eqb', 'Z': 'st_z_eqb'}

def zdom(n):
    if n <= 9: return list(range(-n - 2, n + 3))
    return sorted({-n - 1, -n, -n + 1, -9, -8, -1, 0, 1, 7, 8, 9, 15, 16, 17, n - 8, n - 1, n, n + 1})

def domain(spec, selfbits):
    """explicit argument lists for one content of self: [(python values, coq texts)] per parameter"""
    n = len(selfbits)
    doms = []
    for name, t in spec['params']:
        if t == 'Z': vals = zdom(n); txt = [f'({v})' for v in vals]
        elif t == 'optZ': vals = [None] + zdom(n); txt = ['None'] + [f'(Some ({v}))' for v in vals[1:]]
        elif t == 'bool': vals = [False, True]; txt = ['false', 'true']
        elif t == 'bits':
            vals = ['', '1', '01', '110', '10010110', '1100101001']; txt = [f'(of01 "{v}", false)' for v in vals]
            if name in spec.get('identity', {}):
                vals = [(v, False) for v in vals] + [(selfbits, True)]; txt = txt + [f'(of01 "{selfbits}", true)']
            else:
                vals = [(v, False) for v in vals]
        elif t == 'slice':
            rr = [None] + list(range(-8, 9))
            vals = [[a, b, c] for a in rr for b in rr for c in (None, 1, 2, 3, -1, -2, -3, 0)]
            o = lambda x: 'None' if x is None else f'(Some ({x}))'
            txt = [f'(mkslice {o(a)} {o(b)} {o(c)})' for a, b, c in vals]
        else: raise Untranslatable('no search domain for ' + t)
        if spec.get('mode', 'pure') == 'pure' and t == 'Z': vals = list(range(0, 8)); txt = [f'({v})' for v in vals]
        doms.append((vals, txt))
    return doms

def search_text(spec):
    """-> (Coq text, decode) where decode(content index, flat index) gives the python argument values"""
    stream = spec.get('mode') == 'stream'
    if (spec['ret'] not in RET_EQB) and not (stream and spec['ret'] in ST_EQB): raise Untranslatable('no result comparison for ' + spec['ret'])
    lines = ['From BS Require Import Prims CaseLib BitsCore Mutators Search Stream KernelLib.', 'From Coq Require Import String.', 'From GenK Require Import GenKernels.', 'Open Scope Z_scope.',
             'Fixpoint bad_idx {A} (f : A -> bool) (l : list A) (i : Z) : list Z := match l with [] => [] | x :: r => if f x then bad_idx f r (i + 1) else i :: bad_idx f r (i + 1) end.']
    table = []
    for ci, sb in enumerate(DOM_BITS if spec.get('mode', 'pure') != 'pure' else ['']):
        doms = domain(spec, sb)
        if stream:      # every valid position of the stream, as one more (first) argument
            pv = list(range(0, len(sb) + 1)) if len(sb) <= 9 else sorted({0, 1, 7, 8, 9, len(sb) // 2, len(sb) - 1, len(sb)})
            doms = [(pv, [f'({v})' for v in pv])] + doms
        # nested products: (a1, (a2, (a3, tt)))
        prod = 'tt :: nil'
        ctype = {'Z': 'Z', 'optZ': 'option Z', 'bool': 'bool', 'bits': '(bits * bool)', 'slice': 'pyslice'}
        plist = ([('_pos', 'Z')] if stream else []) + list(spec['params'])
        for (vals, txt), (name, t) in reversed(list(zip(doms, plist))):
            prod = f'list_prod ({" :: ".join(txt)} :: nil) ({prod})'
        pat, call_g, call_m = 'tt', [], spec['model']
        names = []
        for name, t in reversed(plist):
            pat = f'({V(name)}, {pat})'
        gargs = []
        binds = ''
        for name, t in spec['params']:
            if t == 'bits':
                binds += f"let same_{name} := snd {V(name)} in let {V(name)} := fst {V(name)} in "
                gargs.append(V(name))
                if name in spec.get('identity', {}): gargs.append(f'same_{name}')
            else:
                gargs.append(V(name))
        selfarg = 'v_self ' if spec.get('mode', 'pure') in ('bits', 'stream') else ''
        if stream: selfarg += 'v__pos '
        modes = ('false',) if spec.get('mode', 'pure') == 'pure' or spec.get('lsb0') == 'false' else ('false', 'true')
        eqb = ST_EQB[spec['ret']] if stream else RET_EQB[spec['ret']]
        for lsb0 in modes:
            lines.append(f"Definition d_{ci}_{lsb0} := let lsb0 := {lsb0} in let v_self := of01 \"{sb}\" in bad_idx (fun '{pat} => {binds}{eqb} "
                         f"({spec['name']} lsb0 {selfarg}{' '.join(gargs)}) ({spec['model']})) ({prod}) 0.")
            table.append((ci, lsb0 == 'true', doms))
    lines.append('Definition all_bad := [' + '; '.join(f'd_{ci}_{"true" if l else "false"}' for ci, l, _ in table) + '].')
    lines.append('Eval vm_compute in (map (firstn 6) all_bad).')
    def decode(k, idx):
        ci, lsb0, doms = table[k]
        sizes = [len(v) for v, _ in doms]
        vals = []
        rem = idx
        for j in range(len(sizes)):
            stride = 1
            for s in sizes[j + 1:]: stride *= s
            vals.append(doms[j][0][rem // stride]); rem %= stride
        names = ([('_pos')] if stream else []) + [p[0] for p in spec['params']]
        return {'self': DOM_BITS[ci], 'lsb0': lsb0, 'args': dict(zip(names, vals))}
    return '\n'.join(lines) + '\n', decode


def parse_search_output(out, decode, n_tables):
    m = re.search(r'=\s*\[(.*)\]\s*:\s*list \(list Z\)', out, re.S)
    if not m: return None
    body = m.group(1)
    groups = re.findall(r'\[([^\[\]]*)\]', body)
    res = []
    for k, g in enumerate(groups):
        for x in re.findall(r'-?\d+', g):
            res.append(decode(k, int(x)))
    return res
