"""Source pins: a digest of the (normalised) AST of every function of bitstring/*.py, and, per property, the functions its
hand-written model mirrors.  `pins.json` records the digests of the tree the models were last validated against.

The checks use it for *change-triggered escalation*: when a function a property's model mirrors no longer has the pinned
digest, the quick check additionally runs the thorough-tier generators (bounded) through the whole pipeline (implementation,
oracle, vm_compute correspondence), and the evidence names the changed functions.  A changed digest alone is never an alarm.

usage:  sources.py --update     rewrite /verif/pins.json from /repo (after a fix: commit in /repo)
        sources.py --diff       list the functions whose digest differs from the pin
"""
import ast, hashlib, json, os, re, sys

VERIF = os.path.dirname(os.path.dirname(os.path.dirname(os.path.abspath(__file__))))
PINS = os.path.join(VERIF, 'pins.json')


class _Strip(ast.NodeTransformer):
    """drop what cannot change behaviour: docstrings, annotations, decorators named overload"""
    def visit_FunctionDef(self, node):
        self.generic_visit(node)
        node.returns = None
        for a in node.args.posonlyargs + node.args.args + node.args.kwonlyargs:
            a.annotation = None
        if node.args.vararg: node.args.vararg.annotation = None
        if node.args.kwarg: node.args.kwarg.annotation = None
        if node.body and isinstance(node.body[0], ast.Expr) and isinstance(getattr(node.body[0], 'value', None), ast.Constant) \
                and isinstance(node.body[0].value.value, str):
            node.body = node.body[1:] or [ast.Pass()]
        return node

    def visit_AnnAssign(self, node):
        self.generic_visit(node)
        if node.value is None:
            return ast.Pass()
        return ast.Assign(targets=[node.target], value=node.value)


def _is_overload(fn):
    return any((isinstance(d, ast.Name) and d.id == 'overload') or (isinstance(d, ast.Attribute) and d.attr == 'overload') for d in fn.decorator_list)


def digests(repo):
    out = {}
    d = os.path.join(repo, 'bitstring')
    for f in sorted(os.listdir(d)):
        if not f.endswith('.py'): continue
        tree = ast.parse(open(os.path.join(d, f)).read())
        def add(q, fn):
            if _is_overload(fn): return
            fn = _Strip().visit(fn)
            s = ast.dump(fn, annotate_fields=False, include_attributes=False)
            out[q] = hashlib.sha256(s.encode()).hexdigest()[:16]
        for n in tree.body:
            if isinstance(n, ast.FunctionDef): add(f'{f}:{n.name}', n)
            elif isinstance(n, ast.ClassDef):
                for m in n.body:
                    if isinstance(m, ast.FunctionDef): add(f'{f}:{n.name}.{m.name}', m)
        # module level statements (tables, constants, registrations) as one unit
        rest = [n for n in tree.body if not isinstance(n, (ast.FunctionDef, ast.ClassDef, ast.Import, ast.ImportFrom))]
        out[f'{f}:<module>'] = hashlib.sha256(''.join(ast.dump(_Strip().visit(n), annotate_fields=False) for n in rest).encode()).hexdigest()[:16]
    return out


# functions mirrored by the models beyond those the property anchors name (model file headers)
EXTRA = {
    'C01': ['bitstore.py:BitStore.getindex_msb0', 'bitstore.py:BitStore.getslice_withstep_msb0', 'bitstore.py:BitStore.getslice_msb0', 'bits.py:Bits._imul', 'bits.py:Bits.__rmul__'],
    'C02': ['bits.py:Bits._setuint', 'bits.py:Bits._setint', 'bits.py:Bits._getuint', 'bits.py:Bits._getint', 'bits.py:Bits._setuintbe', 'bits.py:Bits._setintbe', 'bits.py:Bits._setuintle',
            'bits.py:Bits._setintle', 'bits.py:Bits._getuintle', 'bits.py:Bits._getintle', 'bits.py:Bits._getuintbe', 'bits.py:Bits._getintbe', 'bits.py:Bits._setfloatbe', 'bits.py:Bits._getfloatbe',
            'bits.py:Bits._setfloatle', 'bits.py:Bits._getfloatle', 'bits.py:Bits._sethex', 'bits.py:Bits._gethex', 'bits.py:Bits._setbin_safe', 'bits.py:Bits._getbin', 'bits.py:Bits._setoct', 'bits.py:Bits._getoct',
            'bits.py:Bits._setbytes', 'bits.py:Bits._getbytes', 'bits.py:Bits._setbool', 'bits.py:Bits._getbool', 'bitstore.py:BitStore.slice_to_uint', 'bitstore.py:BitStore.slice_to_int',
            'bitstore.py:BitStore.slice_to_hex', 'bitstore.py:BitStore.slice_to_bin', 'bitstore.py:BitStore.slice_to_oct', 'dtypes.py:<module>', 'dtypes.py:Dtype.__new__', 'dtypes.py:Dtype._new_from_token', 'dtypes.py:Dtype._create'],
    'C03': ['bitstore.py:BitStore.setitem_msb0', 'bitstore.py:BitStore.delitem_msb0', 'bitstore.py:BitStore.invert_msb0', 'bitstore.py:BitStore.reverse', 'bitarray_.py:BitArray.rol', 'bitarray_.py:BitArray.ror',
            'bitarray_.py:BitArray.replace', 'bitarray_.py:BitArray.clear', 'bits.py:Bits._invert', 'bits.py:Bits._invert_all', 'bits.py:Bits._clear', 'bits.py:Bits._validate_slice', 'bits.py:Bits._imul'],
    'C04': ['bitstore_helpers.py:str_to_bitstore', 'bits.py:Bits._setauto', 'bits.py:Bits._create_from_bitstype', 'bits.py:Bits.__new__', 'methods.py:pack', 'bits.py:Bits._setbitarray', 'bitstore.py:BitStore.frombytes',
            'bitstore.py:BitStore.frombuffer', 'bitarray_.py:BitArray.__new__', 'bitarray_.py:BitArray.__setattr__'],
    'C05': ['utils.py:parse_name_length_token', 'utils.py:parse_single_token', 'utils.py:parse_single_struct_token', 'utils.py:tidy_input_string', 'bits.py:Bits.unpack', 'bits.py:Bits._readtoken', 'utils.py:<module>'],
    'C06': ['bitstream.py:ConstBitStream.readto', 'bitstream.py:ConstBitStream._setbytepos', 'bitstream.py:ConstBitStream._getbitpos', 'bitstream.py:ConstBitStream.__init__', 'bitstream.py:BitStream.__init__',
            'bitstream.py:ConstBitStream.rfind', 'bitstream.py:BitStream.__imul__', 'bitstream.py:BitStream.clear', 'bitstream.py:BitStream.__setattr__', 'bits.py:Bits._readse', 'bits.py:Bits._readsie', 'dtypes.py:Dtype.__new__', 'dtypes.py:Dtype._create'],
    'C07': ['bitarray_.py:BitArray.replace', 'bits.py:Bits._validate_slice'],
    'C08': ['bitstore.py:BitStore.__init__', 'bitstore.py:BitStore.frombytes', 'bits.py:Bits._setauto_no_length_or_offset', 'bits.py:Bits.tobitarray', 'bits.py:Bits.__hash__', 'bitarray_.py:BitArray.__init__'],
    'C09': ['bitstore_helpers.py:str_to_bitstore', 'utils.py:tokenparser', 'utils.py:preprocess_tokens', 'dtypes.py:Dtype.__new__', 'dtypes.py:Dtype._new_from_token', 'dtypes.py:Dtype._create', 'methods.py:pack',
            'bitstring_options.py:Options.lsb0', 'bitstring_options.py:Options.mxfp_overflow', 'bitstring_options.py:Options.bytealigned', 'bitstring_options.py:<module>'],
    'C10': ['bits.py:Bits._getse', 'bits.py:Bits._getuie', 'bits.py:Bits._getsie', 'bits.py:Bits._setue', 'bits.py:Bits._setse', 'bits.py:Bits._setuie', 'bits.py:Bits._setsie', 'bitstream.py:ConstBitStream.read', 'bitstream.py:ConstBitStream.readlist', 'bits.py:Bits._readlist'],
    'C11': ['mxfp.py:MXFPFormat.__init__', 'mxfp.py:MXFPFormat.createLUT_for_int_to_float', 'mxfp.py:MXFPFormat.createLUT_for_float16_to_mxfp', 'mxfp.py:MXFPFormat.slow_float_to_int', 'mxfp.py:<module>', 'fp8.py:<module>',
            'fp8.py:Binary8Format.__init__', 'fp8.py:Binary8Format.createLUT_for_int8_to_float', 'fp8.py:Binary8Format.createLUT_for_binary8_fmt', 'bits.py:Bits._gete8m0mxfp', 'bits.py:Bits._setmxint', 'bits.py:Bits._sete8m0mxfp',
            'bits.py:Bits._setbfloatbe', 'bits.py:Bits._setbfloatle', 'bits.py:Bits._getp3binary', 'bitstore_helpers.py:p3binary2bitstore', 'bitstore_helpers.py:e4m3mxfp2bitstore', 'bitstore_helpers.py:e5m2mxfp2bitstore',
            'bitstore_helpers.py:e3m2mxfp2bitstore', 'bitstore_helpers.py:e2m3mxfp2bitstore', 'bitstore_helpers.py:e2m1mxfp2bitstore', 'bitstore_helpers.py:<module>', 'luts.py:<module>'],
    'C12': ['bitstore.py:BitStore.getindex_lsb0', 'bitstore.py:BitStore.getslice_lsb0', 'bitstore.py:BitStore.getslice_withstep_lsb0', 'bitstore.py:BitStore.setitem_lsb0', 'bitstore.py:BitStore.delitem_lsb0',
            'bitstore.py:BitStore.invert_lsb0', 'bitarray_.py:BitArray._append_msb0', 'bitarray_.py:BitArray._ror_msb0', 'bitarray_.py:BitArray._rol_msb0', 'bitstring_options.py:Options.set_lsb0', 'bits.py:Bits.__hash__',
            'bits.py:Bits.__str__', 'bits.py:Bits._absolute_slice', 'bits.py:Bits._slice', 'bitarray_.py:BitArray.set', 'bitarray_.py:BitArray.overwrite', 'bitarray_.py:BitArray.insert', 'bitarray_.py:BitArray.byteswap'],
    'C13': ['bitstore.py:BitStore.tobytes', 'bits.py:Bits.tobytes'],
    'C14': ['array_.py:Array.__init__', 'array_.py:Array.equals', 'array_.py:Array.__copy__', 'array_.py:Array._apply_op_to_all_elements_inplace', 'array_.py:Array._apply_bitwise_op_to_all_elements',
            'array_.py:Array._apply_bitwise_op_to_all_elements_inplace', 'array_.py:Array._set_dtype', 'array_.py:Array.data', 'array_.py:Array.byteswap', 'array_.py:Array.astype'],
    'C15': ['bits.py:Bits._setuintbe', 'bits.py:Bits._setintbe', 'bits.py:Bits._setuintle', 'bits.py:Bits._setintle', 'bits.py:Bits._initialise', 'bits.py:Bits._setauto', 'bits.py:Bits._sethex', 'bits.py:Bits._setoct',
            'bits.py:Bits._setbin_safe', 'bits.py:Bits._setbytes', 'bits.py:Bits._setbool', 'array_.py:Array.__setitem__', 'array_.py:Array._create_element', 'array_.py:Array.__init__', 'array_.py:Array._set_dtype',
            'dtypes.py:Dtype.__new__', 'dtypes.py:Dtype._create', 'dtypes.py:Dtype._new_from_token', 'dtypes.py:<module>', 'bitstore_helpers.py:hex2bitstore', 'bitstore_helpers.py:oct2bitstore', 'bitstore_helpers.py:bin2bitstore'],
    'C16': ['bits.py:Bits._ilshift', 'bits.py:Bits._irshift', 'bits.py:Bits._truncateleft', 'bits.py:Bits._truncateright', 'bits.py:Bits._invert_all', 'bitstore.py:BitStore.__invert__', 'bits.py:Bits.__rand__',
            'bits.py:Bits.__ror__', 'bits.py:Bits.__rxor__', 'bits.py:Bits._absolute_slice', 'bitstore.py:BitStore.getslice_msb0', 'bitstore.py:BitStore.getslice_lsb0', 'bitstore.py:BitStore.__iadd__', 'bits.py:Bits._addright'],
    'C17': ['bitstore.py:BitStore.frombuffer', 'bitstore.py:BitStore.getslice_msb0', 'bits.py:Bits._setbitarray'],
    'C18': ['utils.py:<module>', 'array_.py:Array.__init__', 'array_.py:Array._set_dtype', 'bits.py:Bits._getuintbe', 'bits.py:Bits._getintbe', 'dtypes.py:<module>', 'methods.py:pack', 'bits.py:Bits.unpack',
            'bitstore_helpers.py:intle2bitstore', 'bitstore_helpers.py:int2bitstore', 'bitstore_helpers.py:float2bitstore'],
    'C19': ['bits.py:Bits._getbin', 'bits.py:Bits._gethex', 'bits.py:Bits._absolute_slice', 'bits.py:<module>', 'bitstream.py:BitStream.__repr__'],
}


def resolve_property_functions(repo, props_file):
    ds = digests(repo)
    byname = {}
    for q in ds:
        byname.setdefault(q.split(':')[1].split('.')[-1], []).append(q)
    out = {}
    for line in open(props_file):
        d = json.loads(line)
        files = {os.path.basename(f) for f in d['anchors']['files']}
        names = set()
        for m in d['anchors']['mechanism']:
            for w in re.findall(r'[A-Za-z_][A-Za-z_0-9]*', m['name']):
                if w in byname: names.add(w)
        fs = {q for w in names for q in byname[w] if q.split(':')[0] in files}
        fs |= {q for q in EXTRA.get(d['id'], []) if q in ds}
        missing = [q for q in EXTRA.get(d['id'], []) if q not in ds]
        if missing: print(f'note: {d["id"]} EXTRA names not found: {missing}', file=sys.stderr)
        out[d['id']] = sorted(fs)
    out['C20'] = sorted(ds)           # the sweep is over the whole public API
    return ds, out


def load_pins():
    return json.load(open(PINS))


def changed_functions(repo, pid):
    """functions the model of `pid` mirrors whose source no longer has the pinned digest (or that have disappeared / appeared)"""
    pins = load_pins()
    now = digests(repo)
    fs = pins['by_property'].get(pid, [])
    ch = [q for q in fs if now.get(q) != pins['digests'].get(q)]
    if pid == 'C20':
        ch += [q for q in now if q not in pins['digests']]
    return ch


if __name__ == '__main__':
    # the digests are of ast.dump(), whose text differs between Python versions: always run under the interpreter the checks use
    if os.path.exists('/venv/bin/python') and os.path.realpath(sys.executable) != os.path.realpath('/venv/bin/python'):
        os.execv('/venv/bin/python', ['/venv/bin/python', os.path.abspath(__file__)] + sys.argv[1:])
    repo = '/repo'
    if '--update' in sys.argv:
        ds, byp = resolve_property_functions(repo, os.path.join(VERIF, 'properties.jsonl'))
        json.dump({'digests': ds, 'by_property': byp}, open(PINS, 'w'), indent=0, sort_keys=True)
        print(f'pinned {len(ds)} functions; per property: ' + ' '.join(f'{k}:{len(v)}' for k, v in sorted(byp.items())))
    else:
        pins = load_pins(); now = digests(repo)
        for q in sorted(set(now) | set(pins['digests'])):
            if now.get(q) != pins['digests'].get(q): print('changed:', q)
