"""Static call graph of the bitstring package (fail-closed, over-approximating), used for C09:
for every functools.lru_cache'd function, which options can be read anywhere below it, and which
options are part of its cache key.  Emits GenCaches.v."""
import ast, os, sys

OPTIONS = ['lsb0', 'bytealigned', 'mxfp_overflow', 'no_color']
DYNAMIC_ATTRS = {'set_fn', '_set_fn', 'get_fn', '_get_fn', 'read_fn', '_read_fn', 'unscaled_set_fn', 'unscaled_get_fn', 'unscaled_read_fn'}

def load(repo):
    mods = {}
    d = os.path.join(repo, 'bitstring')
    for fn in sorted(os.listdir(d)):
        if fn.endswith('.py') and fn != 'luts.py':
            mods[fn[:-3]] = ast.parse(open(os.path.join(d, fn)).read(), fn)
    return mods

def functions(mods):
    """qualified name -> ast.FunctionDef ; also index by bare name"""
    out = {}
    for m, tree in mods.items():
        for node in tree.body:
            if isinstance(node, (ast.FunctionDef,)):
                out[f'{m}.{node.name}'] = node
            elif isinstance(node, ast.ClassDef):
                for sub in node.body:
                    if isinstance(sub, ast.FunctionDef):
                        out[f'{m}.{node.name}.{sub.name}'] = sub
    return out

def is_lru(node):
    for d in node.decorator_list:
        s = ast.unparse(d)
        if 'lru_cache' in s: return True
    return False

def option_reads(node):
    reads = set()
    for n in ast.walk(node):
        if isinstance(n, ast.Attribute) and n.attr.lstrip('_') in OPTIONS:
            base = ast.unparse(n.value)
            if base in ('bitstring.options', 'options', 'self') and (base != 'self'):
                reads.add(n.attr.lstrip('_'))
        # the module-level aliases bitstring.lsb0 / bitstring.bytealigned
        if isinstance(n, ast.Attribute) and ast.unparse(n) in ('bitstring.lsb0', 'bitstring.bytealigned'):
            reads.add(n.attr)
    return reads

import io, re as _re
BUILTIN_METHODS = set(dir(str)) | set(dir(list)) | set(dir(dict)) | set(dir(bytes)) | set(dir(bytearray)) | set(dir(set)) | set(dir(tuple)) | \
    set(dir(_re.compile('x'))) | set(dir(_re.match('x', 'x'))) | set(dir(io.BytesIO)) | set(dir(int)) | set(dir(float)) | {'seek', 'tell', 'fileno', 'size'}

def callees(node, has_pkg_base=True):
    """(set of (kind, name)), dynamic?  kind: 'func' = module-level function or class; 'method' = method of some class"""
    names = set(); dynamic = False
    for n in ast.walk(node):
        if isinstance(n, ast.Call):
            f = n.func
            if isinstance(f, ast.Name): names.add(('func', f.id))
            elif isinstance(f, ast.Attribute):
                base = ast.unparse(f.value)
                if f.attr in DYNAMIC_ATTRS: dynamic = True
                elif base == 'super()' and not has_pkg_base:
                    pass      # object.__new__ / object.__setattr__ ...
                elif base == 'self' or base.split('.')[-1][:1].isupper() or base in ('cls', 'super()'):
                    names.add(('method', f.attr))
                elif base.startswith('bitstring') or base in ('utils', 'bitstore_helpers', 'dtype_register'):
                    names.add(('func', f.attr)); names.add(('method', f.attr))
                elif f.attr not in BUILTIN_METHODS:
                    names.add(('method', f.attr))
        # (a mere reference to x.set_fn stores the function; only a call executes it)
        # properties: reading x.len / x.bin etc. on a bitstring calls a getter
        if isinstance(n, ast.Attribute) and isinstance(n.ctx, ast.Load) and n.attr in ('len', 'length', 'pos', 'bitpos', 'bytepos'):
            names.add(('method', '_getlength' if n.attr in ('len', 'length') else '_getbitpos'))
    return names, dynamic

def dtype_functions(mods):
    """every function referenced from the dtype_definitions list (targets of dynamic set_fn/get_fn/read_fn dispatch)"""
    out = set()
    for node in ast.walk(mods['__init__']):
        if isinstance(node, ast.Assign) and any(getattr(t, 'id', None) == 'dtype_definitions' for t in node.targets):
            for n in ast.walk(node.value):
                if isinstance(n, ast.Attribute) and isinstance(n.value, ast.Name) and n.value.id == 'Bits':
                    out.add(n.attr)
    if not out: raise ValueError('dtype_definitions not found (fail-closed)')
    return out

def analyse(repo):
    mods = load(repo)
    funcs = functions(mods)
    by_func, by_method = {}, {}
    for q, node in funcs.items():
        parts = q.split('.')
        (by_func if len(parts) == 2 else by_method).setdefault(parts[-1], []).append(q)
    classes = {}
    for m, tree in mods.items():
        for node in tree.body:
            if isinstance(node, ast.ClassDef):
                classes[node.name] = [q for q in funcs if q.startswith(f'{m}.{node.name}.') and q.split('.')[-1] in ('__init__', '__new__')]
    dyn = dtype_functions(mods)
    direct = {q: option_reads(node) for q, node in funcs.items()}
    calls = {}
    pkg_classes = set(classes)
    class_bases = {}
    for m, tree in mods.items():
        for node in tree.body:
            if isinstance(node, ast.ClassDef):
                class_bases[f'{m}.{node.name}'] = any(ast.unparse(b).split('.')[-1] in pkg_classes for b in node.bases)
    for q, node in funcs.items():
        parts = q.split('.')
        names, dynamic = callees(node, class_bases.get('.'.join(parts[:2]), True) if len(parts) == 3 else True)
        targets = set()
        for kind, nm in names:
            if kind == 'func':
                targets |= set(by_func.get(nm, [])); targets |= set(classes.get(nm, []))
            else:
                targets |= set(by_method.get(nm, []))
        if dynamic:
            for nm in dyn: targets |= set(by_method.get(nm, []))
        calls[q] = targets
    def closure(q):
        seen, stack = set(), [q]
        while stack:
            x = stack.pop()
            if x in seen: continue
            seen.add(x); stack.extend(calls.get(x, ()))
        return seen
    result = []
    for q, node in funcs.items():
        if not is_lru(node): continue
        reach = closure(q)
        reads = set().union(*(direct[x] for x in reach))
        params = [a.arg for a in node.args.args + node.args.kwonlyargs]
        key_opts = [p for p in params if p in OPTIONS]
        # every call site must pass bitstring.options.<p> for a key option parameter
        for p in key_opts:
            idx = params.index(p)
            for q2, n2 in funcs.items():
                for c in ast.walk(n2):
                    if isinstance(c, ast.Call) and ((isinstance(c.func, ast.Name) and c.func.id == node.name) or (isinstance(c.func, ast.Attribute) and c.func.attr == node.name)):
                        if len(c.args) <= idx or ast.unparse(c.args[idx]) != f'bitstring.options.{p}':
                            raise ValueError(f'{q}: call site in {q2} does not pass bitstring.options.{p} (fail-closed)')
        typed = any('typed=True' in ast.unparse(d) for d in node.decorator_list)
        result.append({'name': q, 'params': params, 'key_options': key_opts, 'reads': sorted(reads), 'typed': typed,
                       'reach': len(reach)})
    if not result: raise ValueError('no lru_cache found (fail-closed)')
    return result

def emit(repo):
    res = analyse(repo)
    lines = ['(* generated by tools/gen/callgraph.py from the working tree: lru_cache sites, key options, options read below *)',
             'From Coq Require Import List String. Import ListNotations. Open Scope string_scope.',
             'Definition cached_functions : list (string * list string * list string) := [']
    lines.append(';\n'.join(f'  ("{r["name"]}", [{"; ".join(chr(34) + k + chr(34) for k in r["key_options"])}], [{"; ".join(chr(34) + k + chr(34) for k in r["reads"])}])' for r in res))
    lines.append('].')
    return '\n'.join(lines) + '\n', res

if __name__ == '__main__':
    text, res = emit(sys.argv[1] if len(sys.argv) > 1 else '/repo')
    print(text)
    for r in res: print(r, file=sys.stderr)
