#!/bin/bash
# usage: tools/try_seeded.sh NAME [PROP] [SEED]
# Apply the seeded change /verif/seeded/NAME/patch.diff in a private scratch worktree of /repo (never in /repo itself), run PROP's quick check
# (default: the property the change was written for) against it with evidence and replays redirected to /tmp, print the verdict lines, remove the worktree.
n=$1; p=${2:-${n:0:3}}; seed=${3:-0}; tier=${TIER:-quick}
wt=/tmp/wt/try_$$; ev=/tmp/ev_try_$$
git -C /repo worktree add --detach $wt HEAD -q || exit 3
git -C $wt apply /verif/seeded/$n/patch.diff || { git -C /repo worktree remove --force $wt; exit 3; }
cd /verif
VERIF_SEED=$seed VERIF_REPO=$wt VERIF_EVIDENCE_DIR=$ev VERIF_REPLAYS_DIR=$ev timeout 3000 ./check $p --tier $tier 2>&1 | grep -v "^KNOWN" | tail -3 | cut -c1-700
git -C /repo worktree remove --force $wt; rm -rf $ev
