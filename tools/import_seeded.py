#!/venv/bin/python
"""Confirm a seeded change delivered by a sub-agent and keep it under /verif/seeded/<ID><a|b>/.

usage: import_seeded.py C10 [A B]      reads /tmp/mut/C10/{A,B}.diff, demo_{A,B}.py, meta.json
Confirmation (in a scratch worktree of /repo under /tmp, removed afterwards): the patch applies to
HEAD, the library imports, the demonstration exits 0 on the clean tree and 1 on the changed tree,
and the pinned test-suite still passes (836 passed).
"""
import json, os, shutil, subprocess, sys

VERIF = os.path.dirname(os.path.dirname(os.path.abspath(__file__)))


def sh(cmd, **kw):
    return subprocess.run(cmd, shell=True, capture_output=True, text=True, **kw)


def main():
    args = sys.argv[1:]
    srcroot, suffix = '/tmp/mut', 'ab'
    if '--src' in args:
        i = args.index('--src'); srcroot = args[i + 1]; del args[i:i + 2]
    if '--suffix' in args:
        i = args.index('--suffix'); suffix = args[i + 1]; del args[i:i + 2]
    pid = args[0]
    which = args[1:] or ['A', 'B']
    src = f'{srcroot}/{pid}'
    meta_all = json.load(open(f'{src}/meta.json'))
    wt = f'/tmp/wt/verify_{pid}'
    sh(f'git -C /repo worktree remove --force {wt}')
    r = sh(f'git -C /repo worktree add --detach {wt} HEAD -q')
    assert r.returncode == 0, r.stderr
    head = sh('git -C /repo rev-parse --short HEAD').stdout.strip()
    try:
        for w in which:
            name = f'{pid}{suffix["AB".index(w)]}'
            diff, demo = f'{src}/{w}.diff', f'{src}/demo_{w}.py'
            env = f'PYTHONPATH={wt} PYTHONHASHSEED=0'
            clean = sh(f'cd {src} && {env} timeout 600 /venv/bin/python {demo}')
            r = sh(f'git -C {wt} apply {diff}')
            if r.returncode != 0:
                print(f'{name}: REJECTED patch does not apply: {r.stderr.strip()[:200]}'); continue
            changed = sh(f'cd {src} && {env} timeout 600 /venv/bin/python {demo}')
            tests = sh(f'cd {wt} && {env} timeout 1500 /venv/bin/python -m pytest -q -p no:cacheprovider --timeout=900 2>&1 | tail -3')
            sh(f'git -C {wt} checkout -- . ; rm -f {wt}/tests/temp_*')
            ok_tests = '836 passed' in tests.stdout and 'failed' not in tests.stdout and 'error' not in tests.stdout.lower()
            verdict = clean.returncode == 0 and changed.returncode == 1 and ok_tests
            print(f'{name}: clean_rc={clean.returncode} changed_rc={changed.returncode} tests="{tests.stdout.strip().splitlines()[-1] if tests.stdout.strip() else tests.stderr[-200:]}" -> {"CONFIRMED" if verdict else "REJECTED"}')
            if not verdict:
                continue
            out = f'{VERIF}/seeded/{name}'
            os.makedirs(out, exist_ok=True)
            shutil.copy(diff, f'{out}/patch.diff')
            shutil.copy(demo, f'{out}/demo.py')
            m = dict(meta_all.get(w, {}))
            m.update({'property': pid, 'demo': 'demo.py', 'base_commit': head,
                      'origin': 'fresh sub-agent given only the property text and a scratch worktree',
                      'confirmed': {'tests': tests.stdout.strip().splitlines()[-1], 'demo_clean_rc': 0, 'demo_changed_rc': 1,
                                    'demo_output_changed_tree': changed.stdout[-1500:]}})
            json.dump(m, open(f'{out}/meta.json', 'w'), indent=1)
    finally:
        sh(f'git -C /repo worktree remove --force {wt}')


if __name__ == '__main__':
    main()
